/-
  The invariant is preserved by `start t close s`, `start t it_close i` and the COLLECT_SEND step.
  `GC()` never spins (`Resp.hang` is unreachable): the stop test of `collectDead` and the re-check
  `hasCollectableSnapshot` are complementary.
-/
import NitroVerif.Lemmas.MvccConcStepC

namespace NitroVerif.MvccConc
open NitroVerif

/-- characterisation of the two generated frontier tests: they are complementary -/
theorem collectableHead_eq_not_gcStop (sn g : Nat) : Gen.collectableHead sn g = !Gen.gcStop sn g := by
  unfold Gen.collectableHead Gen.gcStop
  by_cases h : sn = g + 1 <;> simp [h]

theorem recheck_false_of_not_collectable {σ : State} (h : collectable σ = none) : recheck σ = false := by
  unfold collectable at h
  unfold recheck
  cases hr : retiredHead σ.snaps with
  | none => rfl
  | some s =>
    rw [hr] at h; simp only at h ⊢
    rw [collectableHead_eq_not_gcStop]
    split at h
    · rename_i hg; simp [hg]
    · simp at h

theorem inv_startClose {σ : State} {t s : Nat} (h : Inv σ) (ht : σ.threads[t]? = some .idle) :
    Inv (startClose σ t s).1 := by
  unfold startClose
  cases hs : findSnap s σ.snaps with
  | none => exact h
  | some x =>
    simp only
    split
    · have ⟨hxm, hxs⟩ := findSnap_some hs
      refine inv_closeRef (inv_updSnap h (fun _ => rfl) (fun _ => rfl) (fun _ _ _ => Or.inl rfl) ?_) ht
        (by simp [Pc.plain]) ?_
      · intro y hy _ hne
        exact h.store.rc_dead y hy hne
      · intro y hy hys
        obtain ⟨z, hz, rfl⟩ := mem_updSnap hy
        by_cases hzs : z.sn = s
        · simp only [hzs, if_true]
          rw [snap_unique h.store.snaps_inc hz hxm (by omega)]
        · simp only [hzs, if_false] at hys
    · exact h

theorem inv_itClose {σ : State} {t i : Nat} (h : Inv σ) (ht : σ.threads[t]? = some .idle) :
    Inv (itClose σ t i).1 := by
  unfold itClose
  cases hf : findIter (t, i) σ.iters with
  | none => exact h
  | some it =>
    simp only
    cases hs : findSnap it.sn σ.snaps with
    | none => exact h
    | some x =>
      have ⟨hxm, hxs⟩ := findSnap_some hs
      refine inv_closeRef h ht (by simp [Pc.plain]) ?_
      intro y hy hys
      rw [snap_unique h.store.snaps_inc hy hxm (by omega)]

/-! ### COLLECT_SEND -/

theorem finishClose_setPc_idle (σ : State) (t : Nat) (after : Option Nat) :
    finishClose (setPc σ t .idle) t after = finishClose σ t after := by
  unfold finishClose
  cases after with
  | none => simp [setPc, List.set_set]
  | some i =>
    simp only [setPc_iters]
    cases findIter (t, i) σ.iters with
    | none => simp [setPc, List.set_set]
    | some it => simp [setPc, release, cleanup, List.set_set]

theorem collectLoop_setPc_idle (σ : State) (t : Nat) (after : Option Nat) :
    (collectLoop (setPc σ t .idle) t after).1 = (collectLoop σ t after).1 := by
  unfold collectLoop
  have hc : collectable (setPc σ t .idle) = collectable σ := rfl
  have hr : recheck (setPc σ t .idle) = recheck σ := rfl
  rw [hc, hr]
  cases hcs : collectable σ with
  | some s => simp [setPc, List.set_set]
  | none =>
    simp only [recheck_false_of_not_collectable hcs]
    have := finishClose_setPc_idle { σ with gcFlag := false } t after
    simp only [Bool.false_eq_true, if_false]
    exact congrArg Prod.fst this

theorem garbS_collect {snaps : List Snap} (hinc : snaps.Pairwise (fun a b => a.sn < b.sn)) {x : Snap}
    (hx : x ∈ snaps) (hst : x.st ≠ .collected) (n : Nat) :
    (garbS (updSnap x.sn (fun y => { y with st := .collected }) snaps)).count n + x.gclist.count n =
      (garbS snaps).count n := by
  induction snaps with
  | nil => simp at hx
  | cons y ys ih =>
    have hp := List.pairwise_cons.mp hinc
    unfold garbS updSnap at ih ⊢
    simp only [List.map_cons, List.flatMap_cons, List.count_append]
    rcases List.mem_cons.mp hx with rfl | hx'
    · -- the head is the collected one; nothing else has this sn
      have hrest : List.map (fun z => if z.sn = x.sn then { z with st := Mvcc.SnapSt.collected } else z) ys = ys := by
        have : List.map (fun z => if z.sn = x.sn then { z with st := Mvcc.SnapSt.collected } else z) ys =
            List.map id ys := by
          apply List.map_congr_left
          intro z hz
          have := hp.1 z hz
          have : z.sn ≠ x.sn := by omega
          simp [this]
        rw [this, List.map_id]
      simp only [if_true, hrest]
      simp [snapGarb, hst]
      omega
    · have hne : y.sn ≠ x.sn := by have := hp.1 x hx'; omega
      simp only [hne, if_false]
      have := ih hp.2 hx'
      dsimp only at this
      omega

theorem inv_stepCollect {σ : State} {t sn : Nat} {after : Option Nat} (h : Inv σ)
    (ht : σ.threads[t]? = some (.collectSend sn after)) : Inv (stepCollect σ t sn after).1 := by
  unfold stepCollect
  cases hs : findSnap sn σ.snaps with
  | none => exact h
  | some x =>
    simp only
    have ⟨hxm, hxs⟩ := findSnap_some hs
    obtain ⟨hflag, y, hym, hysn, hyst⟩ := h.pc.coll t sn after ht
    have hyx : y = x := snap_unique h.store.snaps_inc hym hxm (by omega)
    subst hyx
    subst hxs
    rw [← collectLoop_setPc_idle]
    have hidle : Pc.plain .idle := by simp [Pc.plain]
    have hcs_own : pcOwn (Pc.collectSend y.sn after) = [] := rfl
    have hnp0 : ∀ n k v b, Pc.collectSend y.sn after ≠ Pc.putInsert n k v b := by intros; simp
    -- nobody else collects
    have hnc : NoCollector (σ.threads.set t .idle) := by
      intro t' sn' a' hg
      rcases get_set_cases hg with ⟨_, he⟩ | ⟨hne, hg'⟩
      · cases he
      · exact hne (h.pc.excl t t' _ _ _ _ ht hg')
    have hpcplain := h.pc.set_plain t hidle
    refine inv_collectLoop (pc0 := .idle) ?_ hnc (get_set_self ht) hidle
    refine ⟨?_, ?_, ?_, ?_, h.tok.set_tok_same ht rfl, ?_⟩
    · -- store
      have hst0 := h.store.set_not_put t hidle.not_put
      exact ⟨hst0.sorted, hst0.chains, hst0.cnt, hst0.cur_pos, hst0.ids, hst0.unl, hst0.id_lt,
        updSnap_pairwise hst0.snaps_inc _ _ (fun _ => rfl), updSnap_sn_lt hst0.snaps_lt _ _ (fun _ => rfl), by
          intro z hz hne
          obtain ⟨w, hw, rfl⟩ := mem_updSnap hz
          by_cases hws : w.sn = y.sn
          · simp only [hws, if_true]
            rw [snap_unique h.store.snaps_inc hw hym hws]
            exact h.store.rc_dead y hym (by rw [hyst]; simp)
          · simp only [hws, if_false] at hne ⊢
            exact h.store.rc_dead w hw hne⟩
    · exact hpcplain.of_no_collector hnc
    · -- garb
      show GarbInv σ.writers (updSnap y.sn (fun z => { z with st := .collected }) σ.snaps)
        (σ.gcJobs ++ [⟨[], y.gclist, .recv⟩]) σ.store σ.currSn
      have hg : ∀ n, garbC σ.writers (updSnap y.sn (fun z => { z with st := .collected }) σ.snaps)
          (σ.gcJobs ++ [⟨[], y.gclist, .recv⟩]) n = garbC σ.writers σ.snaps σ.gcJobs n := by
        intro n
        unfold garbC
        rw [garbJ_append]
        have := garbS_collect h.store.snaps_inc hym (by rw [hyst]; simp) n
        simp only; omega
      refine ⟨fun n => by rw [hg]; exact h.garb.le n, fun n hn => h.garb.linked n (by rw [← hg]; exact hn), ?_⟩
      intro j hj hpc
      rcases List.mem_append.mp hj with hj | hj
      · exact h.garb.jobs j hj hpc
      · simp at hj; subst hj; simp at hpc
    · -- own
      refine h.own.congr ?_ (reserved_set_iff ht hnp0 hidle.not_put)
      intro n
      show ownC σ.store (σ.threads.set t .idle) (σ.gcJobs ++ [⟨[], y.gclist, .recv⟩]) σ.sess σ.freeSeq σ.frJobs n = _
      rw [← ownC_set_same (pc' := .idle) ht (by rw [hcs_own]; rfl) n]
      unfold ownC
      rw [gcOwned_append]
      simp [gcOwn]
    · -- prot
      have hp := h.prot.set_plain (pc' := .idle) ht (by intros; simp) hidle.not_phys hidle.not_cas
      have hmono : ∀ n, n ∈ gcOwned σ.gcJobs → n ∈ gcOwned (σ.gcJobs ++ [⟨[], y.gclist, .recv⟩]) := by
        intro n hn; unfold gcOwned at hn ⊢; rw [List.flatMap_append]; exact List.mem_append_left _ hn
      have hP : ∀ n tok, Prot (σ.threads.set t .idle) σ.store σ.gcJobs σ.sess n tok →
          Prot (σ.threads.set t .idle) σ.store (σ.gcJobs ++ [⟨[], y.gclist, .recv⟩]) σ.sess n tok := by
        intro n tok hpr
        exact hpr.mono (fun h => Or.inl h) (fun tk k h => Or.inr (Or.inl ⟨tk, k, h⟩))
          (fun h => Or.inr (Or.inr (Or.inl (hmono n h))))
          (fun i s h1 h2 h3 => Or.inr (Or.inr (Or.inr ⟨i, s, h1, h2, h3⟩)))
      exact ⟨fun t' n tok k hg => hP n tok (hp.phys t' n tok k hg),
        fun t' n tok k hg => hP n tok (hp.cas t' n tok k hg),
        fun key it c hm hc => hP c.id it.tok (hp.it key it c hm hc)⟩

end NitroVerif.MvccConc
