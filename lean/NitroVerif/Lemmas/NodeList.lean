import NitroVerif.Model.NodeList
/-!
  The node list model against the list spec.
-/
namespace NitroVerif.NodeList
open NitroVerif

theorem removeLoop_eq (key : List UInt8) (passed rest : List Node) :
    removeLoop key passed rest
      = ((rest.find? (fun n => n.2 == key)).map (·.1),
         passed.reverse ++ rest.eraseP (fun n => n.2 == key)) := by
  induction rest generalizing passed with
  | nil => simp [removeLoop]
  | cons n rest ih =>
    simp only [removeLoop]
    by_cases h : n.2 = key
    · simp [h]
    · simp [h, ih]

theorem step_eq (l : NodeList) (op : ListSpec.Op) :
    step l op = ({ nodes := (ListSpec.step l.nodes op).1 }, (ListSpec.step l.nodes op).2) := by
  cases op with
  | add id key => rfl
  | remove key => simp [step, ListSpec.step, remove, removeLoop_eq]
  | keys => rfl
  | head =>
    obtain ⟨nodes⟩ := l
    cases nodes <;> rfl

theorem runFrom_eq (l : NodeList) (ops : List ListSpec.Op) :
    runFrom l ops = ({ nodes := (ListSpec.runFrom l.nodes ops).1 }, (ListSpec.runFrom l.nodes ops).2) := by
  induction ops generalizing l with
  | nil => rfl
  | cons op ops ih =>
    simp only [runFrom, ListSpec.runFrom, step_eq, ih]

end NitroVerif.NodeList
