import NitroVerif.Lemmas.SkipConcLevelsStep
/-!
  Index levels of M5, part 3: what a thread knows about the nodes it holds survives the writes of every thread.

  * `OnChain.keep`: a node on the chain of a level stays there as long as it is unmarked at that level.
  * `Lk.keep`: hence `Lk` (what a search knows about a node it read) is stable.
  * `UnlIf.keep`: "if my node is still unmarked at level `i`, nobody points to it at level `i` or above" is stable
    under every write except the link of that very node (which only its inserter performs).
-/
namespace NitroVerif.SkipConc
open NitroVerif

theorem OnChain.keep {h h' : Heap} {ev : LEv} (H : HInv h) (s : LStep h ev h') {l n : Nat} (hl : 1 ≤ l)
    (r : OnChain h l n) (hu : unmarkedAt h' l n) : OnChain h' l n := by
  cases s with
  | none => exact r
  | @mark0 a e hw => exact (reachL_setWord_mark hw).mpr r
  | @unlink l1 prev curr next hp hc kprev =>
    by_cases e : l = l1
    · subst e
      refine unlink_reachL hp hc r ?_
      intro e2
      subst e2
      have hne : n ≠ prev := by
        intro e; rw [e, hp] at hc; simp at hc
      obtain ⟨q, hq⟩ := hu
      rw [word?_setWord_same hp, if_neg hne, hc] at hq
      simp at hq
    · exact (reachL_setWord_level _ e).mpr r
  | @mark l1 a e hl1 hw => exact (reachL_setWord_mark hw).mpr r
  | @own l1 x old s hl1 hx0 hw hux hs =>
    by_cases e : l = l1
    · subst e
      refine (reachL_off (fun a ha => ?_) (hux.not_onChain hx0)).mpr r
      rw [word?_setWord_same hw, if_neg ha]
    · exact (reachL_setWord_level _ e).mpr r
  | @link l1 pred x next m hl1 hp hx kp k1 k2 kx =>
    by_cases e : l = l1
    · subst e
      refine link_reachL hp hx ?_ r
      intro e; subst e; exact Key.lt_irrefl _ k1
    · exact (reachL_setWord_level _ e).mpr r
  | @publish p c nd hw hn0 hnd hnm =>
    have h0 : 0 < h.length := by have := H.len; omega
    rw [setWord_append h nd (word?_lt hw)]
    refine (reachL_setWord_level _ (by omega)).mpr ?_
    exact (reachL_grow (fun a ha => word?_append_lt h nd ha l) (fun a q m hw => H.closed _ _ _ _ hw) h0).mpr r

theorem Lk.keep {h h' : Heap} {ev : LEv} (H : HInv h) (e : Ext h h') (s : LStep h ev h') {c j : Nat}
    (hc : c < h.length) (k : Lk h c j) : Lk h' c j :=
  fun l h1 h2 hu => OnChain.keep H s h1 (k l h1 h2 (unmarkedAt_back e hc hu)) hu

/-- as long as `x` is unmarked at level `i`, no word of a level `≥ i` points to it -/
def UnlIf (h : Heap) (x i : Nat) : Prop := unmarkedAt h i x → Unlinked h x i

theorem UnlIf.keep {h h' : Heap} {ev : LEv} (H : HInv h) (e : Ext h h') (s : LStep h ev h') {x i : Nat}
    (hx : x < h.length) (hx0 : x ≠ 0) (hi : 1 ≤ i) (hev : ∀ l, ev ≠ .link x l) (u : UnlIf h x i) :
    UnlIf h' x i := by
  intro hu'
  have hu := unmarkedAt_back e hx hu'
  have U := u hu
  -- a node `Lk` at a level `≥ i` cannot be `x`
  have hLk : ∀ l', i ≤ l' → Lk h x l' → False := fun l' hle k =>
    U.not_onChain hx0 (k i hi hle hu)
  cases s with
  | none => exact U
  | @mark0 a e1 hw =>
    refine U.of_words (fun b l' m hl' hwb => ?_)
    rw [word?_setWord_level _ (by omega)] at hwb
    exact ⟨b, m, hwb⟩
  | @unlink l1 prev curr next hp hc kprev =>
    refine U.of_words (fun b l' m hl' hwb => ?_)
    rw [word?_setWord] at hwb
    by_cases hc1 : b = prev ∧ l' = l1 ∧ (word? h prev l1).isSome
    · rw [if_pos hc1] at hwb; simp at hwb
      obtain ⟨_, rfl, _⟩ := hc1
      exact ⟨curr, true, by rw [← hwb.1]; exact hc⟩
    · rw [if_neg hc1] at hwb; exact ⟨b, m, hwb⟩
  | @mark l1 a e1 hl1 hw =>
    refine U.of_words (fun b l' m hl' hwb => ?_)
    rw [word?_setWord] at hwb
    by_cases hc1 : b = a ∧ l' = l1 ∧ (word? h a l1).isSome
    · rw [if_pos hc1] at hwb; simp at hwb
      obtain ⟨rfl, rfl, _⟩ := hc1
      exact ⟨b, false, by rw [← hwb.1]; exact hw⟩
    · rw [if_neg hc1] at hwb; exact ⟨b, m, hwb⟩
  | @own l1 x1 old s hl1 hx0' hw hux hs =>
    refine U.of_words (fun b l' m hl' hwb => ?_)
    rw [word?_setWord] at hwb
    by_cases hc1 : b = x1 ∧ l' = l1 ∧ (word? h x1 l1).isSome
    · rw [if_pos hc1] at hwb; simp at hwb
      obtain ⟨_, rfl, _⟩ := hc1
      rw [hwb.1] at hs
      exact absurd (hLk l' hl' hs) id
    · rw [if_neg hc1] at hwb; exact ⟨b, m, hwb⟩
  | @link l1 pred x1 next m1 hl1 hp hx1 kp k1 k2 kx =>
    refine U.of_words (fun b l' m hl' hwb => ?_)
    rw [word?_setWord] at hwb
    by_cases hc1 : b = pred ∧ l' = l1 ∧ (word? h pred l1).isSome
    · rw [if_pos hc1] at hwb; simp at hwb
      exact absurd (by rw [hwb.1]) (hev l1)
    · rw [if_neg hc1] at hwb; exact ⟨b, m, hwb⟩
  | @publish p c nd hw hn0 hnd hnm =>
    refine U.of_words (fun b l' m hl' hwb => ?_)
    rw [setWord_append h nd (word?_lt hw), word?_setWord_level _ (by omega)] at hwb
    by_cases hb : b < h.length
    · rw [word?_append_lt h nd hb] at hwb; exact ⟨b, m, hwb⟩
    · have hbl := word?_lt hwb
      have : b = h.length := by simp at hbl; omega
      subst this
      rw [word?_append_new] at hwb
      exact absurd (hLk l' hl' (hnd _ _ _ hwb).2) id

/-- the successor stored in the upper-level word of a node that is being inserted is changed by its inserter only -/
theorem wordX_keep {h h' : Heap} {ev : LEv} (s : LStep h ev h') {x i next : Nat} {m : Bool}
    (hx0 : x ≠ 0) (hi : 1 ≤ i) (hev : ev ≠ .own x) (u : UnlIf h x i)
    (hw : word? h x i = some (next, m)) : ∃ m', word? h' x i = some (next, m') := by
  -- `x` is not a node a search has reached at level `i` while it is unmarked there
  have hLk : unmarkedAt h i x → Lk h x i → False := fun hu k =>
    (u hu).not_onChain hx0 (k i hi (Nat.le_refl _) hu)
  cases s with
  | none => exact ⟨m, hw⟩
  | @mark0 a e1 hwa => exact ⟨m, by rw [word?_setWord_level _ (by omega)]; exact hw⟩
  | @unlink l1 prev curr next1 hp hc kprev =>
    rw [word?_setWord]
    by_cases hc1 : x = prev ∧ i = l1 ∧ (word? h prev l1).isSome
    · obtain ⟨rfl, rfl, _⟩ := hc1
      exact absurd (hLk ⟨curr, hp⟩ kprev) id
    · rw [if_neg hc1]; exact ⟨m, hw⟩
  | @mark l1 a e1 hl1 hwa =>
    rw [word?_setWord]
    by_cases hc1 : x = a ∧ i = l1 ∧ (word? h a l1).isSome
    · obtain ⟨rfl, rfl, _⟩ := hc1
      rw [if_pos ⟨rfl, rfl, by rw [hw]; rfl⟩]
      rw [hwa] at hw; simp at hw
      exact ⟨true, by rw [hw.1]⟩
    · rw [if_neg hc1]; exact ⟨m, hw⟩
  | @own l1 x1 old s1 hl1 hx0' hwx hux hs =>
    rw [word?_setWord]
    have hne : ¬ (x = x1 ∧ i = l1 ∧ (word? h x1 l1).isSome) := by
      intro c; exact hev (by rw [c.1])
    rw [if_neg hne]; exact ⟨m, hw⟩
  | @link l1 pred x1 next1 m1 hl1 hp hx1 kp k1 k2 kx =>
    rw [word?_setWord]
    by_cases hc1 : x = pred ∧ i = l1 ∧ (word? h pred l1).isSome
    · obtain ⟨rfl, rfl, _⟩ := hc1
      exact absurd (hLk ⟨next1, hp⟩ kp) id
    · rw [if_neg hc1]; exact ⟨m, hw⟩
  | @publish p c nd hwp hn0 hnd hnm =>
    rw [setWord_append h nd (word?_lt hwp), word?_setWord_level _ (by omega), word?_append_lt h nd (word?_lt hw)]
    exact ⟨m, hw⟩

end NitroVerif.SkipConc
