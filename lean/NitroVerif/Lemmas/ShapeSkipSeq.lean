import NitroVerif.Gen.Shapes
/-!
  Pinned control shapes, area SkipSeq: the functions of /repo the models of this area mirror have, today, exactly
  these shapes (tools/gofacts/shapes.go).  `Gen/Shapes.lean` is regenerated from the working tree on every run; a change
  of an operator, bound, call, early return or loop in one of these functions breaks the lemma named after it.
  Expectations are maintained by hand (bootstrap: `go run . -shape-lemmas SkipSeq`).
-/
namespace NitroVerif.ShapeTie.SkipSeq
open NitroVerif.Gen.Shape

/-- skiplist/builder.go `*Segment.Add` -/
theorem shape_SegmentAdd_ok : SkipSeq_SegmentAdd =
    ["NewLevel", "newNode", "AddInt64", "AddInt64", "AddInt64", "Size", "for(<=)", "++", "if-else(!= nil)", "setNext", "if(!= nil)", "callb"] := rfl

/-- skiplist/builder.go `*Builder.NewSegment` -/
theorem shape_NewSegment_ok : SkipSeq_NewSegment =
    ["New", "NewSource", "Int", "IsLocal", "return(_)"] := rfl

/-- skiplist/builder.go `*Builder.Assemble` -/
theorem shape_Assemble_ok : SkipSeq_Assemble =
    ["range", "for(<=)", "++", "if-else(!= nil && != nil)", "setNext", "if(== nil && != nil)", "if(!= nil)", "for(<=)", "++", "if(!= nil)", "setNext", "if(!= nil)", "setNext", "range", "Merge", "return(_)"] := rfl

/-- skiplist/merger.go `nodeHeap.Less` -/
theorem shape_HeapLess_ok : SkipSeq_HeapLess =
    ["return(_)", "cmp", "Item", "Item"] := rfl

/-- skiplist/merger.go `*nodeHeap.Push` -/
theorem shape_HeapPush_ok : SkipSeq_HeapPush =
    [] := rfl

/-- skiplist/merger.go `*nodeHeap.Pop` -/
theorem shape_HeapPop_ok : SkipSeq_HeapPop =
    ["return(_)"] := rfl

/-- skiplist/merger.go `.NewMergeIterator` -/
theorem shape_NewMergeIterator_ok : SkipSeq_NewMergeIterator =
    ["return(_)"] := rfl

/-- skiplist/merger.go `*MergeIterator.SeekFirst` -/
theorem shape_MergeSeekFirst_ok : SkipSeq_MergeSeekFirst =
    ["range", "SeekFirst", "if()", "Valid", "GetNode", "Init", "Next"] := rfl

/-- skiplist/merger.go `*MergeIterator.Valid` -/
theorem shape_MergeValid_ok : SkipSeq_MergeValid =
    ["return(_)"] := rfl

/-- skiplist/merger.go `*MergeIterator.Next` -/
theorem shape_MergeNext_ok : SkipSeq_MergeNext =
    ["if(== 0)", "Len", "return()", "Pop", "Next", "if()", "Valid", "GetNode", "Push"] := rfl

/-- skiplist/merger.go `*MergeIterator.Seek` -/
theorem shape_MergeSeek_ok : SkipSeq_MergeSeek =
    ["range", "if()", "Seek", "if()", "Valid", "GetNode", "Init", "Next", "return(_)"] := rfl

/-- skiplist/merger.go `*MergeIterator.GetNode` -/
theorem shape_MergeGetNode_ok : SkipSeq_MergeGetNode =
    ["return(_)"] := rfl

/-- skiplist/skiplist.go `*Skiplist.NewLevel` -/
theorem shape_NewLevel_ok : SkipSeq_NewLevel =
    ["for(<)", "randFn", "++", "if(>)", "LoadInt32", "if(>)", "if-else(+ 1)", "CompareAndSwapInt32", "return(_)"] := rfl

/-- skiplist/stats.go `*Stats.Merge` -/
theorem shape_StatsMerge_ok : SkipSeq_StatsMerge =
    ["AddUint64", "AddUint64", "AddInt64", "AddInt64", "AddInt64", "AddInt64", "range", "if(!= 0)", "AddInt64"] := rfl

/-- skiplist/stats.go `*StatsReport.Apply` -/
theorem shape_StatsApply_ok : SkipSeq_StatsApply =
    ["range", "if(!= 0)"] := rfl

end NitroVerif.ShapeTie.SkipSeq
