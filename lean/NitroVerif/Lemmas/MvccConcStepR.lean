/-
  The invariant is preserved by the reader actions: `it_new`, `it_first`, `it_next`, the ITER_NEXT step.
-/
import NitroVerif.Lemmas.MvccConcInvMisc

namespace NitroVerif.MvccConc
open NitroVerif

theorem Pc.plain.own {pc : Pc} (h : pc.plain) : pcOwn pc = [] := by
  cases pc <;> simp [Pc.plain] at h <;> rfl

theorem Pc.plain.tok {pc : Pc} (h : pc.plain) : pc.tok = none := by
  cases pc <;> simp [Pc.plain] at h <;> rfl

theorem Pc.plain.not_flush {pc : Pc} (h : pc.plain) : ∀ n tk k, pc ≠ Pc.delFlush n tk k := by
  intro n tk k he; subst he; exact h

theorem Pc.plain.not_phys {pc : Pc} (h : pc.plain) : ∀ n tk k, pc ≠ Pc.delPhys n tk k := by
  intro n tk k he; subst he; exact h

theorem Pc.plain.not_cas {pc : Pc} (h : pc.plain) : ∀ n tk k, pc ≠ Pc.delCas n tk k := by
  intro n tk k he; subst he; exact h

/-- a plain thread moves to another plain pc -/
theorem inv_setPc_plain {σ : State} {t : Nat} {pc0 pc' : Pc} (h : Inv σ) (ht : σ.threads[t]? = some pc0)
    (hp0 : pc0.plain) (hp' : pc'.plain) : Inv (setPc σ t pc') :=
  ⟨h.store.set_not_put t hp'.not_put, h.pc.set_plain t hp', h.garb,
   h.own.set_same ht (by rw [hp'.own, hp0.own]) hp0.not_put hp'.not_put,
   h.tok.set_tok_same ht (by rw [hp'.tok, hp0.tok]),
   h.prot.set_plain ht hp0.not_flush hp'.not_phys hp'.not_cas⟩

/-- a plain thread repositions one of its iterators on a linked node (or on the end) -/
theorem inv_set_iter_plain {σ : State} {t : Nat} {pc0 pc' : Pc} {k : Nat × Nat} {it it' : Iter} (h : Inv σ)
    (ht : σ.threads[t]? = some pc0) (hp0 : pc0.plain) (hp' : pc'.plain) (hm : (k, it) ∈ σ.iters)
    (he : it'.tok = it.tok) (hc : ∀ c, it'.cur = some c → c.id ∈ storeIds σ.store) :
    Inv (setPc { σ with iters := setIter k it' σ.iters } t pc') := by
  refine ⟨h.store.set_not_put t hp'.not_put, h.pc.set_plain t hp', h.garb,
    h.own.set_same ht (by rw [hp'.own, hp0.own]) hp0.not_put hp'.not_put,
    (h.tok.setIter_same_tok hm he).set_tok_same ht (by rw [hp'.tok, hp0.tok]), ?_⟩
  refine (h.prot.iters_mono ?_).set_plain ht hp0.not_flush hp'.not_phys hp'.not_cas
  intro key it0 c hm0 hcur
  rcases mem_setIter.mp hm0 with ⟨h1, _⟩ | h1
  · exact Or.inl h1
  · injection h1 with h2 h3
    subst h3
    exact Or.inr (hc c hcur)

theorem inv_landOn {σ : State} {t i : Nat} {it : Iter} {land : Option Node} {pc0 : Pc} (h : Inv σ)
    (ht : σ.threads[t]? = some pc0) (hp0 : pc0.plain) (hm : ((t, i), it) ∈ σ.iters)
    (hl : ∀ y, land = some y → y ∈ σ.store) : Inv (landOn σ t i it land).1 := by
  unfold landOn
  cases land with
  | none =>
    exact inv_set_iter_plain h ht hp0 (by simp [Pc.plain]) hm rfl (by intro c hc; simp at hc)
  | some y =>
    have hy : y.id ∈ storeIds σ.store := List.mem_map.mpr ⟨y, hl y rfl, rfl⟩
    simp only
    split
    · exact inv_set_iter_plain h ht hp0 (by simp [Pc.plain]) hm rfl
        (by intro c hc; simp at hc; subst hc; exact hy)
    · exact inv_set_iter_plain h ht hp0 (by simp [Pc.plain]) hm rfl
        (by intro c hc; simp at hc; subst hc; exact hy)

theorem succN_mem {store : List Node} {x y : Node} (h : succN store x = some y) : y ∈ store :=
  List.mem_of_find?_eq_some h

theorem seekN_mem {cmp : Mvcc.Ver → Mvcc.Ver → Int} {store : List Node} {k b : Nat} {y : Node}
    (h : seekN cmp store k b = some y) : y ∈ store := by
  unfold seekN at h
  have happ := findPathN_append cmp ⟨k, 0, b, 0⟩ store
  rw [← happ]
  exact List.mem_append_right _ (List.mem_of_head? h)

theorem inv_itFirst {σ : State} {t i : Nat} (h : Inv σ) (ht : σ.threads[t]? = some .idle) :
    Inv (itFirst σ t i).1 := by
  unfold itFirst
  cases hf : findIter (t, i) σ.iters with
  | none => exact h
  | some it =>
    exact inv_landOn h ht (by simp [Pc.plain]) (findIter_some hf) (fun y hy => List.mem_of_head? hy)

theorem inv_itNext {σ : State} {t i : Nat} (h : Inv σ) (ht : σ.threads[t]? = some .idle) :
    Inv (itNext σ t i).1 := by
  unfold itNext
  cases hf : findIter (t, i) σ.iters with
  | none => exact h
  | some it =>
    simp only
    cases hc : it.cur with
    | none => exact h
    | some c => exact inv_setPc_plain h ht (by simp [Pc.plain]) (by simp [Pc.plain])

theorem inv_stepIter {σ : State} {t i : Nat} (h : Inv σ) (ht : σ.threads[t]? = some (.iterNext i)) :
    Inv (stepIter σ t i).1 := by
  unfold stepIter
  cases hf : findIter (t, i) σ.iters with
  | none => exact h
  | some it =>
    simp only
    cases hc : it.cur with
    | none => exact h
    | some c =>
      simp only
      split
      · exact h
      · cases hn : findNode σ.store c.id with
        | some x =>
          exact inv_landOn h ht (by simp [Pc.plain]) (findIter_some hf) (fun y hy => succN_mem hy)
        | none =>
          simp only
          split
          · exact h
          · exact inv_landOn h ht (by simp [Pc.plain]) (findIter_some hf) (fun y hy => seekN_mem hy)

theorem curTok_eq (σ : State) : curTok σ = σ.sess.length - 1 := rfl

theorem inv_itNew {σ : State} {t i s : Nat} (h : Inv σ) : Inv (itNew σ t i s).1 := by
  unfold itNew
  cases hs : findSnap s σ.snaps with
  | none => exact h
  | some x =>
    cases hf : findIter (t, i) σ.iters with
    | some _ => exact h
    | none =>
      simp only
      split
      · exact h
      · rename_i hrc
        have hrc' : x.rc ≠ 0 := by
          intro h0; apply hrc; simp [Gen.openRefuse, h0]
        have ⟨hxm, hxs⟩ := findSnap_some hs
        have hnone := findIter_none hf
        refine ⟨?_, ?_, ?_, ?_, ?_, ?_⟩
        · -- store
          have hst := h.store
          exact ⟨hst.sorted, hst.chains, hst.cnt, hst.cur_pos, hst.ids, hst.unl, hst.id_lt,
            updSnap_pairwise hst.snaps_inc s _ (fun _ => rfl), updSnap_sn_lt hst.snaps_lt s _ (fun _ => rfl),
            by
              intro y hy hne
              obtain ⟨z, hz, rfl⟩ := mem_updSnap hy
              by_cases hzs : z.sn = s
              · simp only [hzs, if_true] at hne ⊢
                have hzx : z = x := by
                  rcases Mvcc.pairwise_mem_trichotomy hst.snaps_inc hz hxm with h1 | h1 | h1
                  · exact h1
                  · omega
                  · omega
                subst hzx
                have := hst.rc_dead z hz hne
                omega
              · simp only [hzs, if_false] at hne ⊢
                exact hst.rc_dead z hz hne⟩
        · -- pc
          refine h.pc.snaps_mono ?_
          intro y hy hst
          refine ⟨_, mem_updSnap_of_mem hy, ?_⟩
          split <;> exact ⟨rfl, hst⟩
        · -- garb
          exact h.garb.congr (fun n => garbC_updSnap_same s (fun y => { y with rc := y.rc + 1 }) (fun _ => rfl) n)
        · -- own
          refine h.own.congr ?_ (fun _ => Iff.rfl)
          intro n
          show ownC σ.store σ.threads σ.gcJobs (acqSess σ.sess (.it t i)) σ.freeSeq σ.frJobs n = _
          unfold ownC; rw [sessfr_acquire]
        · -- tok
          show TokInv σ.threads (acqSess σ.sess (.it t i)) (setIter (t, i) ⟨s, curTok σ, none⟩ σ.iters) σ.freeSeq
          refine h.tok.acquire (fun t' pc tk hg _ => Or.inl hg) ?_ (setIter_pairwise h.tok.keys) ?_ ?_ ?_
          · intro t' j it hm
            rcases mem_setIter.mp hm with ⟨h1, _⟩ | h1
            · exact Or.inl h1
            · injection h1 with h2 h3
              injection h2 with h4 h5
              subst h3; subst h4; subst h5
              exact Or.inr ⟨rfl, rfl⟩
          · intro j hd hc
            cases hd with
            | thr t' => exact hc
            | it t' j' =>
              obtain ⟨it0, hm0, htk⟩ := hc
              refine ⟨it0, mem_setIter.mpr (Or.inl ⟨hm0, ?_⟩), htk⟩
              intro he
              simp only at he
              rw [he] at hm0
              exact hnone it0 hm0
          · exact ⟨⟨s, curTok σ, none⟩, mem_setIter.mpr (Or.inr rfl), rfl⟩
          · rintro j ⟨it0, hm0, _⟩
            exact hnone it0 hm0
        · -- prot
          show ProtInv σ.threads σ.store σ.gcJobs (acqSess σ.sess (.it t i))
            (setIter (t, i) ⟨s, curTok σ, none⟩ σ.iters)
          refine (h.prot.sess_mono (fun n => acqSess_list_mono σ.sess _ n)).iters_mono ?_
          intro key it0 c hm0 hcur
          rcases mem_setIter.mp hm0 with ⟨h1, _⟩ | h1
          · exact Or.inl h1
          · injection h1 with h2 h3
            subst h3; simp at hcur

end NitroVerif.MvccConc
