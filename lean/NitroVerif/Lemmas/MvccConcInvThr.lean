/-
  Transfer lemmas: how the parts of the invariant react to a change of the thread table and to
  changes that leave the counted quantities alone.
-/
import NitroVerif.Lemmas.MvccConcBasic

namespace NitroVerif.MvccConc
open NitroVerif

/-- the pc neither parks a Put nor carries a node, a token or the collector's role -/
def Pc.plain : Pc → Prop
  | .idle => True
  | .iterNext _ => True
  | _ => False

theorem Pc.plain.not_put {pc : Pc} (h : pc.plain) : ∀ n k v b, pc ≠ Pc.putInsert n k v b := by
  intro n k v b he; subst he; exact h

theorem reserved_set_iff {threads : List Pc} {t : Nat} {pc0 pc' : Pc} (ht : threads[t]? = some pc0)
    (h0 : ∀ n k v b, pc0 ≠ Pc.putInsert n k v b) (h' : ∀ n k v b, pc' ≠ Pc.putInsert n k v b) (n : Nat) :
    reserved (threads.set t pc') n ↔ reserved threads n := by
  constructor
  · exact reserved_set_of_not_put h'
  · rintro ⟨k, v, b, hm⟩
    obtain ⟨t', ht'⟩ := mem_iff_get.mp hm
    by_cases he : t = t'
    · subst he; rw [ht] at ht'; injection ht' with h1; exact absurd h1 (h0 n k v b)
    · exact ⟨k, v, b, mem_set_of_ne ht' he⟩

/-! ### StoreInv -/

theorem StoreInv.threads_mono {store unl : List Node} {cur : Nat} {items : Int} {writers : List Writer}
    {snaps : List Snap} {threads threads' : List Pc} {nextId : Nat}
    (h : StoreInv store unl cur items writers snaps threads nextId)
    (hr : ∀ n, reserved threads' n → reserved threads n) :
    StoreInv store unl cur items writers snaps threads' nextId :=
  ⟨h.sorted, h.chains, h.cnt, h.cur_pos, h.ids,
   fun x hx => ⟨(h.unl x hx).1, (h.unl x hx).2.1, fun hn => (h.unl x hx).2.2 (hr _ hn)⟩,
   fun x hx => ⟨(h.id_lt x hx).1, fun hn => (h.id_lt x hx).2 (hr _ hn)⟩,
   h.snaps_inc, h.snaps_lt, h.rc_dead⟩

theorem StoreInv.set_not_put {store unl : List Node} {cur : Nat} {items : Int} {writers : List Writer}
    {snaps : List Snap} {threads : List Pc} {nextId : Nat}
    (h : StoreInv store unl cur items writers snaps threads nextId) (t : Nat) {pc' : Pc}
    (h' : ∀ n k v b, pc' ≠ Pc.putInsert n k v b) :
    StoreInv store unl cur items writers snaps (threads.set t pc') nextId :=
  h.threads_mono (fun _ hn => reserved_set_of_not_put h' hn)

/-! ### OwnInv -/

theorem OwnInv.congr {store store' : List Node} {threads threads' : List Pc} {gcJobs gcJobs' : List GcJob}
    {sess sess' : List Sess} {fs fs' : Nat} {frJobs frJobs' : List FrJob} {nextId : Nat} {allocd freed bad : List Blk}
    (h : OwnInv store threads gcJobs sess fs frJobs nextId allocd freed bad)
    (ho : ∀ n, ownC store' threads' gcJobs' sess' fs' frJobs' n = ownC store threads gcJobs sess fs frJobs n)
    (hr : ∀ n, reserved threads' n ↔ reserved threads n) :
    OwnInv store' threads' gcJobs' sess' fs' frJobs' nextId allocd freed bad :=
  ⟨fun n => by rw [ho]; exact h.le n, fun n hn => h.lt n (by rw [← ho]; exact hn), h.a_item,
   fun n => by rw [hr]; exact h.a_node n, fun n => by rw [ho]; exact h.f_item n,
   fun n => by rw [ho]; exact h.f_node n, h.sent, h.a_nodup, h.f_nodup, h.bad⟩

theorem ownC_set_same {store : List Node} {threads : List Pc} {gcJobs : List GcJob} {sess : List Sess} {fs : Nat}
    {frJobs : List FrJob} {t : Nat} {pc0 pc' : Pc} (ht : threads[t]? = some pc0) (ho : pcOwn pc' = pcOwn pc0) (n : Nat) :
    ownC store (threads.set t pc') gcJobs sess fs frJobs n = ownC store threads gcJobs sess fs frJobs n := by
  unfold ownC
  have := thrOwned_set ht pc' n
  rw [ho] at this
  omega

theorem OwnInv.set_same {store : List Node} {threads : List Pc} {gcJobs : List GcJob} {sess : List Sess} {fs : Nat}
    {frJobs : List FrJob} {nextId : Nat} {allocd freed bad : List Blk}
    (h : OwnInv store threads gcJobs sess fs frJobs nextId allocd freed bad) {t : Nat} {pc0 pc' : Pc}
    (ht : threads[t]? = some pc0) (ho : pcOwn pc' = pcOwn pc0)
    (h0 : ∀ n k v b, pc0 ≠ Pc.putInsert n k v b) (h' : ∀ n k v b, pc' ≠ Pc.putInsert n k v b) :
    OwnInv store (threads.set t pc') gcJobs sess fs frJobs nextId allocd freed bad :=
  h.congr (fun n => ownC_set_same ht ho n) (reserved_set_iff ht h0 h')

/-! ### TokInv -/

theorem claims_set_same {threads : List Pc} {iters : List ((Nat × Nat) × Iter)} {t : Nat} {pc0 pc' : Pc}
    (ht : threads[t]? = some pc0) (he : pc'.tok = pc0.tok) {i : Nat} {h : Holder}
    (hc : claims threads iters i h) : claims (threads.set t pc') iters i h := by
  cases h with
  | it t' j => exact hc
  | thr t' =>
    obtain ⟨pc, hpc, htk⟩ := hc
    by_cases hne : t = t'
    · subst hne
      rw [ht] at hpc; injection hpc with h1; subst h1
      exact ⟨pc', get_set_self ht, by rw [he]; exact htk⟩
    · exact ⟨pc, by rw [get_set_ne _ hne]; exact hpc, htk⟩

theorem TokPre.set_tok_same {threads : List Pc} {sess : List Sess} {iters : List ((Nat × Nat) × Iter)} {fs : Nat}
    (h : TokPre threads sess iters fs) {t : Nat} {pc0 pc' : Pc} (ht : threads[t]? = some pc0)
    (he : pc'.tok = pc0.tok) : TokPre (threads.set t pc') sess iters fs := by
  refine ⟨?_, h.it, h.keys, h.destr, h.lt, h.flushed, h.nolist, ?_⟩
  · intro t' pc tok hg htk
    rcases get_set_cases hg with ⟨rfl, rfl⟩ | ⟨_, hg'⟩
    · exact h.thr t pc0 tok ht (by rw [← he]; exact htk)
    · exact h.thr t' pc tok hg' htk
  · intro i s hs
    exact ⟨(h.conv i s hs).1, fun hd hm => claims_set_same ht he ((h.conv i s hs).2 hd hm)⟩

theorem TokInv.set_tok_same {threads : List Pc} {sess : List Sess} {iters : List ((Nat × Nat) × Iter)} {fs : Nat}
    (h : TokInv threads sess iters fs) {t : Nat} {pc0 pc' : Pc} (ht : threads[t]? = some pc0)
    (he : pc'.tok = pc0.tok) : TokInv (threads.set t pc') sess iters fs :=
  ⟨h.toTokPre.set_tok_same ht he, h.fix⟩

/-! ### ProtInv -/

theorem Prot.mono {threads threads' : List Pc} {store store' : List Node} {gcJobs gcJobs' : List GcJob}
    {sess sess' : List Sess} {n tok : Nat} (h : Prot threads store gcJobs sess n tok)
    (hs : n ∈ storeIds store → Prot threads' store' gcJobs' sess' n tok)
    (hf : ∀ tk k, Pc.delFlush n tk k ∈ threads → Prot threads' store' gcJobs' sess' n tok)
    (hg : n ∈ gcOwned gcJobs → Prot threads' store' gcJobs' sess' n tok)
    (hse : ∀ (i : Nat) (s : Sess), tok ≤ i → sess[i]? = some s → n ∈ s.list →
             Prot threads' store' gcJobs' sess' n tok) :
    Prot threads' store' gcJobs' sess' n tok := by
  rcases h with h | ⟨tk, k, h⟩ | h | ⟨i, s, h1, h2, h3⟩
  · exact hs h
  · exact hf tk k h
  · exact hg h
  · exact hse i s h1 h2 h3

theorem Prot.threads_mono {threads threads' : List Pc} {store : List Node} {gcJobs : List GcJob}
    {sess : List Sess} {n tok : Nat} (h : Prot threads store gcJobs sess n tok)
    (hm : ∀ tk k, Pc.delFlush n tk k ∈ threads → Pc.delFlush n tk k ∈ threads') :
    Prot threads' store gcJobs sess n tok :=
  h.mono (fun h => Or.inl h) (fun tk k h => Or.inr (Or.inl ⟨tk, k, hm tk k h⟩)) (fun h => Or.inr (Or.inr (Or.inl h)))
    (fun i s h1 h2 h3 => Or.inr (Or.inr (Or.inr ⟨i, s, h1, h2, h3⟩)))

theorem delFlush_mem_set {threads : List Pc} {t : Nat} {pc0 pc' : Pc} (ht : threads[t]? = some pc0)
    (h0 : ∀ n tk k, pc0 ≠ Pc.delFlush n tk k) {n tk k : Nat} (hm : Pc.delFlush n tk k ∈ threads) :
    Pc.delFlush n tk k ∈ threads.set t pc' := by
  obtain ⟨t', ht'⟩ := mem_iff_get.mp hm
  by_cases he : t = t'
  · subst he; rw [ht] at ht'; injection ht' with h1; exact absurd h1 (h0 n tk k)
  · exact mem_set_of_ne ht' he

/-- a thread table update at a thread that was not between unlink and flush, to a pc that holds no node -/
theorem ProtInv.set_plain {threads : List Pc} {store : List Node} {gcJobs : List GcJob} {sess : List Sess}
    {iters : List ((Nat × Nat) × Iter)} (h : ProtInv threads store gcJobs sess iters) {t : Nat} {pc0 pc' : Pc}
    (ht : threads[t]? = some pc0) (h0 : ∀ n tk k, pc0 ≠ Pc.delFlush n tk k)
    (hp : ∀ n tk k, pc' ≠ Pc.delPhys n tk k) (hc : ∀ n tk k, pc' ≠ Pc.delCas n tk k) :
    ProtInv (threads.set t pc') store gcJobs sess iters := by
  refine ⟨?_, ?_, ?_⟩
  · intro t' n tok k hg
    rcases get_set_cases hg with ⟨_, he⟩ | ⟨_, hg'⟩
    · exact absurd he.symm (hp n tok k)
    · exact (h.phys t' n tok k hg').threads_mono (fun tk k hm => delFlush_mem_set ht h0 hm)
  · intro t' n tok k hg
    rcases get_set_cases hg with ⟨_, he⟩ | ⟨_, hg'⟩
    · exact absurd he.symm (hc n tok k)
    · exact (h.cas t' n tok k hg').threads_mono (fun tk k hm => delFlush_mem_set ht h0 hm)
  · intro key it c hm hcur
    exact (h.it key it c hm hcur).threads_mono (fun tk k hm => delFlush_mem_set ht h0 hm)

/-! ### PcInv -/

theorem PcInv.set_plain {threads : List Pc} {nw cur : Nat} {store unl : List Node} {nextId : Nat} {gcFlag : Bool}
    {snaps : List Snap} (h : PcInv threads nw cur store unl nextId gcFlag snaps) (t : Nat) {pc' : Pc}
    (hp : pc'.plain) : PcInv (threads.set t pc') nw cur store unl nextId gcFlag snaps := by
  have hnr : ∀ n, reserved (threads.set t pc') n → reserved threads n :=
    fun n hn => reserved_set_of_not_put hp.not_put hn
  refine ⟨by rw [List.length_set]; exact h.len, ?_, ?_, ?_, ?_, ?_, ?_⟩
  · intro t' n k v b hg
    rcases get_set_cases hg with ⟨_, he⟩ | ⟨_, hg'⟩
    · subst he; exact absurd hp (by simp [Pc.plain])
    · exact h.put t' n k v b hg'
  · intro t' n tok k hg
    rcases get_set_cases hg with ⟨_, he⟩ | ⟨_, hg'⟩
    · subst he; exact absurd hp (by simp [Pc.plain])
    · have := h.phys t' n tok k hg'
      exact ⟨this.1, this.2.1, fun hn => this.2.2.1 (hnr n hn), this.2.2.2⟩
  · intro t' n tok k hg
    rcases get_set_cases hg with ⟨_, he⟩ | ⟨_, hg'⟩
    · subst he; exact absurd hp (by simp [Pc.plain])
    · have := h.cas t' n tok k hg'
      exact ⟨this.1, this.2.1, fun hn => this.2.2.1 (hnr n hn), this.2.2.2⟩
  · intro t' n tok k hg
    rcases get_set_cases hg with ⟨_, he⟩ | ⟨_, hg'⟩
    · subst he; exact absurd hp (by simp [Pc.plain])
    · exact h.fl t' n tok k hg'
  · intro t' sn a hg
    rcases get_set_cases hg with ⟨_, he⟩ | ⟨_, hg'⟩
    · subst he; exact absurd hp (by simp [Pc.plain])
    · exact h.coll t' sn a hg'
  · intro t1 t2 s1 a1 s2 a2 h1 h2
    rcases get_set_cases h1 with ⟨_, he⟩ | ⟨_, h1'⟩
    · subst he; exact absurd hp (by simp [Pc.plain])
    · rcases get_set_cases h2 with ⟨_, he⟩ | ⟨_, h2'⟩
      · subst he; exact absurd hp (by simp [Pc.plain])
      · exact h.excl t1 t2 s1 a1 s2 a2 h1' h2'

end NitroVerif.MvccConc
