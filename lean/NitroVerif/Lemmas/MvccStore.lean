/-
  V1/V2 on the physical store: the search of `Put2`/`GetNode` (exact hit under the insert comparator,
  else exists-comparison with the predecessor) finds exactly the alive version of the key, and the
  four store mutations preserve order and lifetimes.
-/
import NitroVerif.Lemmas.MvccOrder

namespace NitroVerif.Mvcc
open NitroVerif

/-- V2 (lifetimes) -/
def Chains (cur : Nat) (s : List Ver) : Prop :=
  (∀ v ∈ s, v.born ≤ cur ∧ (v.dead ≠ 0 → v.born < v.dead ∧ v.dead ≤ cur)) ∧
  (∀ a ∈ s, ∀ b ∈ s, a.key = b.key → a.born < b.born → a.dead ≠ 0 ∧ a.dead ≤ b.born)

/-- the alive version of key `k` -/
def aliveOf (s : List Ver) (k : Nat) : Option Ver := s.find? (fun x => x.key == k && x.dead == 0)

theorem alive_unique {cur : Nat} {s : List Ver} (hs : Sorted s) (hc : Chains cur s) {a b : Ver}
    (ha : a ∈ s) (hb : b ∈ s) (hk : a.key = b.key) (hda : a.dead = 0) (hdb : b.dead = 0) : a = b := by
  apply sorted_id_unique hs ha hb hk
  have h1 := hc.2 a ha b hb hk
  have h2 := hc.2 b hb a ha hk.symm
  omega

theorem aliveOf_eq_some {cur : Nat} {s : List Ver} (hs : Sorted s) (hc : Chains cur s) {k : Nat} {x : Ver}
    (hx : x ∈ s) (hk : x.key = k) (hd : x.dead = 0) : aliveOf s k = some x := by
  unfold aliveOf
  cases h : s.find? (fun x => x.key == k && x.dead == 0) with
  | none =>
    have := List.find?_eq_none.mp h x hx
    simp [hk, hd] at this
  | some y =>
    have hy := List.find?_some h
    have hym := List.mem_of_find?_eq_some h
    simp at hy
    rw [alive_unique hs hc hym hx (by omega) hy.2 hd]

theorem aliveOf_some {s : List Ver} {k : Nat} {x : Ver} (h : aliveOf s k = some x) :
    x ∈ s ∧ x.key = k ∧ x.dead = 0 := by
  unfold aliveOf at h
  have hy := List.find?_some h
  simp at hy
  exact ⟨List.mem_of_find?_eq_some h, hy.1, hy.2⟩

theorem aliveOf_none {s : List Ver} {k : Nat} (h : aliveOf s k = none) :
    ∀ x ∈ s, x.key = k → x.dead ≠ 0 := by
  intro x hx hk hd
  unfold aliveOf at h
  have := List.find?_eq_none.mp h x hx
  simp [hk, hd] at this

theorem foundAt_some {cmp : Ver → Ver → Int} {p : Ver} {r : List Ver} {x : Ver}
    (h : foundAt cmp p r = some x) : r.head? = some x ∧ cmp x p = 0 := by
  cases r with
  | nil => simp [foundAt] at h
  | cons y ys =>
    simp only [foundAt] at h
    by_cases hf : Gen.findFound (cmp y p) = true
    · simp [hf] at h; subst h
      exact ⟨rfl, (findFound_iff _).mp hf⟩
    · simp [hf] at h

theorem foundAt_none {cmp : Ver → Ver → Int} {p : Ver} {y : Ver} {ys : List Ver}
    (h : foundAt cmp p (y :: ys) = none) : cmp y p ≠ 0 := by
  simp only [foundAt] at h
  intro h0
  simp [(findFound_iff _).mpr h0] at h

/-- what the search returns is an alive version of the key -/
theorem lookup_sound {cur : Nat} {s : List Ver} (_hs : Sorted s) (hc : Chains cur s) {k v : Nat} {x : Ver}
    (h : lookup s ⟨k, v, cur, 0⟩ = some x) : x ∈ s ∧ x.key = k ∧ x.dead = 0 := by
  unfold lookup at h
  have happ := findPath_append insCmp ⟨k, v, cur, 0⟩ s
  split at h
  · rename_i y hy
    simp at h; subst h
    have ⟨hh, hz⟩ := foundAt_some hy
    have hm : y ∈ s := by
      rw [← happ]; exact List.mem_append_right _ (List.mem_of_mem_head? hh)
    have := (insCmp_zero _ _).mp hz
    simp at this
    have hb := hc.1 y hm
    refine ⟨hm, this.1, ?_⟩
    omega
  · split at h
    · rename_i p hp
      split at h
      · rename_i he
        simp at h; subst h
        have := (existCmp_zero _ _).mp he
        simp at this
        have hm : p ∈ s := by
          rw [← happ]; exact List.mem_append_left _ (List.mem_of_getLast? hp)
        exact ⟨hm, this.2.symm, this.1⟩
      · simp at h
    · simp at h

/-- if the search finds nothing there is no alive version of the key -/
theorem lookup_complete {cur : Nat} {s : List Ver} (hs : Sorted s) (hc : Chains cur s) {k v : Nat}
    (h : lookup s ⟨k, v, cur, 0⟩ = none) : ∀ y ∈ s, y.key = k → y.dead ≠ 0 := by
  intro y hy hk hd
  have h1 := findPath_ins_fst hs ⟨k, v, cur, 0⟩
  have h2 := findPath_ins_snd hs ⟨k, v, cur, 0⟩
  have hyb := hc.1 y hy
  unfold lookup at h
  split at h
  · simp at h
  · rename_i hfa
    by_cases hlt : vlt y ⟨k, v, cur, 0⟩
    · -- y is among the passed nodes, so the predecessor exists and is y
      have hyl : y ∈ (findPath insCmp ⟨k, v, cur, 0⟩ s).1 := by
        rw [h1]; exact List.mem_filter.mpr ⟨hy, (insLt_iff _ _).mpr hlt⟩
      split at h
      · rename_i p hp
        have hsl : Sorted (findPath insCmp ⟨k, v, cur, 0⟩ s).1 := by rw [h1]; exact sorted_filter hs _
        have ⟨hpm, hmax⟩ := getLast_max hsl hp
        have hps : p ∈ s ∧ vlt p ⟨k, v, cur, 0⟩ := by
          rw [h1] at hpm
          have := List.mem_filter.mp hpm
          exact ⟨this.1, (insLt_iff _ _).mp this.2⟩
        have hyp : y = p := by
          rcases hmax y hyl with h' | h'
          · exact h'
          · exfalso
            have hpk : p.key = y.key := by
              have := hps.2; unfold vlt at this h'; simp at this; omega
            have hbb : y.born < p.born := by unfold vlt at h'; omega
            have := hc.2 y hy p hps.1 hpk.symm hbb
            omega
        subst hyp
        split at h
        · simp at h
        · rename_i he
          apply he
          exact (existCmp_zero _ _).mpr ⟨rfl, hd, hk.symm⟩
      · rename_i hnone
        have : (findPath insCmp ⟨k, v, cur, 0⟩ s).1 = [] := List.getLast?_eq_none_iff.mp hnone
        rw [this] at hyl; simp at hyl
    · -- y is not below the probe: it is the exact hit
      have hyr : y ∈ (findPath insCmp ⟨k, v, cur, 0⟩ s).2 := by
        rw [h2]; apply List.mem_filter.mpr
        refine ⟨hy, ?_⟩
        cases hb : insLt y ⟨k, v, cur, 0⟩
        · rfl
        · exact absurd ((insLt_iff _ _).mp hb) hlt
      have hborn : y.born = cur := by unfold vlt at hlt; simp at hlt; omega
      cases hr : (findPath insCmp ⟨k, v, cur, 0⟩ s).2 with
      | nil => rw [hr] at hyr; simp at hyr
      | cons z zs =>
        rw [hr] at hfa
        have hz : z ∈ s ∧ ¬ vlt z ⟨k, v, cur, 0⟩ := by
          have : z ∈ (findPath insCmp ⟨k, v, cur, 0⟩ s).2 := by rw [hr]; simp
          rw [h2] at this
          have := List.mem_filter.mp this
          refine ⟨this.1, ?_⟩
          intro hv; have := (insLt_iff _ _).mpr hv; simp_all
        have hzn : insCmp z ⟨k, v, cur, 0⟩ ≠ 0 := by
          exact foundAt_none hfa
        have hsr : Sorted (z :: zs) := by rw [← hr, h2]; exact sorted_filter hs _
        rw [hr] at hyr
        rcases List.mem_cons.mp hyr with hyz | hyz
        · subst hyz
          exact hzn ((insCmp_zero _ _).mpr ⟨hk, hborn⟩)
        · have hzy : vlt z y := (List.pairwise_cons.mp hsr).1 y hyz
          have hzk := hz.2
          apply hzn
          apply (insCmp_zero _ _).mpr
          unfold vlt at hzy hzk; simp at hzk ⊢
          have := (hc.1 z hz.1).1
          omega

theorem lookup_eq_aliveOf {cur : Nat} {s : List Ver} (hs : Sorted s) (hc : Chains cur s) (k v : Nat) :
    lookup s ⟨k, v, cur, 0⟩ = aliveOf s k := by
  cases h : lookup s ⟨k, v, cur, 0⟩ with
  | some x =>
    have ⟨hm, hk, hd⟩ := lookup_sound hs hc h
    exact (aliveOf_eq_some hs hc hm hk hd).symm
  | none =>
    have := lookup_complete hs hc h
    unfold aliveOf
    symm; apply List.find?_eq_none.mpr
    intro x hx; simp
    intro hk; exact this x hx hk

end NitroVerif.Mvcc
