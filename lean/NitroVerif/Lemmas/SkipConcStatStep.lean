import NitroVerif.Lemmas.SkipConcQuietLive
/-!
  Statistics of M5, part 1: what a segment does to the counters (`levelNodesCount`, `softDeletes`, `nodeAllocs`,
  `nodeFrees`), tied to the event of the level-0 core it produces (`HStep`) and to whether the thread is an Insert4
  between its publish CAS and `finished:` (`pendIns` = the height of the node it has published but not yet accounted).
-/
namespace NitroVerif.SkipConc
open NitroVerif

def contLvl : Cont → Option Nat
  | .insRelink _ lvl _ => some lvl
  | .insSuccDeleted _ lvl _ => some lvl
  | .insUnlink _ lvl => some lvl
  | _ => none

/-- the height of the node this Insert4 has published but not yet accounted in the statistics -/
def pendIns : PC → Option Nat
  | .findLevel fp => contLvl fp.cont
  | .findNext fp _ => contLvl fp.cont
  | .helpDelete fp _ => contLvl fp.cont
  | .insUpRead _ _ lvl _ => some lvl
  | .insUpLink _ _ lvl _ _ => some lvl
  | _ => none

/-- the counters are untouched -/
def StQuiet (a b : Stats) : Prop := b.dist = a.dist ∧ b.soft = a.soft ∧ b.allocs = a.allocs ∧ b.frees = a.frees
/-- Insert4 `finished:` for a node of height `lvl` -/
def StFin (lvl : Nat) (a b : Stats) : Prop :=
  b.dist = addAt a.dist lvl 1 ∧ b.soft = a.soft ∧ b.allocs = a.allocs + 1 ∧ b.frees = a.frees
/-- helpDelete's accounting of a level-0 unlink of a node of height `k` -/
def StUnl (k : Nat) (a b : Stats) : Prop :=
  b.dist = addAt a.dist k (-1) ∧ b.soft = a.soft - 1 ∧ b.allocs = a.allocs ∧ b.frees = a.frees
/-- softDelete's accounting of the winning level-0 mark -/
def StMark (a b : Stats) : Prop := b.dist = a.dist ∧ b.soft = a.soft + 1 ∧ b.allocs = a.allocs ∧ b.frees = a.frees

theorem StQuiet.refl (a : Stats) : StQuiet a a := ⟨rfl, rfl, rfl, rfl⟩

/-- no heap event of the core, or an upper-level write: nothing happens to the counters, or the Insert4 finishes -/
def QuietOrFin (st : Stats) (pc : PC) (r : Res) : Prop :=
  (StQuiet st r.1.stats ∧ pendIns r.2.1.pc = pendIns pc) ∨
  (∃ lvl, pendIns pc = some lvl ∧ pendIns r.2.1.pc = none ∧ StFin lvl st r.1.stats)

/-- what the segment does to the counters, by the event of the level-0 core -/
def StatRel (sh : Shared) (th : Thread) (r : Res) : Event → Prop
  | .none => QuietOrFin sh.stats th.pc r
  | .upper => QuietOrFin sh.stats th.pc r
  | .unlink c => StUnl (heightOf r.1.heap c) sh.stats r.1.stats ∧ pendIns r.2.1.pc = pendIns th.pc
  | .mark n => StMark sh.stats r.1.stats ∧ pendIns r.2.1.pc = pendIns th.pc ∧ ∃ item, keyOf sh.heap n = .fin item
  | .publish x _ => pendIns th.pc = none ∧
      ((StQuiet sh.stats r.1.stats ∧ pendIns r.2.1.pc = some (heightOf r.1.heap x)) ∨
       (StFin (heightOf r.1.heap x) sh.stats r.1.stats ∧ pendIns r.2.1.pc = none))

theorem pendIns_enterSoft (sh : Shared) (th : Thread) (item n i : Nat) (m : Bool) :
    pendIns (enterSoft sh th item n i m).2.1.pc = none := by
  unfold enterSoft
  split
  · rfl
  · split <;> rfl

theorem pendIns_afterNext (sh : Shared) (th : Thread) (it : Nat) : pendIns (afterNext sh th it).2.1.pc = none := by
  unfold afterNext
  simp only []
  split
  · split <;> rfl
  · rfl

theorem pendIns_insCheckSucc (sh : Shared) (th : Thread) (item x lvl i next : Nat) :
    pendIns (insCheckSucc sh th item x lvl i next).2.1.pc = some lvl := by
  unfold insCheckSucc; split <;> rfl

/-- findPath returns to its caller: nothing happens to the counters, or the Insert4 (after its unlinking search)
    finishes -/
theorem finishFind_stat (sh : Shared) (th : Thread) (item : Nat) (found : Bool) (c : Cont) :
    (StQuiet sh.stats (finishFind sh th item found c).1.stats ∧
      pendIns (finishFind sh th item found c).2.1.pc = contLvl c) ∨
    (∃ lvl, contLvl c = some lvl ∧ pendIns (finishFind sh th item found c).2.1.pc = none ∧
      StFin lvl sh.stats (finishFind sh th item found c).1.stats) := by
  cases c <;> simp only [finishFind]
  · split <;> exact .inl ⟨StQuiet.refl _, rfl⟩
  · split <;> exact .inl ⟨StQuiet.refl _, rfl⟩
  · exact .inl ⟨StQuiet.refl _, rfl⟩
  · exact .inl ⟨StQuiet.refl _, rfl⟩
  · rename_i x lvl
    exact .inr ⟨lvl, rfl, rfl, rfl, rfl, rfl, rfl⟩
  · split
    · rw [enterSoft_sh]; exact .inl ⟨StQuiet.refl _, pendIns_enterSoft ..⟩
    · exact .inl ⟨StQuiet.refl _, rfl⟩
  · exact .inl ⟨StQuiet.refl _, rfl⟩
  · exact .inl ⟨StQuiet.refl _, rfl⟩
  · split
    · exact .inl ⟨StQuiet.refl _, rfl⟩
    · rw [afterNext_sh]; exact .inl ⟨StQuiet.refl _, pendIns_afterNext ..⟩
  · exact .inl ⟨StQuiet.refl _, rfl⟩
  · exact .inl ⟨StQuiet.refl _, rfl⟩

theorem afterRead_stat (sh : Shared) (th : Thread) (fp : FP) (next : Nat) (d : Bool) :
    (StQuiet sh.stats (afterRead sh th fp next d).1.stats ∧
      pendIns (afterRead sh th fp next d).2.1.pc = contLvl fp.cont) ∨
    (∃ lvl, contLvl fp.cont = some lvl ∧ pendIns (afterRead sh th fp next d).2.1.pc = none ∧
      StFin lvl sh.stats (afterRead sh th fp next d).1.stats) := by
  unfold afterRead
  split
  · exact .inl ⟨StQuiet.refl _, rfl⟩
  · simp only []
    split
    · exact .inl ⟨StQuiet.refl _, rfl⟩
    · split
      · exact .inl ⟨StQuiet.refl _, rfl⟩
      · exact finishFind_stat ..

theorem helpStats_stats_no (sh : Shared) (h' : Heap) (ok : Bool) (l c : Nat) (hno : ¬ (ok = true ∧ l = 0)) :
    (helpStats sh h' ok l c).stats = sh.stats := by
  unfold helpStats
  rw [if_neg (fun hc => hno ((helpAccounts_iff _ _).mp hc))]

theorem helpStats_stats_yes (sh : Shared) (h' : Heap) (c : Nat) :
    StUnl (heightOf h' c) sh.stats (helpStats sh h' true 0 c).stats := by
  unfold helpStats
  rw [if_pos ((helpAccounts_iff _ _).mpr ⟨rfl, rfl⟩)]
  exact ⟨rfl, rfl, rfl, rfl⟩

end NitroVerif.SkipConc
