/-
  `IterInv` holds in every reachable state.
-/
import NitroVerif.Lemmas.MvccConcIter2

namespace NitroVerif.MvccConc
open NitroVerif
open NitroVerif.Mvcc (Ver Sorted Chains)

theorem iterInv_init (nw nr : Nat) (fx : Bool) : IterInv (init nw nr fx) :=
  ⟨by intro _ _ _ h; simp [init] at h, by intro _ _ h; simp [init] at h, by intro _ h; simp [init] at h,
   by intro _ h; simp [init] at h, by intro _ _ _ h; simp [init] at h, by intro _ _ _ h; simp [init] at h⟩

/-- a cursor's node is not a parked Put's -/
theorem cursor_not_reserved {σ : State} (hi : Inv σ) (hk : IterInv σ) {key : Nat × Nat} {it : Iter} {c : Cur}
    (hm : (key, it) ∈ σ.iters) (hc : it.cur = some c) : ¬ reserved σ.threads c.id := by
  rcases hk.somewhere key it c hm hc with h | ⟨x, hx, hid⟩
  · obtain ⟨y, hy, he⟩ := List.mem_map.mp h
    rw [← he]; exact (hi.store.id_lt y hy).2
  · rw [← hid]; exact (hi.store.unl x hx).2.2

theorem iterInv_of_store {σ σ' : State} (hi : Inv σ) (hk : IterInv σ) (hS : StoreShape σ σ')
    (hit : σ'.iters = σ.iters) : IterInv σ' := by
  rcases hS with ⟨hs, hu, hc⟩ | ⟨hs, hu, hc⟩ | ⟨n, k, v, hres, hs, hu, hc⟩ | ⟨n, x, hf, hs, hu, hc, hcond⟩ |
    ⟨n, x, hf, hs, hu, hc⟩
  · exact ⟨by rw [hit, hs, hu]; exact hk.cache, by rw [hit, hc]; exact hk.sn, by rw [hu, hc]; exact hk.unl,
      by rw [hu, hs]; exact hk.uniq, by rw [hit, hu]; exact hk.gone, by rw [hit, hs, hu]; exact hk.somewhere⟩
  · refine ⟨by rw [hit, hs, hu]; exact hk.cache, ?_, ?_, by rw [hu, hs]; exact hk.uniq,
      by rw [hit, hu]; exact hk.gone, by rw [hit, hs, hu]; exact hk.somewhere⟩
    · rw [hit, hc]; intro key it hm; have := hk.sn key it hm; omega
    · rw [hu, hc]; intro x hx hd; have := hk.unl x hx hd; omega
  · -- a Put was linked
    refine ⟨?_, by rw [hit, hc]; exact hk.sn, by rw [hu, hc]; exact hk.unl, ?_, by rw [hit, hu]; exact hk.gone, ?_⟩
    · rw [hit, hs, hu]
      intro key it c hm hcur x hx hid
      rcases List.mem_append.mp hx with hx | hx
      · rcases mem_insertN.mp hx with rfl | hx
        · exfalso
          simp only at hid
          exact cursor_not_reserved hi hk hm hcur (hid ▸ hres)
        · exact hk.cache key it c hm hcur x (List.mem_append_left _ hx) hid
      · exact hk.cache key it c hm hcur x (List.mem_append_right _ hx) hid
    · rw [hu, hs]
      intro x hx hd y hy
      rcases mem_insertN.mp hy with rfl | hy
      · have := hk.unl x hx hd
        simp only; omega
      · exact hk.uniq x hx hd y hy
    · rw [hit, hs, hu]
      intro key it c hm hcur
      rcases hk.somewhere key it c hm hcur with h | h
      · left
        obtain ⟨y, hy, he⟩ := List.mem_map.mp h
        exact List.mem_map.mpr ⟨y, mem_insertN.mpr (Or.inr hy), he⟩
      · exact Or.inr h
  · -- a node was unlinked
    have ⟨hx, hid⟩ := findNode_some hf
    refine ⟨?_, by rw [hit, hc]; exact hk.sn, ?_, ?_, ?_, ?_⟩
    · rw [hit, hs, hu]
      intro key it c hm hcur y hy hyid
      have : y ∈ σ.store ++ σ.unlinked := by
        rcases List.mem_append.mp hy with hy | hy
        · exact List.mem_append_left _ (mem_removeNode.mp hy).1
        · rcases List.mem_append.mp hy with hy | hy
          · exact List.mem_append_right _ hy
          · simp at hy; subst hy; exact List.mem_append_left _ hx
      exact hk.cache key it c hm hcur y this hyid
    · rw [hu, hc]
      intro y hy hd
      rcases List.mem_append.mp hy with hy | hy
      · exact hk.unl y hy hd
      · simp at hy; subst hy
        have := (hi.store.chains.1 y.ver (List.mem_map.mpr ⟨y, hx, rfl⟩)).2 hd
        omega
    · rw [hu, hs]
      intro y hy hd z hz
      have hz' := mem_removeNode.mp hz
      rcases List.mem_append.mp hy with hy | hy
      · exact hk.uniq y hy hd z hz'.1
      · simp at hy; subst hy
        intro hsame
        have : z = y := sorted_node_unique hi.store.sorted hz'.1 hx ((Mvcc.sameId_iff _ _).mpr hsame)
        subst this; exact hz'.2 hid
    · rw [hit, hu]
      intro key it c hm hcur hvis y hy hyid
      rcases List.mem_append.mp hy with hy | hy
      · exact hk.gone key it c hm hcur hvis y hy hyid
      · simp at hy; subst hy
        rcases hcond with h | h
        · exact h
        · exfalso
          have := (hk.cache key it c hm hcur y (List.mem_append_left _ hx) hyid).2
          have := hk.sn key it hm
          omega
    · rw [hit, hs, hu]
      intro key it c hm hcur
      rcases hk.somewhere key it c hm hcur with h | ⟨y, hy, hyid⟩
      · by_cases he : c.id = n
        · exact Or.inr ⟨x, by simp, by omega⟩
        · exact Or.inl (mem_storeIds_removeNode h he)
      · exact Or.inr ⟨y, List.mem_append_left _ hy, hyid⟩
  · -- a death mark
    refine ⟨?_, by rw [hit, hc]; exact hk.sn, by rw [hu, hc]; exact hk.unl, ?_, by rw [hit, hu]; exact hk.gone, ?_⟩
    · rw [hit, hs, hu]
      intro key it c hm hcur y hy hyid
      rcases List.mem_append.mp hy with hy | hy
      · obtain ⟨z, hz, h1, h2, _, h4, _⟩ := mem_markDeadNode hy
        rw [h2, h4]
        exact hk.cache key it c hm hcur z (List.mem_append_left _ hz) (by omega)
      · exact hk.cache key it c hm hcur y (List.mem_append_right _ hy) hyid
    · rw [hu, hs]
      intro y hy hd z hz
      obtain ⟨w, hw, _, h2, _, h4, _⟩ := mem_markDeadNode hz
      rw [h2, h4]; exact hk.uniq y hy hd w hw
    · rw [hit, hs, hu, storeIds_markDeadNode]; exact hk.somewhere

theorem iterInv_of_iters {σ σ' : State} (hi : Inv σ) (hk : IterInv σ) {t : Nat} (hI : ItersShape σ σ' t)
    (hs : σ'.store = σ.store) (hu : σ'.unlinked = σ.unlinked) (hc : σ'.currSn = σ.currSn) : IterInv σ' := by
  have hsub : (∀ p ∈ σ'.iters, p ∈ σ.iters) → IterInv σ' := by
    intro h
    exact ⟨by rw [hs, hu]; exact fun key it c hm => hk.cache key it c (h _ hm),
      by rw [hc]; exact fun key it hm => hk.sn key it (h _ hm), by rw [hu, hc]; exact hk.unl,
      by rw [hu, hs]; exact hk.uniq, by rw [hu]; exact fun key it c hm => hk.gone key it c (h _ hm),
      by rw [hs, hu]; exact fun key it c hm => hk.somewhere key it c (h _ hm)⟩
  rcases hI with h | ⟨i, it, it', hm, hsn, hcur, hit⟩ | ⟨i, s, tok, hnone, ⟨x, hx, hxs⟩, hit⟩ | ⟨i, hit⟩
  · exact hsub (by rw [h]; exact fun _ hp => hp)
  · -- an iterator was repositioned
    have hnew : ∀ c, it'.cur = some c → ∃ y ∈ σ.store, c = ⟨y.id, y.ver.key, y.ver.born⟩ := by
      intro c hc'
      rcases hcur with h | ⟨y, hy, h⟩
      · rw [h] at hc'; cases hc'
      · rw [h] at hc'; injection hc' with h1; exact ⟨y, hy, h1.symm⟩
    have hdisj : ∀ y ∈ σ.store, ∀ x ∈ σ.unlinked, x.id ≠ y.id := by
      intro y hy x hx he
      exact (hi.store.unl x hx).1 (he ▸ List.mem_map.mpr ⟨y, hy, rfl⟩)
    refine ⟨?_, ?_, by rw [hu, hc]; exact hk.unl, by rw [hu, hs]; exact hk.uniq, ?_, ?_⟩
    · rw [hit, hs, hu]
      intro key it0 c hm0 hc0 x hx hxid
      rcases mem_setIter.mp hm0 with ⟨h1, _⟩ | h1
      · exact hk.cache key it0 c h1 hc0 x hx hxid
      · injection h1 with _ h3; subst h3
        obtain ⟨y, hy, rfl⟩ := hnew c hc0
        simp only at hxid ⊢
        rcases List.mem_append.mp hx with hx | hx
        · rw [id_unique hi.store.ids hx hy hxid]; exact ⟨rfl, rfl⟩
        · exact absurd hxid (hdisj y hy x hx)
    · rw [hit, hc]
      intro key it0 hm0
      rcases mem_setIter.mp hm0 with ⟨h1, _⟩ | h1
      · exact hk.sn key it0 h1
      · injection h1 with _ h3; subst h3; rw [hsn]; exact hk.sn _ it hm
    · rw [hit, hu]
      intro key it0 c hm0 hc0 hvis x hx hxid
      rcases mem_setIter.mp hm0 with ⟨h1, _⟩ | h1
      · exact hk.gone key it0 c h1 hc0 hvis x hx hxid
      · injection h1 with _ h3; subst h3
        obtain ⟨y, hy, rfl⟩ := hnew c hc0
        exact absurd hxid (hdisj y hy x hx)
    · rw [hit, hs, hu]
      intro key it0 c hm0 hc0
      rcases mem_setIter.mp hm0 with ⟨h1, _⟩ | h1
      · exact hk.somewhere key it0 c h1 hc0
      · injection h1 with _ h3; subst h3
        obtain ⟨y, hy, rfl⟩ := hnew c hc0
        exact Or.inl (List.mem_map.mpr ⟨y, hy, rfl⟩)
  · -- a new iterator
    refine ⟨?_, ?_, by rw [hu, hc]; exact hk.unl, by rw [hu, hs]; exact hk.uniq, ?_, ?_⟩
    · rw [hit, hs, hu]
      intro key it0 c hm0 hc0
      rcases mem_setIter.mp hm0 with ⟨h1, _⟩ | h1
      · exact hk.cache key it0 c h1 hc0
      · injection h1 with _ h3; subst h3; cases hc0
    · rw [hit, hc]
      intro key it0 hm0
      rcases mem_setIter.mp hm0 with ⟨h1, _⟩ | h1
      · exact hk.sn key it0 h1
      · injection h1 with _ h3; subst h3
        simp only; rw [← hxs]; exact hi.store.snaps_lt x hx
    · rw [hit, hu]
      intro key it0 c hm0 hc0
      rcases mem_setIter.mp hm0 with ⟨h1, _⟩ | h1
      · exact hk.gone key it0 c h1 hc0
      · injection h1 with _ h3; subst h3; cases hc0
    · rw [hit, hs, hu]
      intro key it0 c hm0 hc0
      rcases mem_setIter.mp hm0 with ⟨h1, _⟩ | h1
      · exact hk.somewhere key it0 c h1 hc0
      · injection h1 with _ h3; subst h3; cases hc0
  · exact hsub (by rw [hit]; exact fun p hp => (mem_eraseIter.mp hp).1)

theorem iterInv_step {σ : State} (hi : Inv σ) (hk : IterInv σ) (hd : σ.down = false) (a : Act) :
    IterInv (step σ a).1 := by
  obtain ⟨t, hS, hI, hor⟩ := step_shape hi hd a
  rcases hor with h | ⟨h1, h2, h3⟩
  · exact iterInv_of_store hi hk hS h
  · exact iterInv_of_iters hi hk hI h1 h2 h3

theorem iterInv_reachable {fx : Bool} {nw nr : Nat} {σ : State} (hr : ReachableFx fx nw nr σ) : IterInv σ := by
  induction hr with
  | init => exact iterInv_init nw nr fx
  | @step σ a hr ih =>
    by_cases hd : σ.down = true
    · rw [step_down hd]; exact ih
    · have hd0 : σ.down = false := by simpa using hd
      exact iterInv_step (inv_reachable hr hd0) ih hd0 a

end NitroVerif.MvccConc
