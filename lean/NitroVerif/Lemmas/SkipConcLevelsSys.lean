import NitroVerif.Lemmas.SkipConcLevelsIns
/-!
  Index levels of M5, part 8: system level.  `InvL` = the invariants of the level-0 core (`InvR`) + the level
  invariant `LvInv` of the heap + `TL` of every thread + "two threads never link the same node into the index
  levels" + the configuration flag (the code as it is now).  It holds along every run of any number of threads.
-/
namespace NitroVerif.SkipConc
open NitroVerif

/-! ### every segment -/

theorem stepThread_goodL {sh : Shared} {th : Thread} (H : HInv sh.heap) (R : ReachInv sh.heap)
    (L : LvInv sh.heap) (hfix : sh.fixedSucc = true) (hT : TInv sh.heap th) (hL : TL sh.heap sh.level th) :
    GoodL sh.heap th (stepThread sh th) := by
  unfold stepThread
  split
  · exact ⟨.other, .none, trivial, hL⟩
  · rename_i hpc; exact stepNewLevel_goodL _ _ _ hL hpc
  · rename_i hpc; exact stepFindLevel_goodL _ L hL hpc
  · rename_i hpc; exact stepFindNext_goodL _ _ L hT hL hpc
  · rename_i hpc; exact stepHelpDelete_goodL _ _ H hT hL hpc
  · rename_i hpc; exact stepInsPublish_goodL _ _ H hT hL hpc
  · rename_i hpc; exact stepInsUpRead_goodL _ _ _ _ H R hfix hT hL hpc
  · rename_i hpc; exact stepInsUpLink_goodL _ _ _ _ _ H L hT hL hpc
  · rename_i hpc; exact stepSoftMark_goodL _ _ _ _ _ H hT hL hpc
  · exact ⟨.other, .none, trivial, startFind_tl sh th _ _ hL.1 trivial⟩
  · exact stepIterNext_goodL _ hL
  · rename_i hpc; exact stepIterHelp_goodL _ _ H hT hL hpc
  · exact ⟨.other, .none, trivial, startFind_tl sh th _ _ hL.1 trivial⟩

/-! ### the configuration flag is constant -/

theorem enterSoft_fixed (sh : Shared) (th : Thread) (item n i : Nat) (m : Bool) :
    (enterSoft sh th item n i m).1.fixedSucc = sh.fixedSucc := by rw [enterSoft_sh]

theorem finishFind_fixed (sh : Shared) (th : Thread) (item : Nat) (found : Bool) (c : Cont) :
    (finishFind sh th item found c).1.fixedSucc = sh.fixedSucc := by
  cases c <;> simp only [finishFind]
  · split <;> rfl
  · split <;> rfl
  · rfl
  · split
    · rw [enterSoft_sh]
    · rfl
  · split
    · rfl
    · rw [afterNext_sh]

theorem afterRead_fixed (sh : Shared) (th : Thread) (fp : FP) (next : Nat) (d : Bool) :
    (afterRead sh th fp next d).1.fixedSucc = sh.fixedSucc := by
  unfold afterRead
  split
  · rfl
  · simp only []
    split
    · rfl
    · split
      · rfl
      · exact finishFind_fixed ..

theorem helpStats_fixed (sh : Shared) (h' : Heap) (ok : Bool) (l c : Nat) :
    (helpStats sh h' ok l c).fixedSucc = sh.fixedSucc := by
  unfold helpStats; split <;> rfl

theorem stepThread_fixed (sh : Shared) (th : Thread) : (stepThread sh th).1.fixedSucc = sh.fixedSucc := by
  unfold stepThread
  split
  · rfl
  · unfold stepNewLevel; split <;> rfl
  · rfl
  · unfold stepFindNext; exact afterRead_fixed ..
  · unfold stepHelpDelete; simp only []
    split
    · simp only [helpStats_fixed]
    · simp only [bumpReadConflicts, helpStats_fixed]
  · unfold stepInsPublish; simp only []
    split
    · split <;> rfl
    · rfl
  · unfold stepInsUpRead; simp only []
    split
    · rfl
    · split
      · split
        · rw [insCheckSucc_sh]
        · rfl
      · rw [insCheckSucc_sh]
  · unfold stepInsUpLink; simp only []
    split
    · split
      · rfl
      · split <;> rfl
    · rfl
  · unfold stepSoftMark; simp only []
    rw [enterSoft_sh]
    split <;> rfl
  · rfl
  · unfold stepIterNext; simp only []
    split
    · rfl
    · rw [afterNext_sh]
  · unfold stepIterHelp; simp only []
    split
    · rw [afterNext_sh]; simp only [helpStats_fixed]
    · simp only [startFind_sh, bumpReadConflicts, helpStats_fixed]
  · rfl

/-- (robust against new constructors of `Op`: every call entry leaves the flag alone) -/
theorem startOp_fixed (sh : Shared) (th : Thread) (op : Op) : (startOp sh th op).1.fixedSucc = sh.fixedSucc := by
  cases op <;> simp only [startOp] <;> (repeat' split) <;> rfl

/-! ### which node a thread is linking -/

theorem insNode_finishFind {sh : Shared} {th : Thread} {item : Nat} {found : Bool} {c : Cont} {x : Nat}
    (h : insNode (finishFind sh th item found c).2.1.pc = some x) : contNode c = some x := by
  cases c <;> simp only [finishFind] at h
  · split at h <;> simp [insNode] at h
  · split at h <;> simp [insNode] at h
  · exact h
  · exact h
  · simp [insFinished, insNode] at h
  · split at h
    · rw [insNode_enterSoft] at h; simp at h
    · simp [insNode] at h
  · simp [insNode] at h
  · simp [insNode] at h
  · split at h
    · simp [insNode] at h
    · rw [insNode_of_plain (plain_afterNext ..)] at h; simp at h
  · simp [insNode] at h
  · simp [insNode] at h

theorem insNode_afterRead {sh : Shared} {th : Thread} {fp : FP} {next : Nat} {d : Bool} {x : Nat}
    (h : insNode (afterRead sh th fp next d).2.1.pc = some x) : contNode fp.cont = some x := by
  unfold afterRead at h
  split at h
  · exact h
  · simp only [] at h
    split at h
    · exact h
    · split at h
      · exact h
      · exact insNode_finishFind h

theorem insNode_insCheckSucc (sh : Shared) (th : Thread) (item x lvl i next : Nat) :
    insNode (insCheckSucc sh th item x lvl i next).2.1.pc = some x := by
  unfold insCheckSucc; split <;> rfl

/-- after a segment a thread links the node it linked before, or the one it has just published -/
theorem insNode_stepThread {sh : Shared} {th : Thread} {x : Nat}
    (h : insNode (stepThread sh th).2.1.pc = some x) : insNode th.pc = some x ∨ x = sh.heap.length := by
  unfold stepThread at h
  split at h
  · exact .inl h
  · unfold stepNewLevel at h; split at h <;> simp [startFind, insNode, contNode] at h
  · rename_i hpc; rw [hpc]; exact .inl h
  · rename_i fp rr hpc
    rw [hpc]
    unfold stepFindNext at h
    have := insNode_afterRead h
    left
    show contNode fp.cont = some x
    rw [← this]
    split <;> rfl
  · rename_i fp next hpc
    rw [hpc]
    unfold stepHelpDelete at h
    simp only [] at h
    split at h
    · exact .inl h
    · exact .inl h
  · unfold stepInsPublish at h
    simp only [] at h
    split at h
    · split at h
      · simp [insNode] at h; exact .inr h.symm
      · simp [insFinished, insNode] at h
    · simp [startFind, insNode, contNode] at h
  · rename_i item x' lvl i hpc
    rw [hpc]
    unfold stepInsUpRead at h
    simp only [] at h
    split at h
    · simp [insFinished, insNode] at h
    · split at h
      · split at h
        · rw [insNode_insCheckSucc] at h; exact .inl h
        · simp [insFinished, insNode] at h
      · rw [insNode_insCheckSucc] at h; exact .inl h
  · rename_i item x' lvl i next hpc
    rw [hpc]
    unfold stepInsUpLink at h
    simp only [] at h
    split at h
    · split at h
      · simp [startFind, insNode, contNode] at h
      · split at h
        · exact .inl h
        · simp [insFinished, insNode] at h
    · exact .inl h
  · unfold stepSoftMark at h
    simp only [] at h
    rw [insNode_enterSoft] at h; simp at h
  · simp [startFind, insNode, contNode] at h
  · unfold stepIterNext at h
    simp only [] at h
    split at h
    · simp [insNode] at h
    · rw [insNode_of_plain (plain_afterNext ..)] at h; simp at h
  · unfold stepIterHelp at h
    simp only [] at h
    split at h
    · rw [insNode_of_plain (plain_afterNext ..)] at h; simp at h
    · simp [startFind, insNode, contNode] at h
  · simp [stepIterRefresh, startFind, insNode, contNode] at h

theorem insNode_startOp (sh : Shared) (th : Thread) (op : Op) (hidle : th.pc = .idle) :
    insNode (startOp sh th op).2.1.pc = none := by
  cases op <;> simp only [startOp] <;> (repeat' split) <;>
    first
    | rfl
    | (rw [hidle]; rfl)
    | (simp only [Thread.moveIter, Thread.setIter, hidle]; rfl)

/-- the node a thread is linking is published -/
theorem insNode_lt {h : Heap} {th : Thread} {x : Nat} (hT : TInv h th) (hx : insNode th.pc = some x) :
    x < h.length := by
  have hp := hT.2.2
  have key : ∀ (item : Nat) (c : Cont), ContInv h th item c → contNode c = some x → x < h.length := by
    intro item c hc hx
    cases c <;> simp only [contNode, ContInv] at * <;> try (simp at hx)
    · subst hx; exact hc.1
    · subst hx; exact hc.1
  cases hpc : th.pc <;> rw [hpc] at hp hx <;> simp only [insNode, PCInv] at * <;> try (simp at hx)
  · exact key _ _ hp.2.2.2.1 hx
  · exact key _ _ hp.1.2.2.2.1 hx
  · exact key _ _ hp.1.2.2.2.1 hx
  · subst hx; exact hp.1
  · subst hx; exact hp.1

/-! ### call entries -/

theorem startOp_tl {sh : Shared} {th : Thread} (op : Op) (hL : TL sh.heap sh.level th) (hidle : th.pc = .idle) :
    TL sh.heap sh.level (startOp sh th op).2.1 := by
  obtain ⟨bb, _⟩ := hL
  cases op with
  | ins k lvl =>
    simp only [startOp]
    split
    · exact ⟨bb, Nat.le_refl _⟩
    · rename_i hbump
      have hle : Gen.newLevelClamp lvl ≤ sh.level := by
        have : ¬ sh.level < Gen.newLevelClamp lvl := fun c =>
          hbump ((newLevelBump_iff (Gen.newLevelClamp lvl) sh.level).mpr c)
        omega
      exact startFind_tl sh th k _ bb ⟨hle, KeysOK.vacuous _ _ _ _ hle⟩
  | _ =>
    simp only [startOp] <;> (repeat' split) <;>
      first
      | exact startFind_tl sh th _ _ bb trivial
      | exact ⟨bb, trivial⟩
      | exact ⟨bb, by rw [hidle]; trivial⟩
      | exact ⟨bb, by simp only [Thread.moveIter, Thread.setIter, hidle]; trivial⟩

end NitroVerif.SkipConc
