import NitroVerif.Model.VisitPool
/-!
  The Visitor's worker pool: every schedule is finite (`run_length`), the safety invariant `Inv` (every sent shard
  index is in exactly one place: buffer, a busy worker, or the log; `errors` = the failing shards of the log; a
  worker that has returned either failed or saw the channel closed and drained) holds for EVERY capacity, progress
  (`progress`) needs `n ≤ cap`; the sharp version (`progress_sharp`, with the bookkeeping invariant `Acct`) needs
  only `1 ≤ cap` and `n ≤ cap + c`.
-/
namespace NitroVerif.VisitPool

theorem sum_set (l : List WState) (w : Nat) (x y : WState) (h : l[w]? = some y) :
    ((l.set w x).map weight).sum + weight y = (l.map weight).sum + weight x := by
  induction l generalizing w with
  | nil => simp at h
  | cons a r ih =>
    cases w with
    | zero =>
      simp only [List.getElem?_cons_zero, Option.some.injEq] at h
      subst h
      simp only [List.set_cons_zero, List.map_cons, List.sum_cons]
      omega
    | succ w =>
      simp only [List.getElem?_cons_succ] at h
      have := ih w h
      simp only [List.set_cons_succ, List.map_cons, List.sum_cons]
      omega

/-! ### what each enabled action does (inversion of `step`) -/

theorem step_send {fails : Nat → Bool} {n cap : Nat} {st st' : State}
    (h : step fails n cap st .send = some st') :
    st.next < n ∧ st.closed = false ∧ st.chan.length < cap ∧
    st' = { st with next := st.next + 1, chan := st.chan ++ [st.next] } := by
  simp only [step] at h
  split at h
  · rename_i hc
    cases h
    exact ⟨hc.1, hc.2.1, hc.2.2, rfl⟩
  · cases h

theorem step_recv {fails : Nat → Bool} {n cap : Nat} {st st' : State} {w : Nat}
    (h : step fails n cap st (.recv w) = some st') :
    ∃ s rest, st.chan = s :: rest ∧ st.workers[w]? = some .idle ∧
      st' = { st with chan := rest, workers := st.workers.set w (.busy s) } := by
  simp only [step] at h
  split at h
  · rename_i s rest hch
    split at h
    · rename_i hw
      cases h
      exact ⟨s, rest, hch, hw, rfl⟩
    · cases h
  · cases h

theorem step_finish {fails : Nat → Bool} {n cap : Nat} {st st' : State} {w : Nat}
    (h : step fails n cap st (.finish w) = some st') :
    ∃ s, st.workers[w]? = some (.busy s) ∧
      ((fails s = true ∧ st' = { st with workers := st.workers.set w .done, errors := st.errors.set s true,
                                         log := st.log ++ [(w, s)] }) ∨
       (fails s = false ∧ st' = { st with workers := st.workers.set w .idle, log := st.log ++ [(w, s)] })) := by
  simp only [step] at h
  split at h
  · rename_i s hw
    split at h
    · rename_i hf
      cases h
      exact ⟨s, hw, Or.inl ⟨hf, rfl⟩⟩
    · rename_i hf
      cases h
      exact ⟨s, hw, Or.inr ⟨by simpa using hf, rfl⟩⟩
  · cases h

theorem step_close {fails : Nat → Bool} {n cap : Nat} {st st' : State}
    (h : step fails n cap st .close = some st') :
    st.next = n ∧ st.closed = false ∧ st' = { st with closed := true } := by
  simp only [step] at h
  split at h
  · rename_i hc
    cases h
    exact ⟨hc.1, hc.2, rfl⟩
  · cases h

theorem step_exit {fails : Nat → Bool} {n cap : Nat} {st st' : State} {w : Nat}
    (h : step fails n cap st (.exit w) = some st') :
    st.closed = true ∧ st.chan = [] ∧ st.workers[w]? = some .idle ∧
      st' = { st with workers := st.workers.set w .done } := by
  simp only [step] at h
  split at h
  · rename_i hc
    cases h
    exact ⟨hc.1, hc.2.1, hc.2.2, rfl⟩
  · cases h

/-! ### termination -/

/-- every step makes the measure smaller, whatever the capacity -/
theorem step_measure {fails : Nat → Bool} {n cap : Nat} {st st' : State} {a : Action}
    (h : step fails n cap st a = some st') : measure n st' < measure n st := by
  cases a with
  | send =>
    obtain ⟨h1, _, _, rfl⟩ := step_send h
    simp only [measure, List.length_append, List.length_cons, List.length_nil]
    omega
  | recv w =>
    obtain ⟨s, rest, hch, hw, rfl⟩ := step_recv h
    have := sum_set st.workers w (.busy s) .idle hw
    simp only [measure, weight, hch, List.length_cons] at this ⊢
    omega
  | finish w =>
    obtain ⟨s, hw, ⟨_, rfl⟩ | ⟨_, rfl⟩⟩ := step_finish h
    · have := sum_set st.workers w .done (.busy s) hw
      simp only [measure, weight] at this ⊢
      omega
    · have := sum_set st.workers w .idle (.busy s) hw
      simp only [measure, weight] at this ⊢
      omega
  | close =>
    obtain ⟨_, hcl, rfl⟩ := step_close h
    simp only [measure, hcl]
    simp
  | exit w =>
    obtain ⟨_, _, hw, rfl⟩ := step_exit h
    have := sum_set st.workers w .done .idle hw
    simp only [measure, weight] at this ⊢
    omega

/-- every executable schedule is at most as long as the measure of its start -/
theorem run_length {fails : Nat → Bool} {n cap : Nat} (sched : List Action) (st st' : State)
    (h : run fails n cap st sched = some st') : sched.length + measure n st' ≤ measure n st := by
  induction sched generalizing st with
  | nil => simp only [run, Option.some.injEq] at h; subst h; simp
  | cons a r ih =>
    simp only [run] at h
    cases hs : step fails n cap st a with
    | none => rw [hs] at h; cases h
    | some s1 =>
      rw [hs] at h
      have := ih s1 h
      have := step_measure hs
      simp only [List.length_cons]
      omega

/-- the bound, explicitly: `3n + 1 + c` steps -/
theorem measure_init (n c : Nat) : measure n (init n c) = 3 * n + 1 + c := by
  simp only [measure, init, Nat.sub_zero]
  have : ((List.replicate c WState.idle).map weight).sum = c := by
    induction c with
    | zero => rfl
    | succ c ih => simp only [List.replicate_succ, List.map_cons, List.sum_cons, ih, weight]; omega
  rw [this]; simp

/-! ### the safety invariant (independent of the capacity) -/

structure Inv (fails : Nat → Bool) (n c : Nat) (st : State) : Prop where
  /-- the dispatcher never overruns -/
  next_le : st.next ≤ n
  /-- the channel is closed only after the last send -/
  closed_next : st.closed = true → st.next = n
  /-- the buffer never holds more than what was sent -/
  chan_le : st.chan.length ≤ st.next
  nworkers : st.workers.length = c
  nerrors : st.errors.length = n
  /-- every index sent so far is in exactly one place — the buffer, a busy worker, or the log — exactly once;
      an index not sent yet is nowhere -/
  once : ∀ s, st.chan.count s + st.workers.count (.busy s) + (processed st).count s
              = if s < st.next then 1 else 0
  /-- `errors[s]` is set exactly for the shards that a worker has been through and that fail -/
  errs : ∀ s, st.errors[s]? = some true ↔ (s ∈ processed st ∧ fails s = true)
  /-- a worker that has returned either hit a failing shard or saw the channel closed and drained -/
  gone : ∀ w, st.workers[w]? = some .done →
              (∃ s, (w, s) ∈ st.log ∧ fails s = true) ∨ (st.chan = [] ∧ st.closed = true)
  /-- the log only names workers of the pool -/
  logw : ∀ e ∈ st.log, e.1 < c

theorem inv_init (fails : Nat → Bool) (n c : Nat) : Inv fails n c (init n c) where
  next_le := Nat.zero_le _
  closed_next := by simp [init]
  chan_le := by simp [init]
  nworkers := by simp [init]
  nerrors := by simp [init]
  once := by intro s; simp [init, processed, List.count_replicate]
  errs := by
    intro s
    simp only [init, processed, List.map_nil, List.not_mem_nil, false_and, iff_false]
    intro h
    have := List.mem_of_getElem? h
    simp at this
  gone := by
    intro w h
    have := List.mem_of_getElem? h
    simp [init] at this
  logw := by simp [init]

theorem busy_count_pos {l : List WState} {w s : Nat} (h : l[w]? = some (.busy s)) :
    0 < l.count (.busy s) := List.count_pos_iff.mpr (List.mem_of_getElem? h)

theorem lt_length_of_getElem? {α : Type} {l : List α} {w : Nat} {x : α} (h : l[w]? = some x) :
    w < l.length := by
  apply Classical.byContradiction
  intro hn
  rw [List.getElem?_eq_none (by omega)] at h
  cases h

theorem count_set_of {l : List WState} {w : Nat} {x y z : WState} (h : l[w]? = some y) :
    (l.set w x).count z = (l.count z - if y = z then 1 else 0) + if x = z then 1 else 0 := by
  have hw := lt_length_of_getElem? h
  rw [List.count_set hw]
  have : l[w] = y := by
    rw [List.getElem?_eq_getElem hw] at h
    exact Option.some.inj h
  rw [this]
  simp only [beq_iff_eq]

theorem inv_step {fails : Nat → Bool} {n cap c : Nat} {st st' : State} {a : Action}
    (hi : Inv fails n c st) (h : step fails n cap st a = some st') : Inv fails n c st' := by
  cases a with
  | send =>
    obtain ⟨h1, hcl, _, rfl⟩ := step_send h
    refine ⟨by simp only; omega, ?_, ?_, hi.nworkers, hi.nerrors, ?_, hi.errs, ?_, hi.logw⟩
    · intro hc; simp only at hc; rw [hcl] at hc; cases hc
    · have := hi.chan_le
      simp only [List.length_append, List.length_cons, List.length_nil]; omega
    · intro s
      have := hi.once s
      simp only [processed, List.count_append, List.count_cons, List.count_nil, beq_iff_eq] at this ⊢
      by_cases hs : st.next = s
      · subst hs; simp only [if_true] at this ⊢
        simp only [Nat.lt_irrefl, if_false] at this
        simp only [Nat.lt_succ_self, if_true]; omega
      · simp only [hs, if_false]
        by_cases h2 : s < st.next
        · have : s < st.next + 1 := by omega
          simp_all
        · have : ¬ s < st.next + 1 := by omega
          simp_all
    · intro w hw
      rcases hi.gone w hw with hg | ⟨_, hg⟩
      · exact Or.inl hg
      · rw [hcl] at hg; cases hg
  | recv w =>
    obtain ⟨s, rest, hch, hw, rfl⟩ := step_recv h
    refine ⟨hi.next_le, hi.closed_next, ?_, by simpa using hi.nworkers, hi.nerrors, ?_, hi.errs, ?_, hi.logw⟩
    · have := hi.chan_le
      simp only [hch, List.length_cons] at this ⊢; omega
    · intro s'
      have := hi.once s'
      simp only [processed, hch, List.count_cons, beq_iff_eq] at this ⊢
      rw [count_set_of hw]
      simp only [reduceCtorEq, if_false, WState.busy.injEq, Nat.sub_zero]
      omega
    · intro w' hw'
      simp only [List.getElem?_set] at hw'
      split at hw'
      · split at hw' <;> cases hw'
      · rcases hi.gone w' hw' with hg | ⟨hg, _⟩
        · exact Or.inl hg
        · rw [hch] at hg; cases hg
  | finish w =>
    obtain ⟨s, hw, ⟨hf, rfl⟩ | ⟨hf, rfl⟩⟩ := step_finish h
    · -- the callback failed on shard s: errors[s] = err; return
      have hpos := busy_count_pos hw
      have hsn : s < n := by
        have := hi.once s
        have := hi.next_le
        split at * <;> omega
      refine ⟨hi.next_le, hi.closed_next, hi.chan_le, by simpa using hi.nworkers, by simpa using hi.nerrors,
        ?_, ?_, ?_, ?_⟩
      · intro s'
        have := hi.once s'
        simp only [processed, List.map_append, List.map_cons, List.map_nil, List.count_append, List.count_cons,
          List.count_nil, beq_iff_eq] at this ⊢
        rw [count_set_of hw]
        simp only [reduceCtorEq, if_false, WState.busy.injEq, Nat.add_zero]
        by_cases hs : s = s'
        · subst hs; simp only [if_true]; omega
        · simp only [hs, if_false]; omega
      · intro s'
        simp only [processed, List.map_append, List.map_cons, List.map_nil, List.mem_append, List.mem_singleton,
          List.getElem?_set]
        have := hi.errs s'
        simp only [processed] at this
        by_cases hs : s = s'
        · subst hs
          simp only [if_true, hi.nerrors, hsn, hf, or_true, and_self]
        · simp only [hs, if_false]
          rw [this]
          constructor
          · rintro ⟨h1, h2⟩; exact ⟨Or.inl h1, h2⟩
          · rintro ⟨h1 | h1, h2⟩
            · exact ⟨h1, h2⟩
            · exact absurd h1.symm hs
      · intro w' hw'
        simp only [List.getElem?_set] at hw'
        by_cases hww : w = w'
        · subst hww
          exact Or.inl ⟨s, by simp, hf⟩
        · simp only [hww, if_false] at hw'
          rcases hi.gone w' hw' with ⟨s0, hs0, hf0⟩ | hg
          · exact Or.inl ⟨s0, by simp [hs0], hf0⟩
          · exact Or.inr hg
      · intro e he
        simp only [List.mem_append, List.mem_singleton] at he
        rcases he with he | rfl
        · exact hi.logw e he
        · have := lt_length_of_getElem? hw
          have := hi.nworkers
          simp only; omega
    · -- the shard went through without error: the worker receives again
      have hpos := busy_count_pos hw
      refine ⟨hi.next_le, hi.closed_next, hi.chan_le, by simpa using hi.nworkers, hi.nerrors, ?_, ?_, ?_, ?_⟩
      · intro s'
        have := hi.once s'
        simp only [processed, List.map_append, List.map_cons, List.map_nil, List.count_append, List.count_cons,
          List.count_nil, beq_iff_eq] at this ⊢
        rw [count_set_of hw]
        simp only [reduceCtorEq, if_false, WState.busy.injEq, Nat.add_zero]
        by_cases hs : s = s'
        · subst hs; simp only [if_true]; omega
        · simp only [hs, if_false]; omega
      · intro s'
        simp only [processed, List.map_append, List.map_cons, List.map_nil, List.mem_append, List.mem_singleton]
        have := hi.errs s'
        simp only [processed] at this
        rw [this]
        constructor
        · rintro ⟨h1, h2⟩; exact ⟨Or.inl h1, h2⟩
        · rintro ⟨h1 | h1, h2⟩
          · exact ⟨h1, h2⟩
          · subst h1; rw [hf] at h2; cases h2
      · intro w' hw'
        simp only [List.getElem?_set] at hw'
        by_cases hww : w = w'
        · subst hww
          simp only [if_true] at hw'
          split at hw' <;> cases hw'
        · simp only [hww, if_false] at hw'
          rcases hi.gone w' hw' with ⟨s0, hs0, hf0⟩ | hg
          · exact Or.inl ⟨s0, by simp [hs0], hf0⟩
          · exact Or.inr hg
      · intro e he
        simp only [List.mem_append, List.mem_singleton] at he
        rcases he with he | rfl
        · exact hi.logw e he
        · have := lt_length_of_getElem? hw
          have := hi.nworkers
          simp only; omega
  | close =>
    obtain ⟨hn, hcl, rfl⟩ := step_close h
    refine ⟨hi.next_le, fun _ => hn, hi.chan_le, hi.nworkers, hi.nerrors, hi.once, hi.errs, ?_, hi.logw⟩
    intro w hw
    rcases hi.gone w hw with hg | ⟨hg, _⟩
    · exact Or.inl hg
    · exact Or.inr ⟨hg, rfl⟩
  | exit w =>
    obtain ⟨hcl, hch, hw, rfl⟩ := step_exit h
    refine ⟨hi.next_le, hi.closed_next, hi.chan_le, by simpa using hi.nworkers, hi.nerrors, ?_, hi.errs, ?_,
      hi.logw⟩
    · intro s'
      have := hi.once s'
      simp only [processed] at this ⊢
      rw [count_set_of hw]
      simp only [reduceCtorEq, if_false, Nat.sub_zero, Nat.add_zero]
      exact this
    · intro w' hw'
      simp only [List.getElem?_set] at hw'
      by_cases hww : w = w'
      · exact Or.inr ⟨hch, hcl⟩
      · simp only [hww, if_false] at hw'
        exact hi.gone w' hw'

theorem inv_run {fails : Nat → Bool} {n cap c : Nat} (sched : List Action) (st st' : State)
    (hi : Inv fails n c st) (h : run fails n cap st sched = some st') : Inv fails n c st' := by
  induction sched generalizing st with
  | nil => simp only [run, Option.some.injEq] at h; subst h; exact hi
  | cons a r ih =>
    simp only [run] at h
    cases hs : step fails n cap st a with
    | none => rw [hs] at h; cases h
    | some s1 => rw [hs] at h; exact ih s1 (inv_step hi hs) h

/-! ### progress (needs room in the buffer for every shard index) -/

/-- a state that is not final has an enabled action, provided the channel holds every shard index -/
theorem progress {fails : Nat → Bool} {n cap c : Nat} (hcap : n ≤ cap) {st : State} (hi : Inv fails n c st) :
    final n st ∨ ∃ a st', step fails n cap st a = some st' := by
  cases hcl : st.closed with
  | false =>
    by_cases hn : st.next = n
    · exact Or.inr ⟨.close, { st with closed := true }, by simp [step, hn, hcl]⟩
    · have hlt : st.next < n := by have := hi.next_le; omega
      have hroom : st.chan.length < cap := by have := hi.chan_le; omega
      exact Or.inr ⟨.send, { st with next := st.next + 1, chan := st.chan ++ [st.next] },
        by simp [step, hlt, hcl, hroom]⟩
  | true =>
    by_cases hall : ∀ w ∈ st.workers, w = .done
    · exact Or.inl ⟨hi.closed_next hcl, hcl, hall⟩
    · have : ∃ w ∈ st.workers, w ≠ .done := by
        apply Classical.byContradiction
        intro hno
        apply hall
        intro w hw
        apply Classical.byContradiction
        intro hd
        exact hno ⟨w, hw, hd⟩
      obtain ⟨x, hx, hxd⟩ := this
      obtain ⟨w, hw, hget⟩ := List.getElem_of_mem hx
      cases x with
      | done => exact absurd rfl hxd
      | idle =>
        cases hch : st.chan with
        | nil =>
          exact Or.inr ⟨.exit w, { st with workers := st.workers.set w .done },
            by simp [step, hcl, hch, List.getElem?_eq_getElem hw, hget]⟩
        | cons s rest =>
          exact Or.inr ⟨.recv w, { st with chan := rest, workers := st.workers.set w (.busy s) },
            by simp [step, hch, List.getElem?_eq_getElem hw, hget]⟩
      | busy s =>
        cases hf : fails s with
        | true =>
          exact Or.inr ⟨.finish w, _, by simp only [step, List.getElem?_eq_getElem hw, hget, hf]; rfl⟩
        | false =>
          exact Or.inr ⟨.finish w, _, by simp only [step, List.getElem?_eq_getElem hw, hget, hf]; rfl⟩

/-! ### what the invariant says about the result -/

/-- no shard is ever processed twice -/
theorem processed_count_le_one {fails : Nat → Bool} {n c : Nat} {st : State} (hi : Inv fails n c st) (s : Nat) :
    (processed st).count s ≤ 1 := by
  have := hi.once s
  split at this <;> omega

/-- only shard indexes that were sent are processed -/
theorem processed_lt {fails : Nat → Bool} {n c : Nat} {st : State} (hi : Inv fails n c st) {s : Nat}
    (hs : s ∈ processed st) : s < n := by
  have := hi.once s
  have := hi.next_le
  have := List.count_pos_iff.mpr hs
  split at * <;> omega

theorem final_no_busy {n : Nat} {st : State} (hf : final n st) (s : Nat) : st.workers.count (.busy s) = 0 := by
  rw [List.count_eq_zero]
  intro hm
  have := hf.2.2 _ hm
  cases this

/-- in a final state every shard index is either still in the buffer or processed, exactly once -/
theorem final_partition {fails : Nat → Bool} {n c : Nat} {st : State} (hi : Inv fails n c st) (hf : final n st)
    {s : Nat} (hs : s < n) : st.chan.count s + (processed st).count s = 1 := by
  have := hi.once s
  rw [final_no_busy hf, hf.1, if_pos hs] at this
  omega

/-- Visitor returns nil iff no shard that was processed fails -/
theorem result_none_iff {fails : Nat → Bool} {n c : Nat} {st : State} (hi : Inv fails n c st) :
    result st = none ↔ ∀ s ∈ processed st, fails s = false := by
  simp only [result, List.findIdx?_eq_none_iff]
  constructor
  · intro h s hs
    cases hf : fails s with
    | false => rfl
    | true =>
      have := List.mem_of_getElem? ((hi.errs s).mpr ⟨hs, hf⟩)
      have := h _ this
      cases this
  · intro h x hx
    cases x with
    | false => rfl
    | true =>
      obtain ⟨i, hi'⟩ := List.getElem?_of_mem hx
      obtain ⟨h1, h2⟩ := (hi.errs i).mp hi'
      rw [h _ h1] at h2; cases h2

/-- Visitor returns the error of the LEAST processed failing shard -/
theorem result_some_iff {fails : Nat → Bool} {n c : Nat} {st : State} (hi : Inv fails n c st) (s : Nat) :
    result st = some s ↔
      (s ∈ processed st ∧ fails s = true ∧ ∀ s', s' < s → ¬ (s' ∈ processed st ∧ fails s' = true)) := by
  simp only [result, List.findIdx?_eq_some_iff_getElem]
  constructor
  · rintro ⟨hlt, hs, hmin⟩
    have h1 : st.errors[s]? = some true := by rw [List.getElem?_eq_getElem hlt, hs]
    obtain ⟨hp, hf⟩ := (hi.errs s).mp h1
    refine ⟨hp, hf, ?_⟩
    intro s' hs' hpf
    have h2 := (hi.errs s').mpr hpf
    have hlt' : s' < st.errors.length := by omega
    rw [List.getElem?_eq_getElem hlt'] at h2
    exact hmin s' hs' (Option.some.inj h2)
  · rintro ⟨hp, hf, hmin⟩
    have h1 := (hi.errs s).mpr ⟨hp, hf⟩
    have hlt := lt_length_of_getElem? h1
    refine ⟨hlt, ?_, ?_⟩
    · rw [List.getElem?_eq_getElem hlt] at h1
      exact Option.some.inj h1
    · intro j hj hje
      have hlt' : j < st.errors.length := by omega
      have : st.errors[j]? = some true := by rw [List.getElem?_eq_getElem hlt', hje]
      exact hmin j hj ((hi.errs j).mp this)

/-- a shard with exactly one log entry was processed by exactly one worker -/
theorem unique_worker (l : List (Nat × Nat)) (s : Nat) (h : (l.map Prod.snd).count s = 1) :
    ∃ w, (w, s) ∈ l ∧ ∀ w', (w', s) ∈ l → w' = w := by
  induction l with
  | nil => simp at h
  | cons e r ih =>
    obtain ⟨a, b⟩ := e
    simp only [List.map_cons, List.count_cons, beq_iff_eq] at h
    by_cases hb : b = s
    · subst hb
      simp only [if_true] at h
      have h0 : (r.map Prod.snd).count b = 0 := by omega
      rw [List.count_eq_zero] at h0
      refine ⟨a, by simp, ?_⟩
      intro w' hw'
      simp only [List.mem_cons, Prod.mk.injEq] at hw'
      rcases hw' with ⟨h1, _⟩ | h1
      · exact h1
      · exact absurd (List.mem_map.mpr ⟨(w', b), h1, rfl⟩) h0
    · simp only [hb, if_false, Nat.add_zero] at h
      obtain ⟨w, hw, hu⟩ := ih h
      refine ⟨w, List.mem_cons_of_mem _ hw, ?_⟩
      intro w' hw'
      simp only [List.mem_cons, Prod.mk.injEq] at hw'
      rcases hw' with ⟨_, h1⟩ | h1
      · exact absurd h1.symm hb
      · exact hu w' h1

/-! ### the sharp bound: `n ≤ cap + c` is enough (each of the `c` workers can take one index out of the way
   before it leaves) -/

def busyW : WState → Nat
  | .busy _ => 1
  | _ => 0

def doneW : WState → Nat
  | .done => 1
  | _ => 0

theorem sum_set_f (f : WState → Nat) (l : List WState) (w : Nat) (x y : WState) (h : l[w]? = some y) :
    ((l.set w x).map f).sum + f y = (l.map f).sum + f x := by
  induction l generalizing w with
  | nil => simp at h
  | cons a r ih =>
    cases w with
    | zero =>
      simp only [List.getElem?_cons_zero, Option.some.injEq] at h
      subst h
      simp only [List.set_cons_zero, List.map_cons, List.sum_cons]
      omega
    | succ w =>
      simp only [List.getElem?_cons_succ] at h
      have := ih w h
      simp only [List.set_cons_succ, List.map_cons, List.sum_cons]
      omega

/-- bookkeeping: every index sent is in the buffer, with a busy worker, or in the log; and while the channel is
    open a worker can only have returned by logging a (failing) shard -/
structure Acct (st : State) : Prop where
  acct : st.chan.length + (st.workers.map busyW).sum + st.log.length = st.next
  left : st.closed = false → (st.workers.map doneW).sum ≤ st.log.length

theorem sum_replicate_idle (f : WState → Nat) (hf : f .idle = 0) (c : Nat) :
    ((List.replicate c WState.idle).map f).sum = 0 := by
  induction c with
  | zero => rfl
  | succ c ih => simp only [List.replicate_succ, List.map_cons, List.sum_cons, ih, hf]

theorem acct_init (n c : Nat) : Acct (init n c) where
  acct := by simp only [init, sum_replicate_idle busyW rfl, List.length_nil]
  left := by intro _; simp only [init, sum_replicate_idle doneW rfl, List.length_nil]; omega

theorem acct_step {fails : Nat → Bool} {n cap : Nat} {st st' : State} {a : Action}
    (hi : Acct st) (h : step fails n cap st a = some st') : Acct st' := by
  obtain ⟨h1, h2⟩ := hi
  cases a with
  | send =>
    obtain ⟨_, _, _, rfl⟩ := step_send h
    refine ⟨?_, h2⟩
    simp only [List.length_append, List.length_cons, List.length_nil]
    omega
  | recv w =>
    obtain ⟨s, rest, hch, hw, rfl⟩ := step_recv h
    have hb := sum_set_f busyW st.workers w (.busy s) .idle hw
    have hd := sum_set_f doneW st.workers w (.busy s) .idle hw
    simp only [busyW, doneW, hch, List.length_cons] at hb hd h1 h2
    refine ⟨?_, ?_⟩
    · simp only; omega
    · intro hc; have := h2 hc; simp only; omega
  | finish w =>
    obtain ⟨s, hw, ⟨_, rfl⟩ | ⟨_, rfl⟩⟩ := step_finish h
    · have hb := sum_set_f busyW st.workers w .done (.busy s) hw
      have hd := sum_set_f doneW st.workers w .done (.busy s) hw
      simp only [busyW, doneW] at hb hd
      refine ⟨?_, ?_⟩
      · simp only [List.length_append, List.length_cons, List.length_nil]; omega
      · intro hc; have := h2 hc; simp only [List.length_append, List.length_cons, List.length_nil]; omega
    · have hb := sum_set_f busyW st.workers w .idle (.busy s) hw
      have hd := sum_set_f doneW st.workers w .idle (.busy s) hw
      simp only [busyW, doneW] at hb hd
      refine ⟨?_, ?_⟩
      · simp only [List.length_append, List.length_cons, List.length_nil]; omega
      · intro hc; have := h2 hc; simp only [List.length_append, List.length_cons, List.length_nil]; omega
  | close =>
    obtain ⟨_, _, rfl⟩ := step_close h
    exact ⟨h1, fun hc => by cases hc⟩
  | exit w =>
    obtain ⟨hcl, _, hw, rfl⟩ := step_exit h
    have hb := sum_set_f busyW st.workers w .done .idle hw
    simp only [busyW] at hb
    refine ⟨by simp only; omega, ?_⟩
    intro hc
    simp only at hc
    rw [hcl] at hc; cases hc

theorem acct_run {fails : Nat → Bool} {n cap : Nat} (sched : List Action) (st st' : State)
    (hi : Acct st) (h : run fails n cap st sched = some st') : Acct st' := by
  induction sched generalizing st with
  | nil => simp only [run, Option.some.injEq] at h; subst h; exact hi
  | cons a r ih =>
    simp only [run] at h
    cases hs : step fails n cap st a with
    | none => rw [hs] at h; cases h
    | some s1 => rw [hs] at h; exact ih s1 (acct_step hi hs) h

theorem sum_all_done (l : List WState) (h : ∀ w ∈ l, w = .done) : (l.map doneW).sum = l.length := by
  induction l with
  | nil => rfl
  | cons a r ih =>
    have ha := h a (by simp)
    subst ha
    simp only [List.map_cons, List.sum_cons, List.length_cons, doneW,
      ih (fun w hw => h w (List.mem_cons_of_mem _ hw))]
    omega

/-- a worker that has not returned can move when the buffer is non-empty or the channel closed -/
theorem undone_enabled {fails : Nat → Bool} {n cap : Nat} {st : State} {x : WState} (hx : x ∈ st.workers)
    (hxd : x ≠ .done) (hch : st.chan ≠ [] ∨ st.closed = true) : ∃ a st', step fails n cap st a = some st' := by
  obtain ⟨w, hw, hget⟩ := List.getElem_of_mem hx
  cases x with
  | done => exact absurd rfl hxd
  | idle =>
    cases hc : st.chan with
    | nil =>
      rcases hch with hch | hcl
      · exact absurd hc hch
      · exact ⟨.exit w, { st with workers := st.workers.set w .done },
          by simp [step, hcl, hc, List.getElem?_eq_getElem hw, hget]⟩
    | cons s rest =>
      exact ⟨.recv w, { st with chan := rest, workers := st.workers.set w (.busy s) },
        by simp [step, hc, List.getElem?_eq_getElem hw, hget]⟩
  | busy s =>
    cases hf : fails s with
    | true => exact ⟨.finish w, _, by simp only [step, List.getElem?_eq_getElem hw, hget, hf]; rfl⟩
    | false => exact ⟨.finish w, _, by simp only [step, List.getElem?_eq_getElem hw, hget, hf]; rfl⟩

theorem exists_undone {l : List WState} (hall : ¬ ∀ w ∈ l, w = .done) : ∃ w ∈ l, w ≠ .done := by
  apply Classical.byContradiction
  intro hno
  apply hall
  intro w hw
  apply Classical.byContradiction
  intro hd
  exact hno ⟨w, hw, hd⟩

/-- progress under the sharp bound: a buffered channel (`cap ≥ 1`) with `n ≤ cap + c` -/
theorem progress_sharp {fails : Nat → Bool} {n cap c : Nat} (hcap1 : 0 < cap) (hcap : n ≤ cap + c) {st : State}
    (hi : Inv fails n c st) (ha : Acct st) : final n st ∨ ∃ a st', step fails n cap st a = some st' := by
  cases hcl : st.closed with
  | false =>
    by_cases hn : st.next = n
    · exact Or.inr ⟨.close, { st with closed := true }, by simp [step, hn, hcl]⟩
    · have hlt : st.next < n := by have := hi.next_le; omega
      by_cases hroom : st.chan.length < cap
      · exact Or.inr ⟨.send, { st with next := st.next + 1, chan := st.chan ++ [st.next] },
          by simp [step, hlt, hcl, hroom]⟩
      · by_cases hall : ∀ w ∈ st.workers, w = .done
        · -- every worker has returned, each on a logged shard; with the full buffer that is `cap + c ≥ n` indexes
          have h1 := sum_all_done _ hall
          have h2 := ha.left hcl
          have h3 := ha.acct
          have h4 := hi.nworkers
          omega
        · obtain ⟨x, hx, hxd⟩ := exists_undone hall
          have hne : st.chan ≠ [] := by
            intro he; rw [he] at hroom; simp at hroom; omega
          exact Or.inr (undone_enabled hx hxd (Or.inl hne))
  | true =>
    by_cases hall : ∀ w ∈ st.workers, w = .done
    · exact Or.inl ⟨hi.closed_next hcl, hcl, hall⟩
    · obtain ⟨x, hx, hxd⟩ := exists_undone hall
      exact Or.inr (undone_enabled hx hxd (Or.inr hcl))

/-- in a final state with unprocessed shards left in the buffer, every worker has left on a callback error -/
theorem final_leftover {fails : Nat → Bool} {n c : Nat} {st : State} (hi : Inv fails n c st) (hf : final n st)
    (hch : st.chan ≠ []) {w : Nat} (hw : w < c) : ∃ s, (w, s) ∈ st.log ∧ fails s = true := by
  have hlt : w < st.workers.length := by rw [hi.nworkers]; exact hw
  have hd : st.workers[w]? = some .done := by
    rw [List.getElem?_eq_getElem hlt, hf.2.2 _ (List.getElem_mem hlt)]
  rcases hi.gone w hd with hg | ⟨hg, _⟩
  · exact hg
  · exact absurd hg hch

end NitroVerif.VisitPool
