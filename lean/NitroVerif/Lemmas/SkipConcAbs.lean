import NitroVerif.Lemmas.SkipConcRefine
/-!
  What each transition of the level-0 core does to the abstract set (nodes unmarked at level 0), and small
  facts about iterators and outputs used by the property files.
-/
namespace NitroVerif.SkipConc
open NitroVerif

/-- `none`, `upper` and `unlink` leave the abstract set alone -/
theorem HStep.frame {h h' : Heap} {ev : Event} (s : HStep h ev h')
    (hev : ev = .none ∨ ev = .upper ∨ ∃ c, ev = .unlink c) :
    h'.length = h.length ∧ ∀ n, unmarked0 h' n ↔ unmarked0 h n := by
  cases s with
  | none => exact ⟨rfl, fun _ => Iff.rfl⟩
  | upper w hl hw =>
    refine ⟨length_setWord .., fun n => ?_⟩
    simp only [unmarked0, word0_upper _ w hl]
  | @unlink prev curr next hp hc =>
    refine ⟨length_setWord .., fun n => ?_⟩
    simp only [unmarked0, word0_set0 h hp]
    by_cases hn : n = prev
    · subst hn; simp [hp]
    · simp [hn]
  | mark hw => simp at hev
  | publish k nd hw => simp at hev

theorem HStep.mark_spec {h h' : Heap} {n : Nat} (s : HStep h (.mark n) h') :
    h'.length = h.length ∧ unmarked0 h n ∧ marked0 h' n ∧ ∀ m, m ≠ n → (unmarked0 h' m ↔ unmarked0 h m) := by
  cases s with
  | @mark _ e hw =>
    refine ⟨length_setWord .., ⟨e, hw⟩, ⟨e, by rw [word0_set0 h hw]; simp⟩, fun m hm => ?_⟩
    simp only [unmarked0, word0_set0 h hw, if_neg hm]

theorem HStep.publish_spec {h h' : Heap} {x k : Nat} (H : HInv h) (R : ReachInv h) (s : HStep h (.publish x k) h') :
    x = h.length ∧ h'.length = h.length + 1 ∧ keyOf h' x = .fin k ∧ unmarked0 h' x ∧
    (∀ n, n ≠ x → (unmarked0 h' n ↔ unmarked0 h n)) ∧
    (∀ n, unmarked0 h n → keyOf h n ≠ .fin k) := by
  cases s with
  | @publish p c _ nd hw hnd hk hk1 hk2 =>
    have hp := word?_lt hw
    refine ⟨rfl, by simp [length_setWord], ?_, ?_, ?_, ?_⟩
    · have := keyOf_append_new (setWord h p 0 (h.length, false)) nd
      rw [length_setWord] at this
      rw [this, hk]
    · exact ⟨c, by rw [word0_publish h hw, if_neg (by omega), if_pos rfl]; exact hnd⟩
    · intro n hn
      simp only [unmarked0, word0_publish h hw, if_neg hn]
      by_cases hnp : n = p
      · subst hnp; simp [hw]
      · simp [hnp]
    · intro n hn hkn
      exact gap_empty H R hw hn (by rw [hkn]; exact hk1) (by rw [hkn]; exact hk2)

/-! ### iterators -/

theorem retBool_true {b : Bool} (h : retBool b = "ret true") : b = true := by
  cases b
  · simp [retBool] at h
  · rfl

theorem retBool_false {b : Bool} (h : retBool b = "ret false") : b = false := by
  cases b
  · rfl
  · simp [retBool] at h

/-! ### reads and iterator positions -/

/-- the end of Next (count, refresh test) does not move the cursor -/
theorem afterNext_pos (sh : Shared) (th : Thread) (it : Nat) :
    ((afterNext sh th it).2.1.iter it).prev = (th.iter it).prev ∧
    ((afterNext sh th it).2.1.iter it).curr = (th.iter it).curr := by
  unfold afterNext
  simp only []
  split
  · split
    · rw [iter_eq_of_iters (th' := { th.setIter it _ with pc := _ }) (l := th.iters) rfl]; exact ⟨rfl, rfl⟩
    · rw [iter_eq_of_iters (th' := { th.setIter it _ with pc := _ }) (l := th.iters) rfl]; exact ⟨rfl, rfl⟩
  · rw [iter_eq_of_iters (th' := { th.setIter it _ with pc := _ }) (l := th.iters) rfl]; exact ⟨rfl, rfl⟩

theorem moveIter_pos (th : Thread) (it p c : Nat) (pc : PC) :
    (({ th.moveIter it p c with pc := pc } : Thread).iter it).prev = p ∧
    (({ th.moveIter it p c with pc := pc } : Thread).iter it).curr = c := by
  have : ({ th.moveIter it p c with pc := pc } : Thread).iter it = (th.moveIter it p c).iter it := rfl
  rw [this, moveIter_iter]; exact ⟨rfl, rfl⟩

/-- findPath's caller `Seek` / `Next` / `Refresh` installs `preds[0]`, `succs[0]` as the iterator's positions -/
theorem finishFind_iter (sh : Shared) (th : Thread) (item : Nat) (found : Bool) (it : Nat) (c : Cont)
    (hc : c = .iterSeek it ∨ c = .iterNext it ∨ c = .iterRefresh it) :
    ((finishFind sh th item found c).2.1.iter it).prev = th.pred 0 ∧
    ((finishFind sh th item found c).2.1.iter it).curr = th.succ 0 := by
  rcases hc with rfl | rfl | rfl
  · simp only [finishFind]
    exact moveIter_pos ..
  · simp only [finishFind]
    split
    · exact moveIter_pos ..
    · have h1 := afterNext_pos sh (th.moveIter it (th.pred 0) (th.succ 0)) it
      rw [moveIter_iter] at h1
      exact h1
  · simp only [finishFind]
    exact moveIter_pos ..

theorem afterRead_iter {sh : Shared} {th : Thread} (fp : FP) (next : Nat) (deleted : Bool) (it : Nat)
    (hb : BufOK sh.heap th.preds th.succs)
    (hc : fp.cont = .iterSeek it ∨ fp.cont = .iterNext it ∨ fp.cont = .iterRefresh it)
    (hret : (afterRead sh th fp next deleted).2.2 ≠ "at HELP_DELETE" ∧
            (afterRead sh th fp next deleted).2.2 ≠ "at FIND_NEXT" ∧
            (afterRead sh th fp next deleted).2.2 ≠ "at FIND_LEVEL") :
    (((afterRead sh th fp next deleted).2.1.iter it).prev = fp.prev ∧
     ((afterRead sh th fp next deleted).2.1.iter it).curr = fp.curr) ∧
    ¬ Gen.findAdvance (compare (keyOf sh.heap fp.curr) (.fin fp.item)) = true := by
  unfold afterRead at hret ⊢
  by_cases hd : deleted = true
  · rw [if_pos hd] at hret; simp at hret
  · rw [if_neg hd] at hret ⊢
    simp only [] at hret ⊢
    by_cases ha : Gen.findAdvance (compare (keyOf sh.heap fp.curr) (.fin fp.item)) = true
    · rw [if_pos ha] at hret; simp at hret
    · rw [if_neg ha] at hret ⊢
      refine ⟨?_, ha⟩
      cases hi : fp.i with
      | succ i => rw [hi] at hret; simp at hret
      | zero =>
        have := finishFind_iter sh { th with preds := th.preds.set 0 fp.prev, succs := th.succs.set 0 fp.curr }
          fp.item (Gen.findFound (compare (keyOf sh.heap fp.curr) (Key.fin fp.item))) it _ hc
        simp only [Thread.pred, Thread.succ] at this
        rw [getD_set_self hb.1, getD_set_self hb.2.1] at this
        exact this

/-- outcome of findPath's last read: a `found` answer was taken from a node that is, in this very state, in the
    abstract set and carries the item -/
theorem found_present {sh : Shared} (H : HInv sh.heap) {c : Nat} {item : Nat}
    (hd : (getNext sh.heap c 0).2 = false) (hf : Gen.findFound (compare (keyOf sh.heap c) (.fin item)) = true) :
    unmarked0 sh.heap c ∧ keyOf sh.heap c = .fin item := by
  have hk : keyOf sh.heap c = .fin item := (compare_zero_iff _ _).mp ((findFound_iff _).mp hf)
  have hc : c < sh.heap.length := by
    by_cases hc : c < sh.heap.length
    · exact hc
    · have : keyOf sh.heap c = .pos := by
        unfold keyOf; rw [List.getElem?_eq_none (by omega)]
      rw [this] at hk; simp at hk
  have hc1 : c ≠ 1 := by
    intro e; subst e; rw [H.tailKey] at hk; simp at hk
  obtain ⟨⟨p, m⟩, hw⟩ := Option.isSome_iff_exists.mp (H.word0 c hc hc1)
  rw [getNext_of_word hw] at hd
  simp at hd; subst hd
  exact ⟨⟨p, hw⟩, hk⟩

/-- findPath's last step answers `found` only at level 0, from an unmarked read, on an equal key -/
theorem afterRead_hit {sh : Shared} {th : Thread} (fp : FP) (next : Nat) (deleted : Bool)
    (hret : (fp.cont = .lookup ∧ (afterRead sh th fp next deleted).2.2 = "ret true") ∨
            ((∃ lvl, fp.cont = .insFirst lvl ∨ fp.cont = .insRetry lvl) ∧
              (afterRead sh th fp next deleted).2.2 = "ret false")) :
    deleted = false ∧ fp.i = 0 ∧ Gen.findFound (compare (keyOf sh.heap fp.curr) (.fin fp.item)) = true := by
  unfold afterRead at hret
  split at hret
  · simp at hret
  · rename_i hdel
    simp only [] at hret
    split at hret
    · simp at hret
    · split at hret
      · simp at hret
      · rename_i hi0
        refine ⟨by simpa using hdel, hi0, ?_⟩
        rcases hret with ⟨hc, hr⟩ | ⟨⟨lvl, hc | hc⟩, hr⟩
        · rw [hc] at hr; simp only [finishFind] at hr; exact retBool_true hr
        · rw [hc] at hr; simp only [finishFind] at hr
          split at hr
          · assumption
          · simp at hr
        · rw [hc] at hr; simp only [finishFind] at hr
          split at hr
          · assumption
          · simp at hr

end NitroVerif.SkipConc
