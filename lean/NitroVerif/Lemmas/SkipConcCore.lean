import NitroVerif.Lemmas.SkipConcInv
/-!
  The LEVEL-0 CORE of M5 (DESIGN Appendix A.3): the heap transitions `HStep` the full model can make, seen from
  level 0 — nothing / an upper-level write / an unlink / a mark / a publish — and the chain invariant in
  reachability form:

    `ReachInv h`: the tail and every node that is unmarked at level 0 are reachable from the head along the
    level-0 successor words (H1 + H2 of the design; sortedness of the path is `Reach.key`, from H5).

  `HStep.reachInv` proves the invariant for every core transition; `SkipConcRefine` proves that every segment
  of every thread of the full model is a core transition (the refinement lemma).
-/
namespace NitroVerif.SkipConc

/-- reachability along level-0 successor words (marks ignored) -/
inductive Reach (h : Heap) : Nat → Nat → Prop
  | refl (a : Nat) : Reach h a a
  | step {a b c : Nat} {m : Bool} : word? h a 0 = some (b, m) → Reach h b c → Reach h a c

theorem Reach.trans {h : Heap} {a b c : Nat} (r1 : Reach h a b) (r2 : Reach h b c) : Reach h a c := by
  induction r1 with
  | refl => exact r2
  | step hw _ ih => exact .step hw (ih r2)

theorem Reach.single {h : Heap} {a b : Nat} {m : Bool} (hw : word? h a 0 = some (b, m)) : Reach h a b :=
  .step hw (.refl b)

/-- the successor word is a function, so two nodes reachable from one node are comparable -/
theorem Reach.det {h : Heap} {a b c : Nat} (r1 : Reach h a b) (r2 : Reach h a c) : Reach h b c ∨ Reach h c b := by
  induction r1 with
  | refl => exact .inl r2
  | step hw r ih =>
    cases r2 with
    | refl => exact .inr (.step hw r)
    | step hw' r' =>
      rw [hw] at hw'; simp at hw'
      obtain ⟨rfl, _⟩ := hw'
      exact ih r'

/-- H1: keys strictly increase along the level-0 path (from H5) -/
theorem Reach.key {h : Heap} (H : HInv h) {a b : Nat} (r : Reach h a b) :
    a = b ∨ Key.lt (keyOf h a) (keyOf h b) := by
  induction r with
  | refl => exact .inl rfl
  | step hw _ ih =>
    have h1 := H.h5 _ _ _ hw
    rcases ih with rfl | h2
    · exact .inr h1
    · exact .inr (Key.lt_trans h1 h2)

/-- edge simulation: if every level-0 edge of `h` is a path of `h'`, reachability carries over -/
theorem Reach.mono {h h' : Heap} (he : ∀ a b m, word? h a 0 = some (b, m) → Reach h' a b) {a c : Nat}
    (r : Reach h a c) : Reach h' a c := by
  induction r with
  | refl => exact .refl _
  | step hw _ ih => exact (he _ _ _ hw).trans ih

def unmarked0 (h : Heap) (n : Nat) : Prop := ∃ p, word? h n 0 = some (p, false)
def marked0 (h : Heap) (n : Nat) : Prop := ∃ p, word? h n 0 = some (p, true)

theorem not_unmarked0_of_marked0 {h : Heap} {n : Nat} (hm : marked0 h n) : ¬ unmarked0 h n := by
  obtain ⟨p, hp⟩ := hm
  rintro ⟨q, hq⟩
  rw [hp] at hq; simp at hq

/-- the chain invariant in reachability form -/
def ReachInv (h : Heap) : Prop := Reach h 0 1 ∧ ∀ n, unmarked0 h n → Reach h 0 n

/-- what a segment does to the heap, seen from level 0 -/
inductive Event where
  | none
  /-- a write to a word of a level ≥ 1 -/
  | upper
  /-- level-0 unlink of the marked node `curr` -/
  | unlink (curr : Nat)
  /-- level-0 mark of node `n` -/
  | mark (n : Nat)
  /-- publish of the new node `x` with item `k` -/
  | publish (x k : Nat)
deriving Repr, DecidableEq

/-- the transitions of the level-0 core -/
inductive HStep (h : Heap) : Event → Heap → Prop
  | none : HStep h .none h
  | upper {n l e : Nat} (w : Nat × Bool) : 1 ≤ l → word? h n l = some (e, false) → HStep h .upper (setWord h n l w)
  | unlink {prev curr next : Nat} : word? h prev 0 = some (curr, false) → word? h curr 0 = some (next, true) →
      HStep h (.unlink curr) (setWord h prev 0 (next, false))
  | mark {n e : Nat} : word? h n 0 = some (e, false) → HStep h (.mark n) (setWord h n 0 (e, true))
  | publish {p c : Nat} (k : Nat) (nd : Node) : word? h p 0 = some (c, false) → nd.next[0]? = some (c, false) →
      nd.key = .fin k → Key.lt (keyOf h p) (.fin k) → Key.lt (.fin k) (keyOf h c) →
      HStep h (.publish h.length k) (setWord h p 0 (h.length, false) ++ [nd])

/-! ### level-0 words after each transition -/

theorem word0_upper (h : Heap) {n l : Nat} (w : Nat × Bool) (hl : 1 ≤ l) (a : Nat) :
    word? (setWord h n l w) a 0 = word? h a 0 := by
  rw [word?_setWord]
  have : ¬ (a = n ∧ 0 = l ∧ (word? h n l).isSome) := by omega
  rw [if_neg this]

theorem word0_set0 (h : Heap) {n e : Nat} {m : Bool} (hw : word? h n 0 = some (e, m)) (w : Nat × Bool) (a : Nat) :
    word? (setWord h n 0 w) a 0 = if a = n then some w else word? h a 0 := by
  rw [word?_setWord]
  simp [hw]

theorem word0_publish (h : Heap) {p c : Nat} {m : Bool} (hw : word? h p 0 = some (c, m)) (nd : Node) (a : Nat) :
    word? (setWord h p 0 (h.length, false) ++ [nd]) a 0 =
      if a = p then some (h.length, false) else if a = h.length then nd.next[0]? else word? h a 0 := by
  have hp := word?_lt hw
  by_cases ha : a < h.length
  · rw [word?_append_lt _ _ (by rw [length_setWord]; exact ha), word0_set0 h hw]
    have : ¬ a = h.length := by omega
    simp [this]
  · by_cases ha' : a = h.length
    · subst ha'
      have h1 : ¬ h.length = p := by omega
      have := word?_append_new (setWord h p 0 (h.length, false)) nd 0
      rw [length_setWord] at this
      rw [this]; simp [h1]
    · have h1 : ¬ a = p := by omega
      rw [word?_ge (by simp [length_setWord]; omega), word?_ge (by omega)]
      simp [h1, ha']

/-! ### the invariant is preserved by every core transition -/

theorem unlink_reach {h : Heap} {prev curr next : Nat} (hp : word? h prev 0 = some (curr, false))
    (hc : word? h curr 0 = some (next, true)) {a n : Nat} (r : Reach h a n) (hn : n ≠ curr) :
    Reach (setWord h prev 0 (next, false)) a n := by
  have hne : curr ≠ prev := by
    intro e; rw [e, hp] at hc; simp at hc
  induction r with
  | refl => exact .refl _
  | @step a b c m hw r ih =>
    have ih := ih hn
    by_cases ha : a = prev
    · subst ha
      rw [hp] at hw; simp at hw
      obtain ⟨rfl, _⟩ := hw
      -- the path continues through `curr → next` in both heaps
      cases ih with
      | refl => exact absurd rfl hn
      | step hw' r' =>
        rw [word0_set0 h hp, if_neg hne, hc] at hw'
        simp at hw'
        obtain ⟨rfl, _⟩ := hw'
        exact .step (m := false) (by rw [word0_set0 h hp]; simp) r'
    · exact .step (by rw [word0_set0 h hp, if_neg ha]; exact hw) ih

theorem HStep.reachInv {h h' : Heap} {ev : Event} (H : HInv h) (R : ReachInv h) (s : HStep h ev h') :
    ReachInv h' := by
  cases s with
  | none => exact R
  | @upper n l e w hl hw =>
    have he : ∀ a c, Reach h a c → Reach (setWord h n l w) a c := fun a c r =>
      r.mono (fun a b m hab => .single (by rw [word0_upper h w hl]; exact hab))
    refine ⟨he _ _ R.1, fun n hn => he _ _ (R.2 n ?_)⟩
    obtain ⟨p, hp⟩ := hn
    rw [word0_upper h w hl] at hp
    exact ⟨p, hp⟩
  | @unlink prev curr next hp hc =>
    have hne : curr ≠ prev := by
      intro e; rw [e, hp] at hc; simp at hc
    refine ⟨unlink_reach hp hc R.1 ?_, fun n hn => ?_⟩
    · intro e; rw [← e, H.tailNoWord] at hc; simp at hc
    · obtain ⟨q, hq⟩ := hn
      rw [word0_set0 h hp] at hq
      by_cases hnp : n = prev
      · subst hnp
        exact unlink_reach hp hc (R.2 _ ⟨_, hp⟩) (fun e => hne e.symm)
      · rw [if_neg hnp] at hq
        refine unlink_reach hp hc (R.2 _ ⟨_, hq⟩) ?_
        intro e; rw [e, hc] at hq; simp at hq
  | @mark n e hw =>
    have he : ∀ a c, Reach h a c → Reach (setWord h n 0 (e, true)) a c := fun a c r =>
      r.mono (fun a b m hab => by
        by_cases ha : a = n
        · subst ha; rw [hw] at hab; simp at hab
          exact .single (m := true) (by rw [word0_set0 h hw]; simp [hab.1])
        · exact .single (by rw [word0_set0 h hw, if_neg ha]; exact hab))
    refine ⟨he _ _ R.1, fun a ha => he _ _ (R.2 a ?_)⟩
    obtain ⟨q, hq⟩ := ha
    rw [word0_set0 h hw] at hq
    by_cases han : a = n
    · rw [if_pos han] at hq; simp at hq
    · rw [if_neg han] at hq; exact ⟨q, hq⟩
  | @publish p c k nd hw hnd hk hk1 hk2 =>
    have hp := word?_lt hw
    have hpx : Reach (setWord h p 0 (h.length, false) ++ [nd]) p h.length :=
      .single (m := false) (by rw [word0_publish h hw]; simp)
    have hxc : Reach (setWord h p 0 (h.length, false) ++ [nd]) h.length c :=
      .single (by rw [word0_publish h hw, if_neg (by omega), if_pos rfl]; exact hnd)
    have he : ∀ a b, Reach h a b → Reach (setWord h p 0 (h.length, false) ++ [nd]) a b := fun a b r =>
      r.mono (fun a b m hab => by
        by_cases ha : a = p
        · subst ha; rw [hw] at hab; simp at hab
          rw [← hab.1]; exact hpx.trans hxc
        · have hal := word?_lt hab
          exact .single (by rw [word0_publish h hw, if_neg ha, if_neg (by omega)]; exact hab))
    refine ⟨he _ _ R.1, fun a ha => ?_⟩
    obtain ⟨q, hq⟩ := ha
    rw [word0_publish h hw] at hq
    by_cases hap : a = p
    · subst hap; exact he _ _ (R.2 _ ⟨_, hw⟩)
    · rw [if_neg hap] at hq
      by_cases hax : a = h.length
      · subst hax; exact (he _ _ (R.2 _ ⟨_, hw⟩)).trans hpx
      · rw [if_neg hax] at hq; exact he _ _ (R.2 _ ⟨_, hq⟩)

/-! ### the abstract set -/

/-- two nodes that are unmarked at level 0 and carry the same key are the same node -/
theorem live_key_inj {h : Heap} (H : HInv h) (R : ReachInv h) {a b : Nat} (ha : unmarked0 h a) (hb : unmarked0 h b)
    (hk : keyOf h a = keyOf h b) : a = b := by
  rcases (R.2 a ha).det (R.2 b hb) with r | r
  · rcases r.key H with e | l
    · exact e
    · rw [hk] at l; exact absurd l (Key.lt_irrefl _)
  · rcases r.key H with e | l
    · exact e.symm
    · rw [hk] at l; exact absurd l (Key.lt_irrefl _)

/-- the gap between an unmarked node and its level-0 successor holds no live node:
    this is why a successful publish CAS adds a key that was ABSENT -/
theorem gap_empty {h : Heap} (H : HInv h) (R : ReachInv h) {p c : Nat} (hw : word? h p 0 = some (c, false))
    {n : Nat} (hn : unmarked0 h n) (h1 : Key.lt (keyOf h p) (keyOf h n)) (h2 : Key.lt (keyOf h n) (keyOf h c)) :
    False := by
  rcases (R.2 p ⟨_, hw⟩).det (R.2 n hn) with r | r
  · cases r with
    | refl => exact Key.lt_irrefl _ h1
    | step hw' r' =>
      rw [hw] at hw'; simp at hw'
      obtain ⟨rfl, _⟩ := hw'
      rcases r'.key H with e | l
      · subst e; exact Key.lt_irrefl _ h2
      · exact Key.lt_asymm h2 l
  · rcases r.key H with e | l
    · subst e; exact Key.lt_irrefl _ h1
    · exact Key.lt_asymm h1 l

end NitroVerif.SkipConc
