/-
  The state invariant of the small-step M6 model (`Model/MvccConc.lean`).  Every part is stated on
  the components of the state it talks about, so that a step which leaves those components alone
  preserves it trivially.
  * `StoreInv`  V1, V2, V3 of the sequential model on the projected store, node ids unique
  * `PcInv`     what a parked thread knows about the node it holds (key, epoch), the collector flag
  * `GarbInv`   every node named by a garbage list (of a writer, of a snapshot not yet collected, of a
                collection job's remaining work) is named once, is linked and carries a death mark
  * `OwnInv`    every live block belongs to exactly one owner: the store, a parked Put (item only),
                a Delete2 between unlink and flush, a collection job before its flush, a session not
                yet destructed, a free job before it frees — and every block that is not live and was
                handed out has been freed exactly once; nothing was ever freed wrongly (`bad = []`)
  * `TokInv`    barrier tokens: who holds what, destructed sessions hold nothing, `cleanup` is at its
                fixpoint
  * `ProtInv`   safe memory reclamation: a node a token holder can still reach is linked, or on its
                way to a session, or attached to a session that is not older than the holder's
-/
import NitroVerif.Lemmas.MvccConcStore
import NitroVerif.Lemmas.MvccInv

namespace NitroVerif.MvccConc
open NitroVerif
open NitroVerif.Mvcc (Ver Sorted Chains isAlive)

/-! ### owners of blocks -/

def pcOwn : Pc → List Nat
  | .putInsert n _ _ _ => [n]
  | .delFlush n _ _ => [n]
  | _ => []

def gcOwn (j : GcJob) : List Nat :=
  match j.pc with
  | .recv | .node | .flush => j.done
  | _ => []

def frOwn (j : FrJob) : List Nat :=
  match j.pc with
  | .recv => j.list
  | _ => []

def thrOwned (threads : List Pc) : List Nat := threads.flatMap pcOwn
def gcOwned (gcJobs : List GcJob) : List Nat := gcJobs.flatMap gcOwn
def sessOwned (sess : List Sess) (freeSeq : Nat) : List Nat := (sess.drop freeSeq).flatMap (·.list)
def frOwned (frJobs : List FrJob) : List Nat := frJobs.flatMap frOwn

/-- nodes attached to undestructed sessions or queued for a free job -/
def sessfr (sess : List Sess) (freeSeq : Nat) (frJobs : List FrJob) (n : Nat) : Nat :=
  (sessOwned sess freeSeq).count n + (frOwned frJobs).count n

/-- how many owners node `n` has -/
def ownC (store : List Node) (threads : List Pc) (gcJobs : List GcJob) (sess : List Sess) (freeSeq : Nat)
    (frJobs : List FrJob) (n : Nat) : Nat :=
  (storeIds store).count n + (thrOwned threads).count n + (gcOwned gcJobs).count n + sessfr sess freeSeq frJobs n

def own (σ : State) (n : Nat) : Nat := ownC σ.store σ.threads σ.gcJobs σ.sess σ.freeSeq σ.frJobs n

/-- a Put is parked with item `n` allocated and the node not yet -/
def reserved (threads : List Pc) (n : Nat) : Prop := ∃ k v b, Pc.putInsert n k v b ∈ threads

/-! ### garbage lists -/

def snapGarb (s : Snap) : List Nat := if s.st = .collected then [] else s.gclist

def garbW (writers : List Writer) : List Nat := writers.flatMap (·.gc)
def garbS (snaps : List Snap) : List Nat := snaps.flatMap snapGarb
def garbJ (gcJobs : List GcJob) : List Nat := gcJobs.flatMap (·.todo)

def garbC (writers : List Writer) (snaps : List Snap) (gcJobs : List GcJob) (n : Nat) : Nat :=
  (garbW writers).count n + (garbS snaps).count n + (garbJ gcJobs).count n

def garb (σ : State) (n : Nat) : Nat := garbC σ.writers σ.snaps σ.gcJobs n

/-! ### the invariant -/

structure StoreInv (store unlinked : List Node) (cur : Nat) (items : Int) (writers : List Writer)
    (snaps : List Snap) (threads : List Pc) (nextId : Nat) : Prop where
  sorted : Sorted (vers store)
  chains : Chains cur (vers store)
  cnt : items + (writers.map (·.count)).sum = (((vers store).filter isAlive).length : Nat)
  cur_pos : 0 < cur
  ids : (storeIds store).Nodup
  unl : ∀ x ∈ unlinked, x.id ∉ storeIds store ∧ x.id < nextId ∧ ¬ reserved threads x.id
  id_lt : ∀ x ∈ store, x.id < nextId ∧ ¬ reserved threads x.id
  snaps_inc : snaps.Pairwise (fun a b => a.sn < b.sn)
  snaps_lt : ∀ s ∈ snaps, s.sn < cur
  rc_dead : ∀ s ∈ snaps, s.st ≠ .live → s.rc ≤ 0

structure PcInv (threads : List Pc) (nw : Nat) (cur : Nat) (store unlinked : List Node) (nextId : Nat)
    (gcFlag : Bool) (snaps : List Snap) : Prop where
  len : nw ≤ threads.length
  put : ∀ (t n k v b : Nat), threads[t]? = some (Pc.putInsert n k v b) → t < nw ∧ b = cur
  phys : ∀ (t n tok k : Nat), threads[t]? = some (Pc.delPhys n tok k) → t < nw ∧
           n < nextId ∧ ¬ reserved threads n ∧
           ∀ x ∈ store, x.id = n → x.ver.key = k ∧ x.ver.born = cur
  cas : ∀ (t n tok k : Nat), threads[t]? = some (Pc.delCas n tok k) → t < nw ∧
           n < nextId ∧ ¬ reserved threads n ∧
           (∀ x ∈ store, x.id = n → x.ver.key = k ∧ x.ver.born < cur) ∧
           (∀ x ∈ unlinked, x.id = n → x.ver.dead ≠ 0)
  fl : ∀ (t n tok k : Nat), threads[t]? = some (Pc.delFlush n tok k) → t < nw
  coll : ∀ (t sn : Nat) (a : Option Nat), threads[t]? = some (Pc.collectSend sn a) → gcFlag = true ∧
           ∃ x ∈ snaps, x.sn = sn ∧ x.st = .retired
  excl : ∀ (t1 t2 s1 : Nat) (a1 : Option Nat) (s2 : Nat) (a2 : Option Nat),
           threads[t1]? = some (Pc.collectSend s1 a1) → threads[t2]? = some (Pc.collectSend s2 a2) → t1 = t2

structure GarbInv (writers : List Writer) (snaps : List Snap) (gcJobs : List GcJob) (store : List Node)
    (cur : Nat) : Prop where
  le : ∀ n, garbC writers snaps gcJobs n ≤ 1
  linked : ∀ n, 0 < garbC writers snaps gcJobs n →
             ∃ x ∈ store, x.id = n ∧ x.ver.dead ≠ 0 ∧ x.ver.born < cur
  jobs : ∀ j ∈ gcJobs, (j.pc = .flush ∨ j.pc = .done ∨ j.pc = .finished) → j.todo = []

structure OwnInv (store : List Node) (threads : List Pc) (gcJobs : List GcJob) (sess : List Sess)
    (freeSeq : Nat) (frJobs : List FrJob) (nextId : Nat) (allocd freed bad : List Blk) : Prop where
  le : ∀ n, ownC store threads gcJobs sess freeSeq frJobs n ≤ 1
  lt : ∀ n, 0 < ownC store threads gcJobs sess freeSeq frJobs n → n < nextId
  a_item : ∀ n, Blk.item n ∈ allocd ↔ n < nextId
  a_node : ∀ n, Blk.node n ∈ allocd ↔ n < nextId ∧ ¬ reserved threads n
  f_item : ∀ n, Blk.item n ∈ freed ↔ n < nextId ∧ ownC store threads gcJobs sess freeSeq frJobs n = 0
  f_node : ∀ n, Blk.node n ∈ freed ↔ n < nextId ∧ ownC store threads gcJobs sess freeSeq frJobs n = 0
  sent : Blk.head ∈ allocd ∧ Blk.tail ∈ allocd ∧ Blk.head ∉ freed ∧ Blk.tail ∉ freed
  a_nodup : allocd.Nodup
  f_nodup : freed.Nodup
  bad : bad = []

/-- the session of the token a parked `Delete2` holds -/
def Pc.tok : Pc → Option Nat
  | .delPhys _ tok _ => some tok
  | .delFlush _ tok _ => some tok
  | .delCas _ tok _ => some tok
  | _ => none

/-- holder `h` really holds a token of session `i` -/
def claims (threads : List Pc) (iters : List ((Nat × Nat) × Iter)) (i : Nat) : Holder → Prop
  | .thr t => ∃ pc, threads[t]? = some pc ∧ pc.tok = some i
  | .it t j => ∃ it, ((t, j), it) ∈ iters ∧ it.tok = i

/-- the token invariant before `cleanup` has run -/
structure TokPre (threads : List Pc) (sess : List Sess) (iters : List ((Nat × Nat) × Iter)) (freeSeq : Nat) :
    Prop where
  thr : ∀ (t : Nat) (pc : Pc) (tok : Nat), threads[t]? = some pc → pc.tok = some tok →
          ∃ s : Sess, sess[tok]? = some s ∧ Holder.thr t ∈ s.holders
  it : ∀ (t j : Nat) (it : Iter), ((t, j), it) ∈ iters →
          ∃ s : Sess, sess[it.tok]? = some s ∧ Holder.it t j ∈ s.holders
  keys : iters.Pairwise (fun a b => a.1 ≠ b.1)
  destr : ∀ (i : Nat) (s : Sess), i < freeSeq → sess[i]? = some s → s.holders = []
  lt : freeSeq < sess.length
  flushed : ∀ (i : Nat) (s : Sess), sess[i]? = some s → (s.flushed = true ↔ i + 1 < sess.length)
  nolist : ∀ (i : Nat) (s : Sess), sess[i]? = some s → s.flushed = false → s.list = []
  conv : ∀ (i : Nat) (s : Sess), sess[i]? = some s → s.holders.Nodup ∧ ∀ h ∈ s.holders, claims threads iters i h

structure TokInv (threads : List Pc) (sess : List Sess) (iters : List ((Nat × Nat) × Iter)) (freeSeq : Nat) :
    Prop extends TokPre threads sess iters freeSeq where
  fix : ∀ (s : Sess), sess[freeSeq]? = some s → s.terminated = false

/-- node `n` cannot have been handed to a free job as long as a token of session `tok` is out -/
def Prot (threads : List Pc) (store : List Node) (gcJobs : List GcJob) (sess : List Sess) (n tok : Nat) : Prop :=
  n ∈ storeIds store ∨ (∃ tk k, Pc.delFlush n tk k ∈ threads) ∨ n ∈ gcOwned gcJobs ∨
    ∃ i, ∃ s : Sess, tok ≤ i ∧ sess[i]? = some s ∧ n ∈ s.list

structure ProtInv (threads : List Pc) (store : List Node) (gcJobs : List GcJob) (sess : List Sess)
    (iters : List ((Nat × Nat) × Iter)) : Prop where
  phys : ∀ (t n tok k : Nat), threads[t]? = some (Pc.delPhys n tok k) → Prot threads store gcJobs sess n tok
  cas : ∀ (t n tok k : Nat), threads[t]? = some (Pc.delCas n tok k) → Prot threads store gcJobs sess n tok
  it : ∀ (key : Nat × Nat) (it : Iter) (c : Cur), (key, it) ∈ iters → it.cur = some c →
         Prot threads store gcJobs sess c.id it.tok

structure Inv (σ : State) : Prop where
  store : StoreInv σ.store σ.unlinked σ.currSn σ.itemsCount σ.writers σ.snaps σ.threads σ.nextId
  pc : PcInv σ.threads σ.writers.length σ.currSn σ.store σ.unlinked σ.nextId σ.gcFlag σ.snaps
  garb : GarbInv σ.writers σ.snaps σ.gcJobs σ.store σ.currSn
  own : OwnInv σ.store σ.threads σ.gcJobs σ.sess σ.freeSeq σ.frJobs σ.nextId σ.allocd σ.freed σ.bad
  tok : TokInv σ.threads σ.sess σ.iters σ.freeSeq
  prot : ProtInv σ.threads σ.store σ.gcJobs σ.sess σ.iters

/-- `Inv` from the values of the fields -/
theorem Inv.mk' {σ' : State} {store unl : List Node} {cur : Nat} {items : Int} {writers : List Writer}
    {snaps : List Snap} {threads : List Pc} {nextId : Nat} {gcFlag : Bool} {gcJobs : List GcJob} {sess : List Sess}
    {fs : Nat} {frJobs : List FrJob} {iters : List ((Nat × Nat) × Iter)} {allocd freed bad : List Blk}
    (e1 : σ'.store = store) (e2 : σ'.unlinked = unl) (e3 : σ'.currSn = cur) (e4 : σ'.itemsCount = items)
    (e5 : σ'.writers = writers) (e6 : σ'.snaps = snaps) (e7 : σ'.threads = threads) (e8 : σ'.nextId = nextId)
    (e9 : σ'.gcFlag = gcFlag) (e10 : σ'.gcJobs = gcJobs) (e11 : σ'.sess = sess) (e12 : σ'.freeSeq = fs)
    (e13 : σ'.frJobs = frJobs) (e14 : σ'.iters = iters) (e15 : σ'.allocd = allocd) (e16 : σ'.freed = freed)
    (e17 : σ'.bad = bad)
    (h1 : StoreInv store unl cur items writers snaps threads nextId)
    (h2 : PcInv threads writers.length cur store unl nextId gcFlag snaps)
    (h3 : GarbInv writers snaps gcJobs store cur)
    (h4 : OwnInv store threads gcJobs sess fs frJobs nextId allocd freed bad)
    (h5 : TokInv threads sess iters fs)
    (h6 : ProtInv threads store gcJobs sess iters) : Inv σ' := by
  subst e1 e2 e3 e4 e5 e6 e7 e8 e9 e10 e11 e12 e13 e14 e15 e16 e17
  exact ⟨h1, h2, h3, h4, h5, h6⟩

end NitroVerif.MvccConc
