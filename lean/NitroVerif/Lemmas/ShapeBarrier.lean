import NitroVerif.Gen.Shapes
/-!
  Pinned control shapes, area Barrier: the functions of /repo the models of this area mirror have, today, exactly
  these shapes (tools/gofacts/shapes.go).  `Gen/Shapes.lean` is regenerated from the working tree on every run; a change
  of an operator, bound, call, early return or loop in one of these functions breaks the lemma named after it.
  Expectations are maintained by hand (bootstrap: `go run . -shape-lemmas Barrier`).
-/
namespace NitroVerif.ShapeTie.Barrier
open NitroVerif.Gen.Shape

/-- skiplist/access_barrier.go `.CompareBS` -/
theorem shape_CompareBS_ok : Barrier_CompareBS =
    ["return(_)"] := rfl

/-- skiplist/access_barrier.go `.newBarrierSession` -/
theorem shape_newBarrierSession_ok : Barrier_newBarrierSession =
    ["return(_)"] := rfl

/-- skiplist/access_barrier.go `*AccessBarrier.doCleanup` -/
theorem shape_doCleanup_ok : Barrier_doCleanup =
    ["MakeBuf", "MakeBuf", "defer", "FreeBuf", "defer", "FreeBuf", "NewIterator", "defer", "Close", "for()", "SeekFirst", "Valid", "Next", "GetNode", "Item", "if(!= + 1)", "LoadUint64", "return()", "AddUint64", "callb", "DeleteNode", "++"] := rfl

/-- skiplist/access_barrier.go `*AccessBarrier.hasReadySession` -/
theorem shape_hasReadySession_ok : Barrier_hasReadySession =
    ["MakeBuf", "defer", "FreeBuf", "NewIterator", "defer", "Close", "SeekFirst", "if(!)", "Valid", "return(false)", "Get", "return(_)", "LoadUint64"] := rfl

/-- skiplist/access_barrier.go `*AccessBarrier.Acquire` -/
theorem shape_Acquire_ok : Barrier_Acquire =
    ["if()", "label retry", "LoadPointer", "AddInt32", "if(>)", "Release", "goto retry", "return(_)", "return(nil)"] := rfl

/-- skiplist/access_barrier.go `*AccessBarrier.Release` -/
theorem shape_Release_ok : Barrier_Release =
    ["if()", "AddInt32", "if-else(==)", "MakeBuf", "defer", "FreeBuf", "if(1 == 1)", "AddInt32", "if(!)", "Insert", "panic", "for(0 1)", "CompareAndSwapInt32", "doCleanup", "CompareAndSwapInt32", "if(!)", "hasReadySession", "break", "if(< 0 || == - 1)", "panic"] := rfl

/-- skiplist/access_barrier.go `*AccessBarrier.FlushSession` -/
theorem shape_FlushSession_ok : Barrier_FlushSession =
    ["if()", "Lock", "defer", "Unlock", "LoadPointer", "newBarrierSession", "CompareAndSwapPointer", "++", "++", "AddInt32", "Release"] := rfl

end NitroVerif.ShapeTie.Barrier
