import NitroVerif.Gen.Guards
/-!
  Characterisation of the generated guards of `skiplist/access_barrier.go` that the M4 model calls.
  A change of the Go condition/constant changes the generated definition and breaks the lemma here.
-/
namespace NitroVerif.Barrier
open NitroVerif

/-- `barrierFlushOffset = math.MaxInt32 / 2 = 2^30 - 1` -/
theorem barrierFlushOffset_eq : Gen.barrierFlushOffset = 2 ^ 30 - 1 := by decide

theorem barrierFlushOffset_val : Gen.barrierFlushOffset = 1073741823 := by decide

/-- Acquire backs off iff the incremented count exceeds the offset -/
theorem acquireBackoff_iff (v : Int) : Gen.acquireBackoff v = true ↔ Gen.barrierFlushOffset < v := by
  simp [Gen.acquireBackoff]

/-- the releasing thread is the last one iff the decremented count equals the offset -/
theorem releaseIsLast_iff (v : Int) : Gen.releaseIsLast v = true ↔ v = Gen.barrierFlushOffset := by
  simp [Gen.releaseIsLast]

/-- the "Unsafe memory reclamation" panic: count negative, or one below the offset -/
theorem releasePanic_iff (v : Int) :
    Gen.releasePanic v = true ↔ (v < 0 ∨ v = Gen.barrierFlushOffset - 1) := by
  simp [Gen.releasePanic]

/-- only the first increment of `closed` queues the session -/
theorem closedFirst_iff (v : Int) : Gen.closedFirst v = true ↔ v = 1 := by
  simp [Gen.closedFirst]

/-- the cleanup loop stops unless the session under the cursor is the next one in flush order -/
theorem cleanupStop_eq_false_iff (seqno freeSeqno : Nat) :
    Gen.cleanupStop seqno freeSeqno = false ↔ seqno = freeSeqno + 1 := by
  simp [Gen.cleanupStop]

/-- `hasReadySession`: the queue head is the next session in flush order -/
theorem readyHead_iff (seqno freeSeqno : Nat) :
    Gen.readyHead seqno freeSeqno = true ↔ seqno = freeSeqno + 1 := by
  simp [Gen.readyHead]

/-- the two tests on the queue head agree (cleanup continues exactly when the re-check says "ready") -/
theorem readyHead_eq_not_cleanupStop (seqno freeSeqno : Nat) :
    Gen.readyHead seqno freeSeqno = !Gen.cleanupStop seqno freeSeqno := by
  simp [Gen.readyHead, Gen.cleanupStop]

/-- FlushSession adds the offset plus the flusher's own unit -/
theorem flushAdd_eq : Gen.flushAdd = Gen.barrierFlushOffset + 1 := rfl

/-! ### skeletons: source-order list of the shared-memory operations of each function.
    The program counters of `Model/Barrier.lean` follow these lists; a change in the order or
    presence of an operation breaks the lemma. -/

theorem skeleton_Acquire_ok : Gen.skeleton_Acquire =
    ["atomic.LoadPointer(ab.session)", "atomic.AddInt32(bs.liveCount)", "ab.Release"] := rfl

theorem skeleton_Release_ok : Gen.skeleton_Release =
    ["atomic.AddInt32(bs.liveCount)", "defer", "atomic.AddInt32(bs.closed)", "ab.freeq.Insert",
     "atomic.CompareAndSwapInt32(ab.isDestructorRunning)", "ab.doCleanup",
     "atomic.CompareAndSwapInt32(ab.isDestructorRunning)", "ab.hasReadySession"] := rfl

theorem skeleton_doCleanup_ok : Gen.skeleton_doCleanup =
    ["defer", "defer", "defer", "iter.Close", "iter.SeekFirst", "iter.Next",
     "atomic.LoadUint64(ab.freeSeqno)", "atomic.AddUint64(ab.freeSeqno)", "ab.callb",
     "ab.freeq.DeleteNode"] := rfl

theorem skeleton_FlushSession_ok : Gen.skeleton_FlushSession =
    ["ab.Lock", "defer", "ab.Unlock", "atomic.LoadPointer(ab.session)",
     "atomic.CompareAndSwapPointer(ab.session)", "atomic.AddInt32(bs.liveCount)", "ab.Release"] := rfl

end NitroVerif.Barrier
