import NitroVerif.Lemmas.RefCountStep2
import NitroVerif.Lemmas.RefCountRel
/-!
  `Inv` is inductive for the fixed `Open` (`cfg.fixedOpen = true`; the responsibility clause is
  conditional on `cfg.fixedGC`), holds initially, hence in every state an `exec` reaches.
-/
namespace NitroVerif.RefCount

theorem Step.inv {cfg : Cfg} {st st' : St} {i : Nat} {a : Act} {ev : Ev} (hO : cfg.fixedOpen = true)
    (h : Inv cfg st) (hs : Step cfg st i a st' ev) : Inv cfg st' := by
  cases hs with
  | startOpen s hi h1 h2 =>
    exact inv_setT h hi ⟨h1, h2⟩ (fun _ => rfl) (fun _ => rfl) (fun _ => rfl) rfl (fun _ _ => Or.inl (by simp [uResp]))
  | startClose s hi h1 h2 hh => exact inv_startClose h hi h1 h2 hh
  | startGc hi =>
    exact inv_setT h hi trivial (fun _ => rfl) (fun _ => rfl) (fun _ => rfl) rfl (fun _ _ => Or.inl (by simp [uResp]))
  | loadRefuse b s hi hz =>
    exact inv_setT h hi trivial (fun _ => rfl) (fun _ => rfl) (fun _ => rfl) rfl (fun _ _ => Or.inl (by simp [uResp]))
  | loadOk b s hi hnz =>
    obtain ⟨h1, h2⟩ := h.pcs i _ hi
    have := h.refs_nonneg s h1 h2
    exact inv_setT h hi ⟨h1, h2, by omega⟩ (fun _ => rfl) (fun _ => rfl) (fun _ => rfl) rfl
      (fun _ _ => Or.inl (by simp [uResp]))
  | casOk b s rc hi hf he => exact inv_openCasOk h hi he
  | casFail b s rc hi hf hne =>
    obtain ⟨h1, h2, _⟩ := h.pcs i _ hi
    exact inv_setT h hi ⟨h1, h2⟩ (fun _ => rfl) (fun _ => rfl) (fun _ => rfl) rfl (fun _ _ => Or.inl (by simp [uResp]))
  | addUnfixed b s rc hi hf => rw [hO] at hf; cases hf
  | decRetire b s hi hz =>
    have := inv_closeDec h hi
    rw [(closeRetire_iff _).mpr hz] at this
    exact this
  | decRet b s hi hnz =>
    have := inv_closeDec h hi
    have e : Gen.closeRetire ((getS st s).refs - 1) = false := by
      cases hc : Gen.closeRetire ((getS st s).refs - 1) with
      | false => rfl
      | true => exact absurd ((closeRetire_iff _).mp hc) hnz
    rw [e] at this
    exact this
  | retire b s hi => exact inv_closeRetire1 h hi
  | retire2 b s hi => exact inv_closeRetire2 h hi
  | closeGC b hi =>
    exact inv_setT h hi trivial (fun _ => rfl) (fun _ => rfl) (fun _ => rfl) rfl (fun _ _ => Or.inl (by simp [uResp]))
  | tryLockFail b hi hf =>
    exact inv_setT h hi trivial (fun _ => rfl) (fun _ => rfl) (fun _ => rfl) rfl (fun _ _ => Or.inr hf)
  | tryLockOk b hi hf => exact inv_tryLockOk h hi hf
  | readSpurious hi =>
    exact inv_setT h hi trivial (fun _ => rfl) (fun _ => rfl) (fun _ => rfl) rfl (fun _ _ => Or.inl (by simp [uResp]))
  | readEmpty hi hd =>
    exact inv_setT h hi trivial (fun _ => rfl) (fun _ => rfl) (fun _ => rfl) rfl (fun _ _ => Or.inl (by simp [uResp]))
  | readStop s tl hi hd hne =>
    exact inv_setT h hi trivial (fun _ => rfl) (fun _ => rfl) (fun _ => rfl) rfl (fun _ _ => Or.inl (by simp [uResp]))
  | readNext s tl hi hd he =>
    exact inv_setT h hi ⟨he, by rw [hd]; simp⟩ (fun _ => rfl) (fun _ => rfl) (fun _ => rfl) rfl
      (fun _ _ => Or.inl (by simp [uResp]))
  | send b s hi => exact inv_collectSend h hi
  | unlockFixed b hi hg =>
    have := inv_unlock h hi
    rw [hg] at this
    exact this
  | unlockUnfixed b hi hg =>
    have := inv_unlock h hi
    rw [hg] at this
    exact this
  | recheckEmpty b hi hd =>
    refine inv_setT h hi trivial (fun _ => rfl) (fun _ => rfl) (fun _ => rfl) rfl (fun _ hm => ?_)
    rw [hd] at hm; simp at hm
  | recheckAgain b s tl hi hd he =>
    exact inv_setT h hi trivial (fun _ => rfl) (fun _ => rfl) (fun _ => rfl) rfl (fun _ _ => Or.inl (by simp [uResp]))
  | recheckDone b s tl hi hd hne =>
    refine inv_setT h hi trivial (fun _ => rfl) (fun _ => rfl) (fun _ => rfl) rfl (fun _ hm => ?_)
    obtain ⟨tl', htl⟩ := h.head_of_mem hm
    rw [hd] at htl
    simp at htl
    exact absurd htl.1 hne

theorem step_inv {cfg : Cfg} {st st' : St} {i : Nat} {a : Act} {ev : Ev} (hO : cfg.fixedOpen = true)
    (h : Inv cfg st) (hs : step cfg st i a = some (st', ev)) : Inv cfg st' :=
  (step_sound hs).inv hO h

theorem init_inv (cfg : Cfg) (n k : Nat) : Inv cfg (init n k) := by
  have hget : ∀ s, 1 ≤ s → s ≤ k → getS (init n k) s = {} := by
    intro s h1 h2
    exact snapAt_replicate k s {} h1 h2
  have hlen : (init n k).snaps.length = k := by simp [init]
  constructor
  · intro s h1 h2
    rw [hlen] at h2
    rw [hget s h1 h2]
    have : cnt (uDec s) (init n k).ths = 0 := cnt_replicate _ _ _ rfl
    rw [this]; rfl
  · intro s h1 h2
    rw [hlen] at h2
    rw [hget s h1 h2]
    have : cnt (uRet s) (init n k).ths = 0 := cnt_replicate _ _ _ rfl
    have h2 : cnt (uRet2 s) (init n k).ths = 0 := cnt_replicate _ _ _ rfl
    rw [this, h2]; rfl
  · intro j pc hj
    have : pc = .idle := by
      simp [init, List.getElem?_replicate] at hj
      exact hj.2.symm
    subst this; exact trivial
  · intro s h1 h2
    rw [hlen] at h2
    rw [hget s h1 h2]
    simp [init]
    omega
  · intro s
    rw [hlen]
    constructor
    · intro hm
      have : 1 ≤ s ∧ s < 1 + k := by simpa [init, List.mem_range'_1] using hm
      refine ⟨this.1, by omega, ?_, cnt_replicate _ _ _ rfl⟩
      rw [hget s this.1 (by omega)]
    · intro ⟨h1, h2, _⟩
      simp [init, List.mem_range'_1]; omega
  · intro s hs; simp [init] at hs
  · simp [init]
  · simp [init]
  · simp only [init]
    exact List.pairwise_lt_range'
  · simp [init]
  · exact cnt_replicate _ _ _ rfl
  · intro _ hm; simp [init] at hm

theorem exec_inv {cfg : Cfg} (hO : cfg.fixedOpen = true) :
    ∀ (sched : List (Nat × Act)) (st st' : St) (evs : List Ev),
      Inv cfg st → exec cfg st sched = some (st', evs) → Inv cfg st' := by
  intro sched
  induction sched with
  | nil => intro st st' evs h he; simp [exec] at he; rw [← he.1]; exact h
  | cons x r ih =>
    intro st st' evs h he
    obtain ⟨i, a⟩ := x
    simp only [exec] at he
    split at he
    · simp at he
    · rename_i st1 e hstep
      split at he
      · simp at he
      · rename_i st2 es hrest
        simp at he
        rw [← he.1]
        exact ih st1 st2 es (step_inv hO h hstep) hrest

theorem exec_len {cfg : Cfg} :
    ∀ (sched : List (Nat × Act)) (st st' : St) (evs : List Ev),
      exec cfg st sched = some (st', evs) → st'.snaps.length = st.snaps.length := by
  intro sched
  induction sched with
  | nil => intro st st' evs he; simp [exec] at he; rw [← he.1]
  | cons x r ih =>
    intro st st' evs he
    obtain ⟨i, a⟩ := x
    simp only [exec] at he
    split at he
    · simp at he
    · rename_i st1 e hstep
      split at he
      · simp at he
      · rename_i st2 es hrest
        simp at he
        rw [← he.1, ih st1 st2 es hrest]
        have := step_sound hstep
        cases this <;> simp [setT, setS]

/-- every state reached from the initial one satisfies the invariant -/
theorem reach_inv {cfg : Cfg} (hO : cfg.fixedOpen = true) {n k : Nat} {sched : List (Nat × Act)}
    {st : St} {evs : List Ev} (he : exec cfg (init n k) sched = some (st, evs)) :
    Inv cfg st ∧ st.snaps.length = k := by
  refine ⟨exec_inv hO sched _ _ _ (init_inv cfg n k) he, ?_⟩
  rw [exec_len sched _ _ _ he]; simp [init]

end NitroVerif.RefCount
