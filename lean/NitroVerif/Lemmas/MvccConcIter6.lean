/-
  The versions a reader delivers within one scan are strictly increasing in `(key, bornSn)` under every
  interleaving (code as it is: snapshot iterators on the insert comparator).
-/
import NitroVerif.Lemmas.MvccConcIter5

namespace NitroVerif.MvccConc
open NitroVerif

/-- the comparator choice is fixed at `init` -/
theorem step_fixedIter {σ : State} (a : Act) : (step σ a).1.fixedIter = σ.fixedIter := by
  by_cases hd : σ.down = true
  · rw [step_down hd]
  · have hd0 : σ.down = false := by simpa using hd
    have mild : ∀ (t : Nat) (σ' : State), Mild t σ σ' → σ'.fixedIter = σ.fixedIter :=
      fun t σ' hm => hm.2.2.2.2.2.2.1
    rw [step_eq_of_not_down hd0]
    cases a with
    | snap => simp only; split <;> rfl
    | put t k v => simp only; split <;> rfl
    | del t k =>
      simp only; split
      · unfold startDel; split
        · rfl
        · split <;> rfl
      · rfl
    | get t k => simp only; split <;> rfl
    | close t s => simp only; split; exact mild t _ (mild_startClose σ t s); rfl
    | itNew t i s => simp only; split; exact mild t _ (mild_itNew σ t i s); rfl
    | itFirst t i => simp only; split; exact mild t _ (mild_itFirst σ t i); rfl
    | itNext t i => simp only; split; exact mild t _ (mild_itNext σ t i); rfl
    | itClose t i => simp only; split; exact mild t _ (mild_itClose σ t i); rfl
    | step t =>
      simp only
      unfold stepThread
      split
      · unfold stepPut; split
        · rfl
        · simp only [alloc_store]
          split <;> simp
      · unfold stepDelPhys; split
        · rfl
        · split <;> rfl
      · rfl
      · unfold stepDelCas casWin casLose; split
        · rfl
        · split
          · split <;> rfl
          · split
            · split <;> rfl
            · rfl
      · rename_i sn after hg; exact mild t _ (mild_stepCollect σ t sn after)
      · rename_i i hg; exact mild t _ (mild_stepIter σ t i)
      · rfl
    | gc j =>
      simp only
      unfold stepGc
      split
      · split
        · split <;> rfl
        · split
          · split
            · rfl
            · split <;> (simp only; split <;> rfl)
          · rfl
        · simp
        · rfl
        · rfl
      · rfl
    | fr j =>
      simp only
      unfold stepFr
      split
      · split
        · simp
        · rfl
        · rfl
      · rfl
    | shutdown =>
      simp only
      unfold shutdown
      split
      · simp
      · rfl

theorem fixedIter_reachable {fx : Bool} {nw nr : Nat} {σ : State} (hr : ReachableFx fx nw nr σ) : σ.fixedIter = fx := by
  induction hr with
  | init => rfl
  | step a _ ih => rw [step_fixedIter]; exact ih

/-! ### what a reader is handed -/

/-- the action belongs to iterator `i` of thread `t`: its `it_first`, or its ITER_NEXT step -/
def mine (σ : State) (a : Act) (t i : Nat) : Bool :=
  match a with
  | .itFirst t' i' => t' == t && i' == i
  | .step t' => t' == t && σ.threads[t]? == some (.iterNext i)
  | _ => false

/-- the version (as `(key, bornSn)`) that action `a` hands to the user of iterator `(t, i)`, if any:
    the action is the iterator's own, it answers `ret <k:v>`, and the cursor then stands on that version -/
def deliveredBy (σ : State) (a : Act) (t i : Nat) : Option (Nat × Nat) :=
  if mine σ a t i then
    match (step σ a).2 with
    | .ret (.item (some _)) => (curOf (step σ a).1 t i).map Cur.kb
    | _ => none
  else none

/-- the versions handed out by iterator `(t, i)` along a schedule -/
def delivered (t i : Nat) : State → List Act → List (Nat × Nat)
  | _, [] => []
  | σ, a :: as => (deliveredBy σ a t i).toList ++ delivered t i (step σ a).1 as

/-- one step that is not the iterator's `it_first`: the cursor does not move backwards (and does not
    appear from nowhere); a delivered version lies strictly after the old cursor and is the new cursor -/
theorem cursor_step {fx : Bool} {nw nr : Nat} {σ : State} (hr : ReachableFx fx nw nr σ) (hfx : fx = true)
    (a : Act) (t i : Nat) (ha : a ≠ .itFirst t i) :
    (∀ c', curOf (step σ a).1 t i = some c' → ∃ c, curOf σ t i = some c ∧ kbLe c.kb c'.kb) ∧
    (∀ e, deliveredBy σ a t i = some e → ∃ c c', curOf σ t i = some c ∧ curOf (step σ a).1 t i = some c' ∧
        c'.kb = e ∧ kbLt c.kb e) := by
  by_cases hd : σ.down = true
  · rw [step_down hd]
    refine ⟨fun c' h => ⟨c', h, Or.inr rfl⟩, ?_⟩
    intro e he
    unfold deliveredBy at he
    rw [step_down hd] at he
    split at he <;> simp at he
  · have hd0 : σ.down = false := by simpa using hd
    have hi := inv_reachable hr hd0
    have hk := iterInv_reachable hr
    have hfix : σ.fixedIter = true := by rw [fixedIter_reachable hr]; exact hfx
    rcases record_step hd0 a t i with h | h | h | ⟨h1, h2⟩
    · -- the record is untouched
      have hcur : curOf (step σ a).1 t i = curOf σ t i := by unfold curOf; rw [h]
      refine ⟨fun c' hc' => ⟨c', by rw [← hcur]; exact hc', Or.inr rfl⟩, ?_⟩
      intro e he
      -- then the action is not the iterator's own delivering action … unless nothing moved
      unfold deliveredBy at he
      split at he
      · rename_i hmine
        -- own ITER_NEXT step (it_first is excluded)
        cases a with
        | step t' =>
          simp only [mine, Bool.and_eq_true, beq_iff_eq] at hmine
          obtain ⟨rfl, hg⟩ := hmine
          have hst : step σ (.step t') = stepIter σ t' i := by
            rw [step_eq_of_not_down hd0]; simp only [stepThread, hg]
          split at he
          · rename_i kv hresp
            rw [hst] at hresp
            obtain ⟨c, c', h1, h2, h3⟩ := (stepIter_cursor hi hk hfix).2 _ hresp
            rw [hst] at he
            rw [h2] at he; simp at he
            exact ⟨c, c', h1, by rw [hst]; exact h2, he, he ▸ h3⟩
          · cases he
        | itFirst t' i' =>
          simp only [mine, Bool.and_eq_true, beq_iff_eq] at hmine
          exact absurd (by rw [hmine.1, hmine.2]) ha
        | _ => simp [mine] at hmine
      · cases he
    · -- the iterator has no cursor afterwards
      refine ⟨fun c' hc' => (by rw [h] at hc'; cases hc'), ?_⟩
      intro e he
      unfold deliveredBy at he
      split at he
      · split at he
        · rw [h] at he; simp at he
        · cases he
      · cases he
    · exact absurd h ha
    · -- the iterator's own ITER_NEXT step
      subst h1
      have hst : step σ (.step t) = stepIter σ t i := by
        rw [step_eq_of_not_down hd0]; simp only [stepThread, h2]
      have hc := stepIter_cursor (t := t) (i := i) hi hk hfix
      refine ⟨by rw [hst]; exact hc.1, ?_⟩
      intro e he
      unfold deliveredBy at he
      split at he
      · split at he
        · rename_i kv hresp
          rw [hst] at hresp he
          obtain ⟨c, c', h1, h2', h3⟩ := hc.2 _ hresp
          rw [h2'] at he; simp at he
          exact ⟨c, c', h1, by rw [hst]; exact h2', he, he ▸ h3⟩
        · cases he
      · cases he

/-- within one scan (no `it_first` of this iterator in the schedule): the delivered versions are
    strictly increasing and all lie strictly after the version the cursor stands on at the start -/
theorem delivered_sorted {fx : Bool} {nw nr : Nat} (hfx : fx = true) (t i : Nat) :
    ∀ (sched : List Act) {σ : State}, ReachableFx fx nw nr σ → Act.itFirst t i ∉ sched →
      (delivered t i σ sched).Pairwise kbLt ∧
      (∀ e ∈ delivered t i σ sched, ∀ c, curOf σ t i = some c → kbLt c.kb e) ∧
      (curOf σ t i = none → delivered t i σ sched = [])
  | [], σ, _, _ => ⟨List.Pairwise.nil, by simp [delivered], fun _ => rfl⟩
  | a :: as, σ, hr, hno => by
    have ha : a ≠ .itFirst t i := fun h => hno (h ▸ List.mem_cons_self)
    have hno' : Act.itFirst t i ∉ as := fun h => hno (List.mem_cons_of_mem _ h)
    obtain ⟨ih1, ih2, ih3⟩ := delivered_sorted hfx t i as (ReachableFx.step a hr) hno'
    obtain ⟨hA, hB⟩ := cursor_step hr hfx a t i ha
    -- every later delivery lies after the cursor of the current state
    have hlater : ∀ e ∈ delivered t i (step σ a).1 as, ∀ c, curOf σ t i = some c → kbLt c.kb e := by
      intro e he c hc
      cases hc' : curOf (step σ a).1 t i with
      | none => rw [ih3 hc'] at he; simp at he
      | some c' =>
        obtain ⟨c0, hc0, hle⟩ := hA c' hc'
        rw [hc] at hc0; injection hc0 with h; subst h
        exact kbLt_of_le_of_lt hle (ih2 e he c' hc')
    simp only [delivered]
    cases hd : deliveredBy σ a t i with
    | none =>
      simp only [Option.toList_none, List.nil_append]
      refine ⟨ih1, hlater, ?_⟩
      intro hnone
      cases hc' : curOf (step σ a).1 t i with
      | none => exact ih3 hc'
      | some c' =>
        obtain ⟨c0, hc0, _⟩ := hA c' hc'
        rw [hnone] at hc0; cases hc0
    | some e =>
      obtain ⟨c, c', h1, h2, h3, h4⟩ := hB e hd
      simp only [Option.toList_some, List.cons_append, List.nil_append]
      refine ⟨?_, ?_, ?_⟩
      · rw [List.pairwise_cons]
        refine ⟨?_, ih1⟩
        intro e' he'
        have := ih2 e' he' c' h2
        rw [h3] at this; exact this
      · intro x hx c0 hc0
        have hcc : c = c0 := by rw [h1] at hc0; injection hc0
        rw [← hcc]
        rcases List.mem_cons.mp hx with rfl | hx
        · exact h4
        · exact hlater x hx c h1
      · intro hnone; rw [hnone] at h1; cases h1

end NitroVerif.MvccConc
