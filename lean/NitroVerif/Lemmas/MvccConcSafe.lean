/-
  Consequences of the invariant for memory safety: a node with an owner has live blocks; what a
  token holder can reach has an owner; no step of the machine dereferences a block that is not live.
-/
import NitroVerif.Lemmas.MvccConcMain

namespace NitroVerif.MvccConc
open NitroVerif

/-! ### owners have live blocks -/

theorem isLive_iff (σ : State) (b : Blk) : isLive σ b = true ↔ b ∈ σ.allocd ∧ b ∉ σ.freed := by
  unfold isLive; simp

theorem live_item_of_own {σ : State} (h : Inv σ) {n : Nat} (hp : 0 < own σ n) : isLive σ (.item n) = true := by
  rw [isLive_iff]
  have hlt := h.own.lt n hp
  refine ⟨(h.own.a_item n).mpr hlt, ?_⟩
  intro hf
  have := ((h.own.f_item n).mp hf).2
  unfold own at hp; omega

theorem live_node_of_own {σ : State} (h : Inv σ) {n : Nat} (hp : 0 < own σ n) (hr : ¬ reserved σ.threads n) :
    isLive σ (.node n) = true := by
  rw [isLive_iff]
  have hlt := h.own.lt n hp
  refine ⟨(h.own.a_node n).mpr ⟨hlt, hr⟩, ?_⟩
  intro hf
  have := ((h.own.f_node n).mp hf).2
  unfold own at hp; omega

/-- a node with an owner other than a parked Put is not reserved -/
theorem not_reserved_of_other {σ : State} (h : Inv σ) {n : Nat}
    (hp : 0 < (storeIds σ.store).count n + (gcOwned σ.gcJobs).count n + sessfr σ.sess σ.freeSeq σ.frJobs n) :
    ¬ reserved σ.threads n := by
  intro hr
  have h1 := reserved_count hr
  have h2 := h.own.le n
  unfold ownC at h2; omega

theorem not_reserved_of_flush {σ : State} (h : Inv σ) {n tk k : Nat} (hm : Pc.delFlush n tk k ∈ σ.threads) :
    ¬ reserved σ.threads n := by
  rintro ⟨k', v', b', hm'⟩
  obtain ⟨t1, ht1⟩ := mem_iff_get.mp hm
  obtain ⟨t2, ht2⟩ := mem_iff_get.mp hm'
  have hne : t1 ≠ t2 := by
    intro he; subst he; rw [ht1] at ht2; cases ht2
  have := count_flatMap_two pcOwn n σ.threads t1 t2 _ _ hne ht1 ht2 (by simp [pcOwn]) (by simp [pcOwn])
  have h2 := h.own.le n
  unfold ownC thrOwned at h2; omega

/-- what a token holder is protected against: the node has an owner and is not a parked Put's -/
theorem own_of_prot {σ : State} (h : Inv σ) {n tok : Nat} (hpr : Prot σ.threads σ.store σ.gcJobs σ.sess n tok)
    {s : Sess} (hs : σ.sess[tok]? = some s) (hne : s.holders ≠ []) :
    0 < own σ n ∧ ¬ reserved σ.threads n := by
  have hfs : σ.freeSeq ≤ tok := by
    cases Nat.lt_or_ge tok σ.freeSeq with
    | inl hlt => exact absurd (h.tok.destr tok s hlt hs) hne
    | inr hge => exact hge
  rcases hpr with hm | ⟨tk, k, hm⟩ | hm | ⟨i, s', hi, hs', hm⟩
  · have hc : 0 < (storeIds σ.store).count n := List.count_pos_iff.mpr hm
    exact ⟨by unfold own ownC; omega, not_reserved_of_other h (by omega)⟩
  · have hc : 0 < (thrOwned σ.threads).count n :=
      List.count_pos_iff.mpr (mem_thrOwned.mpr ⟨_, hm, by simp [pcOwn]⟩)
    exact ⟨by unfold own ownC; omega, not_reserved_of_flush h hm⟩
  · have hc : 0 < (gcOwned σ.gcJobs).count n := List.count_pos_iff.mpr hm
    exact ⟨by unfold own ownC; omega, not_reserved_of_other h (by omega)⟩
  · have hmem : n ∈ sessOwned σ.sess σ.freeSeq := by
      unfold sessOwned
      refine List.mem_flatMap.mpr ⟨s', ?_, hm⟩
      have : (σ.sess.drop σ.freeSeq)[i - σ.freeSeq]? = some s' := by
        rw [List.getElem?_drop, show σ.freeSeq + (i - σ.freeSeq) = i by omega]; exact hs'
      exact List.mem_of_getElem? this
    have hc : 0 < (sessOwned σ.sess σ.freeSeq).count n := List.count_pos_iff.mpr hmem
    exact ⟨by unfold own ownC sessfr; omega, not_reserved_of_other h (by unfold sessfr; omega)⟩

/-- a `Delete2` between its lookup and its return holds live blocks -/
theorem live_of_thread {σ : State} (h : Inv σ) {t n tok k : Nat}
    (ht : σ.threads[t]? = some (.delPhys n tok k) ∨ σ.threads[t]? = some (.delCas n tok k)) :
    isLive σ (.item n) = true ∧ isLive σ (.node n) = true := by
  have hpr : Prot σ.threads σ.store σ.gcJobs σ.sess n tok := by
    rcases ht with ht | ht
    · exact h.prot.phys t n tok k ht
    · exact h.prot.cas t n tok k ht
  obtain ⟨s, hs, hm⟩ : ∃ s : Sess, σ.sess[tok]? = some s ∧ Holder.thr t ∈ s.holders := by
    rcases ht with ht | ht
    · exact h.tok.thr t _ tok ht rfl
    · exact h.tok.thr t _ tok ht rfl
  have ⟨hp, hr⟩ := own_of_prot h hpr hs (List.ne_nil_of_mem hm)
  exact ⟨live_item_of_own h hp, live_node_of_own h hp hr⟩

/-- the node an open iterator stands on has live blocks -/
theorem live_of_iter {σ : State} (h : Inv σ) {key : Nat × Nat} {it : Iter} {c : Cur} (hm : (key, it) ∈ σ.iters)
    (hc : it.cur = some c) : isLive σ (.item c.id) = true ∧ isLive σ (.node c.id) = true := by
  obtain ⟨s, hs, hmem⟩ := h.tok.it key.1 key.2 it hm
  have ⟨hp, hr⟩ := own_of_prot h (h.prot.it key it c hm hc) hs (List.ne_nil_of_mem hmem)
  exact ⟨live_item_of_own h hp, live_node_of_own h hp hr⟩

/-- a linked node has live blocks -/
theorem live_of_linked {σ : State} (h : Inv σ) {x : Node} (hx : x ∈ σ.store) :
    isLive σ (.item x.id) = true ∧ isLive σ (.node x.id) = true := by
  have hc := store_count hx
  have hp : 0 < own σ x.id := by unfold own ownC; omega
  exact ⟨live_item_of_own h hp, live_node_of_own h hp (h.store.id_lt x hx).2⟩

/-- the item of a parked Put is live -/
theorem live_of_put {σ : State} (h : Inv σ) {t n k v b : Nat} (ht : σ.threads[t]? = some (.putInsert n k v b)) :
    isLive σ (.item n) = true := by
  have hr : reserved σ.threads n := ⟨k, v, b, List.mem_of_getElem? ht⟩
  have := reserved_count hr
  exact live_item_of_own h (by unfold own ownC; omega)

/-- a node a collection job still has to unlink is linked -/
theorem linked_of_todo {σ : State} (h : Inv σ) {j n : Nat} {job : GcJob} (hj : σ.gcJobs[j]? = some job)
    (hn : n ∈ job.todo) : ∃ x ∈ σ.store, x.id = n := by
  have hgpos : 0 < garbC σ.writers σ.snaps σ.gcJobs n := by
    have : 0 < (garbJ σ.gcJobs).count n := by
      unfold garbJ
      exact count_flatMap_pos.mpr ⟨job, List.mem_of_getElem? hj, hn⟩
    unfold garbC; omega
  obtain ⟨x, hx, hid, _⟩ := h.garb.linked n hgpos
  exact ⟨x, hx, hid⟩

/-! ### no step dereferences a block that is not live -/

theorem landOn_ne_uaf (σ : State) (t i : Nat) (it : Iter) (land : Option Node) : (landOn σ t i it land).2 ≠ .uaf := by
  unfold landOn
  cases land with
  | none => simp
  | some y => simp only; split <;> simp

theorem finishClose_ne_uaf (σ : State) (t : Nat) (after : Option Nat) : (finishClose σ t after).2 ≠ .uaf := by
  unfold finishClose
  cases after with
  | none => simp
  | some i => simp only; split <;> simp

theorem collectLoop_ne_uaf (σ : State) (t : Nat) (after : Option Nat) : (collectLoop σ t after).2 ≠ .uaf := by
  unfold collectLoop
  split
  · simp
  · split
    · simp
    · exact finishClose_ne_uaf _ _ _

theorem closeRef_ne_uaf (σ : State) (t s : Nat) (rc : Int) (after : Option Nat) :
    (closeRef σ t s rc after).2 ≠ .uaf := by
  unfold closeRef runGC
  split
  · split
    · exact finishClose_ne_uaf _ _ _
    · exact collectLoop_ne_uaf _ _ _
  · exact finishClose_ne_uaf _ _ _

theorem step_ne_uaf {σ : State} (h : Inv σ) (a : Act) : (step σ a).2 ≠ .uaf := by
  unfold step
  split
  · simp
  · cases a with
    | snap => simp only; split <;> simp [snap]
    | put t k v => simp only; split <;> simp [startPut]
    | del t k =>
      simp only; split
      · unfold startDel; split
        · simp
        · split <;> simp
      · simp
    | get t k => simp only; split <;> simp [startGet]
    | close t s =>
      simp only; split
      · unfold startClose; split
        · split
          · exact closeRef_ne_uaf _ _ _ _ _
          · simp
        · simp
      · simp
    | itNew t i s =>
      simp only; split
      · unfold itNew; split
        · split <;> simp
        · simp
      · simp
    | itFirst t i =>
      simp only; split
      · unfold itFirst; split
        · exact landOn_ne_uaf _ _ _ _ _
        · simp
      · simp
    | itNext t i =>
      simp only; split
      · unfold itNext; split
        · split <;> simp
        · simp
      · simp
    | itClose t i =>
      simp only; split
      · unfold itClose; split
        · split
          · exact closeRef_ne_uaf _ _ _ _ _
          · simp
        · simp
      · simp
    | step t =>
      simp only
      unfold stepThread
      split
      · -- PUT_INSERT
        rename_i n k v b ht
        unfold stepPut
        rw [live_of_put h ht]
        simp only [Bool.not_true, Bool.false_eq_true, if_false]
        split <;> simp
      · -- DEL_NODE_PHYS
        rename_i n tok k ht
        unfold stepDelPhys
        rw [(live_of_thread h (Or.inl ht)).2]
        simp only [Bool.not_true, Bool.false_eq_true, if_false]
        split <;> simp
      · unfold stepDelFlush; simp
      · -- DEL_NODE_CAS
        rename_i n tok k ht
        unfold stepDelCas casWin casLose
        have hl := live_of_thread h (Or.inr ht)
        rw [hl.1, hl.2]
        simp only [Bool.and_self, Bool.not_true, Bool.false_eq_true, if_false]
        split
        · split <;> simp
        · split
          · split <;> simp
          · simp
      · -- COLLECT_SEND
        unfold stepCollect
        split
        · exact collectLoop_ne_uaf _ _ _
        · simp
      · -- ITER_NEXT
        rename_i i ht
        unfold stepIter
        cases hf : findIter (t, i) σ.iters with
        | none => simp
        | some it =>
          simp only
          cases hc : it.cur with
          | none => simp
          | some c =>
            simp only
            have hl := live_of_iter h (findIter_some hf) hc
            rw [hl.1, hl.2]
            simp only [Bool.not_true, Bool.false_eq_true, if_false]
            split
            · exact landOn_ne_uaf _ _ _ _ _
            · exact landOn_ne_uaf _ _ _ _ _
      · simp
    | gc j =>
      simp only
      unfold stepGc
      cases hj : σ.gcJobs[j]? with
      | none => simp
      | some job =>
        simp only
        split
        · split <;> simp
        · split
          · rename_i n r htd
            obtain ⟨x, hx, hid⟩ := linked_of_todo (n := n) h hj (by rw [htd]; simp)
            have := (live_of_linked h hx).2
            rw [hid] at this
            rw [this]
            simp only [Bool.not_true, Bool.false_eq_true, if_false]
            split <;> simp
          · simp
        · simp
        · simp
        · simp
    | fr j =>
      simp only
      unfold stepFr
      split
      · split <;> simp
      · simp
    | shutdown =>
      simp only
      unfold shutdown
      split <;> simp

/-- `GC()` never spins -/
theorem collectLoop_ne_hang (σ : State) (t : Nat) (after : Option Nat) : (collectLoop σ t after).2 ≠ .hang := by
  unfold collectLoop
  cases hc : collectable σ with
  | some s => simp
  | none =>
    simp only [recheck_false_of_not_collectable hc]
    simp only [Bool.false_eq_true, if_false]
    unfold finishClose
    cases after with
    | none => simp
    | some i => simp only; split <;> simp

end NitroVerif.MvccConc
