import NitroVerif.Lemmas.SkipConcSearch
/-!
  Whole-scan reasoning for the iterators of M5, part 1: which iterator a segment works for (`pcIter`), the frame
  lemma (a segment touches no iterator but the one its call belongs to, `stepThread_frame`), and the exact shape
  of the segments of an iterator call (`stepIterNext_*`, `stepIterHelp_*`, `stepFindNext_cases`, `finishFind_own`).
  No history variables here; the instrumented run is in `SkipConcScanInv`.
-/
namespace NitroVerif.SkipConc
open NitroVerif

/-- the iterator a findPath call serves -/
def contIter : Cont → Option Nat
  | .iterNext it => some it
  | .iterSeek it => some it
  | .iterRefresh it => some it
  | _ => none

/-- the iterator whose call (Seek / Next with the Refresh inside it / the explicit Refresh) the thread is executing -/
def pcIter : PC → Option Nat
  | .findLevel fp => contIter fp.cont
  | .findNext fp _ => contIter fp.cont
  | .helpDelete fp _ => contIter fp.cont
  | .iterNext it => some it
  | .iterHelp it _ => some it
  | .iterRefresh it => some it
  | _ => none

/-- the iterator an API call addresses -/
def opIter : Op → Option Nat
  | .itFirst it => some it
  | .itSeek it _ => some it
  | .itNext it => some it
  | .itClose it => some it
  | .itInterval it _ => some it
  | .itRefresh it => some it
  | _ => none

/-! ### iterators other than the one written -/

theorem iter?_of_iters_setIter {th th' : Thread} {it it' : Nat} {v : Iter}
    (h : th'.iters = SkipConc.setIter th.iters it' v) (hne : it ≠ it') : th'.iter? it = th.iter? it := by
  simp [Thread.iter?, h, find?_setIter, hne]

theorem iter?_of_iters {th th' : Thread} (h : th'.iters = th.iters) (it : Nat) : th'.iter? it = th.iter? it := by
  simp [Thread.iter?, h]

theorem iter_of_iter? {th th' : Thread} {it : Nat} (h : th'.iter? it = th.iter? it) : th'.iter it = th.iter it := by
  simp [Thread.iter, h]

theorem ne_of_some_ne {a b : Nat} (h : (some a : Option Nat) ≠ some b) : b ≠ a := by
  intro e; exact h (by rw [e])

/-- `r` is the result of a segment of thread `th` that works for iterator `o` (`none`: for no iterator): the new
    program counter works for the same iterator or for none, and every other iterator is untouched -/
def FrameR (it : Nat) (o : Option Nat) (th : Thread) (r : Res) : Prop :=
  (pcIter r.2.1.pc = none ∨ pcIter r.2.1.pc = o) ∧ (o ≠ some it → r.2.1.iter? it = th.iter? it)

theorem FrameR.mono {it : Nat} {o : Option Nat} {th1 th : Thread} {r : Res} (h : FrameR it o th1 r)
    (e : o ≠ some it → th1.iter? it = th.iter? it) : FrameR it o th r :=
  ⟨h.1, fun ho => (h.2 ho).trans (e ho)⟩

theorem startFind_frame (it : Nat) (sh : Shared) (th : Thread) (item : Nat) (c : Cont) :
    FrameR it (contIter c) th (startFind sh th item c) := ⟨.inr rfl, fun _ => rfl⟩

theorem insFinished_frame (it : Nat) (o : Option Nat) (sh : Shared) (th : Thread) (lvl : Nat) :
    FrameR it o th (insFinished sh th lvl) := ⟨.inl rfl, fun _ => rfl⟩

theorem enterSoft_frame (it : Nat) (o : Option Nat) (sh : Shared) (th : Thread) (item n i : Nat) (m : Bool) :
    FrameR it o th (enterSoft sh th item n i m) := by
  unfold enterSoft
  split
  · exact ⟨.inl rfl, fun _ => rfl⟩
  · split
    · exact ⟨.inl rfl, fun _ => rfl⟩
    · exact ⟨.inl rfl, fun _ => rfl⟩

theorem afterNext_iters (sh : Shared) (th : Thread) (it : Nat) :
    ∃ v, (afterNext sh th it).2.1.iters = SkipConc.setIter th.iters it v := by
  unfold afterNext
  simp only []
  split
  · split
    · exact ⟨_, rfl⟩
    · exact ⟨_, rfl⟩
  · exact ⟨_, rfl⟩

theorem afterNext_pc (sh : Shared) (th : Thread) (it : Nat) :
    (afterNext sh th it).2.1.pc = .idle ∨ (afterNext sh th it).2.1.pc = .iterRefresh it := by
  unfold afterNext
  simp only []
  split
  · split
    · exact .inr rfl
    · exact .inl rfl
  · exact .inl rfl

theorem afterNext_frame (it : Nat) (sh : Shared) (th : Thread) (it' : Nat) :
    FrameR it (some it') th (afterNext sh th it') := by
  refine ⟨?_, fun ho => ?_⟩
  · rcases afterNext_pc sh th it' with h | h
    · exact .inl (by rw [h]; rfl)
    · exact .inr (by rw [h]; rfl)
  · obtain ⟨v, hv⟩ := afterNext_iters sh th it'
    exact iter?_of_iters_setIter hv (ne_of_some_ne ho)

theorem moveIter_iter?_ne (th : Thread) {it it' : Nat} (p c : Nat) (hne : it ≠ it') :
    (th.moveIter it' p c).iter? it = th.iter? it :=
  iter?_of_iters_setIter (th := th) rfl hne

theorem finishFind_frame (it : Nat) (sh : Shared) (th : Thread) (item : Nat) (found : Bool) (c : Cont) :
    FrameR it (contIter c) th (finishFind sh th item found c) := by
  cases c <;> simp only [finishFind]
  · split
    · exact ⟨.inl rfl, fun _ => rfl⟩
    · exact ⟨.inl rfl, fun _ => rfl⟩
  · split
    · exact ⟨.inl rfl, fun _ => rfl⟩
    · exact ⟨.inl rfl, fun _ => rfl⟩
  · exact ⟨.inl rfl, fun _ => rfl⟩
  · exact ⟨.inl rfl, fun _ => rfl⟩
  · exact insFinished_frame ..
  · split
    · exact enterSoft_frame ..
    · exact ⟨.inl rfl, fun _ => rfl⟩
  · exact ⟨.inl rfl, fun _ => rfl⟩
  · exact ⟨.inl rfl, fun _ => rfl⟩
  · rename_i it'
    split
    · exact ⟨.inr rfl, fun ho => moveIter_iter?_ne th _ _ (ne_of_some_ne ho)⟩
    · exact (afterNext_frame it sh (th.moveIter it' (th.pred 0) (th.succ 0)) it').mono
        (fun ho => moveIter_iter?_ne th _ _ (ne_of_some_ne ho))
  · rename_i it'
    exact ⟨.inl rfl, fun ho => moveIter_iter?_ne th _ _ (ne_of_some_ne ho)⟩
  · rename_i it'
    exact ⟨.inl rfl, fun ho => moveIter_iter?_ne th _ _ (ne_of_some_ne ho)⟩

theorem afterRead_frame (it : Nat) (sh : Shared) (th : Thread) (fp : FP) (next : Nat) (d : Bool) :
    FrameR it (contIter fp.cont) th (afterRead sh th fp next d) := by
  unfold afterRead
  split
  · exact ⟨.inr rfl, fun _ => rfl⟩
  · simp only []
    split
    · exact ⟨.inr rfl, fun _ => rfl⟩
    · split
      · exact ⟨.inr rfl, fun _ => rfl⟩
      · exact (finishFind_frame it sh _ fp.item _ fp.cont).mono (fun _ => rfl)

theorem insCheckSucc_frame (it : Nat) (sh : Shared) (th : Thread) (item x lvl i next : Nat) :
    FrameR it none th (insCheckSucc sh th item x lvl i next) := by
  unfold insCheckSucc
  split
  · exact startFind_frame ..
  · exact ⟨.inl rfl, fun _ => rfl⟩

/-- FRAME: a segment works for the iterator its program counter names (or none) and leaves every other iterator of
    the thread untouched -/
theorem stepThread_frame (it : Nat) (sh : Shared) (th : Thread) :
    FrameR it (pcIter th.pc) th (stepThread sh th) := by
  unfold stepThread
  split
  · rename_i hpc
    refine ⟨.inl ?_, fun _ => rfl⟩
    show pcIter th.pc = none
    rw [hpc]; rfl
  · rename_i item req level hpc
    rw [hpc]
    unfold stepNewLevel
    split
    · exact startFind_frame ..
    · exact startFind_frame ..
  · rename_i fp hpc
    rw [hpc]
    exact ⟨.inr rfl, fun _ => rfl⟩
  · rename_i fp rr hpc
    rw [hpc]
    unfold stepFindNext
    generalize hfp1 : (if rr = true then { fp with curr := (getNext sh.heap fp.prev fp.i).1 } else fp) = fp1
    have hcont : fp1.cont = fp.cont := by rw [← hfp1]; split <;> rfl
    simp only []
    show FrameR it (contIter fp.cont) th _
    rw [← hcont]
    exact afterRead_frame ..
  · rename_i fp next hpc
    rw [hpc]
    unfold stepHelpDelete
    simp only []
    split
    · exact ⟨.inr rfl, fun _ => rfl⟩
    · exact ⟨.inr rfl, fun _ => rfl⟩
  · rename_i item lvl hpc
    rw [hpc]
    unfold stepInsPublish
    simp only []
    split
    · split
      · exact ⟨.inl rfl, fun _ => rfl⟩
      · exact insFinished_frame ..
    · exact startFind_frame ..
  · rename_i item x lvl i hpc
    rw [hpc]
    unfold stepInsUpRead
    simp only []
    split
    · exact insFinished_frame ..
    · split
      · split
        · exact insCheckSucc_frame ..
        · exact insFinished_frame ..
      · exact insCheckSucc_frame ..
  · rename_i item x lvl i next hpc
    rw [hpc]
    unfold stepInsUpLink
    simp only []
    split
    · split
      · exact startFind_frame ..
      · split
        · exact ⟨.inl rfl, fun _ => rfl⟩
        · exact insFinished_frame ..
    · exact startFind_frame ..
  · rename_i item n i next marked hpc
    rw [hpc]
    unfold stepSoftMark
    simp only []
    exact enterSoft_frame ..
  · rename_i item hpc
    rw [hpc]
    exact startFind_frame ..
  · rename_i it' hpc
    rw [hpc]
    unfold stepIterNext
    simp only []
    split
    · exact ⟨.inr rfl, fun _ => rfl⟩
    · exact (afterNext_frame it sh _ it').mono (fun ho => moveIter_iter?_ne th _ _ (ne_of_some_ne ho))
  · rename_i it' next hpc
    rw [hpc]
    unfold stepIterHelp
    simp only []
    split
    · exact (afterNext_frame it _ _ it').mono (fun ho => moveIter_iter?_ne th _ _ (ne_of_some_ne ho))
    · exact startFind_frame ..
  · rename_i it' hpc
    rw [hpc]
    exact startFind_frame ..

/-- a thread that is not inside a call on iterator `it` does not enter one by a segment, and does not move `it` -/
theorem step_other {it : Nat} {sh : Shared} {th : Thread} (h : pcIter th.pc ≠ some it) :
    pcIter (stepThread sh th).2.1.pc ≠ some it ∧ (stepThread sh th).2.1.iter? it = th.iter? it := by
  obtain ⟨h1, h2⟩ := stepThread_frame it sh th
  refine ⟨?_, h2 h⟩
  rcases h1 with h1 | h1
  · rw [h1]; simp
  · rw [h1]; exact h

theorem find?_filter_ne (l : List (Nat × Iter)) {it it' : Nat} (hne : it' ≠ it) :
    (l.filter fun p => p.1 != it').find? (fun p => p.1 == it) = l.find? (fun p => p.1 == it) := by
  induction l with
  | nil => rfl
  | cons a r ih =>
    by_cases ha : a.1 = it'
    · have h1 : (a.1 != it') = false := by simp [ha]
      have h2 : (a.1 == it) = false := by simp [ha, hne]
      simp [h1, h2, ih]
    · have h1 : (a.1 != it') = true := by simp [ha]
      simp [h1, List.find?_cons, ih]

/-- a call entry that does not address iterator `it` -/
theorem startOp_other {it : Nat} (sh : Shared) (th : Thread) (op : Op) (hidle : th.pc = .idle)
    (h : opIter op ≠ some it) :
    pcIter (startOp sh th op).2.1.pc ≠ some it ∧ (startOp sh th op).2.1.iter? it = th.iter? it := by
  have hid : pcIter th.pc ≠ some it := by rw [hidle]; simp [pcIter]
  cases op <;> simp only [startOp]
  · split
    · exact ⟨by simp [pcIter], rfl⟩
    · exact ⟨by simp [startFind, pcIter, contIter], rfl⟩
  · exact ⟨by simp [startFind, pcIter, contIter], rfl⟩
  · exact ⟨by simp [startFind, pcIter, contIter], rfl⟩
  · rename_i it'
    have hne : it ≠ it' := ne_of_some_ne h
    exact ⟨hid, moveIter_iter?_ne th _ _ hne⟩
  · rename_i it' k
    have hne : it' ≠ it := fun e => h (by rw [e]; rfl)
    exact ⟨by simp [startFind, pcIter, contIter, hne], rfl⟩
  · rename_i it'
    have hne : it' ≠ it := fun e => h (by rw [e]; rfl)
    split
    · split
      · exact ⟨by simp [pcIter, hne], rfl⟩
      · exact ⟨hid, rfl⟩
    · exact ⟨hid, rfl⟩
  · rename_i it'
    have hne : it' ≠ it := fun e => h (by rw [e]; rfl)
    split
    · refine ⟨hid, ?_⟩
      show ((th.iters.filter fun p => p.1 != it').find? (fun p => p.1 == it)).map (·.2) =
        (th.iters.find? fun p => p.1 == it).map (·.2)
      rw [find?_filter_ne _ hne]
    · exact ⟨hid, rfl⟩
  · rename_i it' n
    have hne : it ≠ it' := ne_of_some_ne h
    split
    · split
      · exact ⟨hid, iter?_of_iters_setIter (th := th) rfl hne⟩
      · exact ⟨hid, rfl⟩
    · exact ⟨hid, rfl⟩
  · rename_i it'
    have hne : it' ≠ it := fun e => h (by rw [e]; rfl)
    split
    · split
      · exact ⟨by simp [pcIter, hne], rfl⟩
      · exact ⟨hid, rfl⟩
    · exact ⟨hid, rfl⟩

/-! ### the segments of a call on iterator `it` -/

theorem stepIterNext_marked {sh : Shared} {th : Thread} {it : Nat}
    (hm : (getNext sh.heap (th.iter it).curr 0).2 = true) :
    stepIterNext sh th it =
      (sh, { th with pc := .iterHelp it (getNext sh.heap (th.iter it).curr 0).1 }, "at HELP_DELETE") := by
  unfold stepIterNext
  simp only []
  rw [if_pos hm]

theorem stepIterNext_unmarked {sh : Shared} {th : Thread} {it : Nat}
    (hm : ¬ (getNext sh.heap (th.iter it).curr 0).2 = true) :
    stepIterNext sh th it =
      afterNext sh (th.moveIter it (th.iter it).curr (getNext sh.heap (th.iter it).curr 0).1) it := by
  unfold stepIterNext
  simp only []
  rw [if_neg hm]

/-- the end of Next on a cursor that has just been moved to `c` -/
theorem afterNext_move (sh : Shared) (th : Thread) (it p c : Nat) :
    (afterNext sh (th.moveIter it p c) it).1 = sh ∧
    ((afterNext sh (th.moveIter it p c) it).2.1.iter it).curr = c ∧
    ((afterNext sh (th.moveIter it p c) it).2.1.pc = .idle ∨
     (afterNext sh (th.moveIter it p c) it).2.1.pc = .iterRefresh it) := by
  refine ⟨afterNext_sh .., ?_, afterNext_pc ..⟩
  have := (afterNext_pos sh (th.moveIter it p c) it).2
  rw [moveIter_iter] at this
  exact this

theorem stepIterHelp_ok {sh : Shared} {th : Thread} {it next : Nat}
    (hs : (dcas sh.heap (th.iter it).prev 0 (th.iter it).curr next false).2 = true) :
    stepIterHelp sh th it next =
      afterNext (helpStats sh (dcas sh.heap (th.iter it).prev 0 (th.iter it).curr next false).1
          (dcas sh.heap (th.iter it).prev 0 (th.iter it).curr next false).2 0 (th.iter it).curr)
        (th.moveIter it (th.iter it).prev next) it := by
  unfold stepIterHelp
  simp only []
  rw [if_pos hs]

theorem stepIterHelp_fail {sh : Shared} {th : Thread} {it next : Nat}
    (hs : ¬ (dcas sh.heap (th.iter it).prev 0 (th.iter it).curr next false).2 = true) :
    (stepIterHelp sh th it next).1.heap = sh.heap ∧
    ∃ fp, (stepIterHelp sh th it next).2.1 = { th with pc := .findLevel fp } ∧ fp.cont = .iterNext it ∧
      fp.startLen = sh.heap.length ∧ fp.item = itemOfKey (keyOf sh.heap (th.iter it).curr) := by
  have hf : (dcas sh.heap (th.iter it).prev 0 (th.iter it).curr next false).2 = false := by simpa using hs
  have hh := dcas_fail _ _ _ _ _ _ hf
  unfold stepIterHelp
  simp only []
  rw [if_neg hs]
  simp only [startFind, bumpReadConflicts, helpStats_heap, hh]
  exact ⟨trivial, _, rfl, rfl, rfl, rfl⟩

/-- a FIND_NEXT segment either stays inside findPath (same item, same ghost start length, same caller, iterators
    and heap untouched) or findPath returns to its caller from level 0 at `c`, whose word was read unmarked and
    whose key is not below the item -/
theorem stepFindNext_cases (sh : Shared) (th : Thread) (fp : FP) (rr : Bool) :
    (∃ fp', ((stepFindNext sh th fp rr).2.1.pc = .findNext fp' false ∨
             (∃ n, (stepFindNext sh th fp rr).2.1.pc = .helpDelete fp' n) ∨
             (stepFindNext sh th fp rr).2.1.pc = .findLevel fp') ∧
        fp'.item = fp.item ∧ fp'.startLen = fp.startLen ∧ fp'.cont = fp.cont ∧
        (stepFindNext sh th fp rr).2.1.iters = th.iters) ∨
    (fp.i = 0 ∧
      (getNext sh.heap (if rr = true then (getNext sh.heap fp.prev fp.i).1 else fp.curr) 0).2 = false ∧
      ¬ Gen.findAdvance (compare (keyOf sh.heap (if rr = true then (getNext sh.heap fp.prev fp.i).1 else fp.curr))
          (.fin fp.item)) = true ∧
      stepFindNext sh th fp rr =
        finishFind sh { th with preds := th.preds.set 0 fp.prev,
                                succs := th.succs.set 0 (if rr = true then (getNext sh.heap fp.prev fp.i).1 else fp.curr) }
          fp.item (Gen.findFound (compare (keyOf sh.heap (if rr = true then (getNext sh.heap fp.prev fp.i).1 else fp.curr))
            (.fin fp.item))) fp.cont) := by
  unfold stepFindNext
  generalize hfp1 : (if rr = true then { fp with curr := (getNext sh.heap fp.prev fp.i).1 } else fp) = fp1
  have hitem : fp1.item = fp.item := by rw [← hfp1]; split <;> rfl
  have hlen : fp1.startLen = fp.startLen := by rw [← hfp1]; split <;> rfl
  have hcont : fp1.cont = fp.cont := by rw [← hfp1]; split <;> rfl
  have hprev : fp1.prev = fp.prev := by rw [← hfp1]; split <;> rfl
  have hi : fp1.i = fp.i := by rw [← hfp1]; split <;> rfl
  have hcurr : fp1.curr = (if rr = true then (getNext sh.heap fp.prev fp.i).1 else fp.curr) := by
    rw [← hfp1]; split <;> rfl
  rw [← hcurr, ← hitem, ← hcont, ← hprev, ← hi, ← hlen]
  simp only []
  unfold afterRead
  by_cases hd : (getNext sh.heap fp1.curr fp1.i).2 = true
  · rw [if_pos hd]
    exact .inl ⟨fp1, .inr (.inl ⟨_, rfl⟩), rfl, rfl, rfl, rfl⟩
  · rw [if_neg hd]
    simp only []
    by_cases ha : Gen.findAdvance (compare (keyOf sh.heap fp1.curr) (.fin fp1.item)) = true
    · rw [if_pos ha]
      exact .inl ⟨_, .inl rfl, rfl, rfl, rfl, rfl⟩
    · rw [if_neg ha]
      cases hi0 : fp1.i with
      | succ i => exact .inl ⟨_, .inr (.inr rfl), rfl, rfl, rfl, rfl⟩
      | zero =>
        refine .inr ⟨rfl, ?_, ha, rfl⟩
        rw [hi0] at hd
        simpa using hd

theorem finishFind_iterSeek (sh : Shared) (th : Thread) (item : Nat) (found : Bool) (it : Nat) :
    finishFind sh th item found (.iterSeek it) =
      (sh, { th.moveIter it (th.pred 0) (th.succ 0) with pc := .idle }, retKey sh.heap (th.succ 0)) := rfl

theorem finishFind_iterRefresh (sh : Shared) (th : Thread) (item : Nat) (found : Bool) (it : Nat) :
    finishFind sh th item found (.iterRefresh it) =
      (sh, { th.moveIter it (th.pred 0) (th.succ 0) with pc := .idle }, retKey sh.heap (th.succ 0)) := rfl

theorem finishFind_iterNext (sh : Shared) (th : Thread) (item : Nat) (found : Bool) (it : Nat) :
    finishFind sh th item found (.iterNext it) =
      if (found && (th.iter it).curr == th.succ 0) = true then
        (sh, { th.moveIter it (th.pred 0) (th.succ 0) with pc := .iterNext it }, "at ITER_NEXT")
      else afterNext sh (th.moveIter it (th.pred 0) (th.succ 0)) it := rfl

/-- findPath returns to Seek / Next / Refresh of iterator `it`: where the cursor is and what the call does next -/
theorem finishFind_own (sh : Shared) (th : Thread) (item : Nat) (found : Bool) (it : Nat) (c : Cont)
    (hc : contIter c = some it) :
    (finishFind sh th item found c).1 = sh ∧
    ((finishFind sh th item found c).2.1.iter it).curr = th.succ 0 ∧
    ((finishFind sh th item found c).2.1.pc = .idle ∨
     (c = .iterNext it ∧ ((finishFind sh th item found c).2.1.pc = .iterRefresh it ∨
        ((finishFind sh th item found c).2.1.pc = .iterNext it ∧ th.succ 0 = (th.iter it).curr)))) := by
  cases c <;> simp [contIter] at hc
  · rename_i it'
    subst it'
    rw [finishFind_iterNext]
    split
    · rename_i hf
      refine ⟨rfl, (moveIter_pos ..).2, .inr ⟨rfl, .inr ⟨rfl, ?_⟩⟩⟩
      simp at hf
      exact hf.2.symm
    · obtain ⟨h1, h2, h3⟩ := afterNext_move sh th it (th.pred 0) (th.succ 0)
      refine ⟨h1, h2, ?_⟩
      rcases h3 with h3 | h3
      · exact .inl h3
      · exact .inr ⟨rfl, .inl h3⟩
  · rename_i it'
    subst it'
    rw [finishFind_iterSeek]
    exact ⟨rfl, (moveIter_pos ..).2, .inl rfl⟩
  · rename_i it'
    subst it'
    rw [finishFind_iterRefresh]
    exact ⟨rfl, (moveIter_pos ..).2, .inl rfl⟩

/-- END OF A SEARCH, reachability form: every node that was published before the findPath call started, is still
    unmarked and has a key ≥ item is reachable along level 0 from the node findPath stops at -/
theorem search_end_reach {sh : Shared} {th : Thread} (fp : FP) (rr : Bool)
    (hpc : th.pc = .findNext fp rr) (hT : TInv sh.heap th) (hS : SInv sh.heap th) (hi0 : fp.i = 0) :
    ∀ n, Stable sh.heap fp.startLen fp.item n →
      Reach sh.heap (if rr = true then (getNext sh.heap fp.prev fp.i).1 else fp.curr) n := by
  intro n hs
  have hp := hT.2.2
  rw [hpc] at hp
  obtain ⟨⟨f1, f2, f3, f4, f5⟩, hcl⟩ := hp
  unfold SInv at hS
  rw [hpc] at hS
  obtain ⟨hL, j1, j2⟩ := hS
  by_cases hr : rr = true
  · rw [if_pos hr, hi0]
    exact reach_succ (j1 n hs) f3 hs.2.2
  · rw [if_neg hr]
    exact j2 hi0 n hs

/-- the node findPath stops at is the tail or a node that is unmarked at level 0 in the state of the last read -/
theorem search_end_live {sh : Shared} {th : Thread} (H : HInv sh.heap) (fp : FP) (rr : Bool)
    (hpc : th.pc = .findNext fp rr) (hT : TInv sh.heap th) (hi0 : fp.i = 0)
    (hm : (getNext sh.heap (if rr = true then (getNext sh.heap fp.prev fp.i).1 else fp.curr) 0).2 = false) :
    (if rr = true then (getNext sh.heap fp.prev fp.i).1 else fp.curr) < sh.heap.length ∧
    ((if rr = true then (getNext sh.heap fp.prev fp.i).1 else fp.curr) = 1 ∨
      unmarked0 sh.heap (if rr = true then (getNext sh.heap fp.prev fp.i).1 else fp.curr)) := by
  have hp := hT.2.2
  rw [hpc] at hp
  obtain ⟨⟨f1, f2, f3, f4, f5⟩, hcl⟩ := hp
  have hc : (if rr = true then (getNext sh.heap fp.prev fp.i).1 else fp.curr) < sh.heap.length ∧
      ((if rr = true then (getNext sh.heap fp.prev fp.i).1 else fp.curr) = 1 ∨
       (word? sh.heap (if rr = true then (getNext sh.heap fp.prev fp.i).1 else fp.curr) 0).isSome) := by
    by_cases hr : rr = true
    · rw [if_pos hr]
      have := H.getNext_lv fp.prev fp.i f5
      rw [hi0] at this ⊢
      exact ⟨H.getNext_lt _ _, this⟩
    · rw [if_neg hr]
      unfold CurrLv at hcl
      rw [hi0] at hcl
      exact ⟨f2, hcl⟩
  refine ⟨hc.1, ?_⟩
  by_cases h1 : (if rr = true then (getNext sh.heap fp.prev fp.i).1 else fp.curr) = 1
  · exact .inl h1
  · exact .inr (unmarked0_of_level H hc.1 h1 hc.2 hm)

end NitroVerif.SkipConc
