import NitroVerif.Lemmas.Codec
/-!
  KVToBytes / KVFromBytes / CompareKV and `bytes.Compare` (`cmpBytes`).
-/
namespace NitroVerif.Codec
open NitroVerif NitroVerif.Codec.GenLemmas

/-- what KVFromBytes returns on the output of KVToBytes, for EVERY key length: the key length is
    stored as `uint16(klen)`, i.e. modulo 2^16, and the split point is that stored value -/
theorem kvFromBytes_kvToBytes_general (k v : Bytes) :
    kvFromBytes (kvToBytes k v)
      = ((k ++ v).take (k.length % 2 ^ 16), (k ++ v).drop (k.length % 2 ^ 16)) := by
  unfold kvFromBytes kvToBytes
  rw [kvKeyLen_eq, lenEnc_kv, kvLenWidth_eq]
  have htake : (leBytes 2 k.length ++ k ++ v).take 2 = leBytes 2 k.length := by
    rw [List.append_assoc]; exact List.take_left' (length_leBytes _ _)
  have hdrop : (leBytes 2 k.length ++ k ++ v).drop 2 = k ++ v := by
    rw [List.append_assoc]; exact List.drop_left' (length_leBytes _ _)
  have hval : leVal (leBytes 2 k.length) = k.length % 2 ^ 16 := by
    rw [leVal_leBytes]
  simp only [htake, hval, hdrop]
  rw [← List.drop_drop, hdrop]

theorem kvWellFormed_kvToBytes_general (k v : Bytes) : kvWellFormed (kvToBytes k v) = true := by
  unfold kvWellFormed kvToBytes
  rw [kvKeyLen_eq, lenEnc_kv, kvLenWidth_eq]
  have htake : (leBytes 2 k.length ++ k ++ v).take 2 = leBytes 2 k.length := by
    rw [List.append_assoc]; exact List.take_left' (length_leBytes _ _)
  have hval : leVal (leBytes 2 k.length) = k.length % 2 ^ 16 := by
    rw [leVal_leBytes]
  have hmod : k.length % 2 ^ 16 ≤ k.length := Nat.mod_le _ _
  simp only [htake, hval, List.length_append, length_leBytes, Bool.and_eq_true, decide_eq_true_eq]
  omega

theorem kvFromBytes_kvToBytes {k : Bytes} (v : Bytes) (hk : k.length < 2 ^ 16) :
    kvFromBytes (kvToBytes k v) = (k, v) := by
  rw [kvFromBytes_kvToBytes_general, Nat.mod_eq_of_lt hk]
  simp

/-! ### bytes.Compare -/

theorem cmpBytes_refl (a : Bytes) : cmpBytes a a = 0 := by
  induction a with
  | nil => simp [cmpBytes]
  | cons x xs ih => simp [cmpBytes, ih, UInt8.lt_irrefl]

theorem cmpBytes_eq_zero_iff (a b : Bytes) : cmpBytes a b = 0 ↔ a = b := by
  induction a generalizing b with
  | nil => cases b <;> simp [cmpBytes]
  | cons x xs ih =>
    cases b with
    | nil => simp [cmpBytes]
    | cons y ys =>
      simp only [cmpBytes, List.cons.injEq]
      by_cases h1 : x < y
      · have : x ≠ y := by intro e; subst e; exact UInt8.lt_irrefl _ h1
        simp [h1, this]
      · by_cases h2 : y < x
        · have : x ≠ y := by intro e; subst e; exact UInt8.lt_irrefl _ h2
          simp [h1, h2, this]
        · have : x = y := UInt8.le_antisymm (UInt8.not_lt.1 h2) (UInt8.not_lt.1 h1)
          subst this
          simp [UInt8.lt_irrefl, ih]

/-- the result is a sign -/
theorem cmpBytes_range (a b : Bytes) : cmpBytes a b = -1 ∨ cmpBytes a b = 0 ∨ cmpBytes a b = 1 := by
  induction a generalizing b with
  | nil => cases b <;> simp [cmpBytes]
  | cons x xs ih =>
    cases b with
    | nil => simp [cmpBytes]
    | cons y ys =>
      simp only [cmpBytes]
      split
      · simp
      · split
        · simp
        · exact ih ys

theorem cmpBytes_antisymm (a b : Bytes) : cmpBytes a b = - cmpBytes b a := by
  induction a generalizing b with
  | nil => cases b <;> simp [cmpBytes]
  | cons x xs ih =>
    cases b with
    | nil => simp [cmpBytes]
    | cons y ys =>
      simp only [cmpBytes]
      by_cases h1 : x < y
      · have h2 : ¬ y < x := fun h => UInt8.lt_irrefl _ (UInt8.lt_trans h1 h)
        simp [h1, h2]
      · by_cases h2 : y < x
        · simp [h1, h2]
        · simp [h1, h2, ih ys]

/-- `cmpBytes a b < 0` is the lexicographic order of byte lists (core `List` order on `UInt8`) -/
theorem cmpBytes_neg_iff_lt (a b : Bytes) : cmpBytes a b < 0 ↔ a < b := by
  induction a generalizing b with
  | nil => cases b <;> simp [cmpBytes]
  | cons x xs ih =>
    cases b with
    | nil => simp [cmpBytes]
    | cons y ys =>
      rw [List.cons_lt_cons_iff]
      simp only [cmpBytes]
      by_cases h1 : x < y
      · simp [h1]
      · by_cases h2 : y < x
        · have : x ≠ y := by intro e; subst e; exact UInt8.lt_irrefl _ h2
          simp [h1, h2, this]
        · have : x = y := UInt8.le_antisymm (UInt8.not_lt.1 h2) (UInt8.not_lt.1 h1)
          subst this
          simp [UInt8.lt_irrefl, ih]

theorem cmpBytes_pos_iff_gt (a b : Bytes) : 0 < cmpBytes a b ↔ b < a := by
  rw [← cmpBytes_neg_iff_lt, cmpBytes_antisymm a b]; omega

theorem cmpBytes_trans {a b c : Bytes} (h1 : cmpBytes a b < 0) (h2 : cmpBytes b c < 0) :
    cmpBytes a c < 0 := by
  induction a generalizing b c with
  | nil =>
    cases b with
    | nil => simp [cmpBytes] at h1
    | cons y ys =>
      cases c with
      | nil => simp [cmpBytes] at h2
      | cons z zs => simp [cmpBytes]
  | cons x xs ih =>
    cases b with
    | nil => simp [cmpBytes] at h1
    | cons y ys =>
      cases c with
      | nil => simp [cmpBytes] at h2
      | cons z zs =>
        simp only [cmpBytes] at h1 h2 ⊢
        by_cases hxy : x < y
        · by_cases hyz : y < z
          · simp [UInt8.lt_trans hxy hyz]
          · by_cases hzy : z < y
            · simp [hyz, hzy] at h2
            · have : y = z := UInt8.le_antisymm (UInt8.not_lt.1 hzy) (UInt8.not_lt.1 hyz)
              subst this; simp [hxy]
        · by_cases hyx : y < x
          · simp [hxy, hyx] at h1
          · have : x = y := UInt8.le_antisymm (UInt8.not_lt.1 hyx) (UInt8.not_lt.1 hxy)
            subst this
            by_cases hyz : x < z
            · simp [hyz]
            · by_cases hzy : z < x
              · simp [hyz, hzy] at h2
              · simp only [hxy, hyz, hzy, if_false] at h1 h2 ⊢
                exact ih h1 h2

/-- CompareKV on two encoded pairs compares the keys, for keys that fit the 2-byte length -/
theorem compareKV_kvToBytes {k1 k2 : Bytes} (v1 v2 : Bytes)
    (h1 : k1.length < 2 ^ 16) (h2 : k2.length < 2 ^ 16) :
    compareKV (kvToBytes k1 v1) (kvToBytes k2 v2) = cmpBytes k1 k2 := by
  unfold compareKV
  rw [kvFromBytes_kvToBytes v1 h1, kvFromBytes_kvToBytes v2 h2]

end NitroVerif.Codec
