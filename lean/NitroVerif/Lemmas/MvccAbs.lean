/-
  The abstraction function from the M6 model to the specification `SetSpec`, and how it commutes
  with the bookkeeping functions.
-/
import NitroVerif.Lemmas.MvccInvStep

namespace NitroVerif.Mvcc
open NitroVerif SetSpec

def entryOf (v : Ver) : Entry := ⟨v.key, v.val, v.born⟩

/-- the alive items, in key order -/
def absAlive (s : List Ver) : List Entry := (s.filter isAlive).map entryOf

def absSnap (m : Snap) : SetSpec.Snap := ⟨m.sn, m.rc, m.content.map Ver.item⟩

def absIter (p : Nat × Iter) : Nat × SetSpec.Iter := (p.1, ⟨p.2.sn, p.2.cur.map Ver.item⟩)

/-- the node `(k, b)` is present and alive -/
def hasAlive (store : List Ver) (k b : Nat) : Bool :=
  (store.filter isAlive).any (fun v => v.key == k && v.born == b)

def absHandle (store : List Ver) (p : Nat × Handle) : Nat × SetSpec.Handle :=
  (p.1, ⟨p.2.key, p.2.born, !p.2.gone && hasAlive store p.2.key p.2.born⟩)

def abs (σ : State) : SetSpec.State :=
  { nwriters := σ.writers.length
    alive := absAlive σ.store
    epoch := σ.currSn
    items := σ.itemsCount
    snaps := σ.snaps.map absSnap
    iters := σ.iters.map absIter
    handles := σ.handles.map (absHandle σ.store) }

theorem abs_init (n : Nat) : abs (init n) = SetSpec.init n := by
  simp [abs, init, SetSpec.init, absAlive]

/-! ### association lists under a name-preserving map -/

theorem alookup_map {α β : Type} (g : Nat × α → Nat × β) (hg : ∀ p, (g p).1 = p.1) (n : Nat) :
    ∀ (l : List (Nat × α)), alookup n (l.map g) = (alookup n l).map (fun a => (g (n, a)).2)
  | [] => rfl
  | (m, a) :: r => by
    have ih := alookup_map g hg n r
    have h1 := hg (m, a)
    simp only [List.map_cons]
    cases hga : g (m, a) with
    | mk m' b =>
      rw [hga] at h1; simp at h1; subst h1
      unfold alookup
      by_cases hm : m' = n
      · subst hm; simp [hga]
      · simp [hm, ih]

theorem map_aerase {α β : Type} (g : Nat × α → Nat × β) (hg : ∀ p, (g p).1 = p.1) (n : Nat)
    (l : List (Nat × α)) : (aerase n l).map g = aerase n (l.map g) := by
  unfold aerase
  rw [List.filter_map]
  congr 1
  apply List.filter_congr
  intro p _; simp [Function.comp, hg]

theorem aset_cons {α : Type} (n : Nat) (a : α) (p : Nat × α) (r : List (Nat × α)) :
    aset n a (p :: r) = if p.1 = n then (n, a) :: r else p :: aset n a r := by
  cases p; rfl

theorem map_aset {α β : Type} (g : Nat × α → Nat × β) (hg : ∀ p, (g p).1 = p.1) (n : Nat) (a : α) :
    ∀ (l : List (Nat × α)), (aset n a l).map g = aset n (g (n, a)).2 (l.map g)
  | [] => by
    show [g (n, a)] = [(n, (g (n, a)).2)]
    congr 1; exact Prod.ext (hg _) rfl
  | p :: r => by
    have ih := map_aset g hg n a r
    rw [aset_cons, List.map_cons, aset_cons, hg p]
    by_cases hp : p.1 = n
    · rw [if_pos hp, if_pos hp, List.map_cons]
      congr 1; exact Prod.ext (hg _) rfl
    · rw [if_neg hp, if_neg hp, List.map_cons, ih]

/-- re-registering an entry with the value it has changes nothing -/
theorem aset_same {α : Type} {n : Nat} {a : α} : ∀ {l : List (Nat × α)}, alookup n l = some a → aset n a l = l
  | [], h => by simp [alookup] at h
  | (m, b) :: r, h => by
    unfold alookup at h
    by_cases hm : m = n
    · simp [hm] at h; subst h; subst hm; simp [aset]
    · simp only [hm, if_false] at h
      simp [aset, hm, aset_same h]

theorem absIter_fst (p : Nat × Iter) : (absIter p).1 = p.1 := rfl
theorem absHandle_fst (store : List Ver) (p : Nat × Handle) : (absHandle store p).1 = p.1 := rfl

theorem itersOn_abs (s : Nat) (l : List (Nat × Iter)) : SetSpec.itersOn s (l.map absIter) = itersOn s l := by
  unfold SetSpec.itersOn itersOn
  rw [List.filter_map, List.length_map]
  rfl

/-! ### snapshots -/

theorem findSnap_abs (s : Nat) : ∀ (l : List Snap),
    SetSpec.findSnap s (l.map absSnap) = (findSnap s l).map absSnap
  | [] => rfl
  | x :: r => by
    have ih := findSnap_abs s r
    unfold SetSpec.findSnap findSnap at ih ⊢
    simp only [List.map_cons, List.find?_cons]
    have : (absSnap x).sn = x.sn := rfl
    rw [this]
    cases h : (x.sn == s)
    · simp only; exact ih
    · simp

theorem updSnap_abs (s : Nat) (f : Snap → Snap) (f' : SetSpec.Snap → SetSpec.Snap)
    (hf : ∀ x, absSnap (f x) = f' (absSnap x)) (l : List Snap) :
    (updSnap s f l).map absSnap = SetSpec.updSnap s f' (l.map absSnap) := by
  unfold updSnap SetSpec.updSnap
  rw [List.map_map, List.map_map]
  apply List.map_congr_left
  intro x _
  simp only [Function.comp]
  have : (absSnap x).sn = x.sn := rfl
  rw [this]
  split
  · exact hf x
  · rfl

theorem contentOf_abs {σ : State} {s : Nat} {x : Snap} (hx : findSnap s σ.snaps = some x) :
    contentOf (abs σ) s = x.content.map Ver.item := by
  unfold contentOf
  simp only [abs]
  rw [findSnap_abs, hx]
  rfl

/-! ### the alive items -/

theorem findKey_abs (store : List Ver) (k : Nat) :
    findKey k (absAlive store) = (aliveOf store k).map entryOf := by
  unfold findKey absAlive aliveOf
  rw [List.find?_map, List.find?_filter]
  congr 1
  apply find?_congr'
  intro v _
  simp [Function.comp, entryOf, isAlive, and_comm]
  by_cases h1 : v.key = k <;> by_cases h2 : v.dead = 0 <;> simp [h1, h2]

theorem norm_item (v : Ver) : v.norm.item = v.item := rfl

theorem view_item (store : List Ver) (sn : Nat) :
    (view store sn).map Ver.item = (vis store sn).map Ver.item := by
  unfold view vis
  rw [List.map_map]
  rfl

theorem absAlive_items {cur : Nat} {store : List Ver} (hc : Chains cur store) :
    (absAlive store).map (fun e => (e.key, e.val)) = (view store cur).map Ver.item := by
  rw [view_item]
  unfold absAlive vis
  rw [visible_cur_iff_alive hc, List.map_map]
  rfl

end NitroVerif.Mvcc
