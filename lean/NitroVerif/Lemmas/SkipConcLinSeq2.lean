import NitroVerif.Lemmas.SkipConcLinSeq
/-!
  The explicit sequential history `linearization n as` and its properties:
  * `lin_replay`       replaying it on the set specification (`Entry.ok`, `Entry.next`) from the empty set succeeds —
                       every recorded result is the one the specification gives — and ends in the abstract set of the
                       final state; bucket by bucket the specification state IS the trace (`range'_replay`);
  * `lin_ins_true`, `lin_ins_false`, `lin_del_true`, `lin_del_false`, `lin_look_true`, `lin_look_false`
                       every completed Insert / Delete / Lookup call has its entry in the history;
  * `bucket_mem`       every entry of the history belongs to a call (in flight at the position of its bucket);
  * `lin_real_time`    a call that returned before another was entered comes first in the history.
-/
namespace NitroVerif.SkipConc
open NitroVerif

/-! ### the history -/

/-- the read entry contributed by the call that action `e` returns, with the position it is placed at -/
def readEntry (n : Nat) (as : List Action) (e : Nat) : Option (Nat × Entry) :=
  match retAt n as e with
  | some (t, s, .ins k, out) =>
    if out = "ret false" then some (readPoint n as s e k true, ⟨t, s, .ins k, false⟩) else none
  | some (t, s, .del k, out) =>
    if out = "ret false" then some (readPoint n as s e k false, ⟨t, s, .del k, false⟩) else none
  | some (t, s, .look k, out) =>
    if out = "ret true" then some (readPoint n as s e k true, ⟨t, s, .look k, true⟩)
    else if out = "ret false" then some (readPoint n as s e k false, ⟨t, s, .look k, false⟩) else none
  | _ => none

/-- the reads placed at state `i` -/
def readsAt (n : Nat) (as : List Action) (i : Nat) : List Entry :=
  (List.range as.length).filterMap fun e =>
    match readEntry n as e with
    | some (q, en) => if q = i then some en else none
    | none => none

/-- the reads placed at state `i`, then the update made by action `i` -/
def bucket (n : Nat) (as : List Action) (i : Nat) : List Entry := readsAt n as i ++ updAt n as i

/-- THE SEQUENTIAL HISTORY of the run `as` from `Sys.init n` -/
def linearization (n : Nat) (as : List Action) : List Entry :=
  (List.range (as.length + 1)).flatMap (bucket n as)

/-! ### the set specification -/

/-- the abstract set at position `i`, as a state of the specification -/
def absFn (n : Nat) (as : List Action) (i : Nat) : Nat → Prop := fun k => absAt n as i k

/-- the recorded result is the one the set specification gives in state `S`:
    Insert succeeds iff the item is absent, Delete iff it is present, Lookup reports membership -/
def Entry.ok (S : Nat → Prop) (en : Entry) : Prop :=
  match en.kind with
  | .ins k => (en.res = true ↔ ¬ S k)
  | .del k => (en.res = true ↔ S k)
  | .look k => (en.res = true ↔ S k)
  | _ => False

/-- the state of the set specification after the call -/
def Entry.next (S : Nat → Prop) (en : Entry) : Nat → Prop :=
  match en.kind, en.res with
  | .ins k, true => fun x => S x ∨ x = k
  | .del k, true => fun x => S x ∧ x ≠ k
  | _, _ => S

/-- replaying a sequential history on the set specification from `S`: every recorded result is right, the final
    state is `S'` -/
def Replay : (Nat → Prop) → List Entry → (Nat → Prop) → Prop
  | S, [], S' => S = S'
  | S, en :: r, S' => en.ok S ∧ Replay (en.next S) r S'

theorem Replay_append {S T U : Nat → Prop} {l1 l2 : List Entry} (h1 : Replay S l1 T) (h2 : Replay T l2 U) :
    Replay S (l1 ++ l2) U := by
  induction l1 generalizing S with
  | nil => simp only [Replay] at h1; subst h1; exact h2
  | cons en r ih => exact ⟨h1.1, ih h1.2⟩

theorem Replay_reads {S : Nat → Prop} {l : List Entry} (h : ∀ en ∈ l, en.ok S ∧ en.next S = S) : Replay S l S := by
  induction l with
  | nil => rfl
  | cons en r ih =>
    have h1 := h en (List.mem_cons_self ..)
    refine ⟨h1.1, ?_⟩
    rw [h1.2]
    exact ih (fun e he => h e (List.mem_cons_of_mem _ he))

/-! ### reads -/

theorem readPoint_le (n : Nat) (as : List Action) (s e k : Nat) (w : Bool) : readPoint n as s e k w ≤ e := by
  unfold readPoint
  cases hf : (List.range (e + 1)).find? fun q => decide (s < q) && (absB (heapAt n as q) k == w) with
  | none => simp
  | some r =>
    have h2 := List.mem_range.mp (List.mem_of_find?_eq_some hf)
    simp only [Option.getD_some]; omega

/-- a read entry: it belongs to a completed call, lies inside the call's interval, and at its position the recorded
    result is what the set specification gives, the state staying as it is -/
theorem readEntry_some {n : Nat} {as : List Action} {e i : Nat} {en : Entry} (h : readEntry n as e = some (i, en)) :
    ∃ t s op out, Call n as t op s e out ∧ en.t = t ∧ en.s = s ∧ opKind op = en.kind ∧ s < i ∧ i ≤ e ∧
      en.ok (absFn n as i) ∧ en.next (absFn n as i) = absFn n as i ∧ NoOwnChange n as t s (e + 1) := by
  unfold readEntry at h
  split at h
  · -- Insert answering false
    rename_i t s k out hr
    split at h
    · rename_i ho
      subst ho
      simp only [Option.some.injEq, Prod.mk.injEq] at h
      obtain ⟨rfl, rfl⟩ := h
      obtain ⟨op, c, hK⟩ := call_of_retAt hr
      obtain ⟨lvl, rfl⟩ := opKind_ins hK
      rcases call_spec c with ⟨h1, _⟩ | ⟨_, hno, q, hq1, hq2, hq3⟩
      · exact absurd h1 (by decide)
      · have hrp := readPoint_spec (n := n) (as := as) (s := s) (e := e) (k := k) (want := true)
          ⟨q, hq1, hq2, (absB_iff _ _).mpr hq3⟩
        have hin := (absB_iff _ _).mp hrp.2.2
        refine ⟨t, s, _, _, c, rfl, rfl, rfl, hrp.1, hrp.2.1, ?_, rfl, hno⟩
        show (false = true ↔ ¬ absAt n as _ k)
        exact ⟨fun h => (by cases h), fun h => absurd hin h⟩
    · simp at h
  · -- Delete answering false
    rename_i t s k out hr
    split at h
    · rename_i ho
      subst ho
      simp only [Option.some.injEq, Prod.mk.injEq] at h
      obtain ⟨rfl, rfl⟩ := h
      obtain ⟨op, c, hK⟩ := call_of_retAt hr
      have hop := opKind_del hK
      subst hop
      rcases call_spec c with ⟨h1, _⟩ | ⟨_, hno, q, hq1, hq2, hq3⟩
      · exact absurd h1 (by decide)
      · have hrp := readPoint_spec (n := n) (as := as) (s := s) (e := e) (k := k) (want := false)
          ⟨q, hq1, hq2, (absB_false_iff _ _).mpr hq3⟩
        have hin := (absB_false_iff _ _).mp hrp.2.2
        refine ⟨t, s, _, _, c, rfl, rfl, rfl, hrp.1, hrp.2.1, ?_, rfl, hno⟩
        show (false = true ↔ absAt n as _ k)
        exact ⟨fun h => (by cases h), fun h => absurd h hin⟩
    · simp at h
  · -- Lookup
    rename_i t s k out hr
    obtain ⟨op, c, hK⟩ := call_of_retAt hr
    have hop : op = .look k := by
      cases op <;> simp [opKind] at hK
      rw [hK]
    subst hop
    split at h
    · rename_i ho
      subst ho
      simp only [Option.some.injEq, Prod.mk.injEq] at h
      obtain ⟨rfl, rfl⟩ := h
      rcases (call_spec c).2 with ⟨_, q, hq1, hq2, hq3⟩ | ⟨h1, _⟩
      · have hrp := readPoint_spec (n := n) (as := as) (s := s) (e := e) (k := k) (want := true)
          ⟨q, hq1, hq2, (absB_iff _ _).mpr hq3⟩
        have hin := (absB_iff _ _).mp hrp.2.2
        refine ⟨t, s, _, _, c, rfl, rfl, rfl, hrp.1, hrp.2.1, ?_, rfl, (call_spec c).1⟩
        show (true = true ↔ absAt n as _ k)
        exact ⟨fun _ => hin, fun _ => rfl⟩
      · exact absurd h1 (by decide)
    · split at h
      · rename_i ho
        subst ho
        simp only [Option.some.injEq, Prod.mk.injEq] at h
        obtain ⟨rfl, rfl⟩ := h
        rcases (call_spec c).2 with ⟨h1, _⟩ | ⟨_, q, hq1, hq2, hq3⟩
        · exact absurd h1 (by decide)
        · have hrp := readPoint_spec (n := n) (as := as) (s := s) (e := e) (k := k) (want := false)
            ⟨q, hq1, hq2, (absB_false_iff _ _).mpr hq3⟩
          have hin := (absB_false_iff _ _).mp hrp.2.2
          refine ⟨t, s, _, _, c, rfl, rfl, rfl, hrp.1, hrp.2.1, ?_, rfl, (call_spec c).1⟩
          show (false = true ↔ absAt n as _ k)
          exact ⟨fun h => (by cases h), fun h => absurd h hin⟩
      · simp at h
  · simp at h

theorem readsAt_mem {n : Nat} {as : List Action} {i : Nat} {en : Entry} (h : en ∈ readsAt n as i) :
    ∃ e, e < as.length ∧ readEntry n as e = some (i, en) := by
  unfold readsAt at h
  obtain ⟨e, he, hf⟩ := List.mem_filterMap.mp h
  refine ⟨e, List.mem_range.mp he, ?_⟩
  split at hf
  · rename_i q en' hq
    split at hf
    · rename_i hqi
      subst hqi
      simp only [Option.some.injEq] at hf
      subst hf
      exact hq
    · simp at hf
  · simp at hf

theorem mem_readsAt {n : Nat} {as : List Action} {e i : Nat} {en : Entry} (he : e < as.length)
    (h : readEntry n as e = some (i, en)) : en ∈ readsAt n as i := by
  unfold readsAt
  refine List.mem_filterMap.mpr ⟨e, List.mem_range.mpr he, ?_⟩
  simp [h]

/-! ### replay -/

theorem absFn_zero (n : Nat) (as : List Action) : absFn n as 0 = fun _ => False := by
  funext k
  apply propext
  refine ⟨?_, fun h => h.elim⟩
  rintro ⟨m, ⟨p, hp⟩, hk⟩
  unfold heapAt at hp hk
  rw [stAt_zero] at hp hk
  obtain ⟨rfl, _⟩ := word?_init hp
  simp [keyOf, Sys.init, Sys.initWith, Shared.init, initHeap] at hk

theorem absFn_ge (n : Nat) (as : List Action) {i : Nat} (h : as.length ≤ i) : absFn n as i = absFn n as as.length := by
  unfold absFn absAt heapAt
  rw [stAt_ge n as h, stAt_length]

/-- the update entry of action `i` takes the specification from the abstract set at `i` to the one at `i + 1` -/
theorem upd_replay (n : Nat) (as : List Action) (i : Nat) :
    Replay (absFn n as i) (updAt n as i) (absFn n as (i + 1)) := by
  rcases upd_class n as i with ⟨u, hu⟩ | ⟨t, op, s, k, lvl, _, _, hpt, hu, _⟩ | ⟨t, s, k, _, hpt, hu, _⟩
  · rw [hu]
    show absFn n as i = absFn n as (i + 1)
    funext k
    exact propext ((AbsSame.of_unmSame u) k).symm
  · rw [hu]
    refine ⟨?_, ?_⟩
    · show (true = true ↔ ¬ absAt n as i k)
      exact ⟨fun _ => hpt.2.1, fun _ => rfl⟩
    · show (fun x => absFn n as i x ∨ x = k) = absFn n as (i + 1)
      funext x
      exact propext (hpt.2.2 x).symm
  · rw [hu]
    refine ⟨?_, ?_⟩
    · show (true = true ↔ absAt n as i k)
      exact ⟨fun _ => hpt.2.1, fun _ => rfl⟩
    · show (fun x => absFn n as i x ∧ x ≠ k) = absFn n as (i + 1)
      funext x
      exact propext (hpt.2.2 x).symm

theorem bucket_replay (n : Nat) (as : List Action) (i : Nat) :
    Replay (absFn n as i) (bucket n as i) (absFn n as (i + 1)) := by
  refine Replay_append (Replay_reads ?_) (upd_replay n as i)
  intro en hen
  obtain ⟨e, _, he⟩ := readsAt_mem hen
  obtain ⟨_, _, _, _, _, _, _, _, _, _, h1, h2, _⟩ := readEntry_some he
  exact ⟨h1, h2⟩

/-- bucket by bucket, the state of the specification IS the trace of abstract sets -/
theorem range'_replay (n : Nat) (as : List Action) :
    ∀ m i, Replay (absFn n as i) ((List.range' i m).flatMap (bucket n as)) (absFn n as (i + m)) := by
  intro m
  induction m with
  | zero => intro i; rfl
  | succ m ih =>
    intro i
    rw [List.range'_succ, List.flatMap_cons]
    have h := ih (i + 1)
    have e : i + 1 + m = i + (m + 1) := by omega
    rw [e] at h
    exact Replay_append (bucket_replay n as i) h

/-- REPLAY: the sequential history, run on the set specification from the empty set, gives every call the result
    that was recorded for it and ends in the abstract set of the final state -/
theorem lin_replay (n : Nat) (as : List Action) :
    Replay (fun _ => False) (linearization n as) (absFn n as as.length) := by
  have h := range'_replay n as (as.length + 1) 0
  rw [absFn_zero, ← List.range_eq_range', absFn_ge n as (by omega)] at h
  exact h

/-! ### completeness -/

theorem mem_lin_of_bucket {n : Nat} {as : List Action} {i : Nat} {en : Entry} (hi : i ≤ as.length)
    (h : en ∈ bucket n as i) : en ∈ linearization n as :=
  List.mem_flatMap.mpr ⟨i, List.mem_range.mpr (by omega), h⟩

theorem Call.end_lt {n : Nat} {as : List Action} {t : Nat} {op : Op} {s e : Nat} {out : String}
    (c : Call n as t op s e out) : e < as.length := lt_of_getElem?_some c.step

theorem mem_lin_of_readEntry {n : Nat} {as : List Action} {t : Nat} {op : Op} {s e : Nat} {out : String}
    (c : Call n as t op s e out) {i : Nat} {en : Entry} (hi : i ≤ e) (h : readEntry n as e = some (i, en)) :
    en ∈ linearization n as :=
  mem_lin_of_bucket (by have := c.end_lt; omega) (List.mem_append_left _ (mem_readsAt c.end_lt h))

theorem lin_ins_false {n : Nat} {as : List Action} {t k lvl s e : Nat}
    (c : Call n as t (.ins k lvl) s e "ret false") : ⟨t, s, .ins k, false⟩ ∈ linearization n as := by
  have hr := retAt_of_call c
  refine mem_lin_of_readEntry c (readPoint_le n as s e k true) ?_
  simp only [readEntry, hr, opKind, if_true]

theorem lin_del_false {n : Nat} {as : List Action} {t k s e : Nat}
    (c : Call n as t (.del k) s e "ret false") : ⟨t, s, .del k, false⟩ ∈ linearization n as := by
  have hr := retAt_of_call c
  refine mem_lin_of_readEntry c (readPoint_le n as s e k false) ?_
  simp only [readEntry, hr, opKind, if_true]

theorem lin_look_true {n : Nat} {as : List Action} {t k s e : Nat}
    (c : Call n as t (.look k) s e "ret true") : ⟨t, s, .look k, true⟩ ∈ linearization n as := by
  have hr := retAt_of_call c
  refine mem_lin_of_readEntry c (readPoint_le n as s e k true) ?_
  simp only [readEntry, hr, opKind, if_true]

theorem lin_look_false {n : Nat} {as : List Action} {t k s e : Nat}
    (c : Call n as t (.look k) s e "ret false") : ⟨t, s, .look k, false⟩ ∈ linearization n as := by
  have hr := retAt_of_call c
  refine mem_lin_of_readEntry c (readPoint_le n as s e k false) ?_
  have : ¬ ("ret false" = "ret true") := by decide
  simp only [readEntry, hr, opKind, this, if_false, if_true]

theorem Call.inCall_at {n : Nat} {as : List Action} {t : Nat} {op : Op} {s e p : Nat} {out : String}
    (c : Call n as t op s e out) (h1 : s < p) (h2 : p ≤ e) : InCall n as t op s p :=
  ⟨c.inCall.1, h1, fun i hi1 hi2 => c.inCall.2.2 i hi1 (by omega)⟩

theorem lin_ins_true {n : Nat} {as : List Action} {t k lvl s e : Nat}
    (c : Call n as t (.ins k lvl) s e "ret true") : ⟨t, s, .ins k, true⟩ ∈ linearization n as := by
  rcases call_spec c with ⟨_, p, hp1, hp2, hpt, _, _⟩ | ⟨h, _⟩
  · have hin := c.inCall_at hp1 hp2
    have hple : p ≤ as.length := by have := c.end_lt; omega
    rcases upd_class n as p with ⟨u, _⟩ | ⟨t', op', s', k', lvl', hc', rfl, hpt', hu, _⟩ | ⟨t', s', k', hc', hpt', _⟩
    · exfalso
      have h1 : absAt n as (p + 1) k := (hpt.2.2 k).mpr (.inr rfl)
      exact hpt.2.1 ((AbsSame.of_unmSame u k).mp h1)
    · have htt : t' = t := by
        have := hpt'.1.symm.trans hpt.1
        simpa using this
      subst htt
      obtain ⟨rfl, hop⟩ := hc'.unique hin
      simp only [Op.ins.injEq] at hop
      obtain ⟨rfl, _⟩ := hop
      exact mem_lin_of_bucket hple (List.mem_append_right _ (by rw [hu]; exact List.mem_singleton.mpr rfl))
    · exfalso
      have htt : t' = t := by
        have := hpt'.1.symm.trans hpt.1
        simpa using this
      subst htt
      have := (hc'.unique hin).2
      simp at this
  · exact absurd h (by decide)

theorem lin_del_true {n : Nat} {as : List Action} {t k s e : Nat}
    (c : Call n as t (.del k) s e "ret true") : ⟨t, s, .del k, true⟩ ∈ linearization n as := by
  rcases call_spec c with ⟨_, p, hp1, hp2, hpt, _, _⟩ | ⟨h, _⟩
  · have hin := c.inCall_at hp1 hp2
    have hple : p ≤ as.length := by have := c.end_lt; omega
    rcases upd_class n as p with ⟨u, _⟩ | ⟨t', op', s', k', lvl', hc', rfl, hpt', _⟩ | ⟨t', s', k', hc', hpt', hu, _⟩
    · exfalso
      have h1 : ¬ absAt n as (p + 1) k := fun h => ((hpt.2.2 k).mp h).2 rfl
      exact h1 ((AbsSame.of_unmSame u k).mpr hpt.2.1)
    · exfalso
      have htt : t' = t := by
        have := hpt'.1.symm.trans hpt.1
        simpa using this
      subst htt
      have := (hc'.unique hin).2
      simp at this
    · have htt : t' = t := by
        have := hpt'.1.symm.trans hpt.1
        simpa using this
      subst htt
      obtain ⟨rfl, hop⟩ := hc'.unique hin
      simp only [Op.del.injEq] at hop
      subst hop
      exact mem_lin_of_bucket hple (List.mem_append_right _ (by rw [hu]; exact List.mem_singleton.mpr rfl))
  · exact absurd h (by decide)

/-! ### soundness and order -/

/-- every entry of bucket `i` belongs to a call that is in flight at position `i` (entered before `i`, not yet
    returned: a completed call with that entry returns at or after `i`) -/
theorem bucket_mem {n : Nat} {as : List Action} {i : Nat} {en : Entry} (h : en ∈ bucket n as i) :
    ∃ op, InCall n as en.t op en.s i ∧ opKind op = en.kind ∧
      ∀ op' e out, Call n as en.t op' en.s e out → i ≤ e := by
  rcases List.mem_append.mp h with h | h
  · obtain ⟨e, _, he⟩ := readsAt_mem h
    obtain ⟨t, s, op, out, c, rfl, rfl, hk, h1, h2, _, _, _⟩ := readEntry_some he
    refine ⟨op, c.inCall_at h1 h2, hk, fun op' e' out' c' => ?_⟩
    have := c.unique_end c'
    omega
  · rcases upd_class n as i with ⟨_, hu⟩ | ⟨t, op, s, k, lvl, hc, rfl, _, hu, _⟩ | ⟨t, s, k, hc, _, hu, _⟩
    · rw [hu] at h; simp at h
    · rw [hu] at h
      have := List.mem_singleton.mp h
      subst this
      exact ⟨_, hc, rfl, fun op' e out c' => hc.le_end c'⟩
    · rw [hu] at h
      have := List.mem_singleton.mp h
      subst this
      exact ⟨_, hc, rfl, fun op' e out c' => hc.le_end c'⟩

/-- `a` comes before `b` in `l` -/
def Before (l : List Entry) (a b : Entry) : Prop := ∃ l1 l2 l3, l = l1 ++ a :: (l2 ++ b :: l3)

theorem Before.append_right {l : List Entry} {a b : Entry} (h : Before l a b) (l' : List Entry) :
    Before (l ++ l') a b := by
  obtain ⟨l1, l2, l3, rfl⟩ := h
  exact ⟨l1, l2, l3 ++ l', by simp [List.append_assoc]⟩

theorem Before.of_mem {l l' : List Entry} {a b : Entry} (ha : a ∈ l) (hb : b ∈ l') : Before (l ++ l') a b := by
  obtain ⟨x1, x2, rfl⟩ := List.append_of_mem ha
  obtain ⟨y1, y2, rfl⟩ := List.append_of_mem hb
  exact ⟨x1, x2 ++ y1, y2, by simp [List.append_assoc]⟩

theorem before_flatMap {f : Nat → List Entry} {a b : Entry} {i j : Nat} (hij : i < j) (ha : a ∈ f i) (hb : b ∈ f j) :
    ∀ N, j < N → Before ((List.range N).flatMap f) a b := by
  intro N
  induction N with
  | zero => intro h; omega
  | succ N ih =>
    intro hj
    rw [List.range_succ, List.flatMap_append]
    by_cases hjN : j = N
    · subst hjN
      have hb' : b ∈ List.flatMap f [j] := by simpa using hb
      exact Before.of_mem (List.mem_flatMap.mpr ⟨i, List.mem_range.mpr hij, ha⟩) hb'
    · exact (ih (by omega)).append_right _

/-- REAL-TIME ORDER: if the call of entry `a` returned (action `eA`) before the call of entry `b` was entered
    (`eA < b.s`), then `a` comes before `b` in the sequential history -/
theorem lin_real_time {n : Nat} {as : List Action} {a b : Entry} {opA : Op} {eA : Nat} {outA : String}
    (ha : a ∈ linearization n as) (hb : b ∈ linearization n as) (cA : Call n as a.t opA a.s eA outA)
    (hAB : eA < b.s) : Before (linearization n as) a b := by
  obtain ⟨i, _, hai⟩ := List.mem_flatMap.mp ha
  obtain ⟨j, hj, hbj⟩ := List.mem_flatMap.mp hb
  obtain ⟨_, _, _, hle⟩ := bucket_mem hai
  obtain ⟨_, hcb, _, _⟩ := bucket_mem hbj
  have h1 := hle _ _ _ cA
  have h2 := hcb.2.1
  exact before_flatMap (by omega) hai hbj _ (List.mem_range.mp hj)

/-! ### every call at most once -/

/-- an update entry: its call is in flight, the action is a changing segment of its thread, the first of the call -/
theorem updAt_mem {n : Nat} {as : List Action} {i : Nat} {en : Entry} (h : en ∈ updAt n as i) :
    ∃ op, InCall n as en.t op en.s i ∧ as[i]? = some (.step en.t) ∧ ¬ AbsSame n as i ∧
      NoOwnChange n as en.t en.s i := by
  rcases upd_class n as i with ⟨_, hu⟩ | ⟨t, op, s, k, lvl, hc, rfl, hpt, hu, hno⟩ | ⟨t, s, k, hc, hpt, hu, hno⟩
  · rw [hu] at h; simp at h
  · rw [hu] at h
    have := List.mem_singleton.mp h
    subst this
    exact ⟨_, hc, hpt.1, hpt.changes, hno⟩
  · rw [hu] at h
    have := List.mem_singleton.mp h
    subst this
    exact ⟨_, hc, hpt.1, hpt.changes, hno⟩

/-- two entries of the same call: same thread, same entry position -/
def SameCall (a b : Entry) : Prop := a.t = b.t ∧ a.s = b.s

theorem read_read {n : Nat} {as : List Action} {e1 e2 i j : Nat} {x y : Entry}
    (h1 : readEntry n as e1 = some (i, x)) (h2 : readEntry n as e2 = some (j, y)) (h : SameCall x y) : e1 = e2 := by
  obtain ⟨t1, s1, op1, out1, c1, ht1, hs1, _⟩ := readEntry_some h1
  obtain ⟨t2, s2, op2, out2, c2, ht2, hs2, _⟩ := readEntry_some h2
  subst ht1 hs1 ht2 hs2
  rw [h.1, h.2] at c1
  exact c1.unique_end c2

theorem read_upd {n : Nat} {as : List Action} {e i j : Nat} {x y : Entry}
    (h1 : readEntry n as e = some (i, x)) (h2 : y ∈ updAt n as j) (h : SameCall x y) : False := by
  obtain ⟨t, s, op, out, c, ht, hs, _, _, _, _, _, hno⟩ := readEntry_some h1
  subst ht hs
  obtain ⟨op', hc, hst, hch, _⟩ := updAt_mem h2
  rw [← h.1, ← h.2] at hc
  rw [← h.1] at hst
  have hle := hc.le_end c
  exact hch (hno j hc.2.1 (by omega) hst)

theorem upd_upd {n : Nat} {as : List Action} {i j : Nat} {x y : Entry}
    (h1 : x ∈ updAt n as i) (h2 : y ∈ updAt n as j) (h : SameCall x y) (hij : i < j) : False := by
  obtain ⟨_, hc1, hst1, hch1, _⟩ := updAt_mem h1
  obtain ⟨_, _, _, _, hno2⟩ := updAt_mem h2
  rw [← h.1, ← h.2] at hno2
  exact hch1 (hno2 i hc1.2.1 hij hst1)

theorem bucket_tag_inj {n : Nat} {as : List Action} {i j : Nat} {x y : Entry}
    (hx : x ∈ bucket n as i) (hy : y ∈ bucket n as j) (h : SameCall x y) : i = j := by
  rcases List.mem_append.mp hx with hx | hx <;> rcases List.mem_append.mp hy with hy | hy
  · obtain ⟨e1, _, h1⟩ := readsAt_mem hx
    obtain ⟨e2, _, h2⟩ := readsAt_mem hy
    have := read_read h1 h2 h
    subst this
    rw [h1] at h2
    simp only [Option.some.injEq, Prod.mk.injEq] at h2
    exact h2.1
  · obtain ⟨e1, _, h1⟩ := readsAt_mem hx
    exact (read_upd h1 hy h).elim
  · obtain ⟨e2, _, h2⟩ := readsAt_mem hy
    exact (read_upd h2 hx ⟨h.1.symm, h.2.symm⟩).elim
  · by_cases hij : i = j
    · exact hij
    · rcases Nat.lt_or_gt_of_ne hij with hlt | hgt
      · exact (upd_upd hx hy h hlt).elim
      · exact (upd_upd hy hx ⟨h.1.symm, h.2.symm⟩ hgt).elim

theorem readsAt_pairwise (n : Nat) (as : List Action) (i : Nat) :
    (readsAt n as i).Pairwise (fun a b => ¬ SameCall a b) := by
  have key : ∀ (e : Nat) (b : Entry),
      (match readEntry n as e with
        | some (q, en) => if q = i then some en else none
        | none => none) = some b → readEntry n as e = some (i, b) := by
    intro e b hf
    split at hf
    · rename_i q en' hq
      split at hf
      · rename_i hqi
        subst hqi
        simp only [Option.some.injEq] at hf
        subst hf
        exact hq
      · simp at hf
    · simp at hf
  unfold readsAt
  rw [List.pairwise_filterMap]
  refine List.Pairwise.imp ?_ List.pairwise_lt_range
  intro e e' hlt b hb b' hb' hsame
  have := read_read (key e b hb) (key e' b' hb') hsame
  omega

theorem updAt_pairwise (n : Nat) (as : List Action) (i : Nat) :
    (updAt n as i).Pairwise (fun a b => ¬ SameCall a b) := by
  rcases upd_class n as i with ⟨_, hu⟩ | ⟨t, op, s, k, lvl, _, _, _, hu, _⟩ | ⟨t, s, k, _, _, hu, _⟩
  · rw [hu]; exact List.Pairwise.nil
  · rw [hu]; exact List.pairwise_singleton _ _
  · rw [hu]; exact List.pairwise_singleton _ _

theorem bucket_pairwise (n : Nat) (as : List Action) (i : Nat) :
    (bucket n as i).Pairwise (fun a b => ¬ SameCall a b) := by
  unfold bucket
  rw [List.pairwise_append]
  refine ⟨readsAt_pairwise n as i, updAt_pairwise n as i, fun a ha b hb hs => ?_⟩
  obtain ⟨e, _, h1⟩ := readsAt_mem ha
  exact read_upd h1 hb hs

/-- AT MOST ONCE: no two entries of the history belong to the same call -/
theorem lin_nodup (n : Nat) (as : List Action) :
    (linearization n as).Pairwise (fun a b => ¬ SameCall a b) := by
  unfold linearization
  rw [List.pairwise_flatMap]
  refine ⟨fun i _ => bucket_pairwise n as i, List.Pairwise.imp ?_ List.pairwise_lt_range⟩
  intro i j hij x hx y hy hs
  have := bucket_tag_inj hx hy hs
  omega

end NitroVerif.SkipConc
