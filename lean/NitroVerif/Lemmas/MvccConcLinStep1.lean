/-
  One step of the machine against the specification (part 1): actions that are not decisive.
-/
import NitroVerif.Lemmas.MvccConcLinLemmas

namespace NitroVerif.MvccConc
open NitroVerif
open NitroVerif.SetSpec (Op Out)
open NitroVerif.Mvcc (Ver Sorted Chains)

/-- what one action must satisfy: its events replay on the specification and lead to a related
    state, and every thread's phase stays consistent with its program counter -/
structure StepOK (σ : State) (sp : SetSpec.State) (a : Act) : Prop where
  rep : ∃ sp', replay sp (events σ a) = some sp' ∧ Abs (step σ a).1 sp'
  ph : ∀ t' p, PhaseOK σ t' p → PhaseOK (step σ a).1 t' (phaseOf t' p (events σ a))

theorem stepOK_mild {σ : State} {sp : SetSpec.State} {a : Act} {t : Nat} (hev : events σ a = [])
    (hm : Mild t σ (step σ a).1) (h0 : ∀ pc, σ.threads[t]? = some pc → pc.isWop = false) (habs : Abs σ sp) :
    StepOK σ sp a := by
  refine ⟨⟨sp, by rw [hev]; rfl, habs.mild hm⟩, ?_⟩
  intro t' p hp
  rw [hev]
  exact hp.mild hm h0

theorem stepOK_same {σ : State} {sp : SetSpec.State} {a : Act} (hev : events σ a = []) (hs : (step σ a).1 = σ)
    (habs : Abs σ sp) : StepOK σ sp a := by
  refine stepOK_mild (t := σ.threads.length) hev (by rw [hs]; exact Mild.refl _ σ) ?_ habs
  intro pc hg
  have : σ.threads[σ.threads.length]? = none := List.getElem?_eq_none_iff.mpr (Nat.le_refl _)
  rw [this] at hg; cases hg

theorem isIdle_wop {σ : State} {t : Nat} (h : isIdle σ t = true) : ∀ pc, σ.threads[t]? = some pc → pc.isWop = false := by
  intro pc hg
  rw [isIdle_spec h] at hg; injection hg with h1; subst h1; rfl

theorem step_eq_of_not_down {σ : State} (hd : σ.down = false) (a : Act) :
    step σ a = (match a with
      | .snap => if writersIdle σ then snap σ else (σ, .bad)
      | .put t k v => if isWriter σ t && isIdle σ t then startPut σ t k v else (σ, .bad)
      | .del t k => if isWriter σ t && isIdle σ t then startDel σ t k else (σ, .bad)
      | .get t k => if isWriter σ t && isIdle σ t then startGet σ t k else (σ, .bad)
      | .close t s => if isIdle σ t then startClose σ t s else (σ, .bad)
      | .itNew t i s => if isReader σ t && isIdle σ t then itNew σ t i s else (σ, .bad)
      | .itFirst t i => if isReader σ t && isIdle σ t then itFirst σ t i else (σ, .bad)
      | .itNext t i => if isReader σ t && isIdle σ t then itNext σ t i else (σ, .bad)
      | .itClose t i => if isReader σ t && isIdle σ t then itClose σ t i else (σ, .bad)
      | .step t => stepThread σ t
      | .gc j => stepGc σ j
      | .fr j => stepFr σ j
      | .shutdown => shutdown σ) := by
  unfold step; simp only [hd, Bool.false_eq_true, if_false]
  cases a <;> rfl

theorem accepted_eq {σ : State} (hd : σ.down = false) (t : Nat) : accepted σ t = (isWriter σ t && isIdle σ t) := by
  unfold accepted; simp [hd]

/-- the readers' and closers' actions, the free jobs and `shutdown` are invisible to the writers -/
theorem stepOK_close {σ : State} {sp : SetSpec.State} (hd : σ.down = false) (habs : Abs σ sp) (t s : Nat) :
    StepOK σ sp (.close t s) := by
  have hev : events σ (.close t s) = [] := by simp [events, calls, lins, rets]
  by_cases hg : isIdle σ t = true
  · refine stepOK_mild hev ?_ (isIdle_wop hg) habs
    rw [step_eq_of_not_down hd]; simp only [hg, if_true]; exact mild_startClose σ t s
  · exact stepOK_same hev (by rw [step_eq_of_not_down hd]; simp [hg]) habs

theorem stepOK_itNew {σ : State} {sp : SetSpec.State} (hd : σ.down = false) (habs : Abs σ sp) (t i s : Nat) :
    StepOK σ sp (.itNew t i s) := by
  have hev : events σ (.itNew t i s) = [] := by simp [events, calls, lins, rets]
  by_cases hg : (isReader σ t && isIdle σ t) = true
  · simp only [Bool.and_eq_true] at hg
    refine stepOK_mild hev ?_ (isIdle_wop hg.2) habs
    rw [step_eq_of_not_down hd]; simp only [hg.1, hg.2, Bool.and_self, if_true]; exact mild_itNew σ t i s
  · exact stepOK_same hev (by rw [step_eq_of_not_down hd]; simp only [hg]; rfl) habs

theorem stepOK_itFirst {σ : State} {sp : SetSpec.State} (hd : σ.down = false) (habs : Abs σ sp) (t i : Nat) :
    StepOK σ sp (.itFirst t i) := by
  have hev : events σ (.itFirst t i) = [] := by simp [events, calls, lins, rets]
  by_cases hg : (isReader σ t && isIdle σ t) = true
  · simp only [Bool.and_eq_true] at hg
    refine stepOK_mild hev ?_ (isIdle_wop hg.2) habs
    rw [step_eq_of_not_down hd]; simp only [hg.1, hg.2, Bool.and_self, if_true]; exact mild_itFirst σ t i
  · exact stepOK_same hev (by rw [step_eq_of_not_down hd]; simp only [hg]; rfl) habs

theorem stepOK_itNext {σ : State} {sp : SetSpec.State} (hd : σ.down = false) (habs : Abs σ sp) (t i : Nat) :
    StepOK σ sp (.itNext t i) := by
  have hev : events σ (.itNext t i) = [] := by simp [events, calls, lins, rets]
  by_cases hg : (isReader σ t && isIdle σ t) = true
  · simp only [Bool.and_eq_true] at hg
    refine stepOK_mild hev ?_ (isIdle_wop hg.2) habs
    rw [step_eq_of_not_down hd]; simp only [hg.1, hg.2, Bool.and_self, if_true]; exact mild_itNext σ t i
  · exact stepOK_same hev (by rw [step_eq_of_not_down hd]; simp only [hg]; rfl) habs

theorem stepOK_itClose {σ : State} {sp : SetSpec.State} (hd : σ.down = false) (habs : Abs σ sp) (t i : Nat) :
    StepOK σ sp (.itClose t i) := by
  have hev : events σ (.itClose t i) = [] := by simp [events, calls, lins, rets]
  by_cases hg : (isReader σ t && isIdle σ t) = true
  · simp only [Bool.and_eq_true] at hg
    refine stepOK_mild hev ?_ (isIdle_wop hg.2) habs
    rw [step_eq_of_not_down hd]; simp only [hg.1, hg.2, Bool.and_self, if_true]; exact mild_itClose σ t i
  · exact stepOK_same hev (by rw [step_eq_of_not_down hd]; simp only [hg]; rfl) habs

theorem stepOK_fr {σ : State} {sp : SetSpec.State} (hd : σ.down = false) (habs : Abs σ sp) (j : Nat) :
    StepOK σ sp (.fr j) := by
  have hev : events σ (.fr j) = [] := by simp [events, calls, lins, rets]
  refine stepOK_mild (t := σ.threads.length) hev ?_ ?_ habs
  · rw [step_eq_of_not_down hd]; exact mild_stepFr σ j _
  · intro pc hg
    have : σ.threads[σ.threads.length]? = none := List.getElem?_eq_none_iff.mpr (Nat.le_refl _)
    rw [this] at hg; cases hg

theorem stepOK_shutdown {σ : State} {sp : SetSpec.State} (hd : σ.down = false) (habs : Abs σ sp) :
    StepOK σ sp .shutdown := by
  have hev : events σ .shutdown = [] := by simp [events, calls, lins, rets]
  have hst : step σ .shutdown = shutdown σ := by rw [step_eq_of_not_down hd]
  obtain ⟨h1, h2, h3, h4⟩ := mild_shutdown σ 0
  refine ⟨⟨sp, by rw [hev]; rfl, ?_⟩, ?_⟩
  · rw [hst]; exact ⟨by rw [h3]; exact habs.nw, by rw [h1]; exact habs.alive, by rw [h2]; exact habs.epoch⟩
  · intro t' p hp
    rw [hev, hst]
    exact hp.store_change (by rw [h4]) (fun _ _ _ _ => by rw [h1]) (fun _ _ _ _ => by unfold AliveIn; rw [h1])

/-- `GetNode` -/
theorem stepOK_get {σ : State} {sp : SetSpec.State} (hi : Inv σ) (hd : σ.down = false) (habs : Abs σ sp) (t k : Nat) :
    StepOK σ sp (.get t k) := by
  by_cases hg : (isWriter σ t && isIdle σ t) = true
  · have hacc : accepted σ t = true := by rw [accepted_eq hd]; exact hg
    simp only [Bool.and_eq_true] at hg
    have hw := isWriter_spec hg.1
    have hst : step σ (.get t k) = startGet σ t k := by
      rw [step_eq_of_not_down hd]; simp only [hg.1, hg.2, Bool.and_self, if_true]
    have hev : events σ (.get t k) =
        [.call t (.get t k), .lin t (.get t k) (.val ((lookupN σ.store (probe σ k 0)).map (·.ver.val))),
         .ret t (.val ((lookupN σ.store (probe σ k 0)).map (·.ver.val)))] := by
      simp only [events, calls, lins, rets, hacc, if_true, hst, startGet, retOut, Option.map_some,
        Option.toList_some, List.cons_append, List.nil_append]
    have hs1 : (step σ (.get t k)).1 = σ := by rw [hst]; rfl
    refine ⟨⟨sp, ?_, by rw [hs1]; exact habs⟩, ?_⟩
    · rw [hev]
      simp only [replay, specStep, linOp, spec_get hi habs hw k, and_self, if_true]
    · intro t' p hp
      rw [hev, hs1]
      by_cases he : t' = t
      · subst he
        -- the thread is idle: its phase is idle, and is idle again afterwards
        cases p with
        | idle => simp [phaseOf, phaseStep]; exact hp
        | called op =>
          exfalso
          have hidle := isIdle_spec hg.2
          rcases hp with ⟨n, k', v, b, hg', _⟩ | ⟨n, tok, k', hg', _⟩ | ⟨n, tok, k', hg', _⟩ <;>
            (rw [hidle] at hg'; cases hg')
        | decided op res =>
          exfalso
          have hidle := isIdle_spec hg.2
          rcases hp with ⟨n, tok, k', hg', _⟩ | ⟨n, tok, k', hg', _⟩ | ⟨n, tok, k', hg', _⟩ <;>
            (rw [hidle] at hg'; cases hg')
        | broken => exact hp.elim
      · rw [phaseOf_others (by
          intro e hm; simp at hm
          rcases hm with rfl | rfl | rfl <;> simp [Ev.thread] <;> exact fun h => he h.symm)]
        exact hp
  · have hacc : accepted σ t = false := by rw [accepted_eq hd]; simpa using hg
    have hev : events σ (.get t k) = [] := by simp [events, calls, lins, rets, hacc]
    exact stepOK_same hev (by rw [step_eq_of_not_down hd]; simp only [hg]; rfl) habs

/-- a thread that is idle has phase `idle` -/
theorem phase_of_idle {σ : State} {t : Nat} {p : Phase} (hidle : σ.threads[t]? = some .idle) (hp : PhaseOK σ t p) :
    p = .idle := by
  cases p with
  | idle => rfl
  | called op =>
    exfalso
    rcases hp with ⟨n, k', v, b, hg', _⟩ | ⟨n, tok, k', hg', _⟩ | ⟨n, tok, k', hg', _⟩ <;>
      (rw [hidle] at hg'; cases hg')
  | decided op res =>
    exfalso
    rcases hp with ⟨n, tok, k', hg', _⟩ | ⟨n, tok, k', hg', _⟩ | ⟨n, tok, k', hg', _⟩ <;>
      (rw [hidle] at hg'; cases hg')
  | broken => exact hp.elim

/-- `start t put k v` -/
theorem stepOK_put {σ : State} {sp : SetSpec.State} (hd : σ.down = false) (habs : Abs σ sp) (t k v : Nat) :
    StepOK σ sp (.put t k v) := by
  by_cases hg : (isWriter σ t && isIdle σ t) = true
  · have hacc : accepted σ t = true := by rw [accepted_eq hd]; exact hg
    simp only [Bool.and_eq_true] at hg
    have hidle := isIdle_spec hg.2
    have hst : step σ (.put t k v) = startPut σ t k v := by
      rw [step_eq_of_not_down hd]; simp only [hg.1, hg.2, Bool.and_self, if_true]
    have hev : events σ (.put t k v) = [.call t (.put t k v)] := by
      simp only [events, calls, lins, rets, hacc, if_true, hst, startPut, retOut, Option.map_none,
        Option.toList_none, List.append_nil]
    have hthr : (step σ (.put t k v)).1.threads = σ.threads.set t (.putInsert σ.nextId k v σ.currSn) := by
      rw [hst]; rfl
    have hstore : (step σ (.put t k v)).1.store = σ.store := by rw [hst]; rfl
    refine ⟨⟨sp, by rw [hev]; rfl, ?_⟩, ?_⟩
    · rw [hst]; exact ⟨habs.nw, habs.alive, habs.epoch⟩
    · intro t' p hp
      rw [hev]
      by_cases he : t' = t
      · subst he
        have := phase_of_idle hidle hp
        subst this
        simp only [phaseOf, List.foldl_cons, List.foldl_nil, phaseStep, if_true]
        exact Or.inl ⟨σ.nextId, k, v, σ.currSn, by rw [hthr]; exact get_set_self hidle, rfl⟩
      · rw [phaseOf_others (by intro e hm; simp at hm; subst hm; simp [Ev.thread]; exact fun h => he h.symm)]
        exact hp.store_change (by rw [hthr, get_set_ne _ (fun h => he h.symm)])
          (fun _ _ _ _ => by rw [hstore]) (fun _ _ _ _ => by unfold AliveIn; rw [hstore])
  · have hacc : accepted σ t = false := by rw [accepted_eq hd]; simpa using hg
    have hev : events σ (.put t k v) = [] := by simp [events, calls, lins, rets, hacc]
    exact stepOK_same hev (by rw [step_eq_of_not_down hd]; simp only [hg]; rfl) habs

end NitroVerif.MvccConc
