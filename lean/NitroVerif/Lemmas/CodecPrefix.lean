import NitroVerif.Lemmas.Codec
/-!
  Truncated files: a proper prefix of a written file never reads as `.ok`; what was decoded before
  the reader failed is a prefix of what was written.  (Used by C11/C12: truncation at any offset.)
-/
namespace NitroVerif.Codec
open NitroVerif NitroVerif.Codec.GenLemmas

/-- a complete header announcing `L > 0` bytes, followed by fewer than `L` bytes: io.ReadFull of
    the payload fails -/
theorem decodeItem_short_body {ver w : Nat} (hw : lenWidth ver = w) (L : Nat) (body : Bytes)
    (hL : L < 256 ^ w) (hb : body.length < L) :
    decodeItem ver (beBytes w L ++ body) = .short := by
  have htake : (beBytes w L ++ body).take w = beBytes w L := List.take_left' (length_beBytes _ _)
  have hdrop : (beBytes w L ++ body).drop w = body := List.drop_left' (length_beBytes _ _)
  have hval : beVal (beBytes w L) = L := beVal_beBytes_of_lt hL
  have hitem : Gen.decodeHasItem L = true := (decodeHasItem_iff _).2 (by omega)
  unfold decodeItem
  simp only [hw, htake, hdrop, lenDec_decode, hval, hitem]
  simp only [List.length_append, length_beBytes, if_true]
  rw [if_neg (by omega), if_pos hb]

/-- any proper prefix of one frame makes the decoder fail -/
theorem decodeItem_take_frame {ver w : Nat} (hw : lenWidth ver = w) (d : Bytes)
    (hlt : d.length < 256 ^ w) (n : Nat) (hn : n < w + d.length) :
    decodeItem ver ((frame w d).take n) = .short := by
  by_cases h : n < w
  · apply decodeItem_short_header
    rw [hw, List.length_take, length_frame]; omega
  · have : (frame w d).take n = beBytes w d.length ++ d.take (n - w) := by
      unfold frame
      rw [List.take_append, length_beBytes, List.take_of_length_le (by simp; omega)]
    rw [this]
    apply decodeItem_short_body hw _ _ hlt
    rw [List.length_take]; omega

/-- the reader loop over a proper prefix (the first `n` bytes) of a written file: always an
    error, and the items seen so far are a prefix of the items written -/
theorem readLoop_take_err (h : Bytes → Nat) {ver w : Nat} (hw : lenWidth ver = w)
    (items : List Bytes) (hit : ∀ d ∈ items, 0 < d.length ∧ d.length < 256 ^ w)
    (n : Nat) (hn : n < (items.flatMap (frame w) ++ frame w []).length)
    (fuel : Nat) (acc : List Bytes) (s : Nat) :
    ∃ pre, pre <+: items ∧
      readLoop h ver fuel ((items.flatMap (frame w) ++ frame w []).take n) acc s
        = .err (acc.reverse ++ pre) := by
  induction items generalizing n fuel acc s with
  | nil =>
    refine ⟨[], List.prefix_refl _, ?_⟩
    cases fuel with
    | zero => simp [readLoop]
    | succ fuel =>
      unfold readLoop
      rw [decodeItem_short_header]
      · simp
      · simp [length_frame] at hn
        rw [hw, List.length_take]
        simp [length_frame]; omega
  | cons d ds ih =>
    have hd := hit d (List.mem_cons_self)
    have hds : ∀ x ∈ ds, 0 < x.length ∧ x.length < 256 ^ w :=
      fun x hx => hit x (List.mem_cons_of_mem _ hx)
    cases fuel with
    | zero => exact ⟨[], List.nil_prefix, by simp [readLoop]⟩
    | succ fuel =>
      have hshape : (d :: ds).flatMap (frame w) ++ frame w []
          = frame w d ++ (ds.flatMap (frame w) ++ frame w []) := by
        simp [List.flatMap_cons, List.append_assoc]
      rw [hshape] at hn ⊢
      by_cases hcut : n < w + d.length
      · refine ⟨[], List.nil_prefix, ?_⟩
        rw [List.take_append_of_le_length (by rw [length_frame]; omega)]
        unfold readLoop
        rw [decodeItem_take_frame hw d hd.2 n hcut]
        simp
      · rw [List.length_append, length_frame] at hn
        obtain ⟨pre, hpre, hrun⟩ := ih hds (n - (w + d.length)) (by omega) fuel (d :: acc)
          (s ^^^ itemSum h (beBytes w d.length) d)
        refine ⟨d :: pre, ?_, ?_⟩
        · exact List.cons_prefix_cons.2 ⟨rfl, hpre⟩
        · rw [List.take_append, length_frame, List.take_of_length_le (by rw [length_frame]; omega)]
          have : frame w d ++ List.take (n - (w + d.length)) (ds.flatMap (frame w) ++ frame w [])
              = beBytes w d.length ++ d
                  ++ List.take (n - (w + d.length)) (ds.flatMap (frame w) ++ frame w []) := by
            simp [frame]
          rw [this]
          unfold readLoop
          rw [decodeItem_framed hw d _ hd.1 hd.2]
          simp only
          rw [hrun]
          simp

/-- a proper prefix is the first `n` bytes for some `n` below the length -/
theorem proper_prefix_eq_take {α : Type} {p l : List α} (hp : p <+: l) (hne : p ≠ l) :
    ∃ n, n < l.length ∧ p = l.take n := by
  refine ⟨p.length, ?_, List.prefix_iff_eq_take.1 hp⟩
  have hle := hp.length_le
  rcases Nat.lt_or_ge p.length l.length with h | h
  · exact h
  · exfalso; apply hne
    have := List.prefix_iff_eq_take.1 hp
    rw [this, List.take_of_length_le h]

/-- generic in the width: reading a proper prefix of a written file is an error whose partial
    result is a prefix of the written items -/
theorem readFile_proper_prefix_framed (h : Bytes → Nat) {ver w : Nat} (hw : lenWidth ver = w)
    (items : List Bytes) (hit : ∀ d ∈ items, 0 < d.length ∧ d.length < 256 ^ w)
    (p : Bytes) (hp : p <+: items.flatMap (frame w) ++ frame w [])
    (hne : p ≠ items.flatMap (frame w) ++ frame w []) :
    ∃ pre, pre <+: items ∧ readFile h ver p = .err pre := by
  obtain ⟨n, hn, rfl⟩ := proper_prefix_eq_take hp hne
  obtain ⟨pre, hpre, hrun⟩ := readLoop_take_err h hw items hit n hn
    (((items.flatMap (frame w) ++ frame w []).take n).length + 1) [] 0
  exact ⟨pre, hpre, by unfold readFile; rw [hrun]; simp⟩

/-- **decode_proper_prefix_errors** (v1 format): every proper prefix of a written file is
    rejected by the reader, never `.ok`. -/
theorem decode_proper_prefix_errors (h : Bytes → Nat) (items : List Bytes)
    (hit : ∀ d ∈ items, 0 < d.length ∧ d.length < 2 ^ 32)
    (p : Bytes) (hp : p <+: writeFile items) (hne : p ≠ writeFile items) :
    ∃ before, readFile h 1 p = .err before := by
  rw [writeFile_eq_frames] at hp hne
  obtain ⟨pre, _, hr⟩ := readFile_proper_prefix_framed h lenWidth_one items
    (fun d hd => by have := hit d hd; omega) p hp hne
  exact ⟨pre, hr⟩

/-- **readFile_prefix_items**: the items decoded before the error are a prefix of the written ones -/
theorem readFile_prefix_items (h : Bytes → Nat) (items : List Bytes)
    (hit : ∀ d ∈ items, 0 < d.length ∧ d.length < 2 ^ 32)
    (p : Bytes) (hp : p <+: writeFile items) (hne : p ≠ writeFile items)
    (before : List Bytes) (hr : readFile h 1 p = .err before) : before <+: items := by
  rw [writeFile_eq_frames] at hp hne
  obtain ⟨pre, hpre, hr'⟩ := readFile_proper_prefix_framed h lenWidth_one items
    (fun d hd => by have := hit d hd; omega) p hp hne
  rw [hr'] at hr
  cases hr
  exact hpre

/-- same for the older 2-byte framing -/
theorem decode_proper_prefix_errors_v0 (h : Bytes → Nat) (items : List Bytes)
    (hit : ∀ d ∈ items, 0 < d.length ∧ d.length < 2 ^ 16)
    (p : Bytes) (hp : p <+: writeFileV0 items) (hne : p ≠ writeFileV0 items) :
    ∃ before, before <+: items ∧ readFile h 0 p = .err before := by
  rw [writeFileV0_eq_frames] at hp hne
  exact readFile_proper_prefix_framed h lenWidth_zero items
    (fun d hd => by have := hit d hd; omega) p hp hne

end NitroVerif.Codec
