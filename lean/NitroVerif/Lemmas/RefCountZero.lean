import NitroVerif.Lemmas.RefCountMain
import NitroVerif.Spec.RefCount
/-!
  Consequences of `Inv` used by the property theorems: zero is final, `closing`/`retiring` as counts.
-/
namespace NitroVerif.RefCount

theorem cnt_eq_countP (f : PC → Nat) (p : PC → Bool) (hf : ∀ pc, f pc = if p pc then 1 else 0)
    (l : List PC) : cnt f l = l.countP p := by
  unfold cnt
  induction l with
  | nil => simp
  | cons x xs ih =>
    simp only [List.map_cons, List.sum_cons, List.countP_cons, ih, hf x]
    omega

theorem closing_eq (st : St) (s : Nat) : closing st s = cnt (uDec s) st.ths := by
  unfold closing
  rw [cnt_eq_countP (uDec s) (fun pc => pc == .closeDec s)]
  intro pc
  cases pc <;> simp [uDec]

theorem retiring_eq (st : St) (s : Nat) : retiring st s = cnt (uRet s) st.ths := by
  unfold retiring
  rw [cnt_eq_countP (uRet s) (fun pc => pc == .closeRetire s)]
  intro pc
  cases pc <;> simp [uRet]

theorem retiring2_eq (st : St) (s : Nat) : retiring2 st s = cnt (uRet2 s) st.ths := by
  unfold retiring2
  rw [cnt_eq_countP (uRet2 s) (fun pc => pc == .closeRetire2 s)]
  intro pc
  cases pc <;> simp [uRet2]

/-- once the count is zero no step changes it, and no `Open` on it returns true -/
theorem Step.zero_final {cfg : Cfg} {st st' : St} {i : Nat} {a : Act} {ev : Ev}
    (hO : cfg.fixedOpen = true) (h : Inv cfg st) (hs : Step cfg st i a st' ev) (s : Nat)
    (h1 : 1 ≤ s) (h2 : s ≤ st.snaps.length) (hz : (getS st s).refs = 0) :
    (getS st' s).refs = 0 ∧ ev ≠ .retOpen s true := by
  cases hs with
  | startClose s0 hi h1' h2' hh =>
    refine ⟨?_, by simp⟩
    rw [getS_setT, getS_setS _ _ _ _ h1' h2']
    by_cases e : s0 = s
    · subst e; simpa using hz
    · simpa [e] using hz
  | casOk b s0 rc hi hf he =>
    obtain ⟨h1', h2', hpos⟩ := h.pcs i _ hi
    have hne : s0 ≠ s := by
      intro e; subst e; omega
    refine ⟨?_, by simp [hne]⟩
    rw [getS_setT, getS_setS _ _ _ _ h1' h2']
    simpa [hne] using hz
  | addUnfixed b s0 rc hi hf => rw [hO] at hf; cases hf
  | decRetire b s0 hi hz0 =>
    obtain ⟨h1', h2'⟩ := h.pcs i _ hi
    have hne : s0 ≠ s := by
      intro e; subst e
      have := h.count s0 h1 h2
      have := cnt_ge (uDec s0) st.ths i _ hi
      simp [uDec] at this
      omega
    refine ⟨?_, by simp⟩
    rw [getS_setT, getS_setS _ _ _ _ h1' h2']
    simpa [hne] using hz
  | decRet b s0 hi hnz =>
    obtain ⟨h1', h2'⟩ := h.pcs i _ hi
    have hne : s0 ≠ s := by
      intro e; subst e
      have := h.count s0 h1 h2
      have := cnt_ge (uDec s0) st.ths i _ hi
      simp [uDec] at this
      omega
    refine ⟨?_, by simp⟩
    rw [getS_setT, getS_setS _ _ _ _ h1' h2']
    simpa [hne] using hz
  | retire2 b s0 hi =>
    obtain ⟨h1', h2'⟩ := h.pcs i _ hi
    refine ⟨?_, by simp⟩
    show (snapAt (setAt st.snaps s0 _) s).refs = 0
    rw [snapAt_setAt _ _ _ _ h1' h2']
    by_cases e : s0 = s
    · subst e; simpa [getS] using hz
    · simpa [e, getS] using hz
  | loadRefuse b s0 hi hz0 => exact ⟨hz, by simp⟩
  | _ => exact ⟨hz, by simp⟩

end NitroVerif.RefCount
