import NitroVerif.Lemmas.SkipSeqOps
/-!
  `softDelete`: on a live node it marks every level from the top down and wins; on a node that is
  already marked on all its levels it changes nothing and loses.
-/
namespace NitroVerif.SkipSeq
open NitroVerif

/-- heap `h` is `h0` with the link words of `d` marked on the levels `j..top` -/
structure MarkInv (h0 : Heap) (d top j : Nat) (h : Heap) : Prop where
  len : h.length = h0.length
  key : ∀ m, keyOf h m = keyOf h0 m
  lvl : ∀ m, levelOf h m = levelOf h0 m
  nlen : ∀ m, nextLen h m = nextLen h0 m
  links : ∀ m l, getNext h m l
      = if m = d ∧ j ≤ l ∧ l ≤ top then ((getNext h0 d l).1, true) else getNext h0 m l

theorem MarkInv.start (h0 : Heap) (d top : Nat) : MarkInv h0 d top (top + 1) h0 :=
  ⟨rfl, fun _ => rfl, fun _ => rfl, fun _ => rfl, fun m l => by
    have : ¬ (m = d ∧ top + 1 ≤ l ∧ l ≤ top) := by omega
    rw [if_neg this]⟩

theorem MarkInv.step {h0 h : Heap} {d top i : Nat} (hi : MarkInv h0 d top (i + 1) h)
    (hslot : i < nextLen h0 d) (hit : i ≤ top) :
    MarkInv h0 d top i (setNext h d i ((getNext h0 d i).1, true)) := by
  refine ⟨by rw [length_setNext]; exact hi.len, fun m => by rw [keyOf_setNext]; exact hi.key m,
    fun m => by rw [levelOf_setNext]; exact hi.lvl m, fun m => by rw [nextLen_setNext]; exact hi.nlen m, ?_⟩
  intro m l
  rw [getNext_setNext (by rw [hi.nlen]; exact hslot)]
  by_cases hc : d = m ∧ i = l
  · rcases hc with ⟨rfl, rfl⟩
    have : d = d ∧ i ≤ i ∧ i ≤ top := ⟨rfl, Nat.le_refl _, hit⟩
    rw [if_pos ⟨rfl, rfl⟩, if_pos this]
  · rw [if_neg hc, hi.links m l]
    by_cases hm : m = d
    · subst hm
      have hil : i ≠ l := fun e => hc ⟨rfl, e⟩
      by_cases h1 : i + 1 ≤ l ∧ l ≤ top
      · rw [if_pos ⟨rfl, h1⟩, if_pos ⟨rfl, by omega, h1.2⟩]
      · have : ¬ (m = m ∧ i ≤ l ∧ l ≤ top) := by omega
        rw [if_neg (fun h => h1 h.2), if_neg this]
    · rw [if_neg (fun h => hm h.1), if_neg (fun h => hm h.1)]

theorem softLoop_live {h0 : Heap} {d top : Nat}
    (hun : ∀ l, l ≤ top → (getNext h0 d l).2 = false) (hslot : top < nextLen h0 d) :
    ∀ (i : Nat) (s : SL) (m : Bool) (f : Nat), MarkInv h0 d top (i + 1) s.nodes → i ≤ top →
      2 * (i + 1) ≤ f →
      ∃ s', softLoop d f s i m = (s', true) ∧ MarkInv h0 d top 0 s'.nodes ∧ s'.level = s.level ∧
        s'.buf = s.buf ∧ s'.stuck = s.stuck ∧
        s'.stats = { s.stats with softDeletes := s.stats.softDeletes + 1 } := by
  intro i
  induction i with
  | zero =>
    intro s m f hinv hit hf
    obtain ⟨f', rfl⟩ : ∃ f', f = f' + 1 + 1 := ⟨f - 2, by omega⟩
    have hnd : getNext s.nodes d 0 = ((getNext h0 d 0).1, false) := by
      rw [hinv.links d 0]
      have : ¬ (d = d ∧ 0 + 1 ≤ 0 ∧ 0 ≤ top) := by omega
      rw [if_neg this]
      have := hun 0 hit
      exact Prod.ext rfl this
    have hwin : Gen.softDeleteWins true 0 = true := (softDeleteWins_iff _ _).mpr ⟨rfl, rfl⟩
    have hnd2 : getNext (setNext s.nodes d 0 ((getNext h0 d 0).1, true)) d 0 = ((getNext h0 d 0).1, true) :=
      getNext_setNext_same (by rw [hinv.nlen]; omega)
    refine ⟨{ s with nodes := setNext s.nodes d 0 ((getNext h0 d 0).1, true),
                     stats := { s.stats with softDeletes := s.stats.softDeletes + 1 } },
      ?_, hinv.step (by omega) hit, rfl, rfl, rfl, rfl⟩
    rw [softLoop]
    simp only [hnd, Bool.false_eq_true, if_false, dcasNext_ok hnd, hwin, if_true]
    rw [softLoop]
    simp only [hnd2, if_true]
  | succ i ih =>
    intro s m f hinv hit hf
    obtain ⟨f', rfl⟩ : ∃ f', f = f' + 1 + 1 := ⟨f - 2, by omega⟩
    have hnd : getNext s.nodes d (i + 1) = ((getNext h0 d (i + 1)).1, false) := by
      rw [hinv.links d (i + 1)]
      have : ¬ (d = d ∧ i + 1 + 1 ≤ i + 1 ∧ i + 1 ≤ top) := by omega
      rw [if_neg this]
      have := hun (i + 1) hit
      exact Prod.ext rfl this
    have hwin : Gen.softDeleteWins true (i + 1) = false := by
      rw [Bool.eq_false_iff]; intro h; have := ((softDeleteWins_iff _ _).mp h).2; omega
    have hnd2 : getNext (setNext s.nodes d (i + 1) ((getNext h0 d (i + 1)).1, true)) d (i + 1)
        = ((getNext h0 d (i + 1)).1, true) :=
      getNext_setNext_same (by rw [hinv.nlen]; omega)
    have hstep := hinv.step (by omega) hit
    rcases ih { s with nodes := setNext s.nodes d (i + 1) ((getNext h0 d (i + 1)).1, true) } m f'
      hstep (by omega) (by omega) with ⟨s', he, h1, h2, h3, h4, h5⟩
    refine ⟨s', ?_, h1, h2, h3, h4, h5⟩
    rw [softLoop]
    simp only [hnd, Bool.false_eq_true, if_false, dcasNext_ok hnd, hwin]
    rw [softLoop]
    simp only [hnd2, if_true]
    exact he

/-- all link words of `d` carry the deleted flag -/
def Dead (h : Heap) (d : Nat) : Prop := ∀ l, l ≤ levelOf h d → (getNext h d l).2 = true

theorem softLoop_dead {s : SL} {d : Nat} (hd : Dead s.nodes d) :
    ∀ (i : Nat) (m : Bool) (f : Nat), i ≤ levelOf s.nodes d → i < f → softLoop d f s i m = (s, m) := by
  intro i
  induction i with
  | zero =>
    intro m f hi hf
    obtain ⟨f', rfl⟩ : ∃ f', f = f' + 1 := ⟨f - 1, by omega⟩
    rw [softLoop]
    simp [hd 0 hi]
  | succ i ih =>
    intro m f hi hf
    obtain ⟨f', rfl⟩ : ∃ f', f = f' + 1 := ⟨f - 1, by omega⟩
    rw [softLoop]
    simp only [hd (i + 1) hi, if_true]
    exact ih m f' (by omega) (by omega)

/-- deleting a node a second time fails and changes nothing -/
theorem softDelete_dead {s : SL} {d : Nat} (hd : Dead s.nodes d) : softDelete s d = (s, false) := by
  unfold softDelete
  exact softLoop_dead hd _ _ _ (Nat.le_refl _) (by omega)

theorem softDelete_live {s : SL} {d : Nat} (hun : ∀ l, l ≤ levelOf s.nodes d → (getNext s.nodes d l).2 = false)
    (hslot : levelOf s.nodes d < nextLen s.nodes d) :
    ∃ s', softDelete s d = (s', true) ∧ MarkInv s.nodes d (levelOf s.nodes d) 0 s'.nodes ∧
      s'.level = s.level ∧ s'.buf = s.buf ∧ s'.stuck = s.stuck ∧
      s'.stats = { s.stats with softDeletes := s.stats.softDeletes + 1 } := by
  unfold softDelete
  exact softLoop_live hun hslot _ s false _ (MarkInv.start _ _ _) (Nat.le_refl _) (by omega)

end NitroVerif.SkipSeq
