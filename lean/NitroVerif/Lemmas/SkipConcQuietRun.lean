import NitroVerif.Lemmas.SkipConcQuietStep
/-!
  Quiescence of M5, part 4: the CHARGING invariant `InvQ` and its preservation along every run.

  `charged`: every node that is marked at level 0 (deleted) and still on the chain of some level `j` is charged to a
  thread that is in flight and responsible for unlinking it there (`RespPC`): the thread whose level-0 mark won is
  at DEL_SEARCH; the cleaning search (and any other findPath for that item) is responsible for the levels it has not
  finished; an inserter that links its node at a level at which it is already marked starts the unlinking search in
  the same segment (the re-check of Insert4).  At quiescence nobody is in flight, hence no deleted node is linked.
-/
namespace NitroVerif.SkipConc
open NitroVerif

structure InvQ (s : Sys) : Prop where
  lv : InvL s
  /-- no node is higher than the current list level -/
  heights : ∀ n, 2 ≤ n → n < s.sh.heap.length → heightOf s.sh.heap n ≤ s.sh.level
  /-- every deleted node that is still linked at a level is charged to a responsible thread -/
  charged : ∀ d j, OnChain s.sh.heap j d → marked0 s.sh.heap d →
    ∃ (t : Nat) (th : Thread), s.threads[t]? = some th ∧ RespPC s.sh.heap d j th.pc

theorem RespPC.key {h : Heap} {d j : Nat} {pc : PC} (r : RespPC h d j pc) : ∃ k, keyOf h d = .fin k := by
  cases pc <;> simp only [RespPC] at r
  · exact ⟨_, r.1⟩
  · exact ⟨_, r.1⟩
  · exact ⟨_, r.1⟩
  · exact ⟨_, r⟩

/-- the node a thread is linking carries an item -/
theorem insNode_key {h : Heap} {th : Thread} {x : Nat} (hT : TInv h th) (hx : insNode th.pc = some x) :
    ∃ k, keyOf h x = .fin k := by
  have hp := hT.2.2
  have key : ∀ (item : Nat) (c : Cont), ContInv h th item c → contNode c = some x → ∃ k, keyOf h x = .fin k := by
    intro item c hc hx
    cases c <;> simp only [contNode, ContInv] at * <;> try (simp at hx)
    · subst hx; exact ⟨_, hc.2.1⟩
    · subst hx; exact ⟨_, hc.2.1⟩
  cases hpc : th.pc <;> rw [hpc] at hp hx <;> simp only [insNode, PCInv] at * <;> try (simp at hx)
  · exact key _ _ hp.2.2.2.1 hx
  · exact key _ _ hp.1.2.2.2.1 hx
  · exact key _ _ hp.1.2.2.2.1 hx
  · subst hx; exact ⟨_, hp.2.1⟩
  · subst hx; exact ⟨_, hp.2.1⟩

/-- a node published in this segment is not higher than the list level -/
theorem stepThread_newHeight {sh : Shared} {th : Thread} (hT : TInv sh.heap th) (hL : TL sh.heap sh.level th) :
    ∀ n, sh.heap.length ≤ n → n < (stepThread sh th).1.heap.length →
      heightOf (stepThread sh th).1.heap n ≤ sh.level := by
  intro n h1 h2
  obtain ⟨ev, hs, hpc⟩ := stepThread_hstep hT
  cases ev with
  | none => have := (hs.frame (.inl rfl)).1; omega
  | upper => have := (hs.frame (.inr (.inl rfl))).1; omega
  | unlink c => have := (hs.frame (.inr (.inr ⟨c, rfl⟩))).1; omega
  | mark c => have := hs.mark_spec.1; omega
  | publish x k =>
    obtain ⟨lvl, hpc⟩ := hpc
    have hl := hL.2
    rw [hpc] at hl
    have h3 : stepThread sh th = stepInsPublish sh th k lvl := by unfold stepThread; rw [hpc]
    rw [h3] at h2 ⊢
    revert h2
    unfold stepInsPublish
    simp only []
    split
    · rename_i hok
      have hheap := dcas_ok_heap _ _ _ _ _ _ hok
      have key : ∀ (hh : Heap), hh = (dcas sh.heap (th.pred 0) 0 (th.succ 0) sh.heap.length false).1 ++ [newNode th k lvl] →
          n < hh.length → heightOf hh n ≤ sh.level := by
        intro hh e hlt
        subst e
        rw [hheap] at hlt ⊢
        have hn : n = (setWord sh.heap (th.pred 0) 0 (sh.heap.length, false)).length := by
          simp [length_setWord] at hlt ⊢; omega
        rw [hn, heightOf_append_new]
        exact hl.1
      split
      · exact key _ rfl
      · exact key _ rfl
    · intro h2
      simp only [startFind] at h2
      omega

theorem InvQ_init (n : Nat) : InvQ (Sys.init n) where
  lv := InvL_init n
  heights k h2 hl := by simp [Sys.init, Sys.initWith, Shared.init, initHeap] at hl; omega
  charged d j _ hm := by
    obtain ⟨q, hq⟩ := hm
    have := (word?_init hq).2.2.2
    simp at this

theorem start_invQ {s : Sys} (hI : InvQ s) (t : Nat) (op : Op) : InvQ (s.start t op).1 := by
  have hL' := start_invL hI.lv t op
  cases hth : s.threads[t]? with
  | none => rw [Sys.start_none hth]; exact hI
  | some th =>
    cases hidle : isIdle th.pc with
    | false => rw [Sys.start_busy hth hidle]; exact hI
    | true =>
      rw [Sys.start_idle hth hidle] at hL' ⊢
      refine ⟨hL', ?_, ?_⟩
      · simp only [startOp_heap, startOp_level]; exact hI.heights
      · intro d j hd hm
        simp only [startOp_heap] at hd hm ⊢
        obtain ⟨tr, thr, hget, hr⟩ := hI.charged d j hd hm
        have hne : t ≠ tr := by
          intro e
          subst e
          rw [hth] at hget; simp at hget; subst hget
          have := hr.not_idle
          rw [hidle] at this; simp at this
        exact ⟨tr, thr, by rw [List.getElem?_set_ne hne]; exact hget, hr⟩

theorem step_invQ {s : Sys} (hI : InvQ s) (t : Nat) : InvQ (s.step t).1 := by
  have hL' := step_invL hI.lv t
  cases hth : s.threads[t]? with
  | none => rw [Sys.step_none hth]; exact hI
  | some th =>
    by_cases hidle : th.pc = .idle
    · rw [Sys.step_idle hth hidle]; exact hI
    · have hInv := hI.lv.base.1
      have H := hInv.1
      have R := hI.lv.base.2
      have L := hI.lv.lv
      have hT := hInv.2 th (List.mem_of_getElem? hth)
      have hL := hI.lv.threads t th hth
      have hgood := stepThread_good H hInv.3 hT
      have hlevel := (stepThread_level hInv.3 hT).2
      obtain ⟨ev, hst, hev, hnew⟩ := stepThread_goodL H R L hI.lv.fixed hT hL
      have htl : t < s.threads.length := (List.getElem?_eq_some_iff.mp hth).1
      rw [Sys.step_busy hth hidle] at hL' ⊢
      have H' := hgood.1
      have L' := hst.lvInv H L
      refine ⟨hL', ?_, ?_⟩
      · intro n h2 hlt
        simp only [] at hlt ⊢
        by_cases hn : n < s.sh.heap.length
        · rw [hgood.2.1.height n hn]
          exact Nat.le_trans (hI.heights n h2 hn) hlevel
        · exact Nat.le_trans (stepThread_newHeight hT hL n (by omega) hlt) hlevel
      · intro d j hd' hm'
        simp only [] at hd' hm' ⊢
        have hnewget : (s.threads.set t (stepThread s.sh th).2.1)[t]? = some (stepThread s.sh th).2.1 := by
          rw [List.getElem?_set_self htl]
        rcases hst.marked0_back hm' with hm | hevm
        · rcases hst.onChain_back H hd' with hd | hevl | hdl
          · -- charged before: the responsible thread steps itself, or is not disturbed
            obtain ⟨tr, thr, hget, hr⟩ := hI.charged d j hd hm
            obtain ⟨k, hk⟩ := hr.key
            have hd0 := ne_head_of_fin H hk
            have hd1 : d ≠ 1 := by
              intro e; rw [e, H.tailKey] at hk; simp at hk
            by_cases htr : tr = t
            · subst htr
              rw [hth] at hget; simp at hget; subst hget
              refine ⟨tr, _, hnewget, hr.step H R L hT hL hd' (fun hc => markedAt_of_marked0 H hd0 hm hc) ?_⟩
              -- `j` is at most the height of `d`, which is at most the list level
              obtain ⟨b, m, hb⟩ := hd.pointed hd0
              rcases H.hl _ _ _ _ hb with e | hs
              · exact absurd e hd1
              · obtain ⟨w, hw⟩ := Option.isSome_iff_exists.mp hs
                have h1 := H.wordLevel _ _ _ hw
                have h2 := hI.heights d (by omega) (lt_of_keyOf_fin hk)
                omega
            · refine ⟨tr, thr, by rw [List.getElem?_set_ne (fun e => htr e.symm)]; exact hget, ?_⟩
              exact hr.keep H R L H' L' hgood.2.1 hst (hI.lv.threads tr thr hget) hd'
          · -- linked in this segment although marked: the inserter starts its unlinking search
            subst hevl
            obtain ⟨hins, hfp⟩ := hev
            obtain ⟨k, hk⟩ := insNode_key hT hins
            have hdl := lt_of_keyOf_fin hk
            have hk' : keyOf (stepThread s.sh th).1.heap d = .fin k := by rw [hgood.2.1.key _ hdl]; exact hk
            have hd0 := ne_head_of_fin H' hk'
            obtain ⟨fp, hfpc, hfprev, hfk, hfi, hfl⟩ := hfp (markedAt_of_marked0 H' hd0 hm' hd')
            refine ⟨t, _, hnewget, ?_⟩
            rw [hfpc]
            exact ⟨hfk, by rw [hfi]; exact hfl, by rw [hfprev]; exact hd'⟩
          · -- a node published in this segment is not marked
            subst hdl
            obtain ⟨q, hq⟩ := hm
            rw [word?_ge (Nat.le_refl _)] at hq; simp at hq
        · -- marked at level 0 in this segment: the winner is at DEL_SEARCH
          subst hevm
          obtain ⟨item, hpc', hk'⟩ := hev
          refine ⟨t, _, hnewget, ?_⟩
          rw [hpc']
          exact hk'

theorem act_invQ {s : Sys} (hI : InvQ s) (a : Action) : InvQ (s.act a) := by
  cases a with
  | start t op => exact start_invQ hI t op
  | step t => exact step_invQ hI t

/-- along every run of any number of threads the charging invariant holds -/
theorem run_invQ {s : Sys} (hI : InvQ s) (as : List Action) : InvQ (s.run as) := by
  induction as generalizing s with
  | nil => exact hI
  | cons a r ih => exact ih (act_invQ hI a)

end NitroVerif.SkipConc
