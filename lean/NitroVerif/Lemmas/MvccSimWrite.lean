/-
  Refinement, writer operations: Put, Delete, GetNode, DeleteNode through a handle.
-/
import NitroVerif.Lemmas.MvccSimStore

namespace NitroVerif.Mvcc
open NitroVerif SetSpec

theorem state_ext {a b : SetSpec.State} (h1 : a.nwriters = b.nwriters) (h2 : a.alive = b.alive)
    (h3 : a.epoch = b.epoch) (h4 : a.items = b.items) (h5 : a.snaps = b.snaps)
    (h6 : a.iters = b.iters) (h7 : a.handles = b.handles) : a = b := by
  cases a; cases b; simp_all

/-- the statement proved for every operation -/
def Refines (σ : State) (op : Op) : Prop :=
  SetSpec.step (abs σ) op = (abs (step σ op).1, (step σ op).2)

theorem lookup_probe {σ : State} (h : Inv σ) (k v : Nat) :
    lookup σ.store (probe σ k v) = aliveOf σ.store k := lookup_eq_aliveOf h.sorted h.chains k v

theorem sim_put {σ : State} (h : Inv σ) (w k v : Nat) : Refines σ (.put w k v) := by
  unfold Refines
  simp only [SetSpec.step, step]
  by_cases hw : w < σ.writers.length
  · have hw' : w < (abs σ).nwriters := hw
    simp only [hw, hw', if_true]
    have hfk : findKey k (abs σ).alive = (aliveOf σ.store k).map entryOf := findKey_abs σ.store k
    rw [hfk]
    unfold put
    rw [lookup_probe h]
    cases ha : aliveOf σ.store k with
    | some x => rfl
    | none =>
      have hno := aliveOf_none ha
      simp only [Option.map]
      refine Prod.ext (state_ext ?_ ?_ rfl rfl rfl rfl ?_) rfl
      · simp [abs, updWriter_length]
      · simp only [abs]; exact (absAlive_insertAt h.sorted k v hno).symm
      · simp only [abs]; exact (handles_insertAt h k v hno).symm
  · have hw' : ¬ w < (abs σ).nwriters := hw
    simp only [hw, hw', if_false]

/-- a successful `DeleteNode` of the alive version `x` is the removal of its key -/
theorem abs_deleteNode {σ : State} (h : Inv σ) {w : Nat} {x : Ver} (hx : x ∈ σ.store)
    (hd : x.dead = 0) :
    (deleteNode σ w x).2 = true ∧
    abs (deleteNode σ w x).1 = delEntry (abs σ) (entryOf x) := by
  have hcur : σ.currSn ≠ 0 := by have := h.snaps.gclt; omega
  unfold deleteNode
  split
  · refine ⟨rfl, state_ext ?_ ?_ rfl rfl rfl rfl ?_⟩
    · simp [abs, delEntry, updWriter_length]
    · simp only [abs, delEntry]; exact absAlive_removeId h.sorted h.chains hx hd
    · simp only [abs, delEntry]; exact handles_removeId h
  · simp only
    refine ⟨trivial, state_ext ?_ ?_ rfl rfl rfl rfl ?_⟩
    · simp [abs, delEntry, updWriter_length]
    · simp only [abs, delEntry]; exact absAlive_markDead h.sorted h.chains hx hd _ hcur
    · simp only [abs, delEntry]; exact handles_markDead h hx _ hcur

theorem sim_del {σ : State} (h : Inv σ) (w k : Nat) : Refines σ (.del w k) := by
  unfold Refines
  simp only [SetSpec.step, step]
  by_cases hw : w < σ.writers.length
  · have hw' : w < (abs σ).nwriters := hw
    simp only [hw, hw', if_true]
    have hfk : findKey k (abs σ).alive = (aliveOf σ.store k).map entryOf := findKey_abs σ.store k
    rw [hfk]
    unfold del
    rw [getNode_eq h]
    cases ha : aliveOf σ.store k with
    | none => rfl
    | some x =>
      have ⟨hxm, _, hd⟩ := aliveOf_some ha
      have ⟨h1, h2⟩ := abs_deleteNode (w := w) h hxm hd
      simp only [Option.map]
      rw [h1, h2]
  · have hw' : ¬ w < (abs σ).nwriters := hw
    simp only [hw, hw', if_false]

theorem sim_get {σ : State} (h : Inv σ) (w k : Nat) : Refines σ (.get w k) := by
  unfold Refines
  simp only [SetSpec.step, step]
  by_cases hw : w < σ.writers.length
  · have hw' : w < (abs σ).nwriters := hw
    simp only [hw, hw', if_true]
    have hfk : findKey k (abs σ).alive = (aliveOf σ.store k).map entryOf := findKey_abs σ.store k
    rw [hfk, getNode_eq h]
    cases aliveOf σ.store k <;> rfl
  · have hw' : ¬ w < (abs σ).nwriters := hw
    simp only [hw, hw', if_false]

theorem sim_getnode {σ : State} (h : Inv σ) (w k hn : Nat) : Refines σ (.getnode w k hn) := by
  unfold Refines
  simp only [SetSpec.step, step]
  by_cases hw : w < σ.writers.length
  · have hw' : w < (abs σ).nwriters := hw
    simp only [hw, hw', if_true]
    have hfk : findKey k (abs σ).alive = (aliveOf σ.store k).map entryOf := findKey_abs σ.store k
    rw [hfk, getNode_eq h]
    cases ha : aliveOf σ.store k with
    | none =>
      simp only [Option.map]
      refine Prod.ext (state_ext rfl rfl rfl rfl rfl rfl ?_) rfl
      simp only [abs]
      exact (map_aerase _ (absHandle_fst σ.store) hn σ.handles).symm
    | some x =>
      have ⟨hxm, hk, hd⟩ := aliveOf_some ha
      simp only [Option.map]
      refine Prod.ext (state_ext rfl rfl rfl rfl rfl rfl ?_) rfl
      simp only [abs]
      rw [map_aset _ (absHandle_fst σ.store)]
      have : hasAlive σ.store k x.born = true := (hasAlive_iff _ _ _).mpr ⟨x, hxm, hk, rfl, hd⟩
      simp [absHandle, this, entryOf, hk]
  · have hw' : ¬ w < (abs σ).nwriters := hw
    simp only [hw, hw', if_false]

theorem sim_delnode {σ : State} (h : Inv σ) (w hn : Nat) : Refines σ (.delnode w hn) := by
  unfold Refines
  simp only [SetSpec.step, step]
  by_cases hw : w < σ.writers.length
  · have hw' : w < (abs σ).nwriters := hw
    simp only [hw, hw', if_true]
    have hlk : alookup hn (abs σ).handles =
        (alookup hn σ.handles).map (fun a => (absHandle σ.store (hn, a)).2) :=
      alookup_map _ (absHandle_fst σ.store) hn σ.handles
    rw [hlk]
    cases hh : alookup hn σ.handles with
    | none => rfl
    | some hd =>
      simp only [Option.map, absHandle]
      unfold delHandle
      cases hg : hd.gone
      · simp only [Bool.not_false, Bool.true_and, Bool.false_eq_true, if_false]
        cases hf : findId σ.store ⟨hd.key, 0, hd.born, 0⟩ with
        | none =>
          have : hasAlive σ.store hd.key hd.born = false := by
            cases hh' : hasAlive σ.store hd.key hd.born
            · rfl
            · obtain ⟨y, hy, hk, hb, _⟩ := (hasAlive_iff _ _ _).mp hh'
              have := List.find?_eq_none.mp hf y hy
              simp [sameId, hk, hb] at this
          simp [this]
        | some x =>
          have hxm : x ∈ σ.store := List.mem_of_find?_eq_some hf
          have hxs := List.find?_some hf
          have hid := (sameId_iff _ _).mp hxs
          simp only at hid
          by_cases hxd : x.dead = 0
          · have : hasAlive σ.store hd.key hd.born = true :=
              (hasAlive_iff _ _ _).mpr ⟨x, hxm, hid.1, hid.2, hxd⟩
            have ⟨h1, h2⟩ := abs_deleteNode (w := w) h hxm hxd
            simp only [this, if_true]
            rw [h1, h2]
            simp [delEntry, entryOf, hid.1, hid.2]
          · have : hasAlive σ.store hd.key hd.born = false := by
              cases hh' : hasAlive σ.store hd.key hd.born
              · rfl
              · obtain ⟨y, hy, hk, hb, hyd⟩ := (hasAlive_iff _ _ _).mp hh'
                have := sorted_id_unique h.sorted hy hxm (by omega) (by omega)
                subst this; exact absurd hyd hxd
            have hne : Gen.sameEpoch x.born σ.currSn = false := by
              cases hse : Gen.sameEpoch x.born σ.currSn
              · rfl
              · have := (sameEpoch_iff _ _).mp hse
                have := h.chains.1 x hxm
                omega
            simp [this, deleteNode, hne, hxd]
      · simp
  · have hw' : ¬ w < (abs σ).nwriters := hw
    simp only [hw, hw', if_false]

end NitroVerif.Mvcc
