import NitroVerif.Props.C05
import NitroVerif.Props.C10
/-!
  Property C05 — end-to-end composition on the models: what the Visitor hands to the shard writers (C10, model M6),
  framed into shard files (C19) and described by the manifests (M7 `storeImage`), loads back as exactly the
  content of the stored snapshot, in order, whatever pivots `GetRangeSplitItems` produced.

  This mechanises the glue "backup = Visitor partition + framing + load" between the M6 and M7 models; that
  `Builder.Assemble` of the decoded segments scans as their concatenation is `C18_assemble`.
-/
namespace NitroVerif.Props.C05
open NitroVerif NitroVerif.Codec NitroVerif.Backup NitroVerif.Mvcc

/-- `enc` is how a version's item is laid out in bytes (the driver uses an 8-byte key, or `KVToBytes key value`);
    it may depend on key and value only (`henc_norm`) and yields a non-empty item shorter than 2^32 bytes. -/
theorem C05_end_to_end {n : Nat} {σ : Mvcc.State} (hr : Reachable n σ) {s : Snap}
    (hs : s ∈ σ.snaps) (hrc : 0 < s.rc) (pivots : List Ver) (rate : Int)
    (enc : Ver → Bytes) (henc : ∀ v, 0 < (enc v).length ∧ (enc v).length < 2 ^ 32)
    (henc_norm : ∀ v, enc v.norm = enc v)
    (h : Bytes → Nat) (keyCmp : Bytes → Bytes → Int) :
    load h keyCmp false
        (storeImage h (((visitor σ.store s.sn rate none pivots).1).map (fun shard => shard.map enc)) 1)
      = .ok (s.content.map enc) := by
  have hc := (NitroVerif.Props.C10_visitor_partition hr hs hrc pivots rate none).1 (by intro v _ hv; cases hv)
  have hflat : ((visitor σ.store s.sn rate none pivots).1).flatten.map Ver.norm = s.content := hc.2.1
  have hparts : (((visitor σ.store s.sn rate none pivots).1).map (fun shard => shard.map enc)).flatten
      = s.content.map enc := by
    rw [← hflat, List.map_map]
    have hcomp : (enc ∘ Ver.norm) = enc := by funext v; exact henc_norm v
    rw [hcomp, List.map_flatten]
  have hit : ∀ d ∈ s.content.map enc, 0 < d.length ∧ d.length < 2 ^ 32 := by
    intro d hd
    obtain ⟨v, _, rfl⟩ := List.mem_map.mp hd
    exact henc v
  exact (C05_roundtrip h keyCmp (s.content.map enc) hit _ hparts 1 (by decide)).1

/-- non-vacuity of the encoding hypotheses: a layout that depends on key and value only -/
example : let enc : Ver → Bytes := fun v => [UInt8.ofNat v.key, UInt8.ofNat v.val, 1]
    (∀ v, 0 < (enc v).length ∧ (enc v).length < 2 ^ 32) ∧ (∀ v : Ver, enc v.norm = enc v) := by
  refine ⟨fun v => by simp, fun v => rfl⟩

end NitroVerif.Props.C05
