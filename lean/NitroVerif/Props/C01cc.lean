import NitroVerif.Props.C01c
import NitroVerif.Lemmas.MvccConcView8
/-!
  # C01 (snapshot isolation) for a reader that runs CONCURRENTLY with writers, closes, collection and free jobs

  Model: the small-step MVCC machine `Model/MvccConc.lean` (threads = writers and readers; yield points inside
  Put / Delete / DeleteNode / the collector / collection and free jobs and at ITER_NEXT of a reader's iterator;
  every skiplist operation is one atomic action).  Everything below is for EVERY schedule of EVERY number of
  writers and readers.

  Vocabulary (definitions in `Lemmas/MvccConcView*.lean`, `Lemmas/MvccConcIter6.lean`):
  * `viewOf σ sn` — the versions of `σ.store` that the reader's `skipUnwanted` test (`Gen.skipUnwanted`, through
    `Mvcc.visible`) does not skip for snapshot number `sn`, in store order, each without its mutable death mark
    (`Ver.norm`): key, value, birth epoch.
  * `openSn σ sn` — snapshot `sn` is in the table with a positive reference count.  A snapshot whose creation
    reference has not been closed is open (`C01_conc_open_of_handle`); so is the snapshot of every iterator that
    has not begun its `Close` (`C01_conc_open_of_iterator`; `closingB` is true exactly while the iterator's thread
    is parked in the collector inside `Iterator.Close`, after `Snapshot.Close` has given the reference back).
  * `deliveredVers t i σ sched` — the versions handed to the user of iterator `i` of reader thread `t` along
    `sched` from `σ`: key and value as answered (`ret <k:v>`), birth epoch of the node the cursor then stands on.
    `delivered t i σ sched` (C01c) is its projection to `(key, bornSn)` (`delivered_map`).
  * `scanEnded t i σ sched` — one of the iterator's own actions along `sched` answered `end`.
  * `upTo V cur` — the part of `V` at or below cursor `cur` in the store order; all of `V` for `cur = none`.
-/
namespace NitroVerif.Props.C01cc
open NitroVerif NitroVerif.MvccConc
open NitroVerif.Mvcc (Ver visible)

/-! ## 1. the content of an open snapshot is fixed -/

/-- **C01_conc_view_fixed.**  In every reachable state, for every action `a` of any thread or job (Put and
    Delete segments, NewSnapshot, Close of any snapshot or iterator, the collector, collection-job and free-job
    steps, other readers, shutdown) and every snapshot number `sn` that is open before the action: the versions
    visible to `sn` are the same list before and after.  (A Put links a version born in the current epoch, a
    cross-epoch Delete stamps the current epoch as death mark, a same-epoch Delete unlinks a version born in the
    current epoch, and a collection job unlinks only versions that died at or below `lastGCSn`, which is below
    every open snapshot because snapshots are collected strictly in order: none of these is seen by `sn`.) -/
theorem C01_conc_view_fixed {fx : Bool} {nw nr : Nat} {σ : State} (hr : ReachableFx fx nw nr σ) (a : Act) (sn : Nat)
    (ho : openSn σ sn) : viewOf (step σ a).1 sn = viewOf σ sn :=
  view_step hr a ho

/-- `sn` is open in every state a schedule passes through (the last one excepted) -/
def openAlong (sn : Nat) : State → List Act → Prop
  | _, [] => True
  | σ, a :: as => openSn σ sn ∧ openAlong sn (step σ a).1 as

/-- the same along a whole schedule: as long as the snapshot is open, its content does not change -/
theorem C01_conc_view_fixed_run {fx : Bool} {nw nr : Nat} (sn : Nat) : ∀ (sched : List Act) {σ : State},
    ReachableFx fx nw nr σ → openAlong sn σ sched → viewOf (run σ sched) sn = viewOf σ sn
  | [], _, _, _ => rfl
  | a :: as, σ, hr, ho => by
    show viewOf (run (step σ a).1 as) sn = _
    rw [C01_conc_view_fixed_run sn as (ReachableFx.step a hr) ho.2, C01_conc_view_fixed hr a sn ho.1]

/-- an iterator that has not begun its `Close` keeps its snapshot open -/
theorem C01_conc_open_of_iterator {fx : Bool} {nw nr : Nat} {σ : State} (hr : ReachableFx fx nw nr σ) {t i : Nat}
    {it : Iter} (hf : findIter (t, i) σ.iters = some it) (hc : closingB σ.threads (t, i) = false) :
    openSn σ it.sn :=
  open_of_iter (vinv_reachable hr) (findIter_some hf) hc

/-- a snapshot whose creation reference has not been closed is open -/
theorem C01_conc_open_of_handle {fx : Bool} {nw nr : Nat} {σ : State} (hr : ReachableFx fx nw nr σ) {s : Snap}
    (hs : s ∈ σ.snaps) (hh : s.held = true) : openSn σ s.sn :=
  open_of_held (vinv_reachable hr) hs hh

/-- the collector frontier lies below every open snapshot (in-order collection), the epoch above -/
theorem C01_conc_open_bounds {fx : Bool} {nw nr : Nat} {σ : State} (hr : ReachableFx fx nw nr σ)
    (hd : σ.down = false) {sn : Nat} (ho : openSn σ sn) : σ.lastGCSn < sn ∧ sn < σ.currSn :=
  open_facts (inv_reachable hr hd) (vinv_reachable hr) ho

/-- what a collection job may still unlink is dead at or below the frontier, hence invisible to every open
    snapshot -/
theorem C01_conc_collector_frontier {fx : Bool} {nw nr : Nat} {σ : State} (hr : ReachableFx fx nw nr σ)
    (hd : σ.down = false) {n : Nat} (hn : n ∈ garbJ σ.gcJobs) {x : Node} (hx : x ∈ σ.store) (hid : x.id = n)
    {sn : Nat} (ho : openSn σ sn) : visible sn x.ver = false := by
  have hi := inv_reachable hr hd
  have hv := vinv_reachable hr
  have hle := hv.front.s.jgc n hn x hx hid
  have ⟨hlg, _⟩ := open_facts hi hv ho
  obtain ⟨y, hy, hyid, hyd, _⟩ := hi.garb.linked n (garbC_pos_of_job hn)
  have : y = x := id_unique hi.store.ids hy hx (by omega)
  subst this
  cases hvis : visible sn y.ver
  · rfl
  · have := (Mvcc.visible_iff sn y.ver).mp hvis
    omega

/-! ## 2. one version per key -/

/-- **C01_conc_one_version_per_key.**  In every reachable state (shut down or not) and for every snapshot
    number: two linked versions of one key are never both visible to it; hence the view is strictly increasing
    in KEY. -/
theorem C01_conc_one_version_per_key {fx : Bool} {nw nr : Nat} {σ : State} (hr : ReachableFx fx nw nr σ) (sn : Nat) :
    (∀ a ∈ vers σ.store, ∀ b ∈ vers σ.store, visible sn a = true → visible sn b = true → a.key = b.key → a = b) ∧
    (viewOf σ sn).Pairwise (fun a b => a.key < b.key) := by
  have ⟨hs, hc⟩ := store_facts_reachable hr
  refine ⟨?_, ?_⟩
  · intro a ha b hb hva hvb hk
    exact Mvcc.sorted_id_unique hs ha hb hk (Mvcc.visible_unique hc ha hb hva hvb hk)
  · unfold viewOf Mvcc.view
    rw [List.pairwise_map]
    exact Mvcc.vis_keySorted hs hc sn

/-! ## 3. a scan is complete -/

/-- the snapshot number of iterator `(t, i)` (0 if there is none) -/
def snOf (σ : State) (t i : Nat) : Nat := ((findIter (t, i) σ.iters).map (·.sn)).getD 0

/-- **C01_conc_scan_prefix.**  Code as it is.  From any reachable state `σ`: iterator `i` of reader `t` starts a
    scan with an accepted `it_first` (the thread is an idle reader and the iterator exists); `scan` is any
    schedule of all threads and jobs that contains no further `it_first` and no `it_close` of this iterator.  Then
    at the end of `scan` (that is: at every point of a scan)
    * the list of versions handed out so far — keys, values, birth epochs — is exactly the part of the view of the
      iterator's snapshot, as it was at `it_first`, at or below the cursor (each such version once, in store
      order); it is the whole view once the cursor is gone;
    * that view is still the view in the current state. -/
theorem C01_conc_scan_prefix {nw nr : Nat} {σ : State} (hr : Reachable nw nr σ) (scan : List Act) (t i : Nat)
    (hacc : (step σ (.itFirst t i)).2 ≠ .bad) (hno : Act.itFirst t i ∉ scan) (hnc : Act.itClose t i ∉ scan) :
    deliveredVers t i σ (.itFirst t i :: scan) =
        upTo (viewOf σ (snOf σ t i)) (curOf (run σ (.itFirst t i :: scan)) t i) ∧
      viewOf (run σ (.itFirst t i :: scan)) (snOf σ t i) = viewOf σ (snOf σ t i) ∧
      (scanEnded t i σ (.itFirst t i :: scan) = true → curOf (run σ (.itFirst t i :: scan)) t i = none) := by
  obtain ⟨it, c1, hf, hs1, hu1, he1⟩ := scan_first hr hacc
  have hsn : snOf σ t i = it.sn := by unfold snOf; rw [hf]; rfl
  obtain ⟨c2, hs2, hu2, hk2⟩ := scan_run scan (ReachableFx.step (.itFirst t i) hr) hs1 hno hnc
  have hcur : curOf (run σ (.itFirst t i :: scan)) t i = c2 := by
    obtain ⟨it2, hf2, _, hc2⟩ := hs2.it_ex
    show curOf (run (step σ (.itFirst t i)).1 scan) t i = c2
    unfold curOf; rw [hf2]; exact hc2
  rw [hsn, hcur]
  refine ⟨?_, hs2.view, ?_⟩
  · show (deliveredVerBy σ (.itFirst t i) t i).toList ++ deliveredVers t i (step σ (.itFirst t i)).1 scan = _
    rw [hu2, hu1]
  · intro hend
    apply hk2
    simp only [scanEnded, Bool.or_eq_true] at hend
    rcases hend with h | h
    · exact Or.inl (he1 h)
    · exact Or.inr h

/-- **C01_conc_scan_complete.**  Code as it is, any number of writers and readers, every schedule.  A scan of
    iterator `i` of reader `t` (an accepted `it_first`, then `it_next` calls with arbitrary actions of all other
    threads, collectors, collection jobs and free jobs in between — Puts, Deletes and re-inserts of keys around
    the cursor, unlinking of the node under the cursor included —, no second `it_first`, the iterator not closed)
    that has answered `end` has delivered EXACTLY the view of its snapshot as it was at `it_first` (equivalently,
    by `C01_conc_scan_prefix`, as it is in any state during the scan): every visible version once, in comparator
    order, with the value it had. -/
theorem C01_conc_scan_complete {nw nr : Nat} {σ : State} (hr : Reachable nw nr σ) (scan : List Act) (t i : Nat)
    (hacc : (step σ (.itFirst t i)).2 ≠ .bad) (hno : Act.itFirst t i ∉ scan) (hnc : Act.itClose t i ∉ scan)
    (hend : scanEnded t i σ (.itFirst t i :: scan) = true) :
    deliveredVers t i σ (.itFirst t i :: scan) = viewOf σ (snOf σ t i) := by
  obtain ⟨h1, _, h3⟩ := C01_conc_scan_prefix hr scan t i hacc hno hnc
  rw [h1, h3 hend]; rfl

/-- the same for the delivered list of `C01c` (`delivered`: keys and birth epochs) -/
theorem C01_conc_scan_complete_kb {nw nr : Nat} {σ : State} (hr : Reachable nw nr σ) (scan : List Act) (t i : Nat)
    (hacc : (step σ (.itFirst t i)).2 ≠ .bad) (hno : Act.itFirst t i ∉ scan) (hnc : Act.itClose t i ∉ scan)
    (hend : scanEnded t i σ (.itFirst t i :: scan) = true) :
    delivered t i σ (.itFirst t i :: scan) = (viewOf σ (snOf σ t i)).map (fun v => (v.key, v.born)) := by
  rw [delivered_map, C01_conc_scan_complete hr scan t i hacc hno hnc hend]

/-- the same in the shape of `C01c.C01_conc_scan_no_duplicates_partial`: schedule `pre`, then the scan -/
theorem C01_conc_scan_complete_from_init (nw nr : Nat) (pre scan : List Act) (t i : Nat)
    (hacc : (step (run (init nw nr true) pre) (.itFirst t i)).2 ≠ .bad)
    (hno : Act.itFirst t i ∉ scan) (hnc : Act.itClose t i ∉ scan)
    (hend : scanEnded t i (run (init nw nr true) pre) (.itFirst t i :: scan) = true) :
    deliveredVers t i (run (init nw nr true) pre) (.itFirst t i :: scan) =
      viewOf (run (init nw nr true) pre) (snOf (run (init nw nr true) pre) t i) :=
  C01_conc_scan_complete (reachable_run .init pre) scan t i hacc hno hnc hend

/-! ## 4. key order, Count() -/

theorem upTo_sublist (V : List Ver) (cur : Option Cur) : (upTo V cur).Sublist V := by
  cases cur with
  | none => exact List.Sublist.refl _
  | some c => exact List.filter_sublist

/-- **C01_conc_scan_keys_increasing** (the key form asked for in C01c).  The keys handed out by a scan (accepted
    `it_first`, no second `it_first`, iterator not closed) are strictly increasing — at every point of the scan,
    whatever the other threads and jobs do. -/
theorem C01_conc_scan_keys_increasing {nw nr : Nat} {σ : State} (hr : Reachable nw nr σ) (scan : List Act) (t i : Nat)
    (hacc : (step σ (.itFirst t i)).2 ≠ .bad) (hno : Act.itFirst t i ∉ scan) (hnc : Act.itClose t i ∉ scan) :
    (deliveredVers t i σ (.itFirst t i :: scan)).Pairwise (fun a b => a.key < b.key) ∧
    (delivered t i σ (.itFirst t i :: scan)).Pairwise (fun a b => a.1 < b.1) := by
  have h1 := (C01_conc_scan_prefix hr scan t i hacc hno hnc).1
  have h2 := (C01_conc_one_version_per_key hr (snOf σ t i)).2
  have h3 : (deliveredVers t i σ (.itFirst t i :: scan)).Pairwise (fun a b => a.key < b.key) := by
    rw [h1]; exact h2.sublist (upTo_sublist _ _)
  refine ⟨h3, ?_⟩
  rw [delivered_map, List.pairwise_map]
  exact h3

/-- **C01_conc_keys_increasing_any.**  Code as it is.  From ANY reachable state and along ANY schedule that contains
    no `it_first` of iterator `(t, i)` — a stretch of a scan begun earlier, with or without an `it_close` of the
    iterator on the way, the iterator existing or not —: the keys handed out by the iterator are strictly
    increasing. -/
theorem C01_conc_keys_increasing_any {nw nr : Nat} {σ : State} (hr : Reachable nw nr σ) (sched : List Act) (t i : Nat)
    (hno : Act.itFirst t i ∉ sched) :
    (deliveredVers t i σ sched).Pairwise (fun a b => a.key < b.key) ∧
    (delivered t i σ sched).Pairwise (fun a b => a.1 < b.1) := by
  have h3 : (deliveredVers t i σ sched).Pairwise (fun a b => a.key < b.key) := by
    rcases dead_or_scanning σ t i with hdead | ⟨sn, cur, hs⟩
    · rw [dead_run sched hr hdead hno]; exact List.Pairwise.nil
    · obtain ⟨cur', hu⟩ := scan_or_dead_run sched hr hs hno
      have h2 := (C01_conc_one_version_per_key hr sn).2
      have : (upTo (viewOf σ sn) cur').Pairwise (fun a b => a.key < b.key) := h2.sublist (upTo_sublist _ _)
      rw [hu] at this
      exact (List.pairwise_append.mp this).2.1
  refine ⟨h3, ?_⟩
  rw [delivered_map, List.pairwise_map]
  exact h3

/-- **C01_conc_scan_keys_increasing_full** — the full statement asked for in `C01c` (same shape and the same single
    hypothesis as `C01c.C01_conc_scan_no_duplicates_partial`, with KEY order instead of `(key, bornSn)` order):
    any schedule `pre`, then `it_first` (accepted or not), then any schedule `scan` of all threads and jobs that
    contains no further `it_first` of this iterator (an `it_close` of it is allowed): the delivered keys are
    strictly increasing. -/
theorem C01_conc_scan_keys_increasing_full (nw nr : Nat) (pre scan : List Act) (t i : Nat)
    (hno : Act.itFirst t i ∉ scan) :
    ((delivered t i (run (init nw nr true) pre) (.itFirst t i :: scan)).map (·.1)).Pairwise (· < ·) := by
  have hr : Reachable nw nr (run (init nw nr true) pre) := reachable_run .init pre
  rw [List.pairwise_map, delivered_map, List.pairwise_map]
  by_cases hacc : (step (run (init nw nr true) pre) (.itFirst t i)).2 = .bad
  · -- a refused `it_first`: nothing happens, the rest is a stretch without `it_first`
    have hsame := itFirst_bad hacc
    have hnone := (delivered_noitem (a := .itFirst t i) (t := t) (i := i)
      (show NoItem (step (run (init nw nr true) pre) (.itFirst t i)).2 by rw [hacc]; intro c h; cases h)).1
    show ((deliveredVerBy _ (.itFirst t i) t i).toList ++ deliveredVers t i (step _ (.itFirst t i)).1 scan).Pairwise _
    rw [hnone, hsame]
    exact (C01_conc_keys_increasing_any hr scan t i hno).1
  · obtain ⟨it, c1, hf, hs1, hu1, _⟩ := scan_first hr hacc
    obtain ⟨c2, hu2⟩ := scan_or_dead_run scan (ReachableFx.step (.itFirst t i) hr) hs1 hno
    have h2 := (C01_conc_one_version_per_key hr it.sn).2
    have : (upTo (viewOf (run (init nw nr true) pre) it.sn) c2).Pairwise (fun a b => a.key < b.key) :=
      h2.sublist (upTo_sublist _ _)
    rw [hu2, hu1] at this
    exact this

/-- **C01_conc_count.**  `Count()` of an open snapshot (the item count recorded at its creation) is the length
    of its view — in every reachable state, for as long as the snapshot is open. -/
theorem C01_conc_count {fx : Bool} {nw nr : Nat} {σ : State} (hr : ReachableFx fx nw nr σ) {s : Snap}
    (hs : s ∈ σ.snaps) (ho : 0 < s.rc) : s.count = ((viewOf σ s.sn).length : Nat) :=
  count_reachable hr s hs ho

/-- the count answered by `NewSnapshot` is the length of the view of the new snapshot -/
theorem C01_conc_count_at_creation {fx : Bool} {nw nr : Nat} {σ : State} (hr : ReachableFx fx nw nr σ) {sn : Nat}
    {c : Int} (h : (step σ .snap).2 = .snap sn c) : c = ((viewOf (step σ .snap).1 sn).length : Nat) := by
  by_cases hd : σ.down = true
  · rw [step_down hd] at h; cases h
  have hd0 : σ.down = false := by simpa using hd
  have hst := step_eq_of_not_down hd0 .snap
  simp only at hst
  by_cases hw : writersIdle σ = true
  · rw [if_pos hw] at hst
    have hr' := ReachableFx.step .snap hr
    rw [hst] at h hr' ⊢
    have hresp : (snap σ).2 = .snap σ.currSn (σ.itemsCount + (σ.writers.map (·.count)).sum) := rfl
    rw [hresp] at h
    injection h with h1 h2
    subst h1; subst h2
    have hmem : (⟨σ.currSn, 1, σ.itemsCount + (σ.writers.map (·.count)).sum,
        (σ.writers.reverse.map (·.gc)).flatten, .live, true⟩ : Snap) ∈ (snap σ).1.snaps := by
      show _ ∈ σ.snaps ++ [_]
      simp
    exact count_reachable hr' _ hmem (by simp)
  · rw [if_neg hw] at hst; rw [hst] at h; cases h

/-! ## non-vacuity (tests: concrete schedules evaluated by the kernel)

  One writer (thread 0), one reader (thread 1).  Epoch 1: Put 4 and Delete 4 (same epoch: unlinked, flushed, a
  free job is queued), Put 5, 7, 9; snapshot 1.  Epoch 2: Delete 7 (death
  mark 2), Put 7 again (a second version of key 7, born 2); snapshot 2 (its garbage list names the old version of
  7).  Snapshot 3; the reader opens iterator 0 on snapshot 3.  Snapshots 1 and 2 are closed and collected: job
  `gc1` will unlink the old version of 7.

  The scan: `it_first` delivers 5; `Next` steps onto the old version of 7 (invisible to snapshot 3) and parks at
  ITER_NEXT standing on it; the collection job unlinks that very node; the writer deletes 9 (death mark 4: still
  visible to snapshot 3), inserts and physically deletes key 6 (born in epoch 4), re-inserts 9 (born 4); the
  reader goes on: re-seek from the unlinked node lands on the new version of 7, then the old version of 9, skips
  the new version of 9, `end`. -/

def preSched : List Act :=
  [.put 0 4 0, .step 0, .del 0 4, .step 0, .step 0,
   .put 0 5 0, .step 0, .put 0 7 0, .step 0, .put 0 9 0, .step 0, .snap,
   .del 0 7, .step 0, .put 0 7 1, .step 0, .snap, .snap, .itNew 1 0 3,
   .close 0 1, .step 0, .close 0 2, .step 0]

def scanSched : List Act :=
  [.itNext 1 0, .step 1,            -- onto the old version of 7: skipped, parked at ITER_NEXT on it
   .gc 0, .gc 0, .gc 0,             -- the job of snapshot 1 (nothing to unlink)
   .gc 1, .gc 1,                    -- the job of snapshot 2 unlinks the node under the cursor
   .del 0 9, .step 0,               -- cross-epoch delete of a key ahead of the cursor
   .put 0 6 0, .step 0, .del 0 6, .step 0, .step 0,   -- insert and physical delete ahead of the cursor
   .put 0 9 2, .step 0,             -- re-insert
   .step 1,                         -- re-seek from the unlinked node: the new version of 7
   .gc 1, .gc 1, .fr 0, .fr 0,      -- flush; a free job (the node of key 4) runs
   .itNext 1 0, .step 1,            -- the old version of 9 (deleted in epoch 4: visible to snapshot 3)
   .itNext 1 0, .step 1, .step 1]   -- the new version of 9 is skipped; end

/-- the hypotheses of `C01_conc_scan_complete` hold of this schedule, and its conclusion is this list -/
example :
    (step (run (init 1 1 true) preSched) (.itFirst 1 0)).2 ≠ .bad ∧
    Act.itFirst 1 0 ∉ scanSched ∧ Act.itClose 1 0 ∉ scanSched ∧
    scanEnded 1 0 (run (init 1 1 true) preSched) (.itFirst 1 0 :: scanSched) = true ∧
    snOf (run (init 1 1 true) preSched) 1 0 = 3 ∧
    deliveredVers 1 0 (run (init 1 1 true) preSched) (.itFirst 1 0 :: scanSched) =
      [⟨5, 0, 1, 0⟩, ⟨7, 1, 2, 0⟩, ⟨9, 0, 1, 0⟩] ∧
    viewOf (run (init 1 1 true) preSched) 3 = [⟨5, 0, 1, 0⟩, ⟨7, 1, 2, 0⟩, ⟨9, 0, 1, 0⟩] := by decide +kernel

/-- during the scan the store really changed under the reader (the old version of 7 unlinked by the collection
    job, 9 deleted and re-inserted) — and the view of snapshot 3 is the same -/
example :
    (vers (run (init 1 1 true) preSched).store).map (fun v => (v.key, v.born, v.dead)) =
      [(5, 1, 0), (7, 1, 2), (7, 2, 0), (9, 1, 0)] ∧
    (vers (run (init 1 1 true) (preSched ++ .itFirst 1 0 :: scanSched)).store).map (fun v => (v.key, v.born, v.dead)) =
      [(5, 1, 0), (7, 2, 0), (9, 1, 4), (9, 4, 0)] ∧
    viewOf (run (init 1 1 true) (preSched ++ .itFirst 1 0 :: scanSched)) 3 =
      viewOf (run (init 1 1 true) preSched) 3 := by decide +kernel

/-- snapshot 3 is open throughout (non-vacuity of `C01_conc_view_fixed`): its reference count is 2 (handle and
    iterator), and `Count()` is 3 -/
example : ((run (init 1 1 true) preSched).snaps.map (fun s => (s.sn, s.rc, s.count))) =
    [(1, 0, 3), (2, 0, 3), (3, 2, 3)] := by decide +kernel

/-- a scan cut short by `it_close` (allowed in `C01_conc_keys_increasing_any` / `C01_conc_scan_keys_increasing_full`):
    what was delivered before stays, nothing is delivered afterwards -/
example :
    delivered 1 0 (run (init 1 1 true) preSched)
      [.itFirst 1 0, .itNext 1 0, .step 1, .gc 1, .gc 1, .step 1, .itClose 1 0, .itNext 1 0, .step 1] =
      [(5, 1), (7, 2)] := by decide +kernel

end NitroVerif.Props.C01cc
