import NitroVerif.Lemmas.MvccConcShutdown
import NitroVerif.Lemmas.MvccConcGen
/-!
  # C04 — Safe memory reclamation: no use-after-free and no double free

  "With user-managed memory, no block handed out by the configured allocator is read or written after it
  has been returned to it, and no block is returned twice, under any interleaving of writers, iterators,
  snapshot closes, GC workers and free workers.  A node or item obtained from an open iterator remains
  valid until that iterator moves past it, refreshes or closes, and no node is released while it is still
  linked at any level of the structure."

  Model: `Model/MvccConc.lean` — nitro.go with its reclamation pipeline (writer garbage lists → snapshot
  gclists → collection jobs → access-barrier sessions → destructor → free jobs → allocator) at the
  granularity of the yield points of PROTOCOL.md "engine mvccconc"; every skiplist operation and every
  barrier operation is one atomic action (C13, C16/C17 justify that; this is the meaning of "proof on the
  protocol model": the machine-level safety of the pointer arithmetic inside the skiplist is not the
  subject).  Quantifier: every number of writers and readers, every schedule `sched` of API calls, thread
  steps, collection-job steps and free-job steps (a refused action leaves the state unchanged), both
  values of the iterator-comparator flag `fx`.

  The invariant behind the theorems (`Lemmas/MvccConcInv.lean`): every live block has exactly one
  owner (the store; a parked Put; a Delete2 between unlink and flush; a collection job before its flush;
  a session not yet destructed; a free job that has not freed yet) — a node leaves the store before it
  is attached to a session; a token holder's node is linked, or on its way to a session, or attached to
  a session at least as young as the holder's token; sessions are destructed in order, only when no
  holder is left in them or in any older one.
-/
namespace NitroVerif.Props.C04
open NitroVerif NitroVerif.MvccConc

/-- **C04_no_use_after_free.**  In every reachable state, no action of the machine — no thread step,
    job step or API call — dereferences a block that is not live: the distinguished outcome `uaf`
    (a cursor, a node found by `Delete2`, a node in a collection job's list, or a parked Put's item
    whose block is not allocated or has been freed) is unreachable. -/
theorem C04_no_use_after_free (fx : Bool) (nw nr : Nat) (sched : List Act) (a : Act) :
    (step (run (init nw nr fx) sched) a).2 ≠ .uaf := by
  have hr : ReachableFx fx nw nr (run (init nw nr fx) sched) := reachable_run .init sched
  by_cases hd : (run (init nw nr fx) sched).down = true
  · rw [step_down hd]; simp
  · exact step_ne_uaf (inv_reachable hr (by simpa using hd)) a

/-- the same, for every output of every schedule -/
theorem C04_no_uaf_in_outputs (fx : Bool) (nw nr : Nat) (sched : List Act) :
    Resp.uaf ∉ outs (init nw nr fx) sched := by
  have key : ∀ (σ : State), ReachableFx fx nw nr σ → ∀ sched, Resp.uaf ∉ outs σ sched := by
    intro σ hr sched
    induction sched generalizing σ with
    | nil => simp [outs]
    | cons a as ih =>
      intro hm
      rcases List.mem_cons.mp hm with hm | hm
      · have h0 : σ = run σ [] := rfl
        by_cases hd : σ.down = true
        · rw [step_down hd] at hm; cases hm
        · exact step_ne_uaf (inv_reachable hr (by simpa using hd)) a hm.symm
      · exact ih _ (ReachableFx.step a hr) hm
  exact key _ .init sched

/-- **C04 (references held).**  In every reachable state that has not been shut down:
    * every node a `Delete2` holds between its `Acquire` and its `Release` (parked at DEL_NODE_PHYS or
      DEL_NODE_CAS) has its item block and its node block live;
    * the node every open iterator stands on has its item block and its node block live — until the
      iterator moves past it or closes (the hypothesis `it.cur = some c` is about the current state);
    * the item of a parked Put is live. -/
theorem C04_references_valid {fx : Bool} {nw nr : Nat} {σ : State} (hr : ReachableFx fx nw nr σ)
    (hd : σ.down = false) :
    (∀ (t n tok k : Nat), (σ.threads[t]? = some (Pc.delPhys n tok k) ∨ σ.threads[t]? = some (Pc.delCas n tok k)) →
        isLive σ (.item n) = true ∧ isLive σ (.node n) = true) ∧
    (∀ (key : Nat × Nat) (it : Iter) (c : Cur), (key, it) ∈ σ.iters → it.cur = some c →
        isLive σ (.item c.id) = true ∧ isLive σ (.node c.id) = true) ∧
    (∀ (t n k v b : Nat), σ.threads[t]? = some (Pc.putInsert n k v b) → isLive σ (.item n) = true) := by
  have h := inv_reachable hr hd
  exact ⟨fun t n tok k ht => live_of_thread h ht, fun key it c hm hc => live_of_iter h hm hc,
    fun t n k v b ht => live_of_put h ht⟩

/-- **C04_no_double_free.**  In every reachable state (shut down or not) the allocator never saw a
    `free` of a block that was not live (`bad = []`: no double free, no free of a block never handed
    out), no block is in the free log twice, and everything freed had been allocated. -/
theorem C04_no_double_free {fx : Bool} {nw nr : Nat} {σ : State} (hr : ReachableFx fx nw nr σ) :
    σ.bad = [] ∧ σ.freed.Nodup ∧ ∀ b ∈ σ.freed, b ∈ σ.allocd :=
  ⟨(books_reachable hr).bad, (books_reachable hr).f_nodup, (books_reachable hr).sub⟩

/-- **C04_freed_not_linked.**  In every reachable state that has not been shut down, a node that is
    linked in the store has both its blocks live; equivalently, a block that has been freed belongs to a
    node that left the store before. -/
theorem C04_freed_not_linked {fx : Bool} {nw nr : Nat} {σ : State} (hr : ReachableFx fx nw nr σ)
    (hd : σ.down = false) :
    (∀ x ∈ σ.store, isLive σ (.item x.id) = true ∧ isLive σ (.node x.id) = true) ∧
    (∀ n, (Blk.item n ∈ σ.freed ∨ Blk.node n ∈ σ.freed) → n ∉ storeIds σ.store) := by
  have h := inv_reachable hr hd
  refine ⟨fun x hx => live_of_linked h hx, ?_⟩
  intro n hf hm
  obtain ⟨x, hx, rfl⟩ := List.mem_map.mp hm
  have hl := live_of_linked h hx
  rw [isLive_iff, isLive_iff] at hl
  rcases hf with hf | hf
  · exact hl.1.2 hf
  · exact hl.2.2 hf

/-- the order of the pipeline: a node is attached to a barrier session (or queued for a free job) only
    after it left the store, and it is in exactly one place — `own ≤ 1` -/
theorem C04_one_owner {fx : Bool} {nw nr : Nat} {σ : State} (hr : ReachableFx fx nw nr σ) (hd : σ.down = false)
    (n : Nat) : own σ n ≤ 1 :=
  (inv_reachable hr hd).own.le n

/-- `GC()` never spins (`hang` is unreachable): needs no invariant -/
theorem C04_gc_terminates (σ : State) (t : Nat) (after : Option Nat) : (collectLoop σ t after).2 ≠ .hang :=
  collectLoop_ne_hang σ t after

/-! ### non-vacuity (tests, evaluated by the kernel)

  Two writers and one reader.  Put 5, Put 7, snapshot 1; the reader opens an iterator on snapshot 1 and
  stands on 5; writer 0 deletes 5 (older epoch: DEL_NODE_CAS); writer 1 puts 9 and deletes it in the same
  epoch (DEL_NODE_PHYS, DEL_NODE_FLUSH: the session carrying node 9 cannot be destructed while the reader
  holds its token); snapshot 2; the reader moves to 7 and closes (the session is destructed: free job 0);
  both snapshots are closed and collected, the jobs run. -/

def demo : List Act :=
  [.put 0 5 0, .step 0, .put 1 7 0, .step 1, .snap, .itNew 2 0 1, .itFirst 2 0,
   .del 0 5, .step 0, .put 1 9 0, .step 1, .del 1 9, .step 1, .step 1, .snap,
   .itNext 2 0, .step 2, .itClose 2 0, .close 0 1, .step 0, .close 0 2, .step 0,
   .gc 0, .gc 0, .gc 0, .gc 1, .gc 1, .gc 1, .gc 1, .fr 0, .fr 0, .fr 1, .fr 1]

/-- while the reader is still open, the same-epoch-deleted node 2 (key 9) is attached to session 0 and
    not freed; nodes 0, 1 are linked -/
example :
    let σ := run (init 2 1) (demo.take 15)
    σ.down = false ∧ (σ.store.map (·.id)) = [0, 1] ∧ (σ.sess.map (·.list)) = [[2], []] ∧ σ.freeSeq = 0 ∧
      σ.frJobs.length = 0 ∧ isLive σ (.node 2) = true ∧ liveCount σ = 8 := by decide

/-- at the end everything unlinked has been freed exactly once: 2 linked nodes … -/
example :
    let σ := run (init 2 1) demo
    σ.down = false ∧ (σ.store.map (·.id)) = [1] ∧ σ.bad = [] ∧ liveCount σ = 4 ∧
      σ.freed = [.item 2, .node 2, .item 0, .node 0] := by decide

example : ∃ σ, Reachable 2 1 σ ∧ σ.down = false ∧ σ.freed.length = 4 :=
  ⟨run (init 2 1) demo, reachable_run .init demo, by decide⟩

end NitroVerif.Props.C04
