import NitroVerif.Lemmas.SkipSeqBuildRun
import NitroVerif.Lemmas.SkipSeqMergeRun
/-!
  C18 — "Assembling segments that were filled (possibly concurrently) with ascending items yields a
  skiplist whose content is exactly the concatenation of the segments in order, with correct
  statistics, and which supports all later operations like an incrementally built one.  A merge
  iterator over several skiplists yields exactly the sorted multiset union of their contents, and
  SeekFirst or Seek, called at any point of a scan, repositions it at the smallest item (respectively
  the smallest item >= the target) across all inputs."

  Model: `Segment.Add`, `Builder.Assemble` and the merge iterator of M3 (`Model/SkipSeq.lean`), as
  coded.  "Filled possibly concurrently": the filling history is an arbitrary interleaving of
  `NewSegment` / `Segment.Add` calls on the shared store (`BOp`), each call atomic — `Segment.Add`
  touches only its own segment and the store's level word.  `container/heap` is abstracted to
  extract-min on a list (trusted).
-/
namespace NitroVerif.Props.C18
open NitroVerif NitroVerif.SkipSeq NitroVerif.OrdSet

/-- The filling phase: after ANY script of `NewSegment` / `Segment.Add` calls (any level requests,
    any interleaving between segments) the executable state is the erasure of a consistent annotated
    state in which segment `i` holds exactly the keys added to it, in call order. -/
theorem C18_fill (ops : List BOp) :
    let g := grun (SL.init, []) ops
    (g.1, g.2.map (·.1)) = brun (SL.init, []) ops ∧ BuildOK g.1 g.2 ∧
    ∀ i, ((g.2.map (·.2)).getD i []).map (ikey g.1.nodes) = addedKeys i 0 ops := by
  intro g
  rcases grun_ok ops (SL.init, []) buildOK_init with ⟨hb, hk⟩
  refine ⟨by simpa using grun_erase ops (SL.init, []), hb, ?_⟩
  intro i
  have := hk i
  simpa [segKeys] using this

/-- C18, assembling: for every filling history and every selection of distinct segments in any order
    (empty segments anywhere, all heights):
    * the walk of every level `l` of the assembled list is the concatenation of the selected
      segments' nodes of height `≥ l`, in segment order;
    * the statistics are the sums over the segments (allocations, per-height distribution) with no
      soft deletes and no frees;
    * if the concatenated keys are strictly ascending the result is well-formed (`WF`, C14) and every
      later script of operations behaves exactly as the ordered set that starts from those keys. -/
theorem C18_assemble (ops : List BOp) (sel : List (Segment × List Nat))
    (hsel : ∃ sub, sub.Sublist (grun (SL.init, []) ops).2 ∧ sel.Perm sub) :
    let st := grun (SL.init, []) ops
    let s' := (assemble st.1 (sel.map (·.1))).1
    (∀ l, l ≤ Gen.maxLevel → walkLevel s' l = some (LL s'.nodes (allNodes sel) l)) ∧
    (s'.stats.nodeAllocs = st.1.stats.nodeAllocs + ((allNodes sel).length : Int) ∧
     (∀ g, g ≤ Gen.maxLevel →
        s'.stats.levelNodesCount.getD g 0 = (cntLevel s'.nodes (allNodes sel) g : Int)) ∧
     s'.stats.softDeletes = 0 ∧ s'.stats.nodeFrees = 0) ∧
    ((allNodes sel).Pairwise (fun a c => ikey s'.nodes a < ikey s'.nodes c) →
      WF s' ∧
      ∀ later : List Op,
        (run { sl := s', handles := [] } later).2
          = (specRun { set := (allNodes sel).map (ikey s'.nodes), handles := [] } later).2) := by
  intro st s'
  have hb0 := (grun_ok ops (SL.init, []) buildOK_init).1
  have hb : BuildOK st.1 sel := hb0.select hsel
  rcases assemble_heap hb with ⟨_, _, hmeta, _⟩
  rcases assemble_fields st.1 (sel.map (·.1)) with ⟨_, _, _, f4⟩
  have hms := mergeStats_spec st.1.nodes sel st.1.stats hb.stats hb.rep.stats.len
  have hlv : ∀ n, levelOf s'.nodes n = levelOf st.1.nodes n := fun n => (hmeta n).2.1
  have hik : ∀ n, ikey s'.nodes n = ikey st.1.nodes n := fun n => ikey_congr (hmeta n).1
  refine ⟨?_, ⟨?_, ?_, ?_, ?_⟩, ?_⟩
  · intro l hl
    rw [LL_congr l (fun n _ => hlv n)]
    exact assemble_walk hb hl
  · show (assemble st.1 (sel.map (·.1))).1.stats.nodeAllocs = _
    rw [f4]; exact hms.2.2.2.2
  · intro g hg
    show (assemble st.1 (sel.map (·.1))).1.stats.levelNodesCount.getD g 0 = _
    rw [f4, hms.2.1 g hg, hb.rep.stats.dist g hg, cntLevel_congr g (fun n _ => hlv n)]
    simp [cntLevel]
  · show (assemble st.1 (sel.map (·.1))).1.stats.softDeletes = 0
    rw [f4, hms.2.2.1]; exact hb.rep.stats.soft
  · show (assemble st.1 (sel.map (·.1))).1.stats.nodeFrees = 0
    rw [f4, hms.2.2.2.1]; exact hb.rep.stats.frees
  · intro hsorted
    have hrep : Rep s' (allNodes sel) := by
      apply assemble_rep hb
      apply List.Pairwise.imp _ hsorted
      intro a c hac; rw [← hik, ← hik]; exact hac
    refine ⟨hrep.wf, fun later => ?_⟩
    have hsim : Sim { sl := s', handles := [] } { set := (allNodes sel).map (ikey s'.nodes), handles := [] }
        (allNodes sel) := ⟨hrep, rfl, by simp [HRel]⟩
    exact (run_sim later _ _ _ hsim).1

/-! ### merge iterator -/

/-- C18, merging: take skiplists `sls` in any quiescent well-formed state (list `i` represents the node
    list `Ls[i]`), a fresh merge iterator over them, and ANY script of `SeekFirst` / `Seek` / `Next`
    calls.  From the state reached:
    * `SeekFirst` followed by a full scan yields exactly the sorted multiset union of all inputs, so
      in particular it repositions at the smallest item across all inputs;
    * `Seek x` reports whether some input holds `x`, and a scan from there yields exactly the sorted
      multiset union of the items `≥ x` of all inputs, so it repositions at the smallest item `≥ x`. -/
theorem C18_merge (sls : List SL) (Ls : List (List Nat)) (hl : Ls.length = sls.length)
    (hr : ∀ i, i < sls.length → Rep (sls.getD i SL.init) (Ls.getD i [])) (script : List MOp) (x : Int) :
    let m := mrun (MergeIt.new sls) script
    let all := keysOf sls Ls
    let geq := all.map fun l => l.filter fun k => decide (x ≤ k)
    (mergeScan (all.flatten.length + 1) (mergeSeekFirst m) = (mergeAll all).map Key.item ∧
     (mergeSeekFirst m).key = ((mergeAll all).head?).map Key.item) ∧
    (mergeScan (geq.flatten.length + 1) (mergeSeek m (.item x)).1 = (mergeAll geq).map Key.item ∧
     (mergeSeek m (.item x)).1.key = ((mergeAll geq).head?).map Key.item ∧
     ((mergeSeek m (.item x)).2 = true ↔ ∃ l ∈ all, x ∈ l)) := by
  intro m all geq
  have r : RInv (MergeIt.new sls) m Ls := RInv.run script _ (RInv.init hl hr)
  have hsl0 : (MergeIt.new sls).sls = sls := rfl
  have hkeys : ∀ (m1 : MergeIt), m1.sls.length = m.sls.length → (∀ i, (slAt m1 i).nodes = (slAt m i).nodes) →
      ∀ rem, keysOf m1.sls rem = keysOf sls rem := by
    intro m1 h1 h2 rem
    apply keysOf_congr (by rw [h1, r.len]; rfl)
    intro i
    have := (h2 i).trans (r.nodes i)
    simpa [slAt, MergeIt.new] using this
  refine ⟨?_, ?_⟩
  · rcases mergeSeekFirst_spec r.st with ⟨m1, he, inv, hlen, hn⟩
    have hk := hkeys m1 hlen hn Ls
    have hscan := mergeScan_eq inv (N := all.flatten.length) (by rw [hk]; exact Nat.le_refl _)
    rw [hk, ← he] at hscan
    refine ⟨hscan, ?_⟩
    have := mergeScan_head all.flatten.length (mergeSeekFirst m)
    rw [hscan] at this
    rw [← this, List.head?_map]
  · rcases mergeSeek_spec r.st x with ⟨m1, he, inv, hlen, hn, hf⟩
    have hk0 : keysOf sls (seekTarget m Ls x) = geq := by
      have h1 := keysOf_seekTarget m Ls x
      have h2 := hkeys m rfl (fun _ => rfl)
      rw [h2, h2] at h1
      exact h1
    have hk := hkeys m1 hlen hn (seekTarget m Ls x)
    rw [hk0] at hk
    have hscan := mergeScan_eq inv (N := geq.flatten.length) (by rw [hk]; exact Nat.le_refl _)
    rw [hk, ← he] at hscan
    refine ⟨hscan, ?_, ?_⟩
    · have := mergeScan_head geq.flatten.length (mergeSeek m (.item x)).1
      rw [hscan] at this
      rw [← this, List.head?_map]
    · rw [hf]
      have hall : all = keysOf m.sls Ls := (hkeys m rfl (fun _ => rfl) Ls).symm
      constructor
      · rintro ⟨j, hj, hx⟩
        refine ⟨(Ls.getD j []).map (ikey (slAt m j).nodes), ?_, hx⟩
        rw [hall]
        unfold keysOf
        have hj2 : j < Ls.length := by rw [r.st.lenL]; exact hj
        rw [List.mem_iff_getElem]
        refine ⟨j, by simp; omega, ?_⟩
        simp [slAt, List.getD_eq_getElem?_getD, List.getElem?_eq_getElem hj, List.getElem?_eq_getElem hj2]
      · rintro ⟨l, hl', hx⟩
        rw [hall] at hl'
        unfold keysOf at hl'
        rcases List.mem_iff_getElem.mp hl' with ⟨j, hj, he'⟩
        simp only [List.length_zipWith] at hj
        have hj1 : j < m.sls.length := by omega
        have hj2 : j < Ls.length := by omega
        refine ⟨j, hj1, ?_⟩
        simp only [List.getElem_zipWith] at he'
        rw [← he'] at hx
        simpa [slAt, List.getD_eq_getElem?_getD, List.getElem?_eq_getElem hj1, List.getElem?_eq_getElem hj2]
          using hx

/-- the sorted multiset union is ascending and a permutation of the concatenated inputs -/
theorem mergeAll_is_sorted_union (ls : List (List Int)) (h : ∀ l ∈ ls, AscLe l) :
    AscLe (mergeAll ls) ∧ (mergeAll ls).Perm ls.flatten :=
  ⟨mergeAll_sorted ls h, mergeAll_perm ls⟩

/-! ### non-vacuity -/

/-- every list produced by a script of operations is a legitimate input of `C18_merge` -/
theorem merge_input_of_run (ops : List Op) : ∃ L, Rep (run St.init ops).1.sl L := by
  rcases (run_sim ops St.init SpecSt.init [] sim_init).2.1 with ⟨L, hs⟩
  exact ⟨L, hs.rep⟩

/-- the hypotheses of `C18_merge` are satisfiable by three lists (one empty, one key shared) -/
example :
    let sls := [(run St.init [.ins 1 0, .ins 5 1, .ins 9 2]).1.sl, (run St.init []).1.sl,
                (run St.init [.ins 2 0, .ins 5 1, .ins 7 2, .ins 11 0]).1.sl]
    ∃ Ls : List (List Nat), Ls.length = sls.length ∧
      ∀ i, i < sls.length → Rep (sls.getD i SL.init) (Ls.getD i []) := by
  intro sls
  rcases merge_input_of_run [.ins 1 0, .ins 5 1, .ins 9 2] with ⟨L1, h1⟩
  rcases merge_input_of_run [] with ⟨L2, h2⟩
  rcases merge_input_of_run [.ins 2 0, .ins 5 1, .ins 7 2, .ins 11 0] with ⟨L3, h3⟩
  refine ⟨[L1, L2, L3], rfl, ?_⟩
  intro i hi
  have : i = 0 ∨ i = 1 ∨ i = 2 := by simp [sls] at hi; omega
  rcases this with rfl | rfl | rfl
  · exact h1
  · exact h2
  · exact h3

/-- …and on them: a scan, a re-seek in mid-scan, `SeekFirst` again (a test by evaluation) -/
example :
    let sls := [(run St.init [.ins 1 0, .ins 5 1, .ins 9 2]).1.sl, (run St.init []).1.sl,
                (run St.init [.ins 2 0, .ins 5 1, .ins 7 2, .ins 11 0]).1.sl]
    let m := mrun (MergeIt.new sls) [.first, .next, .next, .seek 6, .next]
    (m.key, mergeScan 10 (mergeSeekFirst m), mergeScan 10 (mergeSeek m (.item 5)).1, (mergeSeek m (.item 6)).2)
      = (some (.item 9),
         [.item 1, .item 2, .item 5, .item 5, .item 7, .item 9, .item 11],
         [.item 5, .item 5, .item 7, .item 9, .item 11], false) := by decide

set_option maxRecDepth 20000 in
/-- the assembled list of the C14 example, used afterwards like an incrementally built one -/
example :
    let st := brun (SL.init, []) [.new, .new, .new, .add 0 1 0, .add 0 2 3, .add 2 5 1, .add 2 6 0, .add 2 7 2]
    let s := (assemble st.1 st.2).1
    (run { sl := s, handles := [] } [.ins 4 1, .del 2, .look 5, .iter]).2
      = [.bool true, .bool true, .bool true, .keys [.item 1, .item 4, .item 5, .item 6, .item 7]] := by decide

end NitroVerif.Props.C18
