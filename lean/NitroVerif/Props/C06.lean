/-
  C06 Garbage collection is precise and complete — the sequential part.
  "A deleted version stays physically present while any open snapshot can still see it; collection is
   in snapshot order (snapshot n is collected only after n-1): after a collection pass at quiescence
   the physical store is exactly the alive versions plus those with dead > lastGCSn, and lastGCSn+1
   is the oldest not-yet-retired snapshot number (or currSn if none); with no open snapshot the store
   is exactly the alive versions."

  Model M6, sequential engine: `Close` retiring a snapshot runs `GC()`/`collectDead` at once and the
  unlinking done by the collection workers is performed immediately, so every reachable state is a
  state "after a collection pass at quiescence".  The GC queue, the workers and racing closes (the
  small-step part of C06: `C06_no_stranding`, the try-lock in `GC()`) are NOT in this model.
  "Exactly" has two halves: nothing with `0 < dead ≤ lastGCSn` is left (`left`), and nothing else was
  unlinked — every version named by a garbage list that has not been collected is still present
  (`kept_*`; together with `C02_refines_set`, which pins the alive versions to the reference set).
-/
import NitroVerif.Lemmas.MvccScanTrace

namespace NitroVerif.Props
open NitroVerif NitroVerif.Mvcc
open NitroVerif.SetSpec (Op Out Item)

/-- **C06 (safety)** in every reachable state every item of the content of a snapshot with a positive
    reference count is physically present, as a version visible at the snapshot's number -/
theorem C06_safety_seq {n : Nat} {σ : Mvcc.State} (hr : Reachable n σ) {s : Snap} (hs : s ∈ σ.snaps)
    (hrc : 0 < s.rc) :
    ∀ c ∈ s.content, ∃ v ∈ σ.store, visible s.sn v = true ∧ v.norm = c := by
  intro c hc
  have h := inv_reachable hr
  rw [← h.view s hs hrc] at hc
  obtain ⟨v, hv, rfl⟩ := List.mem_map.mp hc
  have := List.mem_filter.mp hv
  exact ⟨v, this.1, this.2, rfl⟩

/-- …and it stays present across any operation as long as the snapshot stays open: a version
    visible to an open snapshot is unlinked neither by a delete (same-epoch or not) nor by a
    collection pass -/
theorem C06_stays_present {n : Nat} {σ : Mvcc.State} (hr : Reachable n σ) (op : Op) {s : Snap}
    (hs : s ∈ σ.snaps) (hrc : 0 < s.rc) {v : Ver} (hv : v ∈ σ.store) (hvis : visible s.sn v = true)
    {s' : Snap} (hs' : s' ∈ (Mvcc.step σ op).1.snaps) (hsn : s'.sn = s.sn) (hrc' : 0 < s'.rc) :
    ∃ v' ∈ (Mvcc.step σ op).1.store, visible s.sn v' = true ∧ v'.item = v.item := by
  have h := inv_reachable hr
  have hr' : Reachable n (Mvcc.step σ op).1 := Reachable.step op hr
  have h' := inv_reachable hr'
  -- the content of the snapshot is the same before and after
  obtain ⟨s'', hs'', hsn'', hcont⟩ := model_content_fixed h op hs
  have : s'' = s' := snap_unique h'.snaps.inc hs'' hs' (by omega)
  subst this
  have hin : v.item ∈ s.content.map Ver.item := by
    rw [← h.view s hs hrc]
    exact List.mem_map.mpr ⟨v.norm, List.mem_map.mpr ⟨v, List.mem_filter.mpr ⟨hv, hvis⟩, rfl⟩, rfl⟩
  rw [← hcont, ← h'.view s'' hs' hrc'] at hin
  obtain ⟨c, hc, hci⟩ := List.mem_map.mp hin
  obtain ⟨w, hw, rfl⟩ := List.mem_map.mp hc
  have := List.mem_filter.mp hw
  exact ⟨w, this.1, by rw [← hsn]; exact this.2, hci⟩

/-- the in-order characterisation -/
structure ExactGC (σ : Mvcc.State) : Prop where
  /-- nothing collectable is left: a dead version still in the store died after `lastGCSn` -/
  left : ∀ v ∈ σ.store, v.dead = 0 ∨ σ.lastGCSn < v.dead
  /-- nothing else was unlinked: the versions deleted in the current epoch … -/
  kept_writers : ∀ w ∈ σ.writers, ∀ g ∈ w.gc,
      ∃ v ∈ σ.store, v.key = g.key ∧ v.born = g.born ∧ v.dead = σ.currSn
  /-- … and those in the garbage list of a snapshot that has not been collected are all present -/
  kept_snaps : ∀ s ∈ σ.snaps, s.st ≠ .collected → ∀ g ∈ s.gclist,
      ∃ v ∈ σ.store, v.key = g.key ∧ v.born = g.born ∧ v.dead = s.sn
  /-- collection is in snapshot order: exactly the snapshots up to `lastGCSn` are collected -/
  frontier : σ.lastGCSn < σ.currSn ∧ ∀ s ∈ σ.snaps, (s.st = .collected ↔ s.sn ≤ σ.lastGCSn)
  /-- `lastGCSn + 1` is the oldest snapshot that is not retired: it exists and is open unless it is
      `currSn`, and every open snapshot is at or above it -/
  oldest : (σ.lastGCSn + 1 < σ.currSn →
              ∃ s ∈ σ.snaps, s.sn = σ.lastGCSn + 1 ∧ s.st = .live ∧ 0 < s.rc) ∧
           (∀ s ∈ σ.snaps, s.st = .live → σ.lastGCSn + 1 ≤ s.sn)
  /-- no open snapshot: everything is collected up to `currSn - 1`, and the store holds the alive
      versions plus those deleted since the last snapshot (in the writers' garbage lists) -/
  none_open : (∀ s ∈ σ.snaps, s.st ≠ .live) →
      σ.lastGCSn + 1 = σ.currSn ∧ (∀ v ∈ σ.store, v.dead = 0 ∨ v.dead = σ.currSn) ∧
      ((∀ w ∈ σ.writers, w.gc = []) → ∀ v ∈ σ.store, v.dead = 0)

/-- **C06 (exact at quiescence, sequential)** -/
theorem C06_exact_at_quiescence_seq {n : Nat} {σ : Mvcc.State} (hr : Reachable n σ) : ExactGC σ := by
  have h := inv_reachable hr
  have hg := h.garb
  have hs := h.snaps
  have hleft : ∀ v ∈ σ.store, v.dead = 0 ∨ σ.lastGCSn < v.dead := by
    intro v hv
    by_cases hd : v.dead = 0
    · exact Or.inl hd
    · exact Or.inr (hg.exact v hv hd)
  have hold1 : σ.lastGCSn + 1 < σ.currSn →
      ∃ s ∈ σ.snaps, s.sn = σ.lastGCSn + 1 ∧ s.st = .live ∧ 0 < s.rc := by
    intro hlt
    obtain ⟨s, hsm, hsn⟩ := hs.all (σ.lastGCSn + 1) (by omega) hlt
    have hl := hs.front s hsm hsn
    exact ⟨s, hsm, hsn, hl, (hs.rc s hsm).2.mp hl⟩
  refine ⟨hleft, ?_, ?_, ⟨hs.gclt, hs.coll⟩, ⟨hold1, ?_⟩, ?_⟩
  · intro w hw g hgm
    obtain ⟨v, hv, hsid⟩ := hg.wpres g ⟨w, hw, hgm⟩
    have := (sameId_iff v g).mp hsid
    exact ⟨v, hv, this.1, this.2, (hg.wsound g ⟨w, hw, hgm⟩).2 v hv hsid⟩
  · intro s hsm hst g hgm
    obtain ⟨v, hv, hsid⟩ := hg.spres s hsm hst g hgm
    have := (sameId_iff v g).mp hsid
    exact ⟨v, hv, this.1, this.2, (hg.ssound s hsm hst g hgm).2 v hv hsid⟩
  · intro s hsm hl
    have : ¬ s.sn ≤ σ.lastGCSn := by
      intro hle
      have := (hs.coll s hsm).mpr hle
      rw [hl] at this; cases this
    omega
  · intro hnone
    have heq : σ.lastGCSn + 1 = σ.currSn := by
      by_cases hlt : σ.lastGCSn + 1 < σ.currSn
      · obtain ⟨s, hsm, _, hl, _⟩ := hold1 hlt
        exact absurd hl (hnone s hsm)
      · have := hs.gclt; omega
    have hdead : ∀ v ∈ σ.store, v.dead = 0 ∨ v.dead = σ.currSn := by
      intro v hv
      rcases hleft v hv with h0 | h1
      · exact Or.inl h0
      · have := h.chains.1 v hv
        exact Or.inr (by omega)
    refine ⟨heq, hdead, ?_⟩
    intro hempty v hv
    rcases hdead v hv with h0 | h1
    · exact h0
    · obtain ⟨g, ⟨w, hw, hgm⟩, _⟩ := hg.wgc v hv h1
      rw [hempty w hw] at hgm; simp at hgm

/-! ### non-vacuity (test evaluated by the kernel): out-of-order closes.  Snapshot 2 is closed first:
    nothing can be collected (snapshot 1 pins the version `1` deleted in epoch 2, which it can see,
    and by design also the version `2` deleted in epoch 3); closing snapshot 1 collects 1 and 2;
    closing 3 collects the rest.  `gcwait` of the driver prints `store.length` and `lastGCSn`. -/
example :
    let σ := (Mvcc.run' (Mvcc.init 1)
      [.put 0 1 0, .put 0 2 0, .snap, .del 0 1, .snap, .del 0 2, .snap, .close 2])
    (σ.store.length, σ.lastGCSn) = (2, 0) := by decide

example :
    let σ := (Mvcc.run' (Mvcc.init 1)
      [.put 0 1 0, .put 0 2 0, .snap, .del 0 1, .snap, .del 0 2, .snap, .close 2, .close 1])
    (σ.store.length, σ.lastGCSn) = (1, 2) := by decide

example :
    let σ := (Mvcc.run' (Mvcc.init 1)
      [.put 0 1 0, .put 0 2 0, .snap, .del 0 1, .snap, .del 0 2, .snap, .close 2, .close 1, .close 3])
    (σ.store.length, σ.lastGCSn) = (0, 3) := by decide

end NitroVerif.Props
