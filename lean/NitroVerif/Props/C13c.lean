import NitroVerif.Lemmas.SkipConcSearch
/-!
  C13 (concurrent part), on the executable model M5 (`Model/SkipConc.lean`, validated against the Go code
  yield point by yield point through engine `skipconc`).

  Property, verbatim: "On the skiplist package used directly, concurrent Insert, Delete, DeleteNode and Lookup by
  any number of goroutines are linearizable with respect to an ordered set under the supplied comparator: Insert
  succeeds iff no equal item is present, Delete iff one is, and a given node is deleted successfully by exactly
  one caller. After quiescence an iterator yields exactly the resulting set in order."

  FULL STATEMENT (not reached): for every number of threads `n` and every run `as` from `Sys.init n` there is a
  total order of the completed calls, consistent with real time, whose replay on the ordered-set specification
  gives every call its observed result, and a quiescent iterator scan yields exactly the abstract set in order.

  WHAT IS PROVED HERE, for all numbers of threads, all runs (all interleavings of segments, all level requests):
  * `C13_invariant`            the heap invariant `HInv` (closure, H5 forward at level 0, H4 top-down marking, …),
                               the thread-local invariant `TInv` (all local ids published, `key prev < item`,
                               `key preds[0] < item < key succs[0]` at INS_PUBLISH, …) and the level-0 chain
                               invariant `ReachInv` (H1 + H2) hold in every reachable state;
  * `C13_marked_word_never_changes`  H3 and permanence of marks along every run;
  * `C13_updates_linearize`    the abstract set (nodes unmarked at level 0) changes ONLY at a successful
                               INS_PUBLISH — which adds a fresh node whose key was ABSENT from the set at that
                               instant — and at a successful level-0 SOFT_MARK — which removes a PRESENT node;
                               call entries (`start`) never touch the heap;
  * `C13_live_keys_distinct`   the abstract set never holds two nodes with the same key;
  * `C13_one_deleter`          a node is won (level-0 mark CAS) by at most one step of one thread in a run, and
                               that step is a SOFT_MARK of level 0 on that node (`C13_winner_at_soft_mark`);
                               `C13_delete_flag`: softDelete's `marked` result turns true exactly in that step;
  * `C13_reads_hit_partial`    a Lookup that answers true / an Insert that answers false saw, in the very state
                               of its last segment, a node of the abstract set carrying the item (linearization
                               point of a hit = that read).
  * `C13_reads_miss`           the MISS direction (the "hindsight" case of DESIGN A.3), proved without history
                               variables through the search invariant `SInv` (`C13_invariant_search`): when a
                               findPath ends in a miss (Lookup false / Insert going on to publish / Delete false
                               after its search), every node carrying the item that was published before this
                               findPath started is marked by now — so the item was absent at some instant inside
                               the call.
  NOT PROVED: the assembly of these per-call linearization points (publish CAS, level-0 mark CAS, the hit read,
  an instant of absence inside a missing search) into ONE total order consistent with real time for a whole
  history (the standard last step, not mechanised), the Delete that loses the mark race (it found the node
  unmarked and another caller won it: linearizes right after the winner's mark; only `C13_one_deleter` and
  `C13_delete_flag` are proved about it), and the quiescent iterator statement (no marked node left on the level-0
  path at quiescence).  Hence C13 stays `partial`, but the hindsight gap named in the design is closed.
-/
namespace NitroVerif.SkipConc
open NitroVerif

/-- every reachable state of every run of any number of threads satisfies the full invariant -/
theorem C13_invariant (n : Nat) (as : List Action) : InvR ((Sys.init n).run as) :=
  run_invR (InvR_init n) as

/-- H5 (forward) in every reachable state: the level-0 successor has a strictly larger key -/
theorem C13_H5_forward (n : Nat) (as : List Action) {a b : Nat} {m : Bool}
    (hw : word? ((Sys.init n).run as).sh.heap a 0 = some (b, m)) :
    Key.lt (keyOf ((Sys.init n).run as).sh.heap a) (keyOf ((Sys.init n).run as).sh.heap b) :=
  (C13_invariant n as).1.1.h5 _ _ _ hw

/-- H4 in every reachable state: marked at a level ⇒ marked at every higher level of the node -/
theorem C13_H4_top_down (n : Nat) (as : List Action) {a l l' p p' : Nat} {m : Bool}
    (hw : word? ((Sys.init n).run as).sh.heap a l = some (p, true)) (hl : l ≤ l')
    (hw' : word? ((Sys.init n).run as).sh.heap a l' = some (p', m)) : m = true :=
  (C13_invariant n as).1.1.h4 _ _ _ _ _ _ hw hl hw'

/-- every id held in a thread's locals is a published node (buffers and iterators; the program-counter
    locals are covered by `TInv`'s `PCInv`) -/
theorem C13_locals_published (n : Nat) (as : List Action) (th : Thread)
    (hth : th ∈ ((Sys.init n).run as).threads) (i : Nat) :
    th.pred i < ((Sys.init n).run as).sh.heap.length ∧ th.succ i < ((Sys.init n).run as).sh.heap.length :=
  have hT := (C13_invariant n as).1.2 th hth
  ⟨hT.1.2.2.1 i, hT.1.2.2.2.1 i⟩

/-- H3 + permanence: a marked word never changes, along any run from any state satisfying the invariant -/
theorem C13_marked_word_never_changes {s : Sys} (hI : Inv s) (as : List Action) {n l p : Nat}
    (hw : word? s.sh.heap n l = some (p, true)) : word? (s.run as).sh.heap n l = some (p, true) :=
  (run_inv hI as).2.marked _ _ _ hw

/-- keys of published nodes are immutable and nodes are never removed -/
theorem C13_keys_immutable {s : Sys} (hI : Inv s) (as : List Action) {n : Nat} (hn : n < s.sh.heap.length) :
    n < (s.run as).sh.heap.length ∧ keyOf (s.run as).sh.heap n = keyOf s.sh.heap n :=
  ⟨Nat.lt_of_lt_of_le hn (run_inv hI as).2.len, (run_inv hI as).2.key n hn⟩

/-- the abstract set never holds two nodes with the same key -/
theorem C13_live_keys_distinct {s : Sys} (hI : InvR s) {a b : Nat} (ha : unmarked0 s.sh.heap a)
    (hb : unmarked0 s.sh.heap b) (hk : keyOf s.sh.heap a = keyOf s.sh.heap b) : a = b :=
  live_key_inj hI.1.1 hI.2 ha hb hk

/-- a call entry (`start`) never writes the heap -/
theorem C13_start_no_effect {s : Sys} (hI : Inv s) (t : Nat) (op : Op) :
    (s.start t op).1.sh.heap = s.sh.heap := (start_inv hI t op).2

/-- The abstract set changes only at a successful INS_PUBLISH (adds a fresh node whose key was absent) and at a
    successful level-0 SOFT_MARK (removes a present node). -/
theorem C13_updates_linearize {s : Sys} (hI : InvR s) (t : Nat) :
    -- (1) nothing happens to the abstract set
    ((s.step t).1.sh.heap.length = s.sh.heap.length ∧
      ∀ n, unmarked0 (s.step t).1.sh.heap n ↔ unmarked0 s.sh.heap n) ∨
    -- (2) thread t was parked at INS_PUBLISH with item k: node x is new, carries k, joins the set; k was absent
    (∃ th k lvl, s.threads[t]? = some th ∧ th.pc = .insPublish k lvl ∧
      (s.step t).1.sh.heap.length = s.sh.heap.length + 1 ∧
      keyOf (s.step t).1.sh.heap s.sh.heap.length = .fin k ∧
      unmarked0 (s.step t).1.sh.heap s.sh.heap.length ∧
      (∀ n, n ≠ s.sh.heap.length → (unmarked0 (s.step t).1.sh.heap n ↔ unmarked0 s.sh.heap n)) ∧
      (∀ n, unmarked0 s.sh.heap n → keyOf s.sh.heap n ≠ .fin k)) ∨
    -- (3) thread t was parked at SOFT_MARK of level 0 on node n: n was in the set and leaves it
    (∃ th item n next marked, s.threads[t]? = some th ∧ th.pc = .softMark item n 0 next marked ∧
      (s.step t).1.sh.heap.length = s.sh.heap.length ∧
      unmarked0 s.sh.heap n ∧ marked0 (s.step t).1.sh.heap n ∧
      (∀ m, m ≠ n → (unmarked0 (s.step t).1.sh.heap m ↔ unmarked0 s.sh.heap m))) := by
  obtain ⟨ev, hs, hev⟩ := step_hstep hI.1 t
  cases ev with
  | none => exact .inl (hs.frame (.inl rfl))
  | upper => exact .inl (hs.frame (.inr (.inl rfl)))
  | unlink c => exact .inl (hs.frame (.inr (.inr ⟨c, rfl⟩)))
  | mark n =>
    rcases hev with hev | ⟨th, hth, item, next, marked, hpc⟩
    · simp at hev
    · obtain ⟨h1, h2, h3, h4⟩ := hs.mark_spec
      exact .inr (.inr ⟨th, item, n, next, marked, hth, hpc, h1, h2, h3, h4⟩)
  | publish x k =>
    rcases hev with hev | ⟨th, hth, lvl, hpc⟩
    · simp at hev
    · obtain ⟨rfl, h2, h3, h4, h5, h6⟩ := hs.publish_spec hI.1.1 hI.2
      exact .inr (.inl ⟨th, k, lvl, hth, hpc, h2, h3, h4, h5, h6⟩)

/-- action `a` wins the level-0 mark of node `n` in state `s` -/
def winsMark (s : Sys) (a : Action) (n : Nat) : Prop :=
  unmarked0 s.sh.heap n ∧ marked0 (s.act a).sh.heap n

/-- a given node is won by at most one action of any run: after a winning action no later action wins it -/
theorem C13_one_deleter {s : Sys} (hI : Inv s) (a : Action) (n : Nat) (hw : winsMark s a n)
    (bs : List Action) (b : Action) : ¬ winsMark ((s.act a).run bs) b n := by
  intro hw2
  obtain ⟨p, hp⟩ := hw.2
  have := (run_inv (act_inv hI a).1 bs).2.marked _ _ _ hp
  exact not_unmarked0_of_marked0 ⟨p, this⟩ hw2.1

/-- the winning action is a segment of a thread parked at SOFT_MARK of level 0 on that node -/
theorem C13_winner_at_soft_mark {s : Sys} (hI : InvR s) (a : Action) (n : Nat) (hw : winsMark s a n) :
    ∃ t th item next marked, a = .step t ∧ s.threads[t]? = some th ∧ th.pc = .softMark item n 0 next marked := by
  cases a with
  | start t op =>
    have := hw.2
    simp only [Sys.act] at this
    rw [C13_start_no_effect hI.1] at this
    exact absurd hw.1 (not_unmarked0_of_marked0 this)
  | step t =>
    have hm := hw.2
    simp only [Sys.act] at hm
    have hn : n < s.sh.heap.length := by obtain ⟨p, hp⟩ := hw.1; exact word?_lt hp
    rcases C13_updates_linearize hI t with ⟨_, h⟩ | ⟨th, k, lvl, _, _, _, _, _, h, _⟩ |
        ⟨th, item, n', next, marked, hth, hpc, _, _, _, h⟩
    · exact absurd ((h n).mpr hw.1) (not_unmarked0_of_marked0 hm)
    · exact absurd ((h n (by omega)).mpr hw.1) (not_unmarked0_of_marked0 hm)
    · by_cases hnn : n = n'
      · subst hnn; exact ⟨t, th, item, next, marked, rfl, hth, hpc⟩
      · exact absurd ((h n hnn).mpr hw.1) (not_unmarked0_of_marked0 hm)

/-- softDelete's result flag: in a SOFT_MARK segment the flag `marked` of the caller turns true exactly when the
    segment's CAS swapped at level 0 (`Gen.softDeleteWins`), i.e. when this caller won the node; a Delete answers
    `false` from this segment only with the flag still false -/
theorem C13_delete_flag (sh : Shared) (th : Thread) (item n i next : Nat) (marked : Bool) :
    let won := decide (word? sh.heap n i = some (next, false)) && decide (i = 0)
    (∀ item' n' j next' m', (stepSoftMark sh th item n i next marked).2.1.pc = .softMark item' n' j next' m' →
        m' = (marked || won)) ∧
    ((stepSoftMark sh th item n i next marked).2.2 = "ret false" → (marked || won) = false) ∧
    ((stepSoftMark sh th item n i next marked).2.2 = "at DEL_SEARCH" → (marked || won) = true) := by
  intro won
  have hwon : Gen.softDeleteWins (dcas sh.heap n i next next true).2 i = won := by
    simp only [won, Gen.softDeleteWins]
    congr 1
    by_cases hw : word? sh.heap n i = some (next, false)
    · simp [hw, (dcas_ok_iff ..).mpr hw]
    · have : (dcas sh.heap n i next next true).2 = false := by
        cases hd : (dcas sh.heap n i next next true).2
        · rfl
        · exact absurd ((dcas_ok_iff ..).mp hd) hw
      simp [hw, this]
  unfold stepSoftMark
  simp only [hwon]
  unfold enterSoft
  refine ⟨?_, ?_, ?_⟩
  · intro item' n' j next' m' h
    split at h
    · simp at h; exact h.2.2.2.2.symm
    · split at h <;> simp at h
  · intro h
    split at h
    · simp at h
    · split at h
      · simp at h
      · rename_i hm; simpa using hm
  · intro h
    split at h
    · simp at h
    · split at h
      · rename_i hm; exact hm
      · simp [retBool] at h

/-- C13_reads, hit direction: a Lookup that returns true, and an Insert that returns false, return in a segment
    (the last read of findPath at level 0) in whose state a node of the abstract set carries the item.
    FULL `C13_reads` would add the miss direction (Lookup false / Delete false / Insert going on to publish:
    the item was absent at some instant during the call) — the hindsight gap, not proved. -/
theorem C13_reads_hit_partial {sh : Shared} {th : Thread} (H : HInv sh.heap) (fp : FP) (rr : Bool)
    (hret : (fp.cont = .lookup ∧ (stepFindNext sh th fp rr).2.2 = "ret true") ∨
            ((∃ lvl, fp.cont = .insFirst lvl ∨ fp.cont = .insRetry lvl) ∧
              (stepFindNext sh th fp rr).2.2 = "ret false")) :
    ∃ n, unmarked0 sh.heap n ∧ keyOf sh.heap n = .fin fp.item := by
  unfold stepFindNext at hret
  generalize hfp1 : (if rr = true then { fp with curr := (getNext sh.heap fp.prev fp.i).1 } else fp) = fp1 at hret
  have hitem : fp1.item = fp.item := by rw [← hfp1]; split <;> rfl
  have hcont : fp1.cont = fp.cont := by rw [← hfp1]; split <;> rfl
  simp only [] at hret
  rw [← hcont] at hret
  obtain ⟨h1, h2, h3⟩ := afterRead_hit fp1 _ _ hret
  rw [h2] at h1
  rw [← hitem]
  exact ⟨_, found_present H h1 h3⟩

/-- every reachable state also satisfies the search invariant of every thread (`SInv`, see
    `Lemmas/SkipConcSearch.lean`): every node published before a running findPath call started, still unmarked
    and with a key ≥ the searched item, is reachable at level 0 from the call's `prev` (on level 0: from `curr`) -/
theorem C13_invariant_search (n : Nat) (as : List Action) : InvS ((Sys.init n).run as) :=
  run_invS (InvS_initWith true n) as

/-- C13_reads, MISS direction (the "hindsight" case of DESIGN A.3, proved WITHOUT history variables):
    when a findPath(item) ends in a miss that the caller reports or acts on — Lookup answers false, Insert goes on
    to INS_PUBLISH, Delete answers false after its search — then every node carrying that item that was published
    before this findPath call started (`n < fp.startLen`, ghost) is MARKED in the current state.
    Because marks are permanent and the abstract set changes one node at a time with distinct keys
    (`C13_updates_linearize`, `C13_live_keys_distinct`), this means: either no node with that item was in the
    abstract set when the call started, or the one that was has been deleted since, and right after its level-0
    mark the item was absent — in both cases there is an instant inside the call at which the reported answer was
    true of the abstract set.  The hypotheses `HInv`, `TInv`, `SInv` hold in every reachable state
    (`C13_invariant`, `C13_invariant_search`). -/
theorem C13_reads_miss {sh : Shared} {th : Thread} (H : HInv sh.heap) (hT : TInv sh.heap th)
    (hS : SInv sh.heap th) (fp : FP) (rr : Bool) (hpc : th.pc = .findNext fp rr)
    (hres : MissOutcome fp.cont (stepThread sh th).2.2) :
    ∀ n, n < fp.startLen → keyOf sh.heap n = .fin fp.item → ¬ unmarked0 sh.heap n := by
  have hst : stepThread sh th = stepFindNext sh th fp rr := by unfold stepThread; rw [hpc]
  rw [hst] at hres
  exact search_miss H fp rr hpc hT hS hres

/-- the same at system level: in any reachable state, if the segment `step t` of a thread parked at FIND_NEXT
    prints a miss outcome, every node with the item published before that findPath began is marked -/
theorem C13_reads_miss_run (k : Nat) (as : List Action) (t : Nat) (th : Thread) (fp : FP) (rr : Bool)
    (hth : ((Sys.init k).run as).threads[t]? = some th) (hpc : th.pc = .findNext fp rr)
    (hres : MissOutcome fp.cont (((Sys.init k).run as).step t).2) :
    ∀ n, n < fp.startLen → keyOf ((Sys.init k).run as).sh.heap n = .fin fp.item →
      ¬ unmarked0 ((Sys.init k).run as).sh.heap n := by
  have hI := C13_invariant_search k as
  have hm := List.mem_of_getElem? hth
  have hout : (((Sys.init k).run as).step t).2 = (stepThread ((Sys.init k).run as).sh th).2.2 := by
    unfold Sys.step; rw [hth]; simp only [hpc]
  rw [hout] at hres
  exact C13_reads_miss hI.1.1.1 (hI.1.1.2 th hm) (hI.2 th hm) fp rr hpc hres

/-! ### non-vacuity: a concrete run (kernel-checked TEST, not a proof by enumeration) -/

/-- thread 0 inserts 5 (level request 0) to completion; thread 1 starts Delete(5) and is parked at SOFT_MARK -/
def demoActs : List Action :=
  [.start 0 (.ins 5 0), .step 0, .step 0, .step 0, .start 1 (.del 5), .step 1, .step 1]

def demo : Sys := (Sys.init 2).run demoActs

example : InvR demo := C13_invariant 2 demoActs
-- the node 2 (key 5) is in the abstract set, and thread 1's next segment wins it
example : unmarked0 demo.sh.heap 2 := ⟨1, by decide⟩
example : keyOf demo.sh.heap 2 = .fin 5 := by decide
example : winsMark demo (.step 1) 2 := ⟨⟨1, by decide⟩, ⟨1, by decide⟩⟩
-- case (3) of `C13_updates_linearize` is inhabited by that step, case (2) by the publish two steps earlier
example : ∃ th, demo.threads[1]? = some th ∧ th.pc = .softMark 5 2 0 1 false := ⟨_, rfl, rfl⟩
example : ∃ th, ((Sys.init 2).run (demoActs.take 3)).threads[0]? = some th ∧ th.pc = .insPublish 5 0 :=
  ⟨_, rfl, rfl⟩
-- a marked word to which `C13_marked_word_never_changes` applies
example : word? (demo.act (.step 1)).sh.heap 2 0 = some (1, true) := by decide

/-- Lookup(7) on the list {5}, parked before its last read (curr = tail): the next segment answers false -/
def missDemo : Sys :=
  (Sys.init 1).run [.start 0 (.ins 5 0), .step 0, .step 0, .step 0, .start 0 (.look 7), .step 0, .step 0]

-- the hypotheses of `C13_reads_miss_run` are met by this state (kernel-checked TEST)
example : ∃ th fp, missDemo.threads[0]? = some th ∧ th.pc = .findNext fp false ∧ fp.startLen = 3 ∧
    MissOutcome fp.cont (missDemo.step 0).2 := ⟨_, _, rfl, rfl, rfl, .inl ⟨rfl, by decide⟩⟩

end NitroVerif.SkipConc
