import NitroVerif.Lemmas.SkipFreeStep
/-!
  # C04 at compare-and-swap granularity, for the skiplist itself (model M5F, `Model/SkipFree.lean`)

  "Safe memory reclamation: with user-managed memory no goroutine ever dereferences a node or item after it has
  been freed, and nothing is freed twice, whatever the interleaving of inserts, deletes, lookups, iterators,
  snapshot closes and garbage collection.  A node is freed only after every accessor that could have obtained a
  reference to it has left the access barrier."

  `Props/C04.lean` proves this on M6 (`Model/MvccConc.lean`), where every skiplist operation is ONE atomic action.
  Here the skiplist operations are those of M5 (every shared-memory step of findPath, helpDelete, Insert4,
  softDelete, deleteNode, the iterators is a separate action of the schedule) and nodes are REALLY freed:
  `Model/SkipFree.lean` wraps M5 with the abstract access barrier, a token per call (per iterator), `delf`
  (Delete as nitro does it: the deleted node is handed to the barrier by `FlushSession`) and the set `freed`.

  * Stage 1: `C04_skip_relink_uaf_witness` — finding C04-D23 (known_findings.json), the same 31 actions as the
    steered witness of the Go engine, ends in a state in which the next segment of the third thread dereferences
    a freed node.  C04 as written is FALSE for the skiplist used directly with same-key Insert/Delete overlap.
  * Stage 2: `C04_skip_no_double_free`, `C04_skip_freed_were_deleted` — for every run.
  * Stage 3: see the end of the file (what is stated, what is proved).
-/
namespace NitroVerif.Props.C04skip
open NitroVerif NitroVerif.SkipConc NitroVerif.SkipFree

/-! ## Stage 1: the D23 schedule -/

def steps (t n : Nat) : List SkipFree.Action := List.replicate n (.step t)

/-- the witness script of finding C04-D23, lines 1..31 (line 0 is `threads 3 mem=mmfree`, line 32 — `step 2` — is
    the faulting segment): `start 0 ins 5 lvl=1`, 7 × `step 0` (node 2 published, the inserter parked at INS_UP_LINK
    of level 1), `start 1 delf 5`, 13 × `step 1` (the whole delete: both marks, the cleaning search unlinks node 2 at
    level 0, Release, FlushSession(node 2)), `step 0` (the inserter's CAS links node 2 at level 1, sees the mark,
    starts the unlinking search), `start 2 look 9`, `step 2` (the accessor, in the NEW session, loads head.next[1] =
    node 2), 6 × `step 0` (the inserter unlinks node 2 and returns: its session is destructed, node 2 is freed). -/
def d23 : List SkipFree.Action :=
  [.start 0 (.base (.ins 5 1))] ++ steps 0 7 ++ [.start 1 (.delf 5)] ++ steps 1 13 ++ [.step 0] ++
  [.start 2 (.base (.look 9))] ++ [.step 2] ++ steps 0 6

set_option maxRecDepth 100000 in
/-- **C04_skip_relink_uaf_witness** (finding C04-D23, kernel-checked by evaluation).  After the 31 actions of the
    steered witness — an `ins 5` still linking level 1 overlapping a complete `delf 5` of the same node, a `look 9`
    that starts after the FlushSession — node 2 has been freed (it is the only freed node, every call but the
    lookup has returned) and the segment thread 2 is about to run (FIND_NEXT: `curr.getNext(1)` with `curr` = node 2)
    dereferences it: `uaf` is true.  No operation of the run was refused. -/
theorem C04_skip_relink_uaf_witness :
    let s := (SkipFree.Sys.init 3).run d23
    uaf s 2 = true ∧ s.freed = [2] ∧ derefs s 2 = [2] ∧ s.freeSeq = 1 ∧
      (s.base.threads.map fun th => isIdle th.pc) = [true, true, false] := by decide

/-- one action earlier the node is attached to session 0, which the inserter still holds: not freed yet -/
example :
    let s := (SkipFree.Sys.init 3).run (d23.take 30)
    uaf s 2 = false ∧ s.freed = [] ∧ (s.sess.map (·.list)) = [[2], []] ∧
      (s.sess.map (·.holders)) = [[.thr 0], [.thr 2]] := by decide

/-! ## Stage 2: nothing is freed twice; what is freed was deleted

  `pool s` = `s.freed ++` the nodes attached to the sessions not yet destructed.  Proved for EVERY run (any number of
  threads, any interleaving, refused operations included): the current session is never destructed, the barrier
  steps (Acquire, Release, cleanup) never change the pool, and the pool grows only at its end, by the node `curr` of
  a `delf` call that returns from its cleaning search in that segment (`Flushes`).  The two Stage-2 theorems follow
  from this plus ONE fact about M5 that is not connected yet (see the `_partial` docstrings). -/

/-- **C04_skip_pool_step** (every run, every next action).  One action leaves `freed ++ attached` as it is, or
    appends exactly one node `x`: the action is a segment of a thread `t` whose current call is a `delf`, that
    was in the cleaning phase of deleteNode (DeleteNode2 is about to report `true`) on `curr = x`, and the call
    RETURNS in this segment (Release, then FlushSession(x)).  Nothing else ever reaches a session or `freed`. -/
theorem C04_skip_pool_step (n : Nat) (as : List SkipFree.Action) (a : SkipFree.Action) :
    let s := (SkipFree.Sys.init n).run as
    pool (s.act a) = pool s ∨
      ∃ t x, a = .step t ∧ pool (s.act a) = pool s ++ [x] ∧ Flushes s t x := by
  intro s
  rcases (act_pool (run_last (Last_init n) as) a).2 with h | ⟨t, x, rfl, h, h1, h2, h3, h4⟩
  · exact .inl h
  · exact .inr ⟨t, x, rfl, h, h1, h2, h3, h4⟩

/-- **C04_skip_freed_prefix**: in every state the freed nodes are the first nodes of the pool, in the order in which
    they were handed to the barrier (sessions are destructed in order), and the current session is open. -/
theorem C04_skip_freed_prefix (n : Nat) (as : List SkipFree.Action) :
    let s := (SkipFree.Sys.init n).run as
    s.freed <+: pool s ∧ Last s :=
  ⟨freed_prefix _, run_last (Last_init n) as⟩

/-- **C04_skip_no_double_free_partial.**
    FULL STATEMENT (C04_skip_no_double_free): for every run, `((Sys.init n).run as).freed.Nodup`.
    PROVED: the same conclusion (even for `freed ++ attached`) under the hypothesis `hOne`: whenever, along the run,
    a `delf` call is about to return from the cleaning search of node `x` (`Flushes`), `x` has not been handed to the
    barrier before.
    MISSING: `hOne` itself, i.e. the connection with `C13_one_deleter` (Props/C13c.lean): a call is in the cleaning
    phase of node `x` only if it won the level-0 mark of `x` (`stepThread_trans`, phase `delMark … true`/`delClean`),
    a node is won by at most one action of a run, and `curr` is not changed between SOFT_MARK and the return; the
    transition lemma needed (`won pre → won post ∨ return`) is stated in Scratch/SkipFreeWon.lean.txt, not proved. -/
theorem C04_skip_no_double_free_partial (n : Nat) (as : List SkipFree.Action)
    (hOne : ∀ k t x, Flushes ((SkipFree.Sys.init n).run (as.take k)) t x →
      x ∉ pool ((SkipFree.Sys.init n).run (as.take k))) :
    ((SkipFree.Sys.init n).run as).freed.Nodup ∧ (pool ((SkipFree.Sys.init n).run as)).Nodup := by
  have h := run_pool_nodup (Last_init n) (by rw [pool_init]; exact List.nodup_nil) as hOne
  refine ⟨?_, h⟩
  simp only [pool, List.nodup_append] at h
  exact h.1

/-- **C04_skip_freed_were_deleted_partial.**
    FULL STATEMENT (C04_skip_freed_were_deleted): for every run, every freed node `x` is marked at level 0
    (`marked0 s.base.sh.heap x`) and the call that deleted it has returned.
    PROVED, for every run without hypothesis: every freed node (every node ever attached to a session) was the
    `curr` of a `delf` call of some thread `t` that, at some earlier point `k` of the run, was in the cleaning phase of
    deleteNode (i.e. after softDelete reported `true`) and RETURNED in the very segment that handed the node to the
    barrier — the deleter's call has returned before the node even reaches a session.
    MISSING: `marked0` of that node, which needs the invariant "`curr` of a call in its cleaning phase is the node
    whose mark the call won" (same gap as in `C04_skip_no_double_free_partial`); marks are never removed
    (`Ext.marked`). -/
theorem C04_skip_freed_were_deleted_partial (n : Nat) (as : List SkipFree.Action) (x : Nat)
    (hx : x ∈ ((SkipFree.Sys.init n).run as).freed) :
    ∃ k t, k < as.length ∧ Flushes ((SkipFree.Sys.init n).run (as.take k)) t x := by
  have hp : x ∈ pool ((SkipFree.Sys.init n).run as) := List.mem_append_left _ hx
  rcases run_pool_origin (Last_init n) as x hp with h | h
  · rw [pool_init] at h; cases h
  · exact h

set_option maxRecDepth 100000 in
/-- non-vacuity: in the D23 run the freed node 2 was flushed by thread 1 at action 21 (its 13th segment), and the
    hypothesis `hOne` of the partial theorem holds there (the pool is empty before) -/
example :
    let s := (SkipFree.Sys.init 3).run (d23.take 21)
    (callOf s 1).delf = true ∧ inClean (pcOf s 1) = true ∧ (callOf s 1).node = some 2 ∧
      isIdle (pcOf (s.step 1) 1) = true ∧ pool s = [] ∧ pool (s.step 1) = [2] := by decide

/-! ## Stage 3: the rule that excludes D23 (definition and tests; the safety theorem is NOT proved)

  TARGET (C04_skip_no_uaf, not proved, no part of it is proved beyond Stage 2): for every `n`, every `as` with
  `noOverlap n as = true` and every `k`, `t`: `uaf ((Sys.init n).run (as.take k)) t = false`.
  The argument would be the epoch argument: a node a thread can hold in its locals was reachable from the head, or
  was its own, at some state since the thread took its token, hence is not attached to a session older than the
  token; sessions are destructed in order and only without holders.  D23 is exactly the failure of "an unlinked,
  flushed node is never linked again": an Insert of the same key still linking its upper levels re-links it. -/

/-- the two kinds of calls of the generator's rule: (is it a `delf`, key) -/
def clashKey : SkipFree.Op → Option (Bool × Nat)
  | .base (.ins k _) => some (false, k)
  | .delf k => some (true, k)
  | _ => none

/-- the generator's rule (tools/gens.py), on the action list: no accepted `ins k` starts while a `delf k` of the
    same key is in progress and vice versa; `cur` = the clashing call each thread is in -/
def noOverlapFrom (s : SkipFree.Sys) (cur : List (Option (Bool × Nat))) : List SkipFree.Action → Bool
  | [] => true
  | .start t op :: r =>
    let acc := accepted s t op
    let ok := match clashKey op with
      | some (d, k) => !acc || cur.all (fun c => c != some (!d, k))
      | none => true
    ok && noOverlapFrom (s.start t op) (if acc then cur.set t (clashKey op) else cur) r
  | .step t :: r =>
    noOverlapFrom (s.step t) (if isIdle (pcOf (s.step t) t) then cur.set t none else cur) r

def noOverlap (n : Nat) (as : List SkipFree.Action) : Bool :=
  noOverlapFrom (SkipFree.Sys.init n) (List.replicate n none) as

set_option maxRecDepth 100000 in
/-- the D23 schedule violates the rule -/
example : noOverlap 3 d23 = false := by decide

/-- the same three calls one after the other (extra `step`s of an idle thread are refused and change nothing) -/
def seq3 : List SkipFree.Action :=
  [.start 0 (.base (.ins 5 1))] ++ steps 0 10 ++ [.start 1 (.delf 5)] ++ steps 1 24 ++
  [.start 2 (.base (.look 9))] ++ steps 2 8

set_option maxRecDepth 100000 in
/-- … obey the rule; node 2 is freed at the end and nobody is about to touch it -/
example :
    let s := (SkipFree.Sys.init 3).run seq3
    noOverlap 3 seq3 = true ∧ s.freed = [2] ∧ uaf s 0 = false ∧ uaf s 1 = false ∧ uaf s 2 = false := by decide

end NitroVerif.Props.C04skip
