import NitroVerif.Lemmas.TableRefine
import NitroVerif.Lemmas.NodeList
/-!
  Property C20 — node table and node list.

  Model: `NitroVerif.Table` (nodetable/table.go: find / Get / Update / Remove / ItemsCount over the
  fast map, the slow map and the three counters) and `NitroVerif.NodeList` (nodelist.go).
  Spec: `NitroVerif.MapSpec` (association-list map) and `NitroVerif.ListSpec` (plain list).
  The hash function and `keyOf` (which key the object behind a pointer carries) are universally
  quantified parameters — constant hashes (all keys collide) included.  Pointers are natural
  numbers; the `uint64` tagging with bit `Gen.ntConflictBit` is faithful for pointers `< 2^63`
  (`Table.GenLemmas.encodePointer_faithful`), which is assumed of all pointers.
  The decisions of the Go code enter through `Gen.ntIsFound`, `Gen.ntFoundInFast/InSlow/NotFound`,
  `Gen.ntNewSlowValue`, `Gen.ntInsertSlow` (characterised in `Lemmas/TableGen.lean`).
-/
namespace NitroVerif.Props.C20
open NitroVerif NitroVerif.Table

/-- For every hash function, every `keyOf`, and every sequence of Update / Get / Remove /
    ItemsCount calls that respects the API contract (`Update(k, p)` is called with a pointer whose
    object has key `k`), the table produces exactly the outputs of the association-list map:
    Update reports `updated` and the previous pointer iff the key was present, Get returns the
    latest pointer, Remove returns the stored pointer iff present, and ItemsCount is the number of
    keys of the map. -/
theorem C20_table_refines_map (hash : Key → Hash) (keyOf : Ptr → Key) (ops : List MapSpec.Op)
    (hc : ∀ op ∈ ops, contract keyOf op) :
    (Table.run hash keyOf ops).2 = (MapSpec.run ops).2 :=
  (runFrom_rel hash keyOf (Rel_empty hash keyOf) ops hc).2

/-- The invariant that carries the refinement, at the end of every contract-respecting run
    (`t` the table, `m` the spec map after the same calls):
    * no call panicked (`slowHTValues[0]` in Remove is never out of range);
    * conflict bit set ⇔ the slow list of that hash is non-empty; no slow list without fast entry;
      the slow map holds no empty list;
    * all pointers of one bucket (fast entry + slow list) hash to that bucket and have pairwise
      distinct keys;
    * counters exact: `fastHTCount` = number of fast entries (one per hash), `slowHTCount` = total
      length of the slow lists, `conflicts` = number of (non-empty) slow lists;
    * `ItemsCount` = number of distinct keys of the map, and Get agrees with the map on every key. -/
theorem C20_table_invariant (hash : Key → Hash) (keyOf : Ptr → Key) (ops : List MapSpec.Op)
    (hc : ∀ op ∈ ops, contract keyOf op) :
    let t := (Table.run hash keyOf ops).1
    let m := (MapSpec.run ops).1
    t.panicked = false ∧
    (∀ h p c, AL.get t.fastHT h = some (p, c) → (c = true ↔ (AL.get t.slowHT h).getD [] ≠ [])) ∧
    (∀ h, AL.get t.fastHT h = none → AL.get t.slowHT h = none) ∧
    (∀ h vs, AL.get t.slowHT h = some vs → vs ≠ []) ∧
    (∀ h p, p ∈ bucket t h → hash (keyOf p) = h) ∧
    (∀ h, ((bucket t h).map keyOf).Nodup) ∧
    ((AL.keys t.fastHT).Nodup ∧ t.fastHTCount = t.fastHT.length) ∧
    t.slowHTCount = AL.total t.slowHT ∧
    ((AL.keys t.slowHT).Nodup ∧ t.conflicts = t.slowHT.length) ∧
    ((AL.keys m).Nodup ∧ itemsCount t = (AL.keys m).length) ∧
    (∀ k, Table.get hash keyOf t k = AL.get m k) := by
  intro t m
  have hR : Rel hash keyOf t m := (runFrom_rel hash keyOf (Rel_empty hash keyOf) ops hc).1
  have hS := hR.sinv
  refine ⟨hS.notPanicked, ?_, hS.slowNeedsFast, hS.slowNonempty, hR.binv.hashOk, hR.binv.keysNodup,
    ⟨hS.fastNodup, hS.fastCount⟩, hS.slowCount, ⟨hS.slowNodup, hS.conflictCount⟩,
    ⟨hR.mnodup, by rw [← hR.count]; simp [AL.keys]⟩, ?_⟩
  · intro h p c hf
    rw [hS.conflictIff h p c hf]
    cases hs : AL.get t.slowHT h with
    | none => simp
    | some vs => simpa using hS.slowNonempty h vs hs
  · intro k
    rw [get_eq_lookup hash keyOf hS, hR.lookup]

/-- NodeList behaves as a list: Add at the head, Remove of the first node with an equal key
    (returning that node), Keys in list order, Head — for every sequence of calls. -/
theorem C20_nodelist (ops : List ListSpec.Op) :
    (NodeList.run ops).2 = (ListSpec.run ops).2 ∧
    (NodeList.run ops).1.nodes = (ListSpec.run ops).1 := by
  unfold NodeList.run ListSpec.run
  rw [NodeList.runFrom_eq]
  exact ⟨rfl, rfl⟩

/-! ### non-vacuity -/

/-- pointers 10·k + j point to objects with key k -/
def sampleKeyOf : Ptr → Key := fun p => p / 10

/-- a run under the constant hash (every key collides): fill one bucket, replace in the fast and
    in the slow part, remove the fast entry while overflow entries exist, re-add the key, remove
    from the middle and the end of the slow list, empty the bucket -/
def sampleOps : List MapSpec.Op :=
  [.update 1 10, .update 2 20, .update 3 30, .count, .update 1 11, .update 3 31, .get 2,
   .remove 1, .get 1, .get 2, .update 1 12, .count, .remove 3, .remove 1, .remove 7, .remove 2, .count]

example : ∀ op ∈ sampleOps, contract sampleKeyOf op := by decide

example : (Table.run (fun _ => 0) sampleKeyOf sampleOps).2 = (MapSpec.run sampleOps).2 :=
  C20_table_refines_map _ _ _ (by decide)

/-- the invariant instantiated on that run: e.g. Get agrees with the map on every key -/
example (k : Key) :
    Table.get (fun _ => 0) sampleKeyOf (Table.run (fun _ => 0) sampleKeyOf sampleOps).1 k
      = AL.get (MapSpec.run sampleOps).1 k :=
  (C20_table_invariant (fun _ => 0) sampleKeyOf sampleOps (by decide)).2.2.2.2.2.2.2.2.2.2 k

/-- TEST (by evaluation): the outputs of that run -/
example : (Table.run (fun _ => 0) sampleKeyOf sampleOps).2 =
    [.updated false none, .updated false none, .updated false none, .count 3,
     .updated true (some 10), .updated true (some 30), .got (some 20),
     .removed true (some 11), .got none, .got (some 20), .updated false none, .count 3,
     .removed true (some 31), .removed true (some 12), .removed false none,
     .removed true (some 20), .count 0] := by decide

/-- TEST: the representation after "fill, then remove the fast entry with overflow present":
    the first slow entry moved into the fast table and kept the conflict bit -/
example : (Table.run (fun _ => 0) sampleKeyOf [.update 1 10, .update 2 20, .update 3 30, .remove 1]).1
    = { fastHT := [(0, (20, true))], slowHT := [(0, [30])], fastHTCount := 1, slowHTCount := 1,
        conflicts := 1, panicked := false } := by decide

/-- TEST: breaking the contract (pointer 20 has key 2, handed in for key 1) is what the
    hypothesis excludes: the table then holds two entries that both answer to key 2 -/
example : ¬ contract sampleKeyOf (.update 1 20) := by decide

example : (NodeList.run [.add 1 [0xaa], .add 2 [0xbb], .add 3 [0xaa], .keys, .remove [0xaa], .keys,
      .head, .remove [0xcc], .remove [0xaa], .remove [0xbb], .head]).2
    = [.ok, .ok, .ok, .keys [[0xaa], [0xbb], [0xaa]], .removed (some 3), .keys [[0xbb], [0xaa]],
       .head (some 2), .removed none, .removed (some 1), .removed (some 2), .head none] := by decide

end NitroVerif.Props.C20
