import NitroVerif.Lemmas.BackupResidual
import NitroVerif.Lemmas.LoadPool
/-!
  Property C11 — restore detects damaged backups.

  "LoadFromDisk applied to a backup directory written by StoreToDisk and then damaged — any byte
  altered, any file truncated at any offset or removed, in data, delta or manifest files — terminates
  and either returns an error or returns exactly the stored snapshot.  It never hangs, panics, or
  silently returns a different item set."

  Model: `Backup.load` (Model/Backup.lean) on the image `storeImage h parts` after a damage.
  encoding/json is a parameter: a damaged manifest is `unparsable`, `absent`, or parses to another
  value (`alter…`).  A damaged shard file is ANY other byte string (`replaceShards`: any set of shards
  at once, any lengths), a truncated one any proper prefix.

  What no 32-bit XOR-of-CRC scheme can exclude stays in the statement as `Residual`, each case stated
  exactly (R1–R4 below).  Everything else is proved to be an error or the stored content:
    truncation of any shard at any offset (alone or together with any other shard damage and any
    state of checksums.json)            → error            `C11_truncated_shard_err`
    a listed shard file removed         → error            `C11_removed_shard_err`
    files.json removed / unparsable     → error            `C11_files_missing_err`
    nitro.json / checksums.json unparsable → error         `C11_unparsable_err`
    checksums.json of another length, or with any other value → error   `C11_sums_altered_err`
    checksums.json removed (nothing else damaged) → the stored content  (old backups have none)
    nitro.json altered to another non-zero version → the stored content
  The same with delta files (`useDelta = true`): `C11_delta_*`.
  `C11_terminates`: `load` is a total function (no hang, no panic in the model), and the worker pool
  of the fixed code reaches its end under every schedule (`pool_no_deadlock`); the original code's
  hang is the witness `C11_unfixed_hang_witness`.
-/
namespace NitroVerif.Props.C11
open NitroVerif NitroVerif.Codec NitroVerif.Backup NitroVerif.Backup.GenLemmas

/-- the fault model on a non-delta backup of `parts` (hash `h`) -/
inductive Damage (h : Bytes → Nat) (parts : List (List Bytes)) : Image → Prop
  /-- a data shard file removed -/
  | removeShard (i : Nat) (hi : i < parts.length) :
      Damage h parts { storeImage h parts with
        data := removeFile (shardName i) (storeImage h parts).data }
  | removeFiles : Damage h parts { storeImage h parts with files := .absent }
  | removeSums : Damage h parts { storeImage h parts with sums := .absent }
  | removeVersion : Damage h parts { storeImage h parts with version := .absent }
  | unparsableFiles : Damage h parts { storeImage h parts with files := .unparsable }
  | unparsableSums : Damage h parts { storeImage h parts with sums := .unparsable }
  | unparsableVersion : Damage h parts { storeImage h parts with version := .unparsable }
  /-- nitro.json altered so that it parses to version `v` -/
  | alterVersion (v : Nat) : Damage h parts { storeImage h parts with version := .parsed v }
  /-- files.json altered so that it parses to the list `fs'` -/
  | alterFiles (fs' : List String) : Damage h parts { storeImage h parts with files := .parsed fs' }
  /-- checksums.json altered so that it parses to the list `cs'` -/
  | alterSums (cs' : List Nat) : Damage h parts { storeImage h parts with sums := .parsed cs' }
  /-- one shard cut to a proper prefix, at any offset -/
  | truncateShard (i : Nat) (hi : i < parts.length) (p : Bytes) (hp : p <+: writeFile parts[i])
      (hne : p ≠ writeFile parts[i]) :
      Damage h parts { storeImage h parts with data := filesOf 0 ((parts.map writeFile).set i p) }
  /-- the bytes of any set of shards replaced by arbitrary bytes of any length: `cs'[i]` is the new
      content of shard `i` (shards not damaged keep `writeFile parts[i]`) -/
  | replaceShards (cs' : List Bytes) (hlen : cs'.length = parts.length) :
      Damage h parts { storeImage h parts with data := filesOf 0 cs' }
  /-- the same together with checksums.json removed -/
  | replaceShardsNoSums (cs' : List Bytes) (hlen : cs'.length = parts.length) :
      Damage h parts { storeImage h parts with data := filesOf 0 cs', sums := .absent }

/-- **R1** checksum collision: a damaged shard re-frames successfully to a DIFFERENT item list whose
    XOR-of-CRC equals the stored one (e.g. the same items in another order) -/
def R1 (h : Bytes → Nat) (parts : List (List Bytes)) (img' : Image) : Prop :=
  ∃ cs' : List Bytes, cs'.length = parts.length ∧
    img' = { storeImage h parts with data := filesOf 0 cs' } ∧
    ∃ i, ∃ (hi : i < parts.length) (hc : i < cs'.length), cs'[i] ≠ writeFile parts[i] ∧
      ∃ items' rest, readFile h 1 cs'[i] = .ok items' (writerChecksum h parts[i]) rest ∧
        items' ≠ parts[i]

/-- **R2** nitro.json removed (tolerated: old backups have none) or altered to version 0: the shards
    are decoded with 2-byte lengths, and a NON-EMPTY shard decodes to a different item list with the
    stored checksum (for items shorter than 2^16 bytes: to the empty list, stored checksum 0) -/
def R2 (h : Bytes → Nat) (parts : List (List Bytes)) (img' : Image) : Prop :=
  (img' = { storeImage h parts with version := .absent } ∨
   img' = { storeImage h parts with version := .parsed 0 }) ∧
    ∃ i, ∃ (hi : i < parts.length), parts[i] ≠ [] ∧
      ∃ items' rest, readFile h 0 (writeFile parts[i]) = .ok items' (writerChecksum h parts[i]) rest ∧
        items' ≠ parts[i]

/-- **R3** checksums.json removed (old backups have none) AND a damaged shard that re-frames to a
    different item list: nothing is left to detect it -/
def R3 (h : Bytes → Nat) (parts : List (List Bytes)) (img' : Image) : Prop :=
  ∃ cs' : List Bytes, cs'.length = parts.length ∧
    img' = { storeImage h parts with data := filesOf 0 cs', sums := .absent } ∧
    ∃ i, ∃ (hi : i < parts.length) (hc : i < cs'.length), cs'[i] ≠ writeFile parts[i] ∧
      ∃ items' sum rest, readFile h 1 cs'[i] = .ok items' sum rest ∧ items' ≠ parts[i]

/-- **R4** files.json altered to another list of the stored length that names existing shard files
    only, each with the checksum stored at its position (e.g. two shards with equal checksums
    exchanged, or one of them named twice); the shards are then restored in that order -/
def R4 (h : Bytes → Nat) (cmp : Bytes → Bytes → Int) (parts : List (List Bytes)) (img' : Image) : Prop :=
  ∃ fs' : List String, fs' ≠ shardNames parts.length ∧
    img' = { storeImage h parts with files := .parsed fs' } ∧
    ∃ l : List (List Bytes), load h cmp false img' = .ok l.flatten ∧
      fs'.length = parts.length ∧ l.length = parts.length ∧
      ∀ k, ∀ (hk : k < fs'.length) (hl : k < l.length) (hp : k < parts.length),
        ∃ j, ∃ (hj : j < parts.length), fs'[k] = shardName j ∧ l[k] = parts[j] ∧
          writerChecksum h parts[j] = writerChecksum h parts[k]

def Residual (h : Bytes → Nat) (cmp : Bytes → Bytes → Int) (parts : List (List Bytes)) (img' : Image) : Prop :=
  R1 h parts img' ∨ R2 h parts img' ∨ R3 h parts img' ∨ R4 h cmp parts img'

/-! ### damages that are always detected (no residual) -/

/-- Truncation: if ANY listed shard file is a proper prefix of what was written — at any offset,
    whatever the other shard files contain, whatever checksums.json is (stored, absent, unparsable,
    other), delta on or off — LoadFromDisk returns an error. -/
theorem C11_truncated_shard_err (h : Bytes → Nat) (cmp : Bytes → Bytes → Int) (content : List Bytes)
    (hit : ∀ d ∈ content, 0 < d.length ∧ d.length < 2 ^ 32)
    (parts : List (List Bytes)) (hparts : parts.flatten = content)
    (cs' : List Bytes) (hlen : cs'.length = parts.length) (sums' : Manifest (List Nat))
    (i : Nat) (hi : i < parts.length) (hpre : cs'[i]'(by omega) <+: writeFile parts[i])
    (hne : cs'[i]'(by omega) ≠ writeFile parts[i]) (useDelta : Bool)
    (dfiles' : Manifest (List String)) (dsums' : Manifest (List Nat)) (delta' : List (String × Bytes)) :
    load h cmp useDelta { storeImage h parts with
      data := filesOf 0 cs', sums := sums', dfiles := dfiles', dsums := dsums', delta := delta' } = .err :=
  load_truncated h cmp parts (by rw [hparts]; exact hit) (by decide) _ rfl cs' hlen rfl
    (fun i _ => lookup_filesOf_zero i _) i hi hpre hne useDelta

/-- A listed shard file removed: error. -/
theorem C11_removed_shard_err (h : Bytes → Nat) (cmp : Bytes → Bytes → Int) (parts : List (List Bytes))
    (i : Nat) (hi : i < parts.length) (useDelta : Bool) :
    load h cmp useDelta { storeImage h parts with
      data := removeFile (shardName i) (storeImage h parts).data } = .err := by
  apply load_err_of_base_err
  simp only [load, storeImage, versionOf, loadShards]
  rw [sumsOf_parsed (by simp)]
  simp only
  rw [openAll_missing (mem_shardNames hi) (lookup_removeFile_self _ _)]

/-- files.json removed or unparsable (e.g. cut by one byte): error — never an empty database. -/
theorem C11_files_missing_err (h : Bytes → Nat) (cmp : Bytes → Bytes → Int) (img : Image)
    (hf : img.files = .absent ∨ img.files = .unparsable) (useDelta : Bool) :
    load h cmp useDelta img = .err := by
  unfold load
  cases versionOf img.version with
  | none => rfl
  | some ver => rcases hf with hf | hf <;> rw [hf]

/-- nitro.json or checksums.json unparsable: error. -/
theorem C11_unparsable_err (h : Bytes → Nat) (cmp : Bytes → Bytes → Int) (img : Image)
    (hu : img.version = .unparsable ∨ img.sums = .unparsable) (useDelta : Bool) :
    load h cmp useDelta img = .err := by
  unfold load
  rcases hu with hu | hu
  · rw [hu]; rfl
  · cases versionOf img.version with
    | none => rfl
    | some ver =>
      cases img.files with
      | absent => rfl
      | unparsable => rfl
      | parsed files => simp [loadShards, hu, sumsOf]

/-- checksums.json of a length other than files.json's (e.g. cut by one entry): ErrCorruptSnapshot —
    no index-out-of-range panic. -/
theorem C11_sums_wrong_length_err (h : Bytes → Nat) (cmp : Bytes → Bytes → Int) (img : Image)
    (files : List String) (cs : List Nat) (hf : img.files = .parsed files) (hs : img.sums = .parsed cs)
    (hlen : cs.length ≠ files.length) (useDelta : Bool) :
    load h cmp useDelta img = .err := by
  unfold load
  cases versionOf img.version with
  | none => rfl
  | some ver => simp [hf, loadShards, hs, sumsOf, hlen]

/-- checksums.json altered to ANY other parsed value: error (a stored checksum 0 is checked too). -/
theorem C11_sums_altered_err (h : Bytes → Nat) (cmp : Bytes → Bytes → Int) (content : List Bytes)
    (hit : ∀ d ∈ content, 0 < d.length ∧ d.length < 2 ^ 32)
    (parts : List (List Bytes)) (hparts : parts.flatten = content) (cs' : List Nat)
    (hne : cs' ≠ parts.map (writerChecksum h)) (useDelta : Bool) :
    load h cmp useDelta { storeImage h parts with sums := .parsed cs' } = .err :=
  load_sums_altered h cmp parts (by rw [hparts]; exact hit) (by decide) cs' hne useDelta

/-- checksums.json removed and nothing else damaged: the stored content (backups written before
    checksums existed load unchecked). -/
theorem C11_sums_removed_ok (h : Bytes → Nat) (cmp : Bytes → Bytes → Int) (content : List Bytes)
    (hit : ∀ d ∈ content, 0 < d.length ∧ d.length < 2 ^ 32)
    (parts : List (List Bytes)) (hparts : parts.flatten = content) :
    load h cmp false { storeImage h parts with sums := .absent } = .ok content := by
  simp only [load, storeImage, versionOf]
  rw [loadShards_written_unchecked h (by decide) Gen.checksumMismatch
    (fun s a => checksumMismatch_unchecked s a) parts (by rw [hparts]; exact hit)]
  simp [hparts]

/-- version 0 with items shorter than 2^16 bytes (R2 made explicit): every shard reads as EMPTY with
    checksum 0; the load fails unless every stored checksum is 0, and then returns the empty database -/
theorem C11_version0_small_items (h : Bytes → Nat) (cmp : Bytes → Bytes → Int) (parts : List (List Bytes))
    (hsmall : ∀ d ∈ parts.flatten, d.length < 2 ^ 16) (vm : Manifest Nat)
    (hvm : vm = .absent ∨ vm = .parsed 0) :
    load h cmp false { storeImage h parts with version := vm } =
      if ∀ p ∈ parts, writerChecksum h p = 0 then .ok [] else .err :=
  load_v0_small h cmp parts hsmall _ (by rcases hvm with rfl | rfl <;> rfl) rfl rfl rfl

/-- a version-0 reader never returns the items of a non-empty shard written with 4-byte lengths -/
theorem C11_version0_never_same (h : Bytes → Nat) (part : List Bytes)
    (hp : ∀ d ∈ part, 0 < d.length ∧ d.length < 2 ^ 32) (hne : part ≠ [])
    (items : List Bytes) (sum : Nat) (r : Bytes)
    (hr : readFile h 0 (writeFile part) = .ok items sum r) : items ≠ part := by
  have := readFile_v0_ne h part hp hne [] items sum r
  rw [List.append_nil] at this
  exact this hr

/-! ### the general statement -/

/-- **C11_load_damaged.**  For every backup image and every damage of the fault model, LoadFromDisk
    returns an error, or exactly the stored content, or the damaged image is one of the residual
    cases R1–R4. -/
theorem C11_load_damaged (h : Bytes → Nat) (cmp : Bytes → Bytes → Int) (content : List Bytes)
    (hit : ∀ d ∈ content, 0 < d.length ∧ d.length < 2 ^ 32)
    (parts : List (List Bytes)) (hparts : parts.flatten = content)
    (img' : Image) (hd : Damage h parts img') :
    load h cmp false img' = .err ∨ load h cmp false img' = .ok content ∨ Residual h cmp parts img' := by
  have hval : ValidItems parts.flatten := by rw [hparts]; exact hit
  have h1 : (1 : Nat) ≠ 0 := by decide
  cases hd with
  | removeShard i hi => exact Or.inl (C11_removed_shard_err h cmp parts i hi false)
  | removeFiles => exact Or.inl (C11_files_missing_err h cmp _ (Or.inl rfl) false)
  | unparsableFiles => exact Or.inl (C11_files_missing_err h cmp _ (Or.inr rfl) false)
  | unparsableSums => exact Or.inl (C11_unparsable_err h cmp _ (Or.inr rfl) false)
  | unparsableVersion => exact Or.inl (C11_unparsable_err h cmp _ (Or.inl rfl) false)
  | removeSums => exact Or.inr (Or.inl (C11_sums_removed_ok h cmp content hit parts hparts))
  | alterSums cs' =>
    by_cases hc : cs' = parts.map (writerChecksum h)
    · right; left
      rw [hc]
      have := load_storeImage h cmp parts hval h1
      rw [hparts] at this
      exact this
    · exact Or.inl (C11_sums_altered_err h cmp content hit parts hparts cs' hc false)
  | truncateShard i hi p hp hne =>
    left
    have hlen : ((parts.map writeFile).set i p).length = parts.length := by simp
    exact load_truncated h cmp parts hval h1 _ rfl _ hlen rfl
      (fun k _ => lookup_filesOf_zero k _) i hi (by simpa using hp) (by simpa using hne) false
  | removeVersion =>
    rcases load_v0_classify h cmp parts { storeImage h parts with version := .absent }
      rfl rfl rfl rfl with he | hok | hres
    · exact Or.inl he
    · exact Or.inr (Or.inl (by rw [hok, hparts]))
    · exact Or.inr (Or.inr (Or.inr (Or.inl ⟨Or.inl rfl, hres⟩)))
  | alterVersion v =>
    by_cases hv : v = 0
    · subst hv
      rcases load_v0_classify h cmp parts { storeImage h parts with version := .parsed 0 }
        rfl rfl rfl rfl with he | hok | hres
      · exact Or.inl he
      · exact Or.inr (Or.inl (by rw [hok, hparts]))
      · exact Or.inr (Or.inr (Or.inr (Or.inl ⟨Or.inr rfl, hres⟩)))
    · right; left
      have := load_storeImage h cmp parts hval hv
      rw [hparts] at this
      exact this
  | replaceShards cs' hlen =>
    rcases load_replaced_classify h cmp parts hval h1 { storeImage h parts with data := filesOf 0 cs' }
      rfl cs' hlen rfl (fun k _ => lookup_filesOf_zero k _) (Or.inl rfl) with he | hok | hres
    · exact Or.inl he
    · exact Or.inr (Or.inl (by rw [hok, hparts]))
    · obtain ⟨i, hi, hc, hne, items', sum, rest, hread, hitems, hsum⟩ := hres
      have hs : sum = writerChecksum h parts[i] := hsum (by simp [storeImage])
      subst hs
      exact Or.inr (Or.inr (Or.inl ⟨cs', hlen, rfl, i, hi, hc, hne, items', rest, hread, hitems⟩))
  | replaceShardsNoSums cs' hlen =>
    rcases load_replaced_classify h cmp parts hval h1
      { storeImage h parts with data := filesOf 0 cs', sums := .absent }
      rfl cs' hlen rfl (fun k _ => lookup_filesOf_zero k _) (Or.inr rfl) with he | hok | hres
    · exact Or.inl he
    · exact Or.inr (Or.inl (by rw [hok, hparts]))
    · obtain ⟨i, hi, hc, hne, items', sum, rest, hread, hitems, _⟩ := hres
      exact Or.inr (Or.inr (Or.inr (Or.inr (Or.inl
        ⟨cs', hlen, rfl, i, hi, hc, hne, items', sum, rest, hread, hitems⟩))))
  | alterFiles fs' =>
    by_cases hf : fs' = shardNames parts.length
    · right; left
      rw [hf]
      have := load_storeImage h cmp parts hval h1
      rw [hparts] at this
      exact this
    · rcases load_files_altered h cmp parts hval h1 fs' with he | ⟨l, hl, hlen, hll, hall⟩
      · exact Or.inl he
      · exact Or.inr (Or.inr (Or.inr (Or.inr (Or.inr ⟨fs', hf, rfl, l, hl, hlen, hll, hall⟩))))

/-! ### delta files (`useDelta = true`) -/

/-- A delta shard cut to a proper prefix, a listed delta shard removed, delta/files.json or
    delta/checksums.json unparsable, delta/checksums.json of another length: error — stated on any
    image whose data part is intact. -/
theorem C11_delta_truncated_err (h : Bytes → Nat) (cmp : Bytes → Bytes → Int)
    (parts dparts : List (List Bytes))
    (hval : ∀ d ∈ parts.flatten, 0 < d.length ∧ d.length < 2 ^ 32)
    (hdval : ∀ d ∈ dparts.flatten, 0 < d.length ∧ d.length < 2 ^ 32)
    (cs' : List Bytes) (hlen : cs'.length = dparts.length) (dsums' : Manifest (List Nat))
    (j : Nat) (hj : j < dparts.length) (hpre : cs'[j]'(by omega) <+: writeFile dparts[j])
    (hne : cs'[j]'(by omega) ≠ writeFile dparts[j]) :
    load h cmp true { storeImageDelta h parts dparts with delta := filesOf 0 cs', dsums := dsums' }
      = .err := by
  rw [load_delta_of_base (ver := 1) (files := shardNames parts.length) (shards := parts) rfl rfl
    (loadShards_written h (by decide) Gen.checksumMismatch
      (fun has s => checksumMismatch_self has s) parts hval)]
  simp only [storeImageDelta, storeImage, dfilesOf]
  have hc := loadShards_canonical h 1 Gen.deltaChecksumMismatch dsums' (filesOf 0 cs') cs'
    (fun i _ => lookup_filesOf_zero i _)
  rw [hlen] at hc
  rw [hc]
  cases hs : sumsOf dsums' dparts.length with
  | none => rfl
  | some p =>
    obtain ⟨has, ss⟩ := p
    simp only
    have hl := sumsOf_length hs
    rw [allSome_zip_none _ ss cs' (by omega) j (by omega)
      (shardResult_truncated h (by decide) _ _ dparts[j]
        (validItems_of_flatten hdval (List.getElem_mem hj)) _ hpre hne)]

theorem C11_delta_removed_shard_err (h : Bytes → Nat) (cmp : Bytes → Bytes → Int)
    (parts dparts : List (List Bytes))
    (hval : ∀ d ∈ parts.flatten, 0 < d.length ∧ d.length < 2 ^ 32)
    (j : Nat) (hj : j < dparts.length) :
    load h cmp true { storeImageDelta h parts dparts with
      delta := removeFile (shardName j) (storeImageDelta h parts dparts).delta } = .err := by
  rw [load_delta_of_base (ver := 1) (files := shardNames parts.length) (shards := parts) rfl rfl
    (loadShards_written h (by decide) Gen.checksumMismatch
      (fun has s => checksumMismatch_self has s) parts hval)]
  simp only [storeImageDelta, storeImage, dfilesOf, loadShards]
  rw [sumsOf_parsed (by simp)]
  simp only
  rw [openAll_missing (mem_shardNames hj) (lookup_removeFile_self _ _)]

theorem C11_delta_manifest_err (h : Bytes → Nat) (cmp : Bytes → Bytes → Int) (img : Image)
    (hu : img.dfiles = .unparsable ∨ img.dsums = .unparsable ∨
      ∃ fs cs, img.dfiles = .parsed fs ∧ img.dsums = .parsed cs ∧ cs.length ≠ fs.length) :
    load h cmp true img = .err := by
  unfold load
  cases versionOf img.version with
  | none => rfl
  | some ver =>
    cases img.files with
    | absent => rfl
    | unparsable => rfl
    | parsed files =>
      simp only
      cases loadShards h ver Gen.checksumMismatch files img.sums img.data with
      | none => rfl
      | some shards =>
        simp only [Bool.not_true, Bool.false_eq_true, if_false]
        rcases hu with hu | hu | ⟨fs, cs, h1, h2, h3⟩
        · rw [hu]; rfl
        · cases hd : dfilesOf img.dfiles with
          | none => rfl
          | some dfiles => simp [loadShards, hu, sumsOf]
        · rw [h1]
          simp [dfilesOf, loadShards, h2, sumsOf, h3]

/-- **R5 (recorded finding D16)** delta/files.json removed: indistinguishable from a backup taken
    without delta files; the delta items are dropped silently.  The result is what the data shards
    deliver — the stored content exactly when the shards missed nothing. -/
theorem C11_delta_files_removed (h : Bytes → Nat) (cmp : Bytes → Bytes → Int)
    (parts dparts : List (List Bytes))
    (hval : ∀ d ∈ parts.flatten, 0 < d.length ∧ d.length < 2 ^ 32) :
    load h cmp true { storeImageDelta h parts dparts with dfiles := .absent, dsums := .absent }
      = .ok parts.flatten := by
  rw [load_delta_of_base (ver := 1) (files := shardNames parts.length) (shards := parts) rfl rfl
    (loadShards_written h (by decide) Gen.checksumMismatch
      (fun has s => checksumMismatch_self has s) parts hval)]
  simp [dfilesOf, loadShards, sumsOf, openAll, readShards, insertAll]

/-! ### termination -/

/-- **C11_terminates.**  LoadFromDisk never hangs or panics: the outcome function is total (every
    image has an outcome, `err` or `ok`), and the worker pool of the fixed code — `c ≥ 1` workers, any
    number of shards, any set of failing shards — cannot deadlock and stops after a bounded number of
    steps under every schedule, in the state "all shards taken, channel closed, all workers done". -/
theorem C11_terminates (h : Bytes → Nat) (cmp : Bytes → Bytes → Int) (useDelta : Bool) (img : Image) :
    (load h cmp useDelta img = .err ∨ ∃ items, load h cmp useDelta img = .ok items) ∧
    ∀ (n c : Nat) (fails : Nat → Bool), 0 < c →
      ∀ sched st, LoadPool.run false fails n (LoadPool.init c) sched = some st →
        sched.length ≤ LoadPool.measure n (LoadPool.init c) ∧
        (LoadPool.final n st ∨ ∃ a st', LoadPool.step false fails n st a = some st') := by
  refine ⟨?_, fun n c fails hc sched st hrun => LoadPool.pool_no_deadlock n c fails hc sched st hrun⟩
  cases load h cmp useDelta img with
  | err => exact Or.inl rfl
  | ok items => exact Or.inr ⟨items, rfl⟩

/-! ### non-vacuity: a concrete backup, and a concrete damaged image for each residual -/

/-- three shards, the middle one empty -/
def exParts : List (List Bytes) := [[[1], [2]], [], [[3, 3]]]
def exContent : List Bytes := [[1], [2], [3, 3]]

example : exParts.flatten = exContent := by decide
example : ∀ d ∈ exContent, 0 < d.length ∧ d.length < 2 ^ 32 := by decide

/-- every one of the 10 proper prefixes of shard 2 (7 + 4 - 1 bytes…) is rejected, whatever `h` -/
example (h : Bytes → Nat) (n : Nat) (hn : n < 10) :
    load h cmpBytes false { storeImage h exParts with
      data := filesOf 0 [writeFile [[1], [2]], writeFile [], (writeFile [[3, 3]]).take n] } = .err := by
  have := C11_truncated_shard_err h cmpBytes exContent (by decide) exParts (by decide)
    [writeFile [[1], [2]], writeFile [], (writeFile [[3, 3]]).take n] rfl
    (.parsed (exParts.map (writerChecksum h))) 2 (by decide) (List.take_prefix _ _)
    (by
      intro he
      have hl := congrArg List.length he
      simp only [List.getElem_cons_succ, List.getElem_cons_zero, exParts, List.length_take] at hl
      have h10 : (writeFile [[3, 3]]).length = 10 := by decide
      omega) false .absent .absent []
  exact this

/-- TEST (by evaluation, constant hash): the damage constructors do produce different images -/
example : ({ storeImage (fun _ => 0) exParts with
    data := removeFile (shardName 1) (storeImage (fun _ => 0) exParts).data } : Image).data
    = [("shard-0", writeFile [[1], [2]]), ("shard-2", writeFile [[3, 3]])] := by decide

/-- XOR-of-CRC does not see the order of the items -/
theorem writerChecksum_swap (h : Bytes → Nat) (a b : Bytes) :
    writerChecksum h [a, b] = writerChecksum h [b, a] := by
  simp only [writerChecksum, List.foldl_cons, List.foldl_nil, Nat.zero_xor]
  exact Nat.xor_comm _ _

/-- **R1 is inhabited for EVERY hash**: shard 0 rewritten with its two items exchanged has the
    stored checksum; LoadFromDisk returns the items out of order, without error. -/
def r1Image (h : Bytes → Nat) : Image :=
  { storeImage h exParts with data := filesOf 0 [writeFile [[2], [1]], writeFile [], writeFile [[3, 3]]] }

example (h : Bytes → Nat) : Damage h exParts (r1Image h) := Damage.replaceShards _ rfl

example (h : Bytes → Nat) : R1 h exParts (r1Image h) := by
  refine ⟨_, rfl, rfl, 0, by decide, by decide, by decide, [[2], [1]], [], ?_, by decide⟩
  have := readFile_written h (ver := 1) (by decide) [[2], [1]] (by decide) []
  rw [List.append_nil] at this
  simp only [List.getElem_cons_zero, exParts]
  rw [this, writerChecksum_swap]

example (h : Bytes → Nat) : load h cmpBytes false (r1Image h) = .ok [[2], [1], [3, 3]] := by
  have : r1Image h = storeImage h [[[2], [1]], [], [[3, 3]]] := by
    simp only [r1Image, storeImage, exParts, List.map_cons, List.map_nil, shardFiles]
    rw [writerChecksum_swap]
    rfl
  rw [this]
  exact load_storeImage h cmpBytes _ (by decide) (by decide)

/-- **R2 is inhabited for EVERY hash**: a shard holding the same byte string twice has XOR checksum
    0; with nitro.json removed the loader sees an empty database. -/
def r2Parts : List (List Bytes) := [[[5], [5]]]

example (h : Bytes → Nat) : Damage h r2Parts { storeImage h r2Parts with version := .absent } :=
  Damage.removeVersion

theorem r2_checksum (h : Bytes → Nat) : ∀ p ∈ r2Parts, writerChecksum h p = 0 := by
  intro p hp
  simp only [r2Parts, List.mem_singleton] at hp
  subst hp
  simp [writerChecksum]

example (h : Bytes → Nat) :
    load h cmpBytes false { storeImage h r2Parts with version := .absent } = .ok [] := by
  rw [C11_version0_small_items h cmpBytes r2Parts (by decide) .absent (Or.inl rfl),
    if_pos (r2_checksum h)]

example (h : Bytes → Nat) : R2 h r2Parts { storeImage h r2Parts with version := .absent } := by
  refine ⟨Or.inl rfl, 0, by decide, by decide, ?_⟩
  obtain ⟨tail, ht⟩ := readFile_v0_small h [[5], [5]] [] (by decide)
  rw [List.append_nil] at ht
  refine ⟨[], tail, ?_, by decide⟩
  simp only [r2Parts, List.getElem_cons_zero]
  rw [ht, r2_checksum h _ (by simp [r2Parts])]

/-- with the real content of `exParts` and a hash under which some checksum is non-zero the same
    damage IS detected -/
example : load (fun b => b.length) cmpBytes false
    { storeImage (fun b => b.length) exParts with version := .absent } = .err := by decide

/-- **R3 is inhabited for every hash**: checksums.json removed and shard 2 rewritten -/
def r3Image (h : Bytes → Nat) : Image :=
  { storeImage h exParts with
    data := filesOf 0 [writeFile [[1], [2]], writeFile [], writeFile [[9]]], sums := .absent }

example (h : Bytes → Nat) : Damage h exParts (r3Image h) := Damage.replaceShardsNoSums _ rfl

example (h : Bytes → Nat) : R3 h exParts (r3Image h) := by
  refine ⟨_, rfl, rfl, 2, by decide, by decide, by decide, [[9]], writerChecksum h [[9]], [], ?_, by decide⟩
  have := readFile_written h (ver := 1) (by decide) [[9]] (by decide) []
  rw [List.append_nil] at this
  exact this

/-- TEST (by evaluation, constant hash): the silently different outcome -/
example : load (fun _ => 0) cmpBytes false (r3Image (fun _ => 0)) = .ok [[1], [2], [9]] := by decide

/-- **R4 is inhabited for every hash**: two shards with the same items in different order have equal
    checksums; files.json with the two names exchanged loads without error, in the other order. -/
def r4Parts : List (List Bytes) := [[[1], [2]], [[2], [1]]]

example (h : Bytes → Nat) :
    Damage h r4Parts { storeImage h r4Parts with files := .parsed ["shard-1", "shard-0"] } :=
  Damage.alterFiles _

example (h : Bytes → Nat) :
    load h cmpBytes false { storeImage h r4Parts with files := .parsed ["shard-1", "shard-0"] }
      = .ok [[2], [1], [1], [2]] := by
  have hw1 := readFile_written h (ver := 1) (by decide) [[1], [2]] (by decide) []
  have hw2 := readFile_written h (ver := 1) (by decide) [[2], [1]] (by decide) []
  rw [List.append_nil] at hw1 hw2
  have e0 : shardName 0 = "shard-0" := by decide
  have e1 : shardName 1 = "shard-1" := by decide
  simp [load, storeImage, versionOf, loadShards, r4Parts, sumsOf, shardFiles, filesOf, openAll, lookup,
    e0, e1, readShards, hw1, hw2, writerChecksum_swap h [2] [1], checksumMismatch_self]

example (h : Bytes → Nat) :
    R4 h cmpBytes r4Parts { storeImage h r4Parts with files := .parsed ["shard-1", "shard-0"] } := by
  have hw1 := readFile_written h (ver := 1) (by decide) [[1], [2]] (by decide) []
  have hw2 := readFile_written h (ver := 1) (by decide) [[2], [1]] (by decide) []
  rw [List.append_nil] at hw1 hw2
  have e0 : shardName 0 = "shard-0" := by decide
  have e1 : shardName 1 = "shard-1" := by decide
  refine ⟨["shard-1", "shard-0"], by decide, rfl, [[[2], [1]], [[1], [2]]], ?_, rfl, rfl, ?_⟩
  · simp [load, storeImage, versionOf, loadShards, r4Parts, sumsOf, shardFiles, filesOf, openAll, lookup,
      e0, e1, readShards, hw1, hw2, writerChecksum_swap h [2] [1], checksumMismatch_self]
  · intro k hk hl hp
    match k, hk with
    | 0, _ => exact ⟨1, by decide, e1.symm, rfl, writerChecksum_swap h [2] [1]⟩
    | 1, _ => exact ⟨0, by decide, e0.symm, rfl, writerChecksum_swap h [1] [2]⟩

/-- TEST (by evaluation): a concrete image for which nothing is residual and the general theorem
    gives `err` — shard 0 replaced by one flipped payload byte, hash = byte sum -/
example : load (fun b => b.foldl (fun a x => a + x.toNat) 0) cmpBytes false
    { storeImage (fun b => b.foldl (fun a x => a + x.toNat) 0) exParts with
      data := filesOf 0 [[0,0,0,1, 9, 0,0,0,1, 2, 0,0,0,0], writeFile [], writeFile [[3, 3]]] }
    = .err := by decide

end NitroVerif.Props.C11
