import NitroVerif.Props.C04
/-!
  # C07 — Every allocated block is released exactly once by Close

  "With user-managed memory, once all snapshots and iterators have been closed and Close() has returned,
  every block obtained from the configured allocator has been returned to it exactly once — none leaked,
  none returned twice, none returned that was never allocated.  This holds for every history, including
  rejected Puts, same-epoch and cross-epoch deletes, backups, and instances populated by LoadFromDisk."

  Model: `Model/MvccConc.lean` (see C04).  Quantifier: every number of writers and readers, every
  schedule of API calls, thread steps and job steps that ends in a state where `shutdown` is allowed —
  nothing in progress, no job pending, every snapshot reference and iterator released (the protocol
  refuses `shutdown` otherwise, exactly as the harness does; `Nitro.Close()` itself waits for that).
  Each block follows one of four paths, all covered by the ownership invariant:
    rejected Put            → freed in the PUT_INSERT segment (node, then item);
    same-epoch delete       → DEL_NODE_PHYS unlinks, DEL_NODE_FLUSH attaches the single node to a session;
    older-epoch delete      → writer garbage list → snapshot gclist → collection job → session;
                              sessions → destructor → free job → allocator;
    still linked at Close   → freed by `shutdown`, with the two sentinels.
  Not modelled here (stated, not proved): backups and `LoadFromDisk` — they are the subject of the
  sequential engine (`Props/C05`, defect D-LoadFromDisk-sentinels was repaired in /repo).
-/
namespace NitroVerif.Props.C07
open NitroVerif NitroVerif.MvccConc NitroVerif.Props.C04

/-- **C07_balanced.**  For every schedule from the initial state that reaches a state in which
    `shutdown` is allowed, after `shutdown`:
    * the allocator saw no double or invalid free (`bad = []`);
    * no block is in the free log twice;
    * the freed blocks are exactly the allocated blocks (as sets; with the two `Nodup`s: the free log is
      a permutation of the allocation log) — nothing leaked, nothing freed that was never allocated;
    * the answer of the engine is `live=0 badfree=0`. -/
theorem C07_balanced (fx : Bool) (nw nr : Nat) (sched : List Act)
    (hd : (run (init nw nr fx) sched).down = false) (hq : quiescent (run (init nw nr fx) sched) = true) :
    let σ' := (step (run (init nw nr fx) sched) .shutdown).1
    σ'.bad = [] ∧ σ'.freed.Nodup ∧ σ'.allocd.Nodup ∧ (∀ b, b ∈ σ'.freed ↔ b ∈ σ'.allocd) ∧
      σ'.freed.Perm σ'.allocd ∧
      (step (run (init nw nr fx) sched) .shutdown).2 = .closed 0 0 := by
  have hr : ReachableFx fx nw nr (run (init nw nr fx) sched) := reachable_run .init sched
  have hinv := inv_reachable hr hd
  have hst : step (run (init nw nr fx) sched) .shutdown = shutdown (run (init nw nr fx) sched) := by
    unfold step; simp [hd]
  obtain ⟨h1, h2, h3, h4, h5⟩ := shutdown_books hinv hq
  have hand : ((shutdown (run (init nw nr fx) sched)).1.allocd).Nodup := by rw [h2]; exact hinv.own.a_nodup
  have hperm := (List.perm_ext_iff_of_nodup h4 hand).mpr h5
  simp only [hst]
  refine ⟨h1, h4, hand, h5, hperm, ?_⟩
  -- the answer
  have hlen := hperm.length_eq
  have e : shutdown (run (init nw nr fx) sched) =
      ({ (free (free (freeNodes (run (init nw nr fx) sched) ((run (init nw nr fx) sched).store.map (·.id))) .head)
            .tail) with down := true },
       .closed (liveCount (free (free (freeNodes (run (init nw nr fx) sched)
          ((run (init nw nr fx) sched).store.map (·.id))) .head) .tail))
        (free (free (freeNodes (run (init nw nr fx) sched)
          ((run (init nw nr fx) sched).store.map (·.id))) .head) .tail).bad.length) := by
    unfold shutdown; simp [hq]
  rw [e] at h1 hlen ⊢
  simp only at h1 hlen ⊢
  unfold liveCount
  rw [h1, hlen]; simp

/-- the four paths, block by block: in every reachable state that has not been shut down a block is
    live iff its node has an owner (and, for the node block, is not a Put still parked before its
    `Insert`); a block that is neither live nor unallocated was freed exactly once (C04_no_double_free) -/
theorem C07_live_iff_owned {fx : Bool} {nw nr : Nat} {σ : State} (hr : ReachableFx fx nw nr σ) (hd : σ.down = false)
    (n : Nat) :
    (isLive σ (.item n) = true ↔ 0 < own σ n) ∧
    (isLive σ (.node n) = true ↔ (0 < own σ n ∧ ¬ reserved σ.threads n)) := by
  have h := inv_reachable hr hd
  constructor
  · constructor
    · intro hl
      rw [isLive_iff] at hl
      have hlt := (h.own.a_item n).mp hl.1
      cases hc : own σ n with
      | zero => exact absurd ((h.own.f_item n).mpr ⟨hlt, hc⟩) hl.2
      | succ c => omega
    · exact live_item_of_own h
  · constructor
    · intro hl
      rw [isLive_iff] at hl
      have ha := (h.own.a_node n).mp hl.1
      refine ⟨?_, ha.2⟩
      cases hc : own σ n with
      | zero => exact absurd ((h.own.f_node n).mpr ⟨ha.1, hc⟩) hl.2
      | succ c => omega
    · rintro ⟨h1, h2⟩; exact live_node_of_own h h1 h2

/-- at quiescence nothing is in the pipeline: every live block belongs to a linked node or is a sentinel -/
theorem C07_quiescent_only_linked {fx : Bool} {nw nr : Nat} {σ : State} (hr : ReachableFx fx nw nr σ)
    (hd : σ.down = false) (hq : quiescent σ = true) (n : Nat) :
    isLive σ (.item n) = true ↔ n ∈ storeIds σ.store := by
  have h := inv_reachable hr hd
  rw [(C07_live_iff_owned hr hd n).1, (own_quiet h (quiescent_spec hq)).1 n]
  exact List.count_pos_iff

/-! ### non-vacuity (tests, evaluated by the kernel): the schedule of `C04.demo` (a rejected Put added)
    ends quiescent; `shutdown` answers `live=0 badfree=0` -/

def demo : List Act := [.put 1 5 0, .step 1] ++ C04.demo

example :
    let σ := run (init 2 1) demo
    σ.down = false ∧ quiescent σ = true ∧ (step σ .shutdown).2 = .closed 0 0 ∧
      (step σ .shutdown).1.freed.length = 10 ∧ (step σ .shutdown).1.allocd.length = 10 := by decide

/-- a schedule that stops while a free job is pending is refused (`bad-op`) -/
example : (step (run (init 2 1) (demo.take 33)) .shutdown).2 = .bad := by decide

end NitroVerif.Props.C07
