import NitroVerif.Lemmas.SkipConcAbs
/-!
  C14, concurrent part, on the executable model M5.

  Property (concurrent part), verbatim: "at quiescence the unmarked nodes on each level form a strictly
  increasing chain head→tail that is a sub-sequence of the level below, and the statistics equal a walk."

  FULL STATEMENT (not reached): for every run that ends in a quiescent state, on every level `l ≤ level` the walk
  from the head over the level-`l` words meets only unmarked nodes, in strictly increasing key order, ends at the
  tail, is a sub-sequence of the walk of level `l-1`, and `levelNodesCount`, `softDeletes = 0`,
  `nodeAllocs` equal what the walk counts.

  PROVED (`C14_level0_chain_partial`), in EVERY reachable state — quiescent or not — of every run of any number
  of threads: on level 0 the tail is reachable from the head, every node that is unmarked at level 0 lies on that
  path, and keys strictly increase along it (so the unmarked nodes form a strictly increasing chain head→tail).
  NOT PROVED: that no MARKED node is left on the level-0 path at quiescence (each successful deleter's cleaning
  findPath unlinks it, which needs a progress argument over the search), and the statistics.
  The upper-level statement was FALSE for the code before the fix "Insert4 does not link an upper level in front
  of a deleted successor" (`C14_upper_level_unfixed_witness`, a kernel-checked trace found by the differential
  fuzzer and replayed on the then-current /repo, script tests/w1.txt): an Insert of an equal key racing with a
  Delete linked the new node IN FRONT of the deleted node at level 1; the deleter's cleaning search stops at the
  new node, so at quiescence the marked node was still linked at level 1 (`walk` printed `L1=1,!1`) next to a
  live node with the SAME key.  On the fixed code the same schedule ends clean (test below) and 58 random
  differential runs showed no marked node in any quiescent walk; the upper-level statement itself remains
  unproved (it needs the progress argument named above, per level).
-/
namespace NitroVerif.SkipConc
open NitroVerif

theorem C14_level0_chain_partial (n : Nat) (as : List Action) :
    let h := ((Sys.init n).run as).sh.heap
    Reach h 0 1 ∧
    (∀ a, unmarked0 h a → Reach h 0 a ∧ (a = 1 ∨ Reach h a 1)) ∧
    (∀ a b, Reach h a b → a = b ∨ Key.lt (keyOf h a) (keyOf h b)) := by
  intro h
  have hI := run_invR (InvR_init n) as
  refine ⟨hI.2.1, fun a ha => ⟨hI.2.2 a ha, ?_⟩, fun a b r => r.key hI.1.1⟩
  -- the tail has no successor word, so the path from `a` cannot pass beyond it
  rcases (hI.2.2 a ha).det hI.2.1 with r | r
  · exact .inr r
  · cases r with
    | refl => exact .inl rfl
    | step hw _ => rw [hI.1.1.tailNoWord] at hw; simp at hw

/-- non-vacuity (kernel-checked TEST): after two inserts the path is head → 3 → 5 → tail -/
example : let h := ((Sys.init 1).run [.start 0 (.ins 5 0), .step 0, .step 0, .step 0,
                                     .start 0 (.ins 3 0), .step 0, .step 0, .step 0]).sh.heap
    word? h 0 0 = some (3, false) ∧ word? h 3 0 = some (2, false) ∧ word? h 2 0 = some (1, false) ∧
    keyOf h 3 = .fin 3 ∧ keyOf h 2 = .fin 5 := by decide

/-- the schedule of tests/w1fixed.txt: T0 inserts 1 (height 1); T1 = Insert(1) records succs[1] = that node, T0 =
    Delete(1) marks it and parks at DEL_SEARCH, T1 publishes its node and goes on with level 1, T0 finishes its
    cleaning search.  (Before the fix T1 returns after 7 of its 14 segments; `step` of an idle thread is a no-op,
    so the same schedule serves both configurations.) -/
def w1Acts : List Action :=
  [.start 0 (.ins 1 1), .step 0, .step 0, .step 0, .step 0, .step 0, .step 0, .step 0, .step 0,
   .start 1 (.ins 1 1), .step 1, .step 1,
   .start 0 (.del 1), .step 0, .step 0, .step 0, .step 0, .step 0, .step 0,
   .step 1, .step 1, .step 1, .step 1, .step 1, .step 1, .step 1,
   .step 1, .step 1, .step 1, .step 1, .step 1, .step 1, .step 1,
   .step 0, .step 0, .step 0, .step 0, .step 0]

/-- WITNESS against the code BEFORE the fix (`fixedSucc = false`), a kernel-checked trace of the model that was
    found by the differential fuzzer and replayed on the then-current /repo (tests/w1.txt): at a quiescent state
    the level-1 walk meets a live node with key 1 and then a MARKED node with key 1, level 0 only the live one. -/
theorem C14_upper_level_unfixed_witness :
    ((Sys.initWith false 2).run w1Acts).quiescent = true ∧
    walk ((Sys.initWith false 2).run w1Acts).sh.heap 0 = [(1, false)] ∧
    walk ((Sys.initWith false 2).run w1Acts).sh.heap 1 = [(1, false), (1, true)] := by decide +kernel

/-- the same schedule on the code as it is now (TEST, kernel-checked): Insert4 sees that the recorded successor
    is deleted, searches again (which unlinks it) and links in front of the tail -/
example :
    ((Sys.init 2).run w1Acts).quiescent = true ∧
    walk ((Sys.init 2).run w1Acts).sh.heap 0 = [(1, false)] ∧
    walk ((Sys.init 2).run w1Acts).sh.heap 1 = [(1, false)] := by decide +kernel

end NitroVerif.SkipConc
