import NitroVerif.Lemmas.SkipConcSearch
/-!
  C15, on the executable model M5 (`Model/SkipConc.lean`).

  Property, verbatim: "An iterator that runs while other goroutines insert and delete never goes backwards (an
  item equal to the previous one can appear only if it was deleted and re-inserted meanwhile), returns only items
  that were present at some moment during the scan, and returns every item that was present for the whole
  duration of the scan; Seek(x) lands on an item >= x with no stable item in between."

  FULL STATEMENTS (not reached):
    C15_monotone  for every run and every iterator, the keys of its successive positions are strictly
                  increasing, except that an equal key may follow when the previous node was marked and another
                  node with that key was published in between (the re-search path of `Next`);
    C15_present   every position was linked at level 0 and unmarked at some state between the start of the scan
                  and the moment it is returned;
    C15_complete  a node published before the scan starts and unmarked when it ends, with key in the scanned
                  range, is one of the positions; `Seek x` lands on the first such node ≥ x.

  PROVED, for any heap satisfying the invariant (hence in every reachable state of every run of any number of
  threads, `C13_invariant`) and any thread:
    `C15_monotone_partial`  a `Next` that completes by the plain advance or by a successful helpDelete moves the
                            cursor to a node with a STRICTLY larger key, which is the level-0 successor recorded
                            in the old position's word in the state of the read (so it is a published node that
                            was linked behind the old position: the `present` part for these two paths);
    `C15_seek_ge_partial`   `Seek x` (and the re-search of `Next`, which is the same findPath) ends with
                            `key prev < x ≤ key curr` for the positions it installs;
    `C15_research_ge_partial` the re-search path of `Next`, and the automatic `Refresh` at the END of `Next` (finite
                            `SetRefreshInterval`), install a position whose key is not smaller than the old one
                            (the searched item IS the old position's item, an invariant of the call):
                            together with `C15_monotone_partial` an iterator never goes backwards on any path;
    `C15_refresh_after_step` the refresh re-seeks the item the cursor has just moved TO (it starts after the step:
                            the model's `afterNext`; `skeleton_SkiplistIteratorNext_ok` pins `it.Refresh` as the
                            last call of Next), so no item is returned twice or skipped because of it;
    `C15_seek_no_stable_between` `Seek x` (and the re-search of `Next`) lands on a position such that every node
                            published before the call, still unmarked and with key ≥ x is that position or lies
                            behind it: "no stable item in between" — through the search invariant `SInv`, no
                            history variables.
  NOT PROVED: for the re-search path of `Next`, that an EQUAL key means a deleted and re-inserted item (the old
  node is marked — that is why helpDelete was tried — but that the new node was published later needs the
  history), `C15_present` for positions
  reached through findPath when the recorded predecessor was marked meanwhile, and `C15_complete` for a whole
  scan (the per-step ingredient is there: the plain advance moves to the level-0 successor, which by H1/H2 skips
  no unmarked node; the scan-long statement needs the analogue of `SInv` for iterators across calls).
-/
namespace NitroVerif.SkipConc
open NitroVerif

/-- `Next` by the plain advance or a successful helpDelete: strictly larger key, and the new position is the
    level-0 successor recorded in the old position's word.  The segment has completed the move when it returns
    (`idle`) or parks at ITER_REFRESH (the automatic refresh comes AFTER the move, `afterNext`). -/
theorem C15_monotone_partial {sh : Shared} {th : Thread} (H : HInv sh.heap) (hT : TInv sh.heap th) (it : Nat)
    (hpc : th.pc = .iterNext it ∨ ∃ next, th.pc = .iterHelp it next)
    (hret : (stepThread sh th).2.1.pc = .idle ∨ (stepThread sh th).2.1.pc = .iterRefresh it) :
    Key.lt (keyOf sh.heap (th.iter it).curr) (keyOf sh.heap ((stepThread sh th).2.1.iter it).curr) ∧
    (∃ m, word? sh.heap (th.iter it).curr 0 = some (((stepThread sh th).2.1.iter it).curr, m)) ∧
    ((stepThread sh th).2.1.iter it).curr < sh.heap.length := by
  have hvalid : ∃ k, keyOf sh.heap (th.iter it).curr = .fin k := by
    have hp := hT.2.2
    rcases hpc with hpc | ⟨next, hpc⟩
    · rw [hpc] at hp; exact hp
    · rw [hpc] at hp; exact hp.2
  obtain ⟨k, hk⟩ := hvalid
  have hc := lt_of_keyOf_fin hk
  have hc1 : (th.iter it).curr ≠ 1 := by
    intro e; rw [e, H.tailKey] at hk; simp at hk
  have hp := hT.2.2
  rcases hpc with hpc | ⟨next, hpc⟩
  · have hst : stepThread sh th = stepIterNext sh th it := by unfold stepThread; rw [hpc]
    rw [hst] at hret ⊢
    unfold stepIterNext at hret ⊢
    simp only [] at hret ⊢
    by_cases hm : (getNext sh.heap (th.iter it).curr 0).2 = true
    · rw [if_pos hm] at hret; rcases hret with h | h <;> simp at h
    · rw [if_neg hm]
      obtain ⟨⟨p, m⟩, hw⟩ := Option.isSome_iff_exists.mp (H.word0 _ hc hc1)
      have hpos := (afterNext_pos sh (th.moveIter it (th.iter it).curr (getNext sh.heap (th.iter it).curr 0).1) it).2
      rw [moveIter_iter] at hpos
      rw [hpos]
      simp only [getNext_of_word hw]
      exact ⟨H.h5 _ _ _ hw, ⟨m, hw⟩, H.lt_of_word hw⟩
  · rw [hpc] at hp
    simp only [PCInv] at hp
    have hst : stepThread sh th = stepIterHelp sh th it next := by unfold stepThread; rw [hpc]
    rw [hst] at hret ⊢
    unfold stepIterHelp at hret ⊢
    simp only [] at hret ⊢
    by_cases hs : (dcas sh.heap (th.iter it).prev 0 (th.iter it).curr next false).2 = true
    · rw [if_pos hs]
      have hpos := (afterNext_pos (helpStats sh (dcas sh.heap (th.iter it).prev 0 (th.iter it).curr next false).1
        (dcas sh.heap (th.iter it).prev 0 (th.iter it).curr next false).2 0 (th.iter it).curr)
        (th.moveIter it (th.iter it).prev next) it).2
      rw [moveIter_iter] at hpos
      rw [hpos]
      exact ⟨H.h5 _ _ _ hp.1, ⟨true, hp.1⟩, H.lt_of_word hp.1⟩
    · rw [if_neg hs] at hret; rcases hret with h | h <;> simp [startFind] at h

/-- the positions installed by a findPath that serves an iterator (`Seek`, the re-search of `Next`, the Seek of
    `Refresh`) bracket the searched item: `key prev < item ≤ key curr` -/
theorem C15_seek_ge_partial {sh : Shared} {th : Thread} (hT : TInv sh.heap th) (fp : FP) (rr : Bool) (it : Nat)
    (hpc : th.pc = .findNext fp rr)
    (hcont : fp.cont = .iterSeek it ∨ fp.cont = .iterNext it ∨ fp.cont = .iterRefresh it)
    (hret : (stepThread sh th).2.2 ≠ "at HELP_DELETE" ∧ (stepThread sh th).2.2 ≠ "at FIND_NEXT" ∧
            (stepThread sh th).2.2 ≠ "at FIND_LEVEL") :
    Key.lt (keyOf sh.heap ((stepThread sh th).2.1.iter it).prev) (.fin fp.item) ∧
    ¬ Key.lt (keyOf sh.heap ((stepThread sh th).2.1.iter it).curr) (.fin fp.item) := by
  obtain ⟨hb, _, hp⟩ := hT
  rw [hpc] at hp
  unfold stepThread at hret ⊢
  rw [hpc] at hret ⊢
  simp only [stepFindNext] at hret ⊢
  generalize hfp1 : (if rr = true then { fp with curr := (getNext sh.heap fp.prev fp.i).1 } else fp) = fp1 at hret ⊢
  have hitem : fp1.item = fp.item := by rw [← hfp1]; split <;> rfl
  have hcont1 : fp1.cont = fp.cont := by rw [← hfp1]; split <;> rfl
  have hprev : fp1.prev = fp.prev := by rw [← hfp1]; split <;> rfl
  rw [← hcont1] at hcont
  obtain ⟨⟨h1p, h1c⟩, h2⟩ := afterRead_iter (sh := sh) (th := th) fp1 _ _ it hb hcont hret
  rw [h1p, h1c]
  refine ⟨by rw [hprev]; exact hp.1.2.2.1, ?_⟩
  intro c
  rw [← hitem] at c
  exact h2 ((findAdvance_iff _).mpr ((compare_neg_iff _ _).mpr c))

/-- the re-search path of `Next` (helpDelete failed, findPath for the item under the cursor) and the automatic
    `Refresh` at the end of `Next` (Seek of the item under the cursor — the item the cursor has just moved TO, not
    yet returned to the caller) never go backwards: the position installed has a key that is NOT smaller than the
    key of the position before the search -/
theorem C15_research_ge_partial {sh : Shared} {th : Thread} (hT : TInv sh.heap th) (fp : FP) (rr : Bool) (it : Nat)
    (hpc : th.pc = .findNext fp rr) (hcont : fp.cont = .iterNext it ∨ fp.cont = .iterRefresh it)
    (hret : (stepThread sh th).2.2 ≠ "at HELP_DELETE" ∧ (stepThread sh th).2.2 ≠ "at FIND_NEXT" ∧
            (stepThread sh th).2.2 ≠ "at FIND_LEVEL") :
    ¬ Key.lt (keyOf sh.heap ((stepThread sh th).2.1.iter it).curr) (keyOf sh.heap (th.iter it).curr) := by
  have hp := hT.2.2
  rw [hpc] at hp
  have hc : ContInv sh.heap th fp.item fp.cont := hp.1.2.2.2.1
  have hkey : keyOf sh.heap (th.iter it).curr = .fin fp.item := by
    rcases hcont with h | h <;> (rw [h] at hc; simpa only [ContInv] using hc)
  rw [hkey]
  exact (C15_seek_ge_partial hT fp rr it hpc (by rcases hcont with h | h <;> simp [h]) hret).2

/-- the automatic refresh is started only AFTER the cursor has moved, for the item now under the cursor: the
    segment parked at ITER_REFRESH searches for the key of the current position -/
theorem C15_refresh_after_step {sh : Shared} {th : Thread} (hT : TInv sh.heap th) (it : Nat)
    (hpc : th.pc = .iterRefresh it) :
    ∃ fp, (stepThread sh th).2.1.pc = .findLevel fp ∧ fp.cont = .iterRefresh it ∧
      keyOf sh.heap (th.iter it).curr = .fin fp.item := by
  have hp := hT.2.2
  rw [hpc] at hp
  obtain ⟨k, hk⟩ := hp
  unfold stepThread
  rw [hpc]
  simp only [stepIterRefresh, startFind]
  exact ⟨_, rfl, rfl, by rw [hk]; rfl⟩

/-- `Seek x` lands on an item ≥ x WITH NO STABLE ITEM IN BETWEEN (and so do the re-search of `Next` and the Seek of
    `Refresh`): every node that was published before this findPath call started, is still unmarked at level 0 and
    has a key ≥ x is the landing position itself or has a larger key than it.  `HInv`, `TInv`, `SInv` hold in every
    reachable state. -/
theorem C15_seek_no_stable_between {sh : Shared} {th : Thread} (H : HInv sh.heap) (hT : TInv sh.heap th)
    (hS : SInv sh.heap th) (fp : FP) (rr : Bool) (it : Nat)
    (hpc : th.pc = .findNext fp rr)
    (hcont : fp.cont = .iterSeek it ∨ fp.cont = .iterNext it ∨ fp.cont = .iterRefresh it)
    (hret : (stepThread sh th).2.2 ≠ "at HELP_DELETE" ∧ (stepThread sh th).2.2 ≠ "at FIND_NEXT" ∧
            (stepThread sh th).2.2 ≠ "at FIND_LEVEL") :
    ∀ n, n < fp.startLen → unmarked0 sh.heap n → ¬ Key.lt (keyOf sh.heap n) (.fin fp.item) →
      n = ((stepThread sh th).2.1.iter it).curr ∨
      Key.lt (keyOf sh.heap ((stepThread sh th).2.1.iter it).curr) (keyOf sh.heap n) := by
  have hst : stepThread sh th = stepFindNext sh th fp rr := by unfold stepThread; rw [hpc]
  rw [hst] at hret ⊢
  obtain ⟨_, hall⟩ := search_end H fp rr hpc hT hS hret
  have hb := hT.1
  unfold stepFindNext at hret ⊢
  generalize hfp1 : (if rr = true then { fp with curr := (getNext sh.heap fp.prev fp.i).1 } else fp) = fp1 at hret ⊢
  have hcont1 : fp1.cont = fp.cont := by rw [← hfp1]; split <;> rfl
  have hcurr : fp1.curr = (if rr = true then (getNext sh.heap fp.prev fp.i).1 else fp.curr) := by
    rw [← hfp1]; split <;> rfl
  rw [← hcont1] at hcont
  simp only [] at hret ⊢
  obtain ⟨⟨_, h1c⟩, _⟩ := afterRead_iter (sh := sh) (th := th) fp1 _ _ it hb hcont hret
  rw [h1c]
  simp only [hcurr]
  intro n hn hu hk
  exact hall n ⟨hn, hu, hk⟩

/-! ### non-vacuity: concrete runs (kernel-checked TESTS) -/

/-- 3 and 5 inserted; iterator 1 of thread 0 sits on 3 and is parked at ITER_NEXT -/
def iterActs : List Action :=
  [.start 0 (.ins 3 0), .step 0, .step 0, .step 0,
   .start 0 (.ins 5 0), .step 0, .step 0, .step 0, .step 0,
   .start 0 (.itFirst 1), .start 0 (.itNext 1)]

def iterDemo : Sys := (Sys.init 1).run iterActs

example : ∃ th, iterDemo.threads[0]? = some th ∧ th.pc = .iterNext 1 ∧
    keyOf iterDemo.sh.heap (th.iter 1).curr = .fin 3 ∧ (stepThread iterDemo.sh th).2.1.pc = .idle ∧
    keyOf iterDemo.sh.heap ((stepThread iterDemo.sh th).2.1.iter 1).curr = .fin 5 :=
  ⟨_, rfl, rfl, by decide, rfl, by decide⟩

/-- Seek(4) on the same list, parked before the last read at level 0 -/
def seekDemo : Sys := (Sys.init 1).run (iterActs.take 9 ++ [.start 0 (.itSeek 2 4), .step 0, .step 0])

example : ∃ th fp, seekDemo.threads[0]? = some th ∧ th.pc = .findNext fp false ∧ fp.cont = .iterSeek 2 ∧
    fp.item = 4 ∧ (stepThread seekDemo.sh th).2.2 = "ret 5" :=
  ⟨_, _, rfl, rfl, rfl, rfl, by decide⟩

/-- the refresh path: interval 1 on the iterator of `iterDemo`; its Next moves 3 → 5 and parks at ITER_REFRESH -/
def refreshDemo : Sys := (Sys.init 1).run (iterActs.take 10 ++ [.start 0 (.itInterval 1 1), .start 0 (.itNext 1)])

example : ∃ th, refreshDemo.threads[0]? = some th ∧ th.pc = .iterNext 1 ∧
    (stepThread refreshDemo.sh th).2.2 = "at ITER_REFRESH" ∧
    (stepThread refreshDemo.sh th).2.1.pc = .iterRefresh 1 ∧
    keyOf refreshDemo.sh.heap ((stepThread refreshDemo.sh th).2.1.iter 1).curr = .fin 5 :=
  ⟨_, rfl, rfl, by decide, rfl, by decide⟩

end NitroVerif.SkipConc
