import NitroVerif.Lemmas.SkipConcScanRet
/-!
  C15 over WHOLE SCANS, on the executable model M5 (`Model/SkipConc.lean`), explicit `Refresh()` calls included.

  Property, verbatim: "An iterator that runs while other goroutines insert and delete never goes backwards (an item
  equal to the previous one can appear only if it was deleted and re-inserted meanwhile), returns only items that
  were present at some moment during the scan, and returns every item that was present for the whole duration of
  the scan; Seek(x) lands on an item >= x with no stable item in between.  Refreshing or pausing the iterator does not
  change these guarantees."

  Setting.  Any number `n` of threads, any run `as` from `Sys.init n` (any interleaving of call entries and segments
  of all threads), any thread `t` and iterator name `it`.  A SCAN of `(t, it)` = an effective `start t (it_first it)`
  or `start t (it_seek it x)` followed by `it_next it` calls of thread `t` (the automatic `Refresh` at the end of a
  Next included) AND explicit `it_refresh it` calls of thread `t` (`Op.itRefresh`, the public `Refresh()`) at any place
  between them, any number of them, interleaved arbitrarily with inserts, deletes, lookups and other iterators of
  every thread.  (Pause/Resume only release / re-acquire the barrier session, which M5 does not model: for the model
  they are no-ops, the driver answers `ret` without touching the state.)
  The history variables of the scan live in `Ghost` (`Lemmas/SkipConcScanInv.lean`), updated by `ghostAct` next to
  the model in the instrumented run `Sys.runG`; `C15_runG_projection` proves that the instrumented run projects
  onto `Sys.run`, so nothing is assumed about the model.  `Ghost.positions` = the cursor node after each completed
  call of the current scan, `Ghost.stamps` = the number of published nodes in the state of each of those returns,
  `Ghost.startLen` = the number of published nodes when the scan's first call started, `Ghost.lo` = the seek key.

  WHAT AN EXPLICIT REFRESH RECORDS (the choice made in `Ghost.onStep`, `Lemmas/SkipConcScanInv.lean`):
    * it returns on the node that is already the last position (the node under the cursor is not deleted: `Seek(item)`
      finds it again): nothing new is delivered, `positions` does NOT grow; only the stamp
      of that last position is replaced by the number of published nodes at this return (which makes the equal-key
      clause of `Rel` for the NEXT position stronger: "published after the refresh returned");
    * it returns on another node (the node under the cursor was deleted meanwhile and `Seek(item)` landed behind it):
      that node is now the cursor — what the user's next `Get()` returns — so it counts as a returned position and is
      appended with its stamp, exactly like the result of a Next; `Rel` is proved for it.
    In both cases the call counts as a return (`Ghost.returns` grows), so `C15_present_partial` speaks about it.
    The "same node → do not grow" rule is applied to explicit refreshes ONLY (`Ghost.refreshing`, set by the accepted
    entry of `it_refresh`, cleared by its return): a Seek or a Next (its automatic refresh included) always appends.
  All four theorems below are statements about every run of the instrumented system, hence about scans with explicit
  refreshes anywhere; `refreshScanDemo` is a concrete one.

  PROVED (all for every run, by invariants; no enumeration):
    `C15_complete`        every node published before the scan started, unmarked at level 0 now, with seek key ≤ key
                          and key < key of the cursor is one of the positions returned so far — in EVERY state in
                          which no call of the scan is in progress (in particular in the state in which a call
                          returns); the cursor is the last position.  With one position (just after Seek) this is
                          "Seek(x) lands on an item ≥ x with no stable item in between".
    `C15_complete_at_end` when the scan has reached the end (cursor = tail) every stable node was returned.
    `C15_monotone`        along `positions`, each position and the next one: strictly larger key, or the same key
                          with the earlier node marked and the later node published after the earlier position
                          was returned (`Rel`, chained by `MonoF`).
    `C15_present_partial` every position returned is, in the state of the return, a published node ON THE LEVEL-0
                          CHAIN FROM THE HEAD (not yet unlinked); when the returning segment was the end of a findPath
                          (Seek, the re-search of Next, the Seek of Refresh) it is the tail or UNMARKED in that state.
  REFUTED for the model AND the real code (replayed with the Go harness, scripts below):
    `C15_present` as "every returned position was unmarked at level 0 at some state during the scan":
    `C15_present_refuted`, `C15_present_counterexample` — a node marked before the scan started (its Delete parked at DEL_SEARCH, i.e.
    between softDelete and the cleaning findPath) is returned by SeekFirst, and (second witness) by the plain
    advance of Next.  Neither `SeekFirst` nor `Next` looks at the mark of the node it lands on; the mark is only
    seen by the NEXT call of Next.  What holds instead is `C15_present_partial`.  (The item is "present" only in the
    sense that its Delete has not returned yet.)

  skipconc scripts of the two witnesses (PROTOCOL.md; Go harness and Lean driver agree line by line):
      engine skipconc / case 1 / threads 2
      start 0 ins 5 lvl=0 / step 0 / step 0 / step 0                  -> ret true
      start 1 del 5 / step 1 / step 1 / step 1                        -> at DEL_SEARCH   (5 is marked at level 0)
      start 0 it_first 1                                              -> ret 5           (marked before the scan began)
      engine skipconc / case 2 / threads 2
      start 0 ins 3 lvl=0 / step 0 ×3 ; start 0 ins 5 lvl=0 / step 0 ×4
      start 1 del 5 / step 1 ×4                                       -> at DEL_SEARCH
      start 0 it_first 1                                              -> ret 3
      start 0 it_next 1 / step 0                                      -> ret 5           (marked before the scan began)
-/
namespace NitroVerif.SkipConc
open NitroVerif

theorem InvS_init (n : Nat) : InvS (Sys.init n) := InvS_initWith true n

/-- the instrumented run is the run of the model plus history variables -/
theorem C15_runG_projection (t it : Nat) (s : Sys) (g : Ghost) (as : List Action) :
    (Sys.runG t it (s, g) as).1 = s.run as := runG_fst t it (s, g) as

/-- COMPLETENESS of a scan (`it_next` and explicit `it_refresh` calls in any order after the first call).  In every
    state of every run in which a scan of `(t, it)` is active and no call on the
    iterator is in progress (so: in the state a call of the scan — Seek, Next or explicit Refresh — returns, and in
    every later state up to the next
    call), the cursor is the last position returned, and every node `a` that was published before the scan's first
    call started, is not the head, is unmarked at level 0 in this state, has a key ≥ the seek key (no bound for
    SeekFirst) and a key < the key of the cursor (the cursor may be the tail) is one of the positions returned. -/
theorem C15_complete (n : Nat) (as : List Action) (t it : Nat) (th : Thread)
    (hact : (Sys.runG t it (Sys.init n, {}) as).2.active = true)
    (hth : (Sys.runG t it (Sys.init n, {}) as).1.threads[t]? = some th)
    (hcall : pcIter th.pc ≠ some it) :
    (∃ ps0, (Sys.runG t it (Sys.init n, {}) as).2.positions = ps0 ++ [(th.iter it).curr]) ∧
    ∀ a, a < (Sys.runG t it (Sys.init n, {}) as).2.startLen → a ≠ headId →
      unmarked0 (Sys.runG t it (Sys.init n, {}) as).1.sh.heap a →
      (∀ x, (Sys.runG t it (Sys.init n, {}) as).2.lo = some x →
        ¬ Key.lt (keyOf (Sys.runG t it (Sys.init n, {}) as).1.sh.heap a) (.fin x)) →
      Key.lt (keyOf (Sys.runG t it (Sys.init n, {}) as).1.sh.heap a)
        (keyOf (Sys.runG t it (Sys.init n, {}) as).1.sh.heap (th.iter it).curr) →
      a ∈ (Sys.runG t it (Sys.init n, {}) as).2.positions := by
  obtain ⟨hI, hS⟩ := runG_scan (t := t) (it := it) (InvS_init n) (ScanSys_init t it _) as
  obtain ⟨th0, h0, hL, ph⟩ := hS hact
  rw [hth] at h0
  simp at h0
  subst h0
  rcases ph with ⟨_, hc, hm⟩ | ⟨hp, _⟩ | ⟨fp, hf, hcn, _⟩
  · refine ⟨hm, fun a ha h0 hu hlo hlt => ?_⟩
    rcases hc a ⟨ha, h0, hu, hlo⟩ with hmem | hr
    · exact hmem
    · rcases hr.key hI.1.1.1 with e | l
      · obtain ⟨ps0, hps⟩ := hm
        rw [hps, ← e]; simp
      · exact absurd hlt (Key.lt_asymm l)
  · exact absurd (by rw [hp]; rfl) hcall
  · exact absurd (by rw [pcIter_of_searchOf hf]; exact hcn) hcall

/-- when the scan has reached the end (by a Next or by an explicit Refresh whose Seek found nothing behind the deleted
    cursor node), every node that was published before it started and is still unmarked (key ≥ the seek key) has been
    returned -/
theorem C15_complete_at_end (n : Nat) (as : List Action) (t it : Nat) (th : Thread)
    (hact : (Sys.runG t it (Sys.init n, {}) as).2.active = true)
    (hth : (Sys.runG t it (Sys.init n, {}) as).1.threads[t]? = some th)
    (hcall : pcIter th.pc ≠ some it) (hend : (th.iter it).curr = tailId) :
    ∀ a, a < (Sys.runG t it (Sys.init n, {}) as).2.startLen → a ≠ headId →
      unmarked0 (Sys.runG t it (Sys.init n, {}) as).1.sh.heap a →
      (∀ x, (Sys.runG t it (Sys.init n, {}) as).2.lo = some x →
        ¬ Key.lt (keyOf (Sys.runG t it (Sys.init n, {}) as).1.sh.heap a) (.fin x)) →
      a ∈ (Sys.runG t it (Sys.init n, {}) as).2.positions := by
  intro a ha h0 hu hlo
  have hI := (runG_scan (t := t) (it := it) (InvS_init n) (ScanSys_init t it _) as).1
  have H := hI.1.1.1
  refine (C15_complete n as t it th hact hth hcall).2 a ha h0 hu hlo ?_
  rw [hend]
  show Key.lt _ (keyOf _ 1)
  rw [H.tailKey]
  obtain ⟨p, hp⟩ := hu
  have hal := word?_lt hp
  have ha1 : a ≠ 1 := by
    intro e; rw [e, H.tailNoWord] at hp; simp at hp
  have h0' : a ≠ 0 := h0
  obtain ⟨k, hk⟩ := H.finKey a (by omega) hal
  rw [hk]; simp [Key.lt]

/-- MONOTONICITY of a scan.  In every state of every run in which a scan of `(t, it)` is active: along the positions
    returned so far, each position `c` (returned in a state with `L` published nodes) and the next position `c'`
    satisfy `Rel`: `key c < key c'`, or `key c = key c'` and `c` is marked (deleted) and `c'` was published after `c`
    was returned (`L ≤ c'`: node ids are publication order).  Explicit refreshes: one that lands on the last position
    again adds no position (so no pair "same node twice" arises, `Rel` is NOT weakened) and renews that position's
    stamp `L` to the number of published nodes at the refresh's return; one that lands on another node `c'` appends
    it, and `Rel` holds between the previous position and `c'`. -/
theorem C15_monotone (n : Nat) (as : List Action) (t it : Nat)
    (hact : (Sys.runG t it (Sys.init n, {}) as).2.active = true) :
    MonoF (Sys.runG t it (Sys.init n, {}) as).1.sh.heap (Sys.runG t it (Sys.init n, {}) as).2.positions
      (Sys.runG t it (Sys.init n, {}) as).2.stamps ∧
    (Sys.runG t it (Sys.init n, {}) as).2.positions.length = (Sys.runG t it (Sys.init n, {}) as).2.stamps.length := by
  obtain ⟨_, hS⟩ := runG_mono (t := t) (it := it) (InvS_init n) (SysP_init MonoInv t it _) as
  obtain ⟨th0, _, hlen, _, hm, _⟩ := hS hact
  exact ⟨hm, hlen⟩

/-- `MonoF` unfolded for two neighbours: positions `i` and `i + 1` -/
theorem MonoF_get {h : Heap} : ∀ (ps ss : List Nat) (i c c' L : Nat), MonoF h ps ss →
    ps[i]? = some c → ps[i + 1]? = some c' → ss[i]? = some L → Rel h c L c'
  | [], _, _, _, _, _, _, hc, _, _ => by simp at hc
  | _ :: _, [], _, _, _, _, _, _, _, hL => by simp at hL
  | p :: ps, s :: ss, 0, c, c', L, m, hc, hc', hL => by
    simp only [MonoF] at m
    simp at hc hL
    subst hc hL
    refine m.1 c' ?_
    simpa [List.head?_eq_getElem?] using hc'
  | p :: ps, s :: ss, i + 1, c, c', L, m, hc, hc', hL => by
    simp only [MonoF] at m
    exact MonoF_get ps ss i c c' L m.2 (by simpa using hc) (by simpa using hc') (by simpa using hL)

/-- PRESENCE, what the code guarantees.  Whenever an action makes a call of a scan of `(t, it)` return a position
    (the ghost counter `returns` grows), the position `c` recorded is a published node that is on the level-0 chain
    from the head in the state of the return; if the returning segment was the end of a findPath (Seek, the
    re-search of Next, the Seek of the automatic Refresh, the Seek of an EXPLICIT Refresh — always) `c` is the tail or
    unmarked at level 0 in that state.  An explicit refresh counts as a return also when it lands on the last position
    again (`positions` is then unchanged and `c` is that last position): the refresh has re-validated it. -/
theorem C15_present_partial (n : Nat) (as : List Action) (a : Action) (t it : Nat)
    (hr : (Sys.runG t it (Sys.init n, {}) (as ++ [a])).2.returns =
          (Sys.runG t it (Sys.init n, {}) as).2.returns + 1) :
    ∃ c ps0, (Sys.runG t it (Sys.init n, {}) (as ++ [a])).2.positions = ps0 ++ [c] ∧
      c < (Sys.runG t it (Sys.init n, {}) (as ++ [a])).1.sh.heap.length ∧
      Reach (Sys.runG t it (Sys.init n, {}) (as ++ [a])).1.sh.heap 0 c ∧
      (∀ th, (Sys.runG t it (Sys.init n, {}) as).1.threads[t]? = some th → (searchOf th.pc).isSome →
        c = tailId ∨ unmarked0 (Sys.runG t it (Sys.init n, {}) (as ++ [a])).1.sh.heap c) := by
  have hI := (runG_scan (t := t) (it := it) (InvS_init n) (ScanSys_init t it _) as).1
  rw [runG_append] at hr ⊢
  exact actG_return_reach hI a hr

/-- HOW AN EXPLICIT REFRESH IS RECORDED (the ghost rule, as a theorem about the instrumented run).  If after `as` an
    explicit refresh of `(t, it)` is in progress and the segment `step t'` makes it return (`returns` grows), then
    `t' = t`, the refresh is over, and with `c` the node under the cursor in the resulting state: either `c` is the
    last position already and the list of positions is UNCHANGED (the refresh delivered nothing new), or `c` is another
    node and is APPENDED (the node under the cursor was deleted; `c` is what the next `Get()` returns) — and then
    `C15_monotone` relates it to the previous position, `C15_complete` covers everything before it. -/
theorem C15_refresh_return (n : Nat) (as : List Action) (t' t it : Nat)
    (hrf : (Sys.runG t it (Sys.init n, {}) as).2.refreshing = true)
    (hr : (Sys.runG t it (Sys.init n, {}) (as ++ [.step t'])).2.returns =
          (Sys.runG t it (Sys.init n, {}) as).2.returns + 1) :
    t' = t ∧ (Sys.runG t it (Sys.init n, {}) (as ++ [.step t'])).2.refreshing = false ∧
    ∃ th' c, (Sys.runG t it (Sys.init n, {}) (as ++ [.step t'])).1.threads[t]? = some th' ∧ (th'.iter it).curr = c ∧
      (((Sys.runG t it (Sys.init n, {}) (as ++ [.step t'])).2.positions =
          (Sys.runG t it (Sys.init n, {}) as).2.positions ∧
        (Sys.runG t it (Sys.init n, {}) as).2.positions.getLast? = some c) ∨
       ((Sys.runG t it (Sys.init n, {}) (as ++ [.step t'])).2.positions =
          (Sys.runG t it (Sys.init n, {}) as).2.positions ++ [c] ∧
        (Sys.runG t it (Sys.init n, {}) as).2.positions.getLast? ≠ some c)) := by
  rw [runG_append] at hr ⊢
  exact actG_refresh_return t' hrf hr

/-! ### non-vacuity and witnesses: concrete runs (kernel-checked TESTS, not proofs of the property) -/

/-- a whole call: entry and `k` segments (segments of an idle thread are no-ops) -/
def call (t : Nat) (op : Op) (k : Nat) : List Action := .start t op :: List.replicate k (.step t)

/-- thread 1 inserts 2 4 6 8; thread 0 scans with iterator 1: SeekFirst (→ 2); thread 1 inserts 1 (BEFORE the
    cursor); Next (→ 4); thread 1 deletes 4 (the node UNDER the cursor) and 8 (AHEAD); Next (cursor marked, helpDelete
    fails, re-search → 6); Next (→ end).  Go harness and Lean driver agree on this script line by line. -/
def scanDemo : List Action :=
  call 1 (.ins 2 0) 3 ++ call 1 (.ins 4 0) 4 ++ call 1 (.ins 6 0) 5 ++ call 1 (.ins 8 0) 6 ++
  [.start 0 (.itFirst 1)] ++ call 1 (.ins 1 0) 3 ++ call 0 (.itNext 1) 1 ++ call 1 (.del 4) 12 ++
  call 1 (.del 8) 14 ++ call 0 (.itNext 1) 6 ++ call 0 (.itNext 1) 1

set_option maxRecDepth 8000 in
/-- the hypotheses of `C15_complete` / `C15_complete_at_end` / `C15_monotone` are met by `scanDemo`: the scan is active,
    thread 0 is idle with the cursor on the tail, the positions are the nodes of 2, 4, 6 and the tail; nodes 2 and 4
    (keys 2 and 6) were published before the scan and are unmarked, node 3 (key 4) is marked and was returned, node 6
    (key 1) was published during the scan -/
example : (Sys.runG 0 1 (Sys.init 2, {}) scanDemo).2.active = true ∧
    (Sys.runG 0 1 (Sys.init 2, {}) scanDemo).2.positions = [2, 3, 4, 1] ∧
    (Sys.runG 0 1 (Sys.init 2, {}) scanDemo).2.stamps = [6, 7, 7, 7] ∧
    (Sys.runG 0 1 (Sys.init 2, {}) scanDemo).2.startLen = 6 := by decide

set_option maxRecDepth 8000 in
example : ∃ th, (Sys.runG 0 1 (Sys.init 2, {}) scanDemo).1.threads[0]? = some th ∧ isIdle th.pc = true ∧
    (th.iter 1).curr = tailId := ⟨_, rfl, by decide, by decide⟩

set_option maxRecDepth 8000 in
example : word? (Sys.runG 0 1 (Sys.init 2, {}) scanDemo).1.sh.heap 2 0 = some (4, false) ∧
    word? (Sys.runG 0 1 (Sys.init 2, {}) scanDemo).1.sh.heap 4 0 = some (1, false) ∧
    word? (Sys.runG 0 1 (Sys.init 2, {}) scanDemo).1.sh.heap 3 0 = some (4, true) ∧
    keyOf (Sys.runG 0 1 (Sys.init 2, {}) scanDemo).1.sh.heap 6 = .fin 1 := by decide

/-- A SCAN WITH EXPLICIT REFRESHES.  Thread 1 inserts 2 4 6 (nodes 2 3 4); thread 0 scans with iterator 1:
    SeekFirst (→ 2), Next (→ 4, node 3); explicit Refresh #1 with the cursor node intact (→ 4, the same node: nothing
    recorded but the return); thread 1 DELETES 4 — the node under the cursor — completely (marked and unlinked) and
    inserts 7 (node 5); explicit Refresh #2: `Seek(4)` lands on node 4 (key 6), a NEW position, stamp 6; thread 1
    inserts 8 (node 6); explicit Refresh #3 lands on node 4 again: no new position, its stamp is renewed 6 → 7;
    Next (→ 7), Next (→ 8), Next (→ end).  (Segments of an idle thread are no-ops, so the step counts are upper bounds.) -/
def refreshScanDemo : List Action :=
  call 1 (.ins 2 0) 3 ++ call 1 (.ins 4 0) 4 ++ call 1 (.ins 6 0) 5 ++
  [.start 0 (.itFirst 1)] ++ call 0 (.itNext 1) 1 ++ call 0 (.itRefresh 1) 5 ++ call 1 (.del 4) 12 ++
  call 1 (.ins 7 0) 6 ++ call 0 (.itRefresh 1) 5 ++ call 1 (.ins 8 0) 7 ++ call 0 (.itRefresh 1) 6 ++
  call 0 (.itNext 1) 1 ++ call 0 (.itNext 1) 1 ++ call 0 (.itNext 1) 1

set_option maxRecDepth 8000 in
/-- the refresh in the middle of `refreshScanDemo` whose cursor node was deleted by the other thread: before it
    (48 actions) the thread is inside the Seek of the explicit refresh, the cursor node 3 (key 4) is marked, the
    positions are [2, 3]; its last segment appends node 4 (key 6) and counts as a return (these are the hypotheses of
    `C15_refresh_return` with `as = refreshScanDemo.take 48`, `t' = 0`, and its second alternative) -/
example : (Sys.runG 0 1 (Sys.init 2, {}) (refreshScanDemo.take 48)).2.positions = [2, 3] ∧
    (Sys.runG 0 1 (Sys.init 2, {}) (refreshScanDemo.take 48)).2.refreshing = true ∧
    word? (Sys.runG 0 1 (Sys.init 2, {}) (refreshScanDemo.take 48)).1.sh.heap 3 0 = some (4, true) ∧
    (Sys.runG 0 1 (Sys.init 2, {}) (refreshScanDemo.take 49)).2.positions = [2, 3, 4] ∧
    (Sys.runG 0 1 (Sys.init 2, {}) (refreshScanDemo.take 49)).2.stamps = [5, 5, 6] ∧
    (Sys.runG 0 1 (Sys.init 2, {}) (refreshScanDemo.take 49)).2.refreshing = false ∧
    (Sys.runG 0 1 (Sys.init 2, {}) (refreshScanDemo.take 49)).2.returns =
      (Sys.runG 0 1 (Sys.init 2, {}) (refreshScanDemo.take 48)).2.returns + 1 ∧
    keyOf (Sys.runG 0 1 (Sys.init 2, {}) (refreshScanDemo.take 49)).1.sh.heap 4 = .fin 6 := by decide

/-- action 49 of `refreshScanDemo` is a segment of thread 0 (the shape `as ++ [.step t']` of `C15_refresh_return`) -/
example : refreshScanDemo.take 49 = refreshScanDemo.take 48 ++ [.step 0] := rfl

set_option maxRecDepth 8000 in
/-- the two refreshes of `refreshScanDemo` that land on the same node: #1 (actions 19–23) leaves positions and stamps
    as they are (no node was published meanwhile) and counts as a return; #3 (actions 59–63) leaves the positions
    and renews the last stamp 6 → 7 -/
example : (Sys.runG 0 1 (Sys.init 2, {}) (refreshScanDemo.take 18)).2.positions = [2, 3] ∧
    (Sys.runG 0 1 (Sys.init 2, {}) (refreshScanDemo.take 23)).2.positions = [2, 3] ∧
    (Sys.runG 0 1 (Sys.init 2, {}) (refreshScanDemo.take 23)).2.stamps = [5, 5] ∧
    (Sys.runG 0 1 (Sys.init 2, {}) (refreshScanDemo.take 23)).2.returns =
      (Sys.runG 0 1 (Sys.init 2, {}) (refreshScanDemo.take 18)).2.returns + 1 ∧
    (Sys.runG 0 1 (Sys.init 2, {}) (refreshScanDemo.take 58)).2.stamps = [5, 5, 6] ∧
    (Sys.runG 0 1 (Sys.init 2, {}) (refreshScanDemo.take 63)).2.positions = [2, 3, 4] ∧
    (Sys.runG 0 1 (Sys.init 2, {}) (refreshScanDemo.take 63)).2.stamps = [5, 5, 7] := by decide

set_option maxRecDepth 8000 in
/-- the hypotheses of `C15_complete` / `C15_complete_at_end` / `C15_monotone` are met by `refreshScanDemo`: at the end
    the scan is active, thread 0 is idle with the cursor on the tail; positions = nodes of 2, 4, 6, 7, 8 and the tail;
    nodes 2 and 4 (keys 2, 6) were published before the scan (startLen 5) and are unmarked, node 3 (key 4) is marked -/
example : (Sys.runG 0 1 (Sys.init 2, {}) refreshScanDemo).2.active = true ∧
    (Sys.runG 0 1 (Sys.init 2, {}) refreshScanDemo).2.positions = [2, 3, 4, 5, 6, 1] ∧
    (Sys.runG 0 1 (Sys.init 2, {}) refreshScanDemo).2.stamps = [5, 5, 7, 7, 7, 7] ∧
    (Sys.runG 0 1 (Sys.init 2, {}) refreshScanDemo).2.startLen = 5 ∧
    (Sys.runG 0 1 (Sys.init 2, {}) refreshScanDemo).2.returns = 8 ∧
    word? (Sys.runG 0 1 (Sys.init 2, {}) refreshScanDemo).1.sh.heap 2 0 = some (4, false) ∧
    word? (Sys.runG 0 1 (Sys.init 2, {}) refreshScanDemo).1.sh.heap 3 0 = some (4, true) ∧
    word? (Sys.runG 0 1 (Sys.init 2, {}) refreshScanDemo).1.sh.heap 4 0 = some (5, false) := by decide

set_option maxRecDepth 8000 in
example : ∃ th, (Sys.runG 0 1 (Sys.init 2, {}) refreshScanDemo).1.threads[0]? = some th ∧ isIdle th.pc = true ∧
    (th.iter 1).curr = tailId := ⟨_, rfl, by decide, by decide⟩

/-- WITNESS 1 against `C15_present` ("unmarked at some state during the scan"): 5 inserted; thread 1's Delete(5) has
    marked the node at level 0 and is parked at DEL_SEARCH; then thread 0 starts a scan with SeekFirst -/
def presentCex : List Action :=
  call 0 (.ins 5 0) 3 ++ call 1 (.del 5) 3 ++ [.start 0 (.itFirst 1)]

/-- before the scan starts node 2 (item 5) is marked at level 0 and the deleter is between softDelete and its
    cleaning search; the scan's first call returns exactly that node.  (Marks are permanent — `Ext.marked` — so the
    node is unmarked at NO state of the scan.) -/
theorem C15_present_counterexample :
    word? (Sys.runG 0 1 (Sys.init 2, {}) (presentCex.take 8)).1.sh.heap 2 0 = some (1, true) ∧
    (Sys.runG 0 1 (Sys.init 2, {}) (presentCex.take 8)).2.active = false ∧
    (∃ th, (Sys.runG 0 1 (Sys.init 2, {}) (presentCex.take 8)).1.threads[1]? = some th ∧
      th.pc = .delSearch 5) ∧
    (Sys.runG 0 1 (Sys.init 2, {}) presentCex).2.positions = [2] ∧
    (Sys.runG 0 1 (Sys.init 2, {}) presentCex).2.startLen = 3 ∧
    keyOf (Sys.runG 0 1 (Sys.init 2, {}) presentCex).1.sh.heap 2 = .fin 5 := by
  refine ⟨by decide, by decide, ⟨_, rfl, rfl⟩, by decide, by decide, by decide⟩

/-- WITNESS 2: the plain advance of `Next` moves onto a node that was marked before the scan started -/
def presentCex2 : List Action :=
  call 0 (.ins 3 0) 3 ++ call 0 (.ins 5 0) 4 ++ call 1 (.del 5) 4 ++ [.start 0 (.itFirst 1)] ++ call 0 (.itNext 1) 1

theorem C15_present_counterexample_next :
    word? (Sys.runG 0 1 (Sys.init 2, {}) (presentCex2.take 14)).1.sh.heap 3 0 = some (1, true) ∧
    (Sys.runG 0 1 (Sys.init 2, {}) (presentCex2.take 14)).2.active = false ∧
    (Sys.runG 0 1 (Sys.init 2, {}) presentCex2).2.positions = [2, 3] ∧
    (Sys.runG 0 1 (Sys.init 2, {}) presentCex2).2.startLen = 4 ∧
    keyOf (Sys.runG 0 1 (Sys.init 2, {}) presentCex2).1.sh.heap 3 = .fin 5 := by
  refine ⟨by decide, by decide, by decide, by decide, by decide⟩

/-- `C15_present`, read as "every returned position was unmarked at level 0 in some state of the run in which the scan
    was active", is FALSE of the model: refuted by `presentCex` (WITNESS, kernel-checked by `decide`; the same script
    gives the same outputs on the real code) -/
theorem C15_present_refuted :
    ¬ ∀ (n : Nat) (as : List Action) (t it : Nat), ∀ c ∈ (Sys.runG t it (Sys.init n, {}) as).2.positions,
        ∃ k, k ≤ as.length ∧ (Sys.runG t it (Sys.init n, {}) (as.take k)).2.active = true ∧
          unmarked0 ((Sys.init n).run (as.take k)).sh.heap c := by
  intro h
  obtain ⟨k, hk, ha, hu⟩ := h 2 presentCex 0 1 2 (by decide)
  have h8 : ∀ k, k ≤ 8 → (Sys.runG 0 1 (Sys.init 2, {}) (presentCex.take k)).2.active = false := by decide
  have hlen : presentCex.length = 9 := by decide
  rw [hlen] at hk
  by_cases hk8 : k ≤ 8
  · rw [h8 k hk8] at ha; simp at ha
  · have h9 : k = 9 := by omega
    subst h9
    obtain ⟨p, hp⟩ := hu
    have hw : word? ((Sys.init 2).run (presentCex.take 9)).sh.heap 2 0 = some (1, true) := by decide
    rw [hw] at hp; simp at hp

/-- non-vacuity of `C15_present_partial`: the last action of `presentCex` is a return -/
example : (Sys.runG 0 1 (Sys.init 2, {}) presentCex).2.returns =
    (Sys.runG 0 1 (Sys.init 2, {}) (presentCex.take 8)).2.returns + 1 := by decide

/-- non-vacuity of the equal-key clause of `Rel`: 3 inserted, scan on it, 3 deleted and re-inserted, Next -/
def reinsertDemo : List Action :=
  call 1 (.ins 3 0) 3 ++ [.start 0 (.itFirst 1)] ++ call 1 (.del 3) 8 ++ call 1 (.ins 3 0) 3 ++ call 0 (.itNext 1) 6

example : (Sys.runG 0 1 (Sys.init 2, {}) reinsertDemo).2.positions = [2, 3] ∧
    (Sys.runG 0 1 (Sys.init 2, {}) reinsertDemo).2.stamps = [3, 4] ∧
    keyOf (Sys.runG 0 1 (Sys.init 2, {}) reinsertDemo).1.sh.heap 2 = .fin 3 ∧
    keyOf (Sys.runG 0 1 (Sys.init 2, {}) reinsertDemo).1.sh.heap 3 = .fin 3 ∧
    word? (Sys.runG 0 1 (Sys.init 2, {}) reinsertDemo).1.sh.heap 2 0 = some (1, true) := by decide

end NitroVerif.SkipConc
