import NitroVerif.Lemmas.RefCountZero
/-!
  # C08 — Snapshot reference count never leaves zero

  "Open (and NewIterator) on a snapshot succeeds iff the snapshot has not yet been fully released;
  after the Close that drops the last reference no Open succeeds, NewIterator returns nil, and the
  snapshot is retired for collection exactly once.  Any interleaving of Open, NewIterator and Close
  across goroutines leaves the collector able to make progress on all later snapshots."

  Quantifier: all interleavings of Open/NewIterator/Iterator.Close/Snapshot.Close (and GC) from any
  number `n` of goroutines on any number `k` of snapshots — every schedule `sched` that the small-step
  model `Model/RefCount.lean` accepts from `init n k` (a refused action leaves the state unchanged,
  so nothing is lost), including Open racing with the final Close and the proof-only stale-iterator
  exit of the collector.  `NewIterator` is `Open` (nil ⇔ false) and `Iterator.Close` is
  `Snapshot.Close` as far as the count is concerned.

  The theorems are about the protocol as repaired in /repo (`cfg.fixedOpen = true`, CAS loop;
  `cfg.fixedGC = true`, re-check after dropping the flag).  The two witnesses at the end show that
  each repair is necessary; they are `decide`d concrete schedules and labelled as such.
-/
namespace NitroVerif.Props.C08
open NitroVerif.RefCount

/-- **C08_zero_is_final.**  In every state reached by any schedule with any number of threads and
    snapshots, for every snapshot `s`:
    * counting invariant: `refCount = held references + references carried by Closes parked before
      their decrement` (so it is never negative);
    * `s` has been moved to the dead list at most once, and exactly once iff its count is 0 and no
      closer is still parked before `CLOSE_RETIRE s` (`snapshots.Delete`) or `CLOSE_RETIRE2 s`
      (`gcsnapshots.Insert`); while the count is positive nobody is at either point; at most one
      thread ever is;
    * once the count is 0 it stays 0 along every continuation, and every `Open` on `s` that returns
      during that continuation returns false. -/
theorem C08_zero_is_final (cfg : Cfg) (hO : cfg.fixedOpen = true) (n k : Nat)
    (sched : List (Nat × Act)) (st : St) (evs : List Ev)
    (hrun : exec cfg (init n k) sched = some (st, evs)) (s : Nat) (h1 : 1 ≤ s) (h2 : s ≤ k) :
    refs st s = (held st s : Int) + (closing st s : Int)
    ∧ retiredCount st s ≤ 1
    ∧ (retiredCount st s = 1 ↔ refs st s = 0 ∧ retiring st s = 0 ∧ retiring2 st s = 0)
    ∧ (refs st s ≠ 0 → retiring st s = 0 ∧ retiring2 st s = 0)
    ∧ retiring st s + retiring2 st s ≤ 1
    ∧ (refs st s = 0 → ∀ (sched' : List (Nat × Act)) (st' : St) (evs' : List Ev),
        exec cfg st sched' = some (st', evs') →
          refs st' s = 0 ∧ ∀ b, Ev.retOpen s b ∈ evs' → b = false) := by
  obtain ⟨hinv, hlen⟩ := reach_inv hO hrun
  have h2' : s ≤ st.snaps.length := by omega
  have hc := hinv.count s h1 h2'
  have hr := hinv.retire s h1 h2'
  rw [closing_eq, retiring_eq, retiring2_eq]
  unfold refs held retiredCount
  refine ⟨hc, ?_, ?_, ?_, ?_, ?_⟩
  · split at hr <;> omega
  · split at hr <;> constructor <;> intro <;> omega
  · intro hne; simp only [hne, if_false] at hr; omega
  · split at hr <;> omega
  · intro hz sched'
    clear hrun hc hr
    induction sched' generalizing st with
    | nil =>
      intro st' evs' he
      simp [exec] at he
      obtain ⟨rfl, rfl⟩ := he
      exact ⟨hz, by simp⟩
    | cons x r ih =>
      intro st' evs' he
      obtain ⟨i, a⟩ := x
      simp only [exec] at he
      split at he
      · simp at he
      · rename_i st1 e hstep
        split at he
        · simp at he
        · rename_i st2 es hrest
          simp at he
          obtain ⟨rfl, rfl⟩ := he
          have hst := step_sound hstep
          have hz1 := hst.zero_final hO hinv s h1 h2' hz
          have hinv1 := hst.inv hO hinv
          have hlen1 : st1.snaps.length = k := by
            have := exec_len (cfg := cfg) [(i, a)] st st1 [e] (by simp [exec, hstep])
            omega
          have := ih st1 hinv1 hlen1 (by omega) hz1.1 st2 es hrest
          refine ⟨this.1, ?_⟩
          intro b hb
          rcases List.mem_cons.mp hb with hb | hb
          · cases b with
            | false => rfl
            | true => exact absurd hb.symm hz1.2
          · exact this.2 b hb

/-- **C08_open_iff.**  For every step taken in a reachable state:
    * `Open` on `s` returns true exactly at a compare-and-swap that finds the count it loaded, and
      then the count was positive and is incremented by one (the snapshot was not fully released at
      that instant — the linearization point);
    * `Open` on `s` returns false exactly at a load that sees 0 (the snapshot is fully released, and
      by `C08_zero_is_final` stays so), with no effect on the shared state;
    * conversely a thread parked at `OPEN_CAS s rc` returns true iff the count still equals `rc`
      (else it goes back to the load), and a thread parked at `OPEN_LOAD s` returns false iff the
      count is 0 (else it proceeds to the compare-and-swap with the positive value it read). -/
theorem C08_open_iff (cfg : Cfg) (hO : cfg.fixedOpen = true) (n k : Nat)
    (sched : List (Nat × Act)) (st : St) (evs : List Ev)
    (hrun : exec cfg (init n k) sched = some (st, evs))
    (i : Nat) (a : Act) (st' : St) (ev : Ev) (hstep : step cfg st i a = some (st', ev)) (s : Nat) :
    (ev = .retOpen s true ↔
        ∃ rc, st.ths[i]? = some (.openCas s rc) ∧ refs st s = rc ∧ (∃ b, a = .step b))
    ∧ (ev = .retOpen s true → 0 < refs st s ∧ refs st' s = refs st s + 1)
    ∧ (ev = .retOpen s false ↔
        st.ths[i]? = some (.openLoad s) ∧ refs st s = 0 ∧ (∃ b, a = .step b))
    ∧ (ev = .retOpen s false → st' = setT st i .idle)
    ∧ (∀ rc, st.ths[i]? = some (.openCas s rc) → 0 < rc ∧
        (refs st s ≠ rc → ev = .parked ∧ st' = setT st i (.openLoad s)))
    ∧ (st.ths[i]? = some (.openLoad s) → refs st s ≠ 0 →
        ev = .parked ∧ st' = setT st i (.openCas s (refs st s)) ∧ 0 < refs st s) := by
  obtain ⟨hinv, hlen⟩ := reach_inv hO hrun
  have hst := step_sound hstep
  unfold refs
  cases hst with
  | casOk b s0 rc hi hf he =>
    obtain ⟨h1, h2, hpos⟩ := hinv.pcs i _ hi
    refine ⟨?_, ?_, ?_, ?_, ?_, ?_⟩
    · constructor
      · intro e; simp at e; subst e; exact ⟨rc, hi, he, b, rfl⟩
      · intro ⟨rc', hi', _, _⟩; rw [hi] at hi'; simp at hi'; simp [hi'.1]
    · intro e; simp at e; subst e
      rw [getS_setT, getS_setS _ _ _ _ h1 h2]
      simp [he]; omega
    · constructor
      · intro e; simp at e
      · intro ⟨hi', _⟩; rw [hi] at hi'; simp at hi'
    · intro e; simp at e
    · intro rc' hi'; rw [hi] at hi'; simp at hi'
      obtain ⟨rfl, rfl⟩ := hi'
      exact ⟨hpos, fun hne => absurd he hne⟩
    · intro hi'; rw [hi] at hi'; simp at hi'
  | addUnfixed b s0 rc hi hf => rw [hO] at hf; cases hf
  | loadRefuse b s0 hi hz =>
    refine ⟨?_, ?_, ?_, ?_, ?_, ?_⟩
    · constructor
      · intro e; simp at e
      · intro ⟨rc', hi', _⟩; rw [hi] at hi'; simp at hi'
    · intro e; simp at e
    · constructor
      · intro e; simp at e; subst e; exact ⟨hi, hz, b, rfl⟩
      · intro ⟨hi', _⟩; rw [hi] at hi'; simp at hi'; simp [hi']
    · intro _; rfl
    · intro rc' hi'; rw [hi] at hi'; simp at hi'
    · intro hi' hne; rw [hi] at hi'; simp at hi'; subst hi'; exact absurd hz hne
  | loadOk b s0 hi hnz =>
    obtain ⟨h1, h2⟩ := hinv.pcs i _ hi
    have := hinv.refs_nonneg s0 h1 h2
    refine ⟨?_, ?_, ?_, ?_, ?_, ?_⟩
    · constructor
      · intro e; simp at e
      · intro ⟨rc', hi', _⟩; rw [hi] at hi'; simp at hi'
    · intro e; simp at e
    · constructor
      · intro e; simp at e
      · intro ⟨hi', hz, _⟩; rw [hi] at hi'; simp at hi'; subst hi'; exact absurd hz hnz
    · intro e; simp at e
    · intro rc' hi'; rw [hi] at hi'; simp at hi'
    · intro hi' hne; rw [hi] at hi'; simp at hi'; subst hi'
      exact ⟨rfl, rfl, by omega⟩
  | casFail b s0 rc hi hf hne =>
    obtain ⟨h1, h2, hpos⟩ := hinv.pcs i _ hi
    refine ⟨?_, ?_, ?_, ?_, ?_, ?_⟩
    · constructor
      · intro e; simp at e
      · intro ⟨rc', hi', he', _⟩; rw [hi] at hi'; simp at hi'
        obtain ⟨rfl, rfl⟩ := hi'; exact absurd he' hne
    · intro e; simp at e
    · constructor
      · intro e; simp at e
      · intro ⟨hi', _⟩; rw [hi] at hi'; simp at hi'
    · intro e; simp at e
    · intro rc' hi'; rw [hi] at hi'; simp at hi'
      obtain ⟨rfl, rfl⟩ := hi'
      exact ⟨hpos, fun _ => ⟨rfl, rfl⟩⟩
    · intro hi'; rw [hi] at hi'; simp at hi'
  | _ =>
    have hi := (by assumption : st.ths[i]? = some _)
    refine ⟨?_, ?_, ?_, ?_, ?_, ?_⟩
    · constructor
      · intro e; simp at e
      · intro ⟨rc', hi', _⟩; rw [hi] at hi'; simp at hi'
    · intro e; simp at e
    · constructor
      · intro e; simp at e
      · intro ⟨hi', _⟩; rw [hi] at hi'; simp at hi'
    · intro e; simp at e
    · intro rc' hi'; rw [hi] at hi'; simp at hi'
    · intro hi'; rw [hi] at hi'; simp at hi'

/-- Facts about the collector frontier that hold in **every** reachable state (not only at
    quiescence): the dead list is strictly ascending, contains only fully released snapshots
    numbered above `lastGCSn` (so nothing at or below the frontier is ever re-queued and can block
    the in-order test of `collectDead` for good); a snapshot whose closer is between its two list
    operations (`CLOSE_RETIRE2`) is in neither list and fully released; what was handed to the workers is exactly
    `1, …, lastGCSn`, in order, each once; all of those were fully released; the collector flag is
    held by exactly one thread inside `COLLECT_READ … GC_UNLOCK`, or by none. -/
theorem C08_frontier_sound (cfg : Cfg) (hO : cfg.fixedOpen = true) (n k : Nat)
    (sched : List (Nat × Act)) (st : St) (evs : List Ev)
    (hrun : exec cfg (init n k) sched = some (st, evs)) :
    st.dead.Pairwise (· < ·)
    ∧ (∀ s, s ∈ st.dead → st.lastGCSn < s ∧ s ≤ k ∧ refs st s = 0 ∧ retiredCount st s = 1)
    ∧ st.sent = List.range' 1 st.lastGCSn
    ∧ st.lastGCSn ≤ k
    ∧ (∀ s, 1 ≤ s → s ≤ st.lastGCSn → refs st s = 0 ∧ retiredCount st s = 1 ∧ s ∉ st.dead)
    ∧ (∀ s, s ∈ st.live ↔ 1 ≤ s ∧ s ≤ k ∧ retiredCount st s = 0 ∧ retiring2 st s = 0)
    ∧ (∀ s, 1 ≤ s → s ≤ k → 0 < retiring2 st s → s ∉ st.live ∧ s ∉ st.dead ∧ refs st s = 0)
    ∧ cnt uCrit st.ths = (if st.flag then 1 else 0) := by
  obtain ⟨hinv, hlen⟩ := reach_inv hO hrun
  unfold refs retiredCount
  have hzero : ∀ s, 1 ≤ s → s ≤ st.snaps.length → (getS st s).retired = 1 → (getS st s).refs = 0 := by
    intro s h1 h2 hr
    have := hinv.retire s h1 h2
    split at this
    · assumption
    · omega
  refine ⟨hinv.dead_sorted, ?_, hinv.sent, by have := hinv.gc_le; omega, ?_, ?_, ?_, hinv.excl⟩
  · intro s hs
    obtain ⟨h1, h2, h3⟩ := hinv.dead_valid s hs
    have hr := (hinv.place s h1 h2).mpr (Or.inl hs)
    exact ⟨h3, by omega, hzero s h1 h2 hr, hr⟩
  · intro s h1 h2
    have h2' : s ≤ st.snaps.length := by have := hinv.gc_le; omega
    have hr := (hinv.place s h1 h2').mpr (Or.inr h2)
    refine ⟨hzero s h1 h2' hr, hr, ?_⟩
    intro hm
    have := (hinv.dead_valid s hm).2.2
    omega
  · intro s; rw [← hlen, retiring2_eq]; exact hinv.live_iff s
  · intro s h1 h2 hpos
    rw [retiring2_eq] at hpos
    have h2' : s ≤ st.snaps.length := by omega
    have hr := hinv.retire s h1 h2'
    have hz : (getS st s).refs = 0 := by
      by_cases e : (getS st s).refs = 0
      · exact e
      · simp only [e, if_false] at hr; omega
    simp only [hz, if_true] at hr
    refine ⟨?_, ?_, hz⟩
    · intro hm
      have := ((hinv.live_iff s).mp hm).2.2.2
      omega
    · intro hm
      have := (hinv.place s h1 h2').mpr (Or.inl hm)
      omega

/-- **C08_collector_progress** (= the hand-off part of C06).  In every reachable **quiescent** state
    (no call in progress), for any number of threads and snapshots and any schedule:
    * no snapshot in the dead list has `sn = lastGCSn + 1` — whatever was collectable has been handed
      to the workers; every snapshot still in the dead list is numbered above `lastGCSn + 1`;
    * `sent = [1, …, lastGCSn]`;
    * `lastGCSn + 1` is the smallest snapshot number that is still referenced, or `k + 1` if there is
      none: all of `1 … lastGCSn` are fully released, and if `lastGCSn < k` then snapshot
      `lastGCSn + 1` still has a positive count — later retired snapshots wait only behind a snapshot
      that is really open, never behind one that was retired;
    * every fully released snapshot is either in the dead list or was handed over, retired exactly once;
    * the collector flag is free. -/
theorem C08_collector_progress (cfg : Cfg) (hO : cfg.fixedOpen = true) (hG : cfg.fixedGC = true)
    (n k : Nat) (sched : List (Nat × Act)) (st : St) (evs : List Ev)
    (hrun : exec cfg (init n k) sched = some (st, evs)) (hq : quiescent st = true) :
    (st.lastGCSn + 1) ∉ st.dead
    ∧ (∀ s, s ∈ st.dead → st.lastGCSn + 1 < s)
    ∧ st.sent = List.range' 1 st.lastGCSn
    ∧ st.lastGCSn ≤ k
    ∧ (∀ s, 1 ≤ s → s ≤ st.lastGCSn → refs st s = 0)
    ∧ (st.lastGCSn < k → 0 < refs st (st.lastGCSn + 1))
    ∧ (∀ s, 1 ≤ s → s ≤ k →
        (refs st s = 0 ↔ (s ∈ st.dead ∨ s ≤ st.lastGCSn)) ∧
        (refs st s = 0 → retiredCount st s = 1) ∧ (0 < refs st s → s ∈ st.live))
    ∧ st.flag = false := by
  obtain ⟨hinv, hlen⟩ := reach_inv hO hrun
  obtain ⟨_, hdead, hsent, hle, hsentz, hlive, _, hexcl⟩ :=
    C08_frontier_sound cfg hO n k sched st evs hrun
  have hnot : (st.lastGCSn + 1) ∉ st.dead := by
    intro hm
    have := hinv.resp hG hm
    have h0 : cnt uResp st.ths = 0 := cnt_all_idle uResp st.ths hq rfl
    omega
  have hret0 : ∀ s, cnt (uRet s) st.ths = 0 := fun s => cnt_all_idle (uRet s) st.ths hq rfl
  have hret20 : ∀ s, cnt (uRet2 s) st.ths = 0 := fun s => cnt_all_idle (uRet2 s) st.ths hq rfl
  have hiff : ∀ s, 1 ≤ s → s ≤ k → (refs st s = 0 ↔ (s ∈ st.dead ∨ s ≤ st.lastGCSn)) ∧
      (refs st s = 0 → retiredCount st s = 1) := by
    intro s h1 h2
    have h2' : s ≤ st.snaps.length := by omega
    have hr := hinv.retire s h1 h2'
    rw [hret0 s, hret20 s] at hr
    have hp := hinv.place s h1 h2'
    unfold refs retiredCount
    constructor
    · constructor
      · intro hz; simp only [hz, if_true] at hr; exact hp.mp (by omega)
      · intro hx
        have := hp.mpr hx
        split at hr
        · assumption
        · omega
    · intro hz; simp only [hz, if_true] at hr; omega
  refine ⟨hnot, ?_, hsent, hle, fun s a b => (hsentz s a b).1, ?_, ?_, ?_⟩
  · intro s hs
    have := (hdead s hs).1
    have : s ≠ st.lastGCSn + 1 := fun e => hnot (e ▸ hs)
    omega
  · intro hlt
    have hnn := hinv.refs_nonneg (st.lastGCSn + 1) (by omega) (by omega)
    have := (hiff (st.lastGCSn + 1) (by omega) (by omega)).1
    unfold refs at *
    by_cases hz : (getS st (st.lastGCSn + 1)).refs = 0
    · rcases this.mp hz with hm | hm
      · exact absurd hm hnot
      · omega
    · omega
  · intro s h1 h2
    refine ⟨(hiff s h1 h2).1, (hiff s h1 h2).2, ?_⟩
    intro hpos
    rw [hlive, retiring2_eq]
    refine ⟨h1, h2, ?_, hret20 s⟩
    have hr := hinv.retire s h1 (by omega)
    unfold refs at hpos
    unfold retiredCount
    have : ¬ (getS st s).refs = 0 := by omega
    simp only [this, if_false] at hr
    omega
  · have h0 : cnt uCrit st.ths = 0 := cnt_all_idle uCrit st.ths hq rfl
    rw [h0] at hexcl
    cases hf : st.flag with
    | false => rfl
    | true => rw [hf] at hexcl; simp at hexcl

/-- The theorems above quantify over schedules in which every action is accepted.  A driver script
    may also contain refused actions (`bad-op`: `step` on an idle thread, `start` on a busy one, `close`
    without a held reference); they leave the state unchanged, so the state after any script is a
    state covered by the theorems. -/
theorem C08_scripts_covered (cfg : Cfg) (n k : Nat) (script : List (Nat × Act)) :
    ∃ sched evs, exec cfg (init n k) sched = some ((execTol cfg (init n k) script).1, evs) :=
  execTol_reach cfg script (init n k)

/-! ## Non-vacuity: concrete schedules of the fixed protocol (tests, `decide`d) -/

/-- `n` consecutive steps of thread `t` -/
def steps (t n : Nat) : List (Nat × Act) := List.replicate n (t, Act.step false)

/-- three threads, two snapshots: an `Open` racing with the final `Close` of snapshot 1 loses the
    compare-and-swap, re-loads 0 and returns false; both snapshots end up handed over -/
def demo : List (Nat × Act) :=
  [(0, .start (.opn 1)), (0, .step false)]        -- T0 loads 1, parked at OPEN_CAS 1 1
  ++ [(1, .start (.cls 1))] ++ steps 1 1           -- T1: 1 → 0, parked at CLOSE_RETIRE 1
  ++ steps 0 2                                     -- T0: CAS fails, re-load sees 0: `ret false`
  ++ [(2, .start (.opn 2))] ++ steps 2 2           -- T2 opens snapshot 2: `ret true` (count 2)
  ++ steps 1 9                                     -- T1 retires 1 (two steps), GC sends it, re-check, returns
  ++ [(2, .start (.cls 2))] ++ steps 2 1           -- 2 → 1, returns
  ++ [(0, .start (.cls 2))] ++ steps 0 10          -- 1 → 0, retire (two steps), GC sends 2

theorem demo_runs :
    exec fixedCfg (init 3 2) demo =
      some ({ snaps := [⟨0, 0, 1⟩, ⟨0, 0, 1⟩], live := [], dead := [], lastGCSn := 2, flag := false,
              sent := [1, 2], ths := [.idle, .idle, .idle] },
            [.parked, .parked, .parked, .parked, .parked, .retOpen 1 false, .parked, .parked,
             .retOpen 2 true, .parked, .parked, .parked, .parked, .parked, .parked, .parked, .parked, .ret,
             .parked, .ret, .parked, .parked, .parked, .parked, .parked, .parked, .parked, .parked, .parked,
             .parked, .ret]) := by decide

/-- non-vacuity of `C08_zero_is_final`: its hypotheses are met by the prefix of `demo` after which
    snapshot 1 has count 0 while an `Open` on it is still in flight, and the conclusion then forces
    that `Open` to fail -/
example : ∃ st evs, exec fixedCfg (init 3 2) (demo.take 4) = some (st, evs) ∧ refs st 1 = 0 ∧
    st.ths[0]? = some (.openCas 1 1) ∧ retiring st 1 = 1 ∧ retiredCount st 1 = 0 := by
  refine ⟨_, _, rfl, by decide, by decide, by decide, by decide⟩

example : ∀ st' evs', exec fixedCfg
      ((exec fixedCfg (init 3 2) (demo.take 4)).get (by decide)).1 (demo.drop 4) = some (st', evs') →
    ∀ b, Ev.retOpen 1 b ∈ evs' → b = false := by
  intro st' evs' h
  have hpre : exec fixedCfg (init 3 2) (demo.take 4) =
      some ((exec fixedCfg (init 3 2) (demo.take 4)).get (by decide)) := by simp
  exact ((C08_zero_is_final fixedCfg rfl 3 2 (demo.take 4) _ _ hpre 1 (by decide) (by decide)).2.2.2.2.2
    (by decide) _ _ _ h).2

/-- non-vacuity of `C08_open_iff`: both outcomes occur in `demo` (`retOpen 1 false`, `retOpen 2 true`) -/
example : Ev.retOpen 1 false ∈ ((exec fixedCfg (init 3 2) demo).get (by decide)).2 ∧
    Ev.retOpen 2 true ∈ ((exec fixedCfg (init 3 2) demo).get (by decide)).2 := by decide

/-- non-vacuity of `C08_collector_progress` / `C08_frontier_sound`: `demo` ends quiescent with both
    snapshots handed over; its prefix of length 9 is a non-quiescent reachable state -/
example : ∃ st evs, exec fixedCfg (init 3 2) demo = some (st, evs) ∧ quiescent st = true ∧
    st.lastGCSn = 2 ∧ st.sent = [1, 2] := ⟨_, _, demo_runs, by decide, rfl, rfl⟩

/-- a quiescent state in which retired snapshots wait behind an open one: close 2 and 3, keep 1 -/
example : ∃ st evs, exec fixedCfg (init 1 3)
      ([(0, .start (.cls 3))] ++ steps 0 8 ++ [(0, .start (.cls 2))] ++ steps 0 8) = some (st, evs) ∧
    quiescent st = true ∧ st.dead = [2, 3] ∧ st.lastGCSn = 0 ∧ refs st 1 = 1 := by
  refine ⟨_, _, rfl, by decide, by decide, by decide, by decide⟩

/-- a `Close` held between its two list operations while the other open snapshot is fully closed:
    T0 has deleted snapshot 1 from the live list and is parked at `CLOSE_RETIRE2 1`; T1 closes
    snapshot 2 completely and its collector pass runs with an EMPTY live list and `dead = [2]` -/
def betweenListsSched : List (Nat × Act) :=
  [(0, .start (.cls 1))] ++ steps 0 2       -- T0: 1→0, `snapshots.Delete(1)`: parked at CLOSE_RETIRE2 1
  ++ [(1, .start (.cls 2))] ++ steps 1 8    -- T1: 1→0, both list operations, GC: head 2 ≠ 1, re-check, returns

/-- non-vacuity of the "in neither list" clauses, and the expected behaviour in the interleaving that
    a "drain the dead list when no snapshot is live" shortcut in `collectDead` gets wrong (TEST):
    with the live list empty and `dead = [2]` the collector hands over nothing, because snapshot 1 —
    in neither list — is not collected yet; when T0 proceeds, 1 and 2 are handed over in order -/
example : ∃ st evs, exec fixedCfg (init 2 2) betweenListsSched = some (st, evs) ∧
    st.ths = [.closeRetire2 1, .idle] ∧ retiring2 st 1 = 1 ∧ retiredCount st 1 = 0 ∧ refs st 1 = 0 ∧
    st.live = [] ∧ st.dead = [2] ∧ st.lastGCSn = 0 ∧ st.sent = [] ∧ st.flag = false := by
  refine ⟨_, _, rfl, by decide, by decide, by decide, by decide, by decide, by decide, by decide,
    by decide, by decide⟩

example : ∃ st evs, exec fixedCfg (init 2 2) (betweenListsSched ++ steps 0 10) = some (st, evs) ∧
    quiescent st = true ∧ st.sent = [1, 2] ∧ st.lastGCSn = 2 ∧ st.dead = [] := by
  refine ⟨_, _, rfl, by decide, by decide, by decide, by decide⟩

/-! ## Witness: the repair of `Open` is necessary (`fixedOpen = false`, the original test-then-add) -/

/-- the unfixed-`Open` schedule of DESIGN.md §C08 "Known" -/
def unfixedOpenSched : List (Nat × Act) :=
  [(0, .start (.opn 1)), (0, .step false)]        -- T0 loads 1, parked before the increment
  ++ [(1, .start (.cls 1))] ++ steps 1 10          -- T1 closes 1 → 0, retires it, GC hands it over
  ++ [(0, .step false)]                            -- T0 increments 0 → 1: `Open` returns TRUE
  ++ [(0, .start (.cls 1))] ++ steps 0 8           -- its Close retires snapshot 1 a second time
  ++ [(1, .start (.cls 2))] ++ steps 1 8           -- snapshot 2 is closed: queued behind 1
  ++ [(1, .start .gc)] ++ steps 1 4                -- an explicit GC() does not help

/-- **WITNESS (a `decide`d concrete schedule, not a theorem about all schedules).**
    With the original `Open` (`fixedOpen = false`; `GC` already repaired): `Open` on snapshot 1
    returns true after the `Close` that dropped its last reference and after it was handed to the
    workers; snapshot 1 is retired twice and re-queued with `sn = 1 ≤ lastGCSn = 1`; the run ends
    quiescent with the collectable snapshot 2 (`= lastGCSn + 1`) stuck in the dead list behind it,
    and a forced `GC()` changes nothing.  Every conclusion of `C08_zero_is_final` and
    `C08_collector_progress` fails here. -/
theorem C08_unfixed_counterexample :
    ∃ st evs, exec { fixedOpen := false, fixedGC := true } (init 2 2) unfixedOpenSched = some (st, evs)
      ∧ quiescent st = true
      ∧ evs.idxOf (Ev.retOpen 1 true) = 13 ∧ evs.idxOf Ev.ret = 12   -- true AFTER the final Close returned
      ∧ retiredCount st 1 = 2
      ∧ st.dead = [1, 2] ∧ st.lastGCSn = 1 ∧ st.sent = [1]
      ∧ (st.lastGCSn + 1) ∈ st.dead
      ∧ exec { fixedOpen := false, fixedGC := true } st ([(0, .start .gc)] ++ steps 0 4)
          = some (st, [.parked, .parked, .parked, .parked, .ret]) := by
  refine ⟨_, _, rfl, by decide, by decide, by decide, by decide, by decide, by decide, by decide,
    by decide, by decide⟩

/-- the same schedule is not even executable on the repaired protocol: the compare-and-swap of T0
    fails, T0 goes back to `OPEN_LOAD`, so its `start close` is refused (TEST) -/
example : exec fixedCfg (init 2 2) unfixedOpenSched = none := by decide

/-! ## Witness: the repair of `GC` is necessary (`fixedGC = false`, no re-check) -/

/-- two `Close` calls race: T0 holds the collector flag and has already looked at the dead list when
    T1 retires the collectable snapshot and loses the try-lock -/
def lostTriggerSched : List (Nat × Act) :=
  [(0, .start (.cls 2))] ++ steps 0 6     -- T0: 1→0, retire 2 (two steps), CLOSE_GC, flag taken, reads head 2 ≠ 1: at GC_UNLOCK
  ++ [(1, .start (.cls 1))] ++ steps 1 5  -- T1: 1→0, retire 1 (two steps), CLOSE_GC, try-lock fails: returns
  ++ steps 0 1                            -- T0 drops the flag and returns

/-- **WITNESS (a `decide`d concrete schedule).**  With the original `GC` (`fixedGC = false`; `Open`
    already repaired) the run ends quiescent, every snapshot closed, the flag free, and the
    collectable snapshot 1 (`= lastGCSn + 1`) still in the dead list with nothing handed over: the
    trigger of the final `Close` is lost.  On the repaired protocol the same schedule leaves T0 at
    `GC_RECHECK`, and letting it run hands both snapshots over. -/
theorem C06_unfixed_lost_trigger :
    (∃ st evs, exec { fixedOpen := true, fixedGC := false } (init 2 2) lostTriggerSched = some (st, evs)
      ∧ quiescent st = true ∧ st.flag = false
      ∧ refs st 1 = 0 ∧ refs st 2 = 0
      ∧ st.dead = [1, 2] ∧ st.lastGCSn = 0 ∧ st.sent = []
      ∧ (st.lastGCSn + 1) ∈ st.dead)
    ∧ (∃ st evs, exec fixedCfg (init 2 2) (lostTriggerSched ++ steps 0 9) = some (st, evs)
      ∧ quiescent st = true ∧ st.dead = [] ∧ st.lastGCSn = 2 ∧ st.sent = [1, 2]) := by
  refine ⟨⟨_, _, rfl, by decide, by decide, by decide, by decide, by decide, by decide, by decide,
    by decide⟩, ⟨_, _, rfl, by decide, by decide, by decide, by decide⟩⟩

end NitroVerif.Props.C08
