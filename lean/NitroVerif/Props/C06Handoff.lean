import NitroVerif.Props.C08
/-!
  # C06 — the collector hand-off (the concurrent part of "garbage collection is complete")

  "once every snapshot that could see it has been closed, a collection pass at quiescence (the final
  Close triggers one, GC() forces one) removes it … No order of closing snapshots, from any
  goroutines … strands garbage permanently."

  Here: the hand-off of retired snapshots to the workers (`gcchan`), on the small-step model
  `Model/RefCount.lean` of `Close`/`GC`/`collectDead`/`hasCollectableSnapshot` as repaired in /repo.
  At every reachable quiescent state — any number of goroutines and snapshots, any order and
  interleaving of closes, opens and explicit `GC()` calls — every retired snapshot whose turn has
  come has been handed over: `lastGCSn + 1` is the smallest snapshot number still referenced (or
  `k + 1`), the dead list contains no snapshot numbered `lastGCSn + 1`, and `sent` is exactly
  `1, …, lastGCSn`, in order, each once.  What the workers do with a garbage list, and which
  versions are in it, is the business of the MVCC model (C06 proper); the by-design in-order
  collection (an older open snapshot pins later retired ones) is visible in the statement.
  The unfixed `GC` fails this: `C08.C06_unfixed_lost_trigger` (a labelled witness).
-/
namespace NitroVerif.Props.C06
open NitroVerif.RefCount

/-- **C06_handoff_quiescent.**  See the file header.  The last clause is "nothing is stranded": if
    every snapshot up to `s` has been fully released, then `s` has been handed to the workers. -/
theorem C06_handoff_quiescent (cfg : Cfg) (hO : cfg.fixedOpen = true) (hG : cfg.fixedGC = true)
    (n k : Nat) (sched : List (Nat × Act)) (st : St) (evs : List Ev)
    (hrun : exec cfg (init n k) sched = some (st, evs)) (hq : quiescent st = true) :
    (st.lastGCSn + 1) ∉ st.dead
    ∧ st.sent = List.range' 1 st.lastGCSn
    ∧ st.sent.Nodup
    ∧ st.lastGCSn ≤ k
    ∧ (∀ s, 1 ≤ s → s ≤ st.lastGCSn → refs st s = 0)
    ∧ (st.lastGCSn < k → 0 < refs st (st.lastGCSn + 1))
    ∧ (∀ s, 1 ≤ s → s ≤ k → (∀ s', 1 ≤ s' → s' ≤ s → refs st s' = 0) → s ∈ st.sent) := by
  obtain ⟨h1, _, h3, h4, h5, h6, _, _⟩ :=
    C08.C08_collector_progress cfg hO hG n k sched st evs hrun hq
  refine ⟨h1, h3, ?_, h4, h5, h6, ?_⟩
  · rw [h3]; exact List.nodup_range'
  · intro s hs1 hs2 hall
    rw [h3, List.mem_range'_1]
    refine ⟨hs1, ?_⟩
    by_cases hle : s ≤ st.lastGCSn
    · omega
    · have := h6 (by omega)
      have := hall (st.lastGCSn + 1) (by omega) (by omega)
      omega

/-- non-vacuity (TEST): the racing-closes schedule of the witness, on the repaired protocol, ends
    quiescent with both snapshots handed over in order -/
example : ∃ st evs, exec fixedCfg (init 2 2) (C08.lostTriggerSched ++ C08.steps 0 9) = some (st, evs)
    ∧ quiescent st = true ∧ st.sent = [1, 2] ∧ refs st 1 = 0 ∧ refs st 2 = 0 := by
  refine ⟨_, _, rfl, by decide, by decide, by decide, by decide⟩

end NitroVerif.Props.C06
