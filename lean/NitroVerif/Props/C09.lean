/-
  C09 Iterator positioning is exact and refresh-independent.
  "On any snapshot, Seek(k) positions the iterator at the smallest visible item whose key is >= k
   (SeekFirst at the smallest visible item), Next advances to the next larger visible item, and Valid
   becomes false exactly after the last one.  The sequence of items observed is independent of the
   refresh rate and of explicit Refresh() calls, and of how many invisible older or newer versions of
   keys are physically present."

  Model M6 iterators (`Model/MvccIter.lean`): a cursor over the physical store, `skipUnwanted`,
  automatic and explicit `Refresh` (the fixed code: re-seek by key, then `skipUnwanted`).
  The specification iterator (`Spec/SetSpec.lean`) walks the recorded content of the snapshot and
  knows neither refresh rates nor physical versions.
-/
import NitroVerif.Lemmas.MvccScanTrace

namespace NitroVerif.Props
open NitroVerif NitroVerif.Mvcc
open NitroVerif.SetSpec (Op Out Item)

/-- **C09 (per call)** In every reachable state, for every registered iterator `i` (its snapshot is
    then open) with `c` the content of its snapshot as items, strictly sorted by key:
    * `SeekFirst` reports the first item of `c`,
    * `Seek k` reports the first item of `c` with key ≥ `k`,
    * `Next` from a valid position `v` reports the first item of `c` with key > `v.key` (the successor,
      see `C09_next_is_successor`; `end` exactly when there is none), and `Next` is refused when invalid,
    * `Refresh` reports the current position unchanged,
    whatever the iterator's refresh rate and step counter are and whatever invisible versions the
    physical store contains. -/
theorem C09_iterator_exact {n : Nat} {σ : Mvcc.State} (hr : Reachable n σ) {i : Nat} {it : Iter}
    (hi : SetSpec.alookup i σ.iters = some it) :
    ∃ x, findSnap it.sn σ.snaps = some x ∧ 0 < x.rc ∧
      (x.content.map Ver.item).Pairwise ItemLt ∧
      (Mvcc.step σ (.itFirst i)).2 = .cursor (x.content.map Ver.item).head? ∧
      (∀ k, (Mvcc.step σ (.itSeek i k)).2 =
          .cursor ((x.content.map Ver.item).find? (fun e => decide (k ≤ e.1)))) ∧
      (∀ v, it.cur = some v → v.item ∈ x.content.map Ver.item ∧
          (Mvcc.step σ (.itNext i)).2 =
            .cursor ((x.content.map Ver.item).find? (fun e => decide (v.key < e.1)))) ∧
      (it.cur = none → (Mvcc.step σ (.itNext i)).2 = .bad) ∧
      (Mvcc.step σ (.itRefresh i)).2 = .cursor (it.cur.map Ver.item) := by
  have h := inv_reachable hr
  obtain ⟨x, hx, hrc, hcont, hcur⟩ := iter_ctx' h hi
  have ⟨hxm, _⟩ := findSnap_some hx
  have hci := content_items h hx hrc
  have hpos : 0 < x.rc := by have := (h.snaps.rc x hxm).1; omega
  have hsorted : ((vis σ.store it.sn).map Ver.item).Pairwise ItemLt :=
    List.pairwise_map.mpr (vis_keySorted h.sorted h.chains it.sn)
  have hout : ∀ op, (Mvcc.step σ op).2 = (SetSpec.step (abs σ) op).2 := by
    intro op; have := step_refines h op; unfold Refines at this; rw [this]
  refine ⟨x, hx, hpos, by rw [hci]; exact hsorted, ?_, ?_, ?_, ?_, ?_⟩
  · rw [hout, hci]
    simp only [SetSpec.step, alookup_iters, hi, Option.map_some, absIt, hcont]
  · intro k
    rw [hout, hci]
    simp only [SetSpec.step, alookup_iters, hi, Option.map_some, absIt, hcont, SetSpec.seekIn]
  · intro v hv
    obtain ⟨v', hv', hk, _, hval⟩ := hcur v hv
    constructor
    · rw [hci]
      exact List.mem_map.mpr ⟨v', hv', by simp [Ver.item, hk, hval]⟩
    · rw [hout, hci]
      simp only [SetSpec.step, alookup_iters, hi, Option.map_some, absIt, hcont, hv, SetSpec.nextIn, Ver.item]
  · intro hv
    rw [hout]
    simp only [SetSpec.step, alookup_iters, hi, Option.map_some, absIt, hv, Option.map_none]
  · rw [hout]
    simp only [SetSpec.step, alookup_iters, hi, Option.map_some, absIt]

/-- in a strictly key-sorted content, "the first item with a larger key" is the successor, and
    there is none exactly at the last item -/
theorem C09_next_is_successor {c : List Item} (hc : c.Pairwise ItemLt) {p : Nat} (hp : p < c.length) :
    c.find? (fun e => decide ((c[p]).1 < e.1)) = c[p + 1]? :=
  nextIn_getElem hc hp

/-- the position reported by a positioning call is the position the iterator keeps: other
    operations (not naming the iterator) leave its cursor alone, and the content of its snapshot
    never changes (`C01_content_fixed`) -/
theorem C09_frame {σ : Mvcc.State} (i : Nat) (op : Op) (hn : namesIter i op = false) :
    SetSpec.alookup i (Mvcc.step σ op).1.iters = SetSpec.alookup i σ.iters :=
  step_frame σ i op hn

/-- **C09 (whole runs)** for every operation sequence (iterator calls interleaved with anything
    else) every observed `(Valid, Get)` equals the one of the specification iterator, which walks the
    snapshot content and has no refresh rate, no `Refresh` and no physical versions -/
theorem C09_runs_exact {n : Nat} {σ : Mvcc.State} (hr : Reachable n σ) (ops : List Op) :
    Mvcc.run σ ops = SetSpec.run (abs σ) ops :=
  run_refines ops (inv_reachable hr)

/-- independence of the refresh rate: changing every refresh rate in a script (of `SetRefreshRate`,
    of the scans, of the Visitor configuration) by an arbitrary function changes no output -/
theorem C09_rate_independent {n : Nat} {σ : Mvcc.State} (hr : Reachable n σ) (f : Int → Int)
    (ops : List Op) : Mvcc.run σ (ops.map (rerate f)) = Mvcc.run σ ops := by
  rw [run_refines _ (inv_reachable hr), run_refines _ (inv_reachable hr), spec_run_rerate]

/-- independence of explicit `Refresh()` calls: removing all of them from a script leaves the
    outputs of all other operations unchanged (and each `Refresh` reports the unchanged position) -/
theorem C09_refresh_independent {n : Nat} {σ : Mvcc.State} (hr : Reachable n σ) (ops : List Op) :
    Mvcc.run σ (ops.filter (fun op => !isRefresh op)) = dropRefreshOut ops (Mvcc.run σ ops) := by
  rw [run_refines _ (inv_reachable hr), run_refines _ (inv_reachable hr), spec_run_dropRefresh]

/-- the sequence observed by successive `Next` calls is the content in order, then `end`, for every
    interleaving with other operations, rate changes and explicit refreshes -/
theorem C09_next_sequence {n : Nat} {σ : Mvcc.State} (hr : Reachable n σ) {i : Nat} {c : List Item}
    {p : Nat} (hc : c.Pairwise ItemLt) (hat : AtPos (abs σ) i c p) (ops : List Op)
    (hall : ∀ op ∈ ops, allowed i op = true) :
    nextOuts i ops (Mvcc.run σ ops) = expectNext c p (countNext i ops) := by
  rw [run_refines ops (inv_reachable hr)]
  exact spec_scan_interleaved hc i ops (abs σ) p hat hall

/-! ### non-vacuity (test evaluated by the kernel): key 2 deleted in epoch 2 and re-inserted in epoch 3
    (the history on which the unfixed `Refresh` repeated `k2` or never terminated); snapshot 3 is
    walked at refresh rate 1 with explicit refreshes; seeks to present, absent, below-min, above-max -/
example :
    Mvcc.run (Mvcc.init 1)
      [.put 0 1 0, .put 0 2 0, .put 0 4 0, .snap, .del 0 2, .snap, .put 0 2 0, .snap,
       .itNew 0 3, .itRate 0 1, .itFirst 0, .itNext 0, .itRefresh 0, .itNext 0, .itNext 0,
       .itSeek 0 3, .itSeek 0 0, .itSeek 0 5, .itSeek 0 2] =
      [.bool true, .bool true, .bool true, .snap 1 3, .bool true, .snap 2 2, .bool true, .snap 3 3,
       .ok, .ok, .cursor (some (1, 0)), .cursor (some (2, 0)), .cursor (some (2, 0)),
       .cursor (some (4, 0)), .cursor none,
       .cursor (some (4, 0)), .cursor (some (1, 0)), .cursor none, .cursor (some (2, 0))] := by decide

end NitroVerif.Props
