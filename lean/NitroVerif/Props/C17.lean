import NitroVerif.Lemmas.BarrierResp
/-!
  C17 — Access barrier liveness at quiescence (model M4, fixed protocol).

  `C17_quiescent_nothing_pending`: in every state reachable by the protocol as it is now
  (`fixed = true`: `Release` re-checks `hasReadySession()` after dropping `isDestructorRunning`)
  in which every thread is idle and holds no token, the destructor has run for every
  `FlushSession` call made so far — calls started = calls returned = `activeSeqno` = `freeSeqno`
  = number of destructor calls, in order, with the objects of the flushes — and the free queue is
  empty.  Every number of threads, every schedule, with the proof-only `stale` action (spurious
  "not ready" exit of a non-first CL_READ) enabled.

  `C17_unfixed_counterexample`: a WITNESS (a `decide`d concrete schedule, not a proof of a property)
  that the original protocol (`fixed = false`: return right after REL_UNLOCK) reaches a quiescent
  state with a terminated session still queued and only one of two destructors run.
-/
namespace NitroVerif.Barrier

theorem quiescent_cnt {st : St} (hq : quiescent st = true) (f : Th → Nat)
    (hf : f { pc := .idle, toks := [] } = 0) : cnt f st = 0 := by
  apply cnt_eq_zero_of
  intro u hu
  unfold quiescent at hq
  rw [List.all_eq_true] at hq
  have := hq u hu
  simp at this
  obtain ⟨pc, toks⟩ := u
  simp at this
  obtain ⟨rfl, rfl⟩ := this
  exact hf

/-- what "nothing pending" means -/
structure NothingPending (st : St) : Prop where
  /-- every `FlushSession` call that was started has returned, and `activeSeqno` counts them -/
  callsDone : st.flStarted = st.activeSeqno ∧ st.flDone = st.activeSeqno
  /-- the destructor has run for every one of them, in order, each once … -/
  allLogged : st.log.map Prod.fst = List.range' 1 st.activeSeqno
  /-- … on the object that flush attached -/
  allObjects : st.log.map Prod.snd = st.tagged
  /-- nothing is queued -/
  queueEmpty : st.freeq = []
  counters : st.freeSeqno = st.activeSeqno ∧ st.numFreed = st.activeSeqno ∧
    st.numAllocated = st.activeSeqno + 1

theorem nothingPending_of_inv {st : St} (h : Inv st) (hr : Resp st) (hq : quiescent st = true) :
    NothingPending st := by
  have z := quiescent_cnt hq
  have zU := fun s => z (unitsT s) (by simp [barsimp])
  have zP := fun g (hg : g PC.idle = 0) => z (onPc g) (by simp [barsimp, hg])
  have hact := h.active
  rw [zP _ pcTag_idle] at hact
  have hcalls := h.calls
  rw [zP _ pcMutex_idle, zP _ pcLock_idle, zP _ pcPast_idle] at hcalls
  have hfa := freeSeqno_le_active h
  have hcl := h.curlen
  -- every session below `cur` is flushed, terminated, and queued or destructed
  have hterm : ∀ s, s < st.cur → 1 ≤ (getS st s).closed := by
    intro s hs
    have hp := h.pend s (by omega)
    rw [zP _ (pcPend_idle s)] at hp
    have hl := h.last s (by omega) (zU s)
    rw [zP _ (pcClosed_idle s)] at hl
    omega
  have hplace : ∀ s, 1 ≤ (getS st s).closed → st.freeSeqno ≤ s → st.freeq.count s = 1 := by
    intro s hc hs
    have hp := h.place s
    rw [zP _ (pcInsert_idle s)] at hp
    omega
  -- the destructor has caught up
  have hfs : st.freeSeqno = st.cur := by
    false_or_by_contra; rename_i hne
    have hlt : st.freeSeqno < st.cur := by omega
    have hc := hplace _ (hterm _ hlt) (Nat.le_refl _)
    have hmem : st.freeSeqno ∈ st.freeq := List.count_pos_iff.mp (by omega)
    cases hqq : st.freeq with
    | nil => rw [hqq] at hmem; simp at hmem
    | cons a r =>
      have hsorted := h.sorted
      rw [hqq] at hsorted hmem
      have hle := head_le_of_sorted a r hsorted _ hmem
      have hca := queued_closed h a (by simp [hqq])
      have hpa := h.place a
      have hcnt : 0 < st.freeq.count a := by rw [hqq]; simp
      have hae : a = st.freeSeqno := by omega
      have := hr a (by simp [hqq]) hae
      rw [zP _ pcResp_idle] at this
      omega
  have hempty : st.freeq = [] := by
    cases hqq : st.freeq with
    | nil => rfl
    | cons a r =>
      have hca := queued_closed h a (by simp [hqq])
      have := (closed_facts h a hca).2.1
      have hpa := h.place a
      have hcnt : 0 < st.freeq.count a := by rw [hqq]; simp
      omega
  have hst := h.stats
  refine ⟨by omega, ?_, ?_, hempty, by omega⟩
  · rw [h.logseq]; congr 1; omega
  · rw [h.logobj]; apply List.take_of_length_le; have := h.tagged; omega

/-- **C17.**  Fixed protocol: at quiescence nothing is pending; reclamation never depends on a
    future flush. -/
theorem C17_quiescent_nothing_pending (n : Nat) (sched : List (Nat × Act)) (st : St)
    (hrun : run true (init n) sched = some st) (hq : quiescent st = true) : NothingPending st :=
  nothingPending_of_inv (run_inv (init_inv n) hrun) (run_resp (init_inv n) (init_resp n) hrun) hq

/-! ### the pre-fix protocol: witness -/

/-- T0 holds a token in session 0, T1 one in session 1; T2 flushes twice (objects 100, 200).
    Then the two releases terminate sessions 0 and 1 "at nearly the same time":
    T0 terminates session 0, queues it, takes the try-lock, destructs it, reads an empty queue and is
    parked before dropping the flag; T1 terminates session 1, queues it, FAILS the try-lock and returns;
    T0 drops the flag and returns. -/
def witnessSched : List (Nat × Act) :=
  [ (0, .start .acquire), (0, .step), (0, .step),
    (2, .start (.flush 100)), (2, .step), (2, .step), (2, .step), (2, .step), (2, .step), (2, .step),
    (1, .start .acquire), (1, .step), (1, .step),
    (2, .start (.flush 200)), (2, .step), (2, .step), (2, .step), (2, .step), (2, .step), (2, .step),
    -- T0: REL_DEC, REL_CLOSED, REL_INSERT, REL_TRYLOCK, CL_READ, CL_PROC, CL_READ  -> parked at REL_UNLOCK
    (0, .start (.release 0)), (0, .step), (0, .step), (0, .step), (0, .step), (0, .step), (0, .step), (0, .step),
    -- T1: REL_DEC, REL_CLOSED, REL_INSERT, REL_TRYLOCK (fails) -> returns
    (1, .start (.release 0)), (1, .step), (1, .step), (1, .step), (1, .step),
    -- T0: REL_UNLOCK -> returns (original code)
    (0, .step) ]

/-- WITNESS (not a proof of C17): the original protocol ends quiescent with session 1 queued,
    one destructor call for two flushes. -/
theorem C17_unfixed_counterexample :
    (run false (init 3) witnessSched).map
        (fun s => (quiescent s, s.freeq, s.log, s.activeSeqno, s.freeSeqno))
      = some (true, [1], [(1, 100)], 2, 1) := by decide

/-- the same schedule under the fixed protocol leaves T0 at REL_RECHECK (not quiescent); seven more
    steps of T0 run the second destructor (a test) -/
example :
    (run true (init 3) (witnessSched ++ [(0, .step), (0, .step), (0, .step), (0, .step), (0, .step),
        (0, .step), (0, .step)])).map
        (fun s => (quiescent s, s.freeq, s.log, s.activeSeqno, s.freeSeqno))
      = some (true, [], [(1, 100), (2, 200)], 2, 2) := by decide

/-! ### non-vacuity of C17: a reachable quiescent state of the fixed protocol with two flushes -/
example : ∃ st, run true (init 3) (witnessSched ++ [(0, .step), (0, .step), (0, .step), (0, .step),
      (0, .step), (0, .step), (0, .step)]) = some st ∧ quiescent st = true ∧ st.activeSeqno = 2 ∧
      NothingPending st := by
  have hd : (run true (init 3) (witnessSched ++ [(0, .step), (0, .step), (0, .step), (0, .step),
      (0, .step), (0, .step), (0, .step)])).isSome = true := by decide
  obtain ⟨st, hst⟩ := Option.isSome_iff_exists.mp hd
  have h2 : (run true (init 3) (witnessSched ++ [(0, .step), (0, .step), (0, .step), (0, .step),
      (0, .step), (0, .step), (0, .step)])).map (fun s => (quiescent s, s.activeSeqno))
      = some (true, 2) := by decide
  rw [hst] at h2; simp at h2
  exact ⟨st, hst, h2.1, h2.2, C17_quiescent_nothing_pending 3 _ st hst h2.1⟩

end NitroVerif.Barrier
