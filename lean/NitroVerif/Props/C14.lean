import NitroVerif.Lemmas.SkipSeqRun
import NitroVerif.Lemmas.SkipSeqBuildRun
/-!
  C14 — "Whenever no operation is in flight, the nodes not marked deleted on each level of the
  skiplist form a strictly increasing, acyclic chain from head to tail that is a sub-sequence of the
  level below, every live node is linked at all levels up to its height, and the statistics (node
  count, per-level distribution, soft deletes, memory in use, allocations minus frees) equal what a
  walk of the structure measures.  This holds after any concurrent history, after bulk building, and
  after restore."

  Proved here on M3: after every SEQUENTIAL history (`C14_wf_sequential`) and after bulk building
  (`C14_wf_assemble` below; the content and statistics of the assembled list are in `Props/C18.lean`).  `WF` (`Lemmas/SkipSeqWF.lean`) is
  stated on the walks `walkLevel` of the heap, not on ghost state.  Memory bytes are not modelled.
  With Go-managed memory `node_frees` stays 0, so "allocations minus frees" equals the number of
  successful inserts, not the node count (finding D20); that is what is proved.
-/
namespace NitroVerif.Props.C14
open NitroVerif NitroVerif.SkipSeq NitroVerif.OrdSet

/-- C14, sequential: after every script of operations (every level assignment) the structure is
    well-formed and allocations − frees = number of successful inserts so far. -/
theorem C14_wf_sequential (ops : List Op) :
    WF (run St.init ops).1.sl ∧
    (run St.init ops).1.sl.stats.nodeAllocs - (run St.init ops).1.sl.stats.nodeFrees
      = (insCount ops (run St.init ops).2 : Int) := by
  rcases run_sim ops St.init SpecSt.init [] sim_init with ⟨_, ⟨L0, hs⟩, hal⟩
  refine ⟨hs.rep.wf, ?_⟩
  rw [hal, hs.rep.stats.frees]
  simp [St.init, SL.init, Stats.zero]

/-- …and what the walk of level 0 yields is the specification's set -/
theorem C14_walk_is_set (ops : List Op) :
    (lev (run St.init ops).1.sl 0).map (keyOf (run St.init ops).1.sl.nodes)
      = (specRun SpecSt.init ops).1.set.map Key.item := by
  rcases run_sim ops St.init SpecSt.init [] sim_init with ⟨_, ⟨L0, hs⟩, _⟩
  have : lev (run St.init ops).1.sl 0 = L0 := by
    unfold lev; rw [hs.rep.lev_eq (Nat.zero_le _), LL_zero]; rfl
  rw [this, hs.keys, keys_map hs.rep]

/-- C14, bulk building: after ANY filling history (`NewSegment` / `Segment.Add` calls in any
    interleaving, any level requests) and `Assemble` of ANY selection of distinct segments in any order
    (empty ones anywhere), the assembled skiplist is well-formed, provided the concatenated keys are
    strictly ascending (the builder's contract; without it only sortedness is lost, see
    `C18_assemble`). -/
theorem C14_wf_assemble (ops : List BOp) (sel : List (Segment × List Nat))
    (hsel : ∃ sub, sub.Sublist (grun (SL.init, []) ops).2 ∧ sel.Perm sub)
    (hsorted : (allNodes sel).Pairwise
      (fun a c => ikey (grun (SL.init, []) ops).1.nodes a < ikey (grun (SL.init, []) ops).1.nodes c)) :
    WF (assemble (grun (SL.init, []) ops).1 (sel.map (·.1))).1 :=
  (assemble_rep ((grun_ok ops (SL.init, []) buildOK_init).1.select hsel) hsorted).wf

/-! ### non-vacuity -/

set_option maxRecDepth 20000 in
/-- three segments, the middle one empty, assembled: the walks and the statistics (a test by
    evaluation of the executable machine `brun`, which `C18_fill` ties to `grun`) -/
example :
    let st := brun (SL.init, []) [.new, .new, .new, .add 0 1 0, .add 0 2 3, .add 2 5 1, .add 2 6 0, .add 2 7 2]
    let s := (assemble st.1 st.2).1
    (walkLevel s 0, walkLevel s 1, walkLevel s 2, s.level, s.stats.levelNodesCount.take 3, s.stats.nodeAllocs)
      = (some [3, 4, 5, 6, 7], some [4, 5, 7], some [7], 2, [2, 2, 1], 5) := by decide

/-- a non-trivial state reached by a script: three nodes on three levels (a test by evaluation) -/
example :
    let s := (run St.init [.ins 5 0, .ins 3 1, .ins 9 5, .ins 7 2, .del 5]).1.sl
    (walkLevel s 0, walkLevel s 1, walkLevel s 2, s.level, s.stats.levelNodesCount.take 3, s.stats.nodeAllocs)
      = (some [4, 6, 5], some [4, 6, 5], some [6, 5], 2, [0, 1, 2], 4) := by decide

end NitroVerif.Props.C14
