import NitroVerif.Model.MvccConc
import NitroVerif.Lemmas.BarrierAbs
/-!
  C16abs, second half — the EAGER abstract barrier of `Model/MvccConc.lean` is the LAZY abstract barrier
  `AbsBarrier` followed by `destruct` repeated while enabled.

  `absM σ` reads the barrier component of an MvccConc state (`sess`, `freeSeq`) as an `AbsBarrier`
  (holders = `Holder`s, objects = node lists; the log starts empty because MvccConc keeps no log: the
  objects destructed by one call are what that call appends to the log, and the non-nil ones become the
  new free jobs, `jobsOf`).

  What is still ARGUED after this file and `Props/C16abs.lean`:
  * that the C04/C07 invariants of MvccConc are insensitive to WHEN, between the termination of a session
    and the next quiescent point of the barrier, its destructor runs (MvccConc runs it inside the
    terminating `release`/`flush`; M4 may run it later, in another thread's `Release`, but — C17 — not
    later than quiescence), and to WHICH thread runs it;
  * the late grant of `Props/C16abs.lean` (a token of the just-closed session handed out between FL_SWAP
    and FL_ADD), which `AbsBarrier`'s atomic `flush` does not have;
  * that holders are anonymous in `absOf` (M4 side) and named here.
-/
namespace NitroVerif.MvccConc
open NitroVerif NitroVerif.AbsBarrier

/-- an MvccConc session as a session of `AbsBarrier` -/
def conv (s : Sess) : ASess Holder (List Nat) := ⟨s.holders, s.flushed, s.list⟩

/-- the barrier component of an MvccConc state -/
def absM (σ : State) : AbsBarrier Holder (List Nat) := ⟨σ.sess.map conv, σ.freeSeq, []⟩

/-- the free jobs the destructor creates for the destructed objects (non-nil lists only) -/
def jobsOf (objs : List (List Nat)) : List FrJob :=
  (objs.filter (fun l => !l.isEmpty)).map (fun l => ⟨l, .recv⟩)

theorem map_modify_conv (l : List Sess) (i : Nat) (f : Sess → Sess)
    (g : ASess Holder (List Nat) → ASess Holder (List Nat)) (hfg : ∀ s, conv (f s) = g (conv s)) :
    (l.modify i f).map conv = (l.map conv).modify i g := by
  apply List.ext_getElem?
  intro j
  simp only [List.getElem?_map, List.getElem?_modify]
  by_cases e : i = j
  · cases l[j]? <;> simp [e, hfg]
  · cases l[j]? <;> simp [e]

theorem readyList_absM (sess : List Sess) (fs : Nat) (lg : List (List Nat)) :
    readyList (⟨sess.map conv, fs, lg⟩ : AbsBarrier Holder (List Nat)) = (readySess sess fs).map conv := by
  unfold readyList readySess
  simp only []
  rw [← List.map_drop, List.takeWhile_map]
  rfl

theorem newFrJobs_eq (ready : List Sess) : newFrJobs ready = jobsOf ((ready.map conv).map (·.obj)) := by
  unfold newFrJobs jobsOf
  rw [List.map_map, List.filter_map, List.map_map]
  rfl

/-- `cleanup` is "destruct to exhaustion" -/
theorem C16abs_cleanup_is_eager (σ : State) :
    (cleanup σ).sess.map conv = (eager (absM σ)).sess ∧
    (cleanup σ).freeSeq = (eager (absM σ)).freeSeq ∧
    (cleanup σ).frJobs = σ.frJobs ++ jobsOf (eager (absM σ)).log := by
  rw [eager_eq]
  simp only [absM]
  rw [readyList_absM]
  refine ⟨rfl, ?_, ?_⟩
  · simp [cleanup]
  · simp only [cleanup, newFrJobs_eq, List.nil_append]

theorem absM_acquire (σ : State) (h : Holder) : absM (acquire σ h) = acqF (absM σ) h := by
  unfold absM acquire acqF acqSess
  simp only [List.length_map]
  congr 1
  exact map_modify_conv _ _ _ _ (fun s => rfl)

theorem absM_relSess (σ : State) (tok : Nat) (h : Holder) :
    absM { σ with sess := relSess σ.sess tok h } = relF (absM σ) tok h := by
  unfold absM relF relSess
  simp only []
  congr 1
  exact map_modify_conv _ _ _ _ (fun s => rfl)

theorem absM_flushSess (σ : State) (list : List Nat) :
    absM { σ with sess := flushSess σ.sess list } = flushF (absM σ) list := by
  unfold absM flushF flushSess
  simp only [List.length_map, List.map_append]
  congr 1
  rw [map_modify_conv _ _ _ (fun s => { s with flushed := true, obj := list }) (fun s => rfl)]
  rfl

/-- **C16abs, MvccConc side.**  On the barrier component (`sess`, `freeSeq`, the new free jobs):
    `acquire` is the lazy `acq`; `release` is the lazy `rel` followed by `destruct` repeated while enabled
    (`eager`); `flush` is the lazy `flush` followed by `destruct` repeated while enabled.  The objects
    destructed by the call (`log`, starting from the empty log of `absM`) are exactly those whose non-nil
    lists become the new free jobs. -/
theorem C16abs_mvcc_eager_is_lazy_then_destructs (σ : State) :
    (∀ h, absM (acquire σ h) = acqF (absM σ) h ∧ (acquire σ h).frJobs = σ.frJobs) ∧
    (∀ tok h,
      (release σ tok h).sess.map conv = (eager (relF (absM σ) tok h)).sess ∧
      (release σ tok h).freeSeq = (eager (relF (absM σ) tok h)).freeSeq ∧
      (release σ tok h).frJobs = σ.frJobs ++ jobsOf (eager (relF (absM σ) tok h)).log) ∧
    (∀ list,
      (flush σ list).sess.map conv = (eager (flushF (absM σ) list)).sess ∧
      (flush σ list).freeSeq = (eager (flushF (absM σ) list)).freeSeq ∧
      (flush σ list).frJobs = σ.frJobs ++ jobsOf (eager (flushF (absM σ) list)).log) := by
  refine ⟨fun h => ⟨absM_acquire σ h, rfl⟩, ?_, ?_⟩
  · intro tok h
    rw [← absM_relSess]
    exact C16abs_cleanup_is_eager { σ with sess := relSess σ.sess tok h }
  · intro list
    rw [← absM_flushSess]
    exact C16abs_cleanup_is_eager { σ with sess := flushSess σ.sess list }

/-- the eager barrier's moves are RUNS of the lazy barrier: `rel` (when the token is held) resp. `flush`,
    then the `destruct` actions of `exhaustActs`, each enabled when it is taken, end in the `eager` state
    — so every barrier state MvccConc reaches is reachable in the lazy barrier -/
theorem C16abs_mvcc_moves_are_lazy_runs (σ : State) :
    (∀ tok h, holds (absM σ) tok h = true →
      AbsBarrier.run (absM σ) (.rel tok h ::
          exhaustActs ((relF (absM σ) tok h).sess.length - (relF (absM σ) tok h).freeSeq) (relF (absM σ) tok h))
        = some (eager (relF (absM σ) tok h))) ∧
    (∀ list,
      AbsBarrier.run (absM σ) (.flush list ::
          exhaustActs ((flushF (absM σ) list).sess.length - (flushF (absM σ) list).freeSeq) (flushF (absM σ) list))
        = some (eager (flushF (absM σ) list))) := by
  constructor
  · intro tok h hh
    simp only [AbsBarrier.run, AbsBarrier.step, hh, if_true]
    exact run_exhaustActs _ _
  · intro list
    simp only [AbsBarrier.run, AbsBarrier.step]
    exact run_exhaustActs _ _

/-! ### non-vacuity: two sessions, the older one terminated by a release; `release` destructs it and the
    next one (already terminated) in one go -/
def exσ : State :=
  { init 1 1 with sess := [⟨[.thr 0], true, [7]⟩, ⟨[], true, []⟩, ⟨[], false, []⟩] }

example : (release exσ 0 (.thr 0)).freeSeq = 2 ∧ (release exσ 0 (.thr 0)).frJobs.map (·.list) = [[7]] ∧
    holds (absM exσ) 0 (.thr 0) = true ∧
    (eager (relF (absM exσ) 0 (.thr 0))).log = [[7], []] ∧
    exhaustActs 3 (relF (absM exσ) 0 (.thr 0)) = [.destruct, .destruct] := by
  refine ⟨by decide, by decide, by decide, by decide, by decide⟩

end NitroVerif.MvccConc
