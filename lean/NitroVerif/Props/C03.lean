import NitroVerif.Lemmas.MvccConcAlt
/-!
  # C03 — Concurrent writers are linearizable with respect to the set semantics

  "When several writers, one per goroutine, issue Put, Delete and lookups concurrently between two snapshot
  creations, every operation appears to take effect atomically at some instant between its call and its
  return, consistently with the set semantics of C02.  In particular, of any group of concurrent Puts (or
  Deletes) of one key exactly one succeeds per state change, and the next snapshot's content and Count()
  equal the outcome of that linearization."

  Model: `Model/MvccConc.lean` (small-step M6).  `_partial` in the name of the main theorem means exactly
  one thing: every skiplist operation (Insert2 with its exists-check, DeleteNode, the GetNode lookup) is ONE
  atomic action of the model — that a search made of many pointer reads may be treated so is the subject of
  C13, which is proved for the level-0 core only.  Everything else is at full strength:
  * all numbers of writers and readers, all schedules of all actions of the machine — the writers' calls
    and steps interleaved with readers, snapshot creations (any number of epochs, not only one), snapshot
    closes, collection jobs (which unlink dead versions under the writers' feet) and free jobs;
  * keys hit by many writers at once, keys born in the current epoch (physical delete) and in earlier
    epochs (`deadSn` compare-and-swap), re-insertion of a key while a losing Delete is still parked.

  The linearization is constructed (`Lemmas/MvccConcLin.lean`): `trace` turns a schedule into the list of
  `call` / `lin` / `ret` / `snap` events; `call` and `ret` are the accepted `start` actions and the answers
  actually given by the machine; a `lin` event is emitted at the decisive step of the operation — PUT_INSERT;
  the lookup of a Delete that finds nothing or of a GetNode; the winning DEL_NODE_PHYS / DEL_NODE_CAS step —
  and, for a Delete that loses its node to another one, at the winner's step (its own failed step comes
  later; linearizing it there would be wrong: the key may be alive again by then — see the example).
  `replay` runs the `lin` and `snap` events, in trace order, on `Spec/SetSpec.lean` and succeeds only if every
  recorded result is the specification's result.  `phaseOf t` checks that the events of thread `t` come in
  the order call, lin, ret, call, lin, ret, … with the `lin` carrying the operation of the `call` and the
  `ret` carrying the result of the `lin` (`Phase.broken` otherwise): every linearization point lies between
  the call and the return of its operation, and the returned value is the linearized one.
-/
namespace NitroVerif.Props.C03
open NitroVerif NitroVerif.MvccConc
open NitroVerif.SetSpec (Op Out)

theorem abs_init (nw nr : Nat) (fx : Bool) : Abs (init nw nr fx) (SetSpec.init nw) :=
  ⟨by simp [init, SetSpec.init], by simp [init, SetSpec.init, vers, Mvcc.absAlive], rfl⟩

theorem phaseOK_init (nw nr : Nat) (fx : Bool) (t : Nat) : PhaseOK (init nw nr fx) t .idle := by
  intro pc hg
  have := replicate_get (show (List.replicate (nw + nr) Pc.idle)[t]? = some pc from hg)
  subst this; rfl

/-- **C03_linearizable_atomic_search_partial.**  For every number of writers and readers and every
    schedule, the constructed linearization (the `lin` and `snap` events of the trace, in trace order)
    * replays on the set specification from its initial state with exactly the observed results — the
      success flags of Put and Delete, the values found by GetNode, `sn` and `Count()` of every snapshot
      created along the way;
    * leaves the specification with the alive set, the epoch and the writers of the final state of the
      machine;
    * is, for every thread, interleaved with its calls and returns as call, lin, ret, call, lin, ret, …:
      each linearization point lies between the call and the return of its operation and carries the value
      that operation returns. -/
theorem C03_linearizable_atomic_search_partial (fx : Bool) (nw nr : Nat) (sched : List Act) :
    ∃ sp' : SetSpec.State,
      replay (SetSpec.init nw) (trace (init nw nr fx) sched) = some sp' ∧
      Abs (run (init nw nr fx) sched) sp' ∧
      ∀ t, phaseOf t .idle (trace (init nw nr fx) sched) ≠ .broken := by
  obtain ⟨sp', h1, h2, h3⟩ := lin_run sched (ReachableFx.init (fx := fx) (nw := nw) (nr := nr)) (abs_init nw nr fx)
    (fun _ => .idle) (phaseOK_init nw nr fx)
  refine ⟨sp', h1, h2, ?_⟩
  intro t hb
  have := h3 t
  rw [hb] at this
  exact this

/-- the same from any reachable state, relative to a specification state related to it -/
theorem C03_linearizable_from {fx : Bool} {nw nr : Nat} {σ : State} (hr : ReachableFx fx nw nr σ)
    {sp : SetSpec.State} (habs : Abs σ sp) (ps : Nat → Phase) (hps : ∀ t, PhaseOK σ t (ps t)) (sched : List Act) :
    ∃ sp', replay sp (trace σ sched) = some sp' ∧ Abs (run σ sched) sp' ∧
      ∀ t, PhaseOK (run σ sched) t (phaseOf t (ps t) (trace σ sched)) :=
  lin_run sched hr habs ps hps

/-- the specification's `snap` observation as a response of the machine -/
def retSnap : Out → Resp
  | .snap sn c => .snap sn c
  | _ => .bad

/-- **C03 (next snapshot).**  Whenever `NewSnapshot` is allowed after a schedule (no writer call in
    progress), its `sn` and `Count()` are those the specification gives after the linearization, and its
    content — what the snapshot numbered `currSn` sees of the store — is the specification's alive set. -/
theorem C03_next_snapshot (fx : Bool) (nw nr : Nat) (sched : List Act)
    (hd : (run (init nw nr fx) sched).down = false) (hi : writersIdle (run (init nw nr fx) sched) = true) :
    ∃ sp' : SetSpec.State,
      replay (SetSpec.init nw) (trace (init nw nr fx) sched) = some sp' ∧
      (step (run (init nw nr fx) sched) .snap).2 =
        .snap sp'.epoch ((sp'.alive.map (fun e => (e.key, e.val))).length : Nat) ∧
      retSnap (SetSpec.step sp' .snap).2 = (step (run (init nw nr fx) sched) .snap).2 ∧
      (Mvcc.view (vers (run (init nw nr fx) sched).store) (run (init nw nr fx) sched).currSn).map Mvcc.Ver.item =
        sp'.alive.map (fun e => (e.key, e.val)) := by
  obtain ⟨sp', h1, h2, _⟩ := C03_linearizable_atomic_search_partial fx nw nr sched
  have hr : ReachableFx fx nw nr (run (init nw nr fx) sched) := reachable_run .init sched
  have hinv := inv_reachable hr hd
  have hst : step (run (init nw nr fx) sched) .snap = snap (run (init nw nr fx) sched) := by
    rw [step_eq_of_not_down hd]; simp only [hi, if_true]
  have hcount : ((sp'.alive.map (fun e => (e.key, e.val))).length : Int) =
      (run (init nw nr fx) sched).itemsCount + ((run (init nw nr fx) sched).writers.map (·.count)).sum := by
    rw [List.length_map, h2.alive, absAlive_length]
    exact hinv.store.cnt.symm
  have hresp : (step (run (init nw nr fx) sched) .snap).2 =
      .snap sp'.epoch ((sp'.alive.map (fun e => (e.key, e.val))).length : Nat) := by
    rw [hst]; simp only [snap]; rw [h2.epoch, hcount]
  refine ⟨sp', h1, hresp, ?_, ?_⟩
  · rw [hresp]; simp [SetSpec.step, retSnap]
  · rw [h2.alive]
    exact (Mvcc.absAlive_items hinv.store.chains).symm

/-- **C03_one_winner** (set level: "exactly one succeeds per state change").  In the linearization of
    every schedule, for every key, the successful Puts and the successful Deletes of that key alternate,
    beginning with a Put: between two successful Deletes of a key there is a successful Put of it, and
    between two successful Puts a successful Delete — of any number of concurrent Puts of one key at most
    one succeeds while the key stays alive, of any number of concurrent Deletes exactly one per alive
    instance. -/
theorem C03_one_winner (fx : Bool) (nw nr : Nat) (sched : List Act) (k : Nat) :
    Alternates false (winners k (trace (init nw nr fx) sched)) := by
  obtain ⟨sp', h1, _, _⟩ := C03_linearizable_atomic_search_partial fx nw nr sched
  have := alternates_of_replay k _ _ _ h1
  simpa [keyAlive, SetSpec.init, SetSpec.findKey] using this

/-- **C03_one_winner** (node level).  When a Delete wins a node — its DEL_NODE_PHYS finds the node still
    linked, or its DEL_NODE_CAS finds `deadSn = 0` — every other Delete parked on the same node is
    linearized at that very step as a failure; by `C03_linearizable_atomic_search_partial` each operation
    has exactly one linearization point and returns its value, so of the concurrent Deletes that found the
    same node exactly one returns true. -/
theorem C03_same_node_losers {fx : Bool} {nw nr : Nat} {σ : State} (hr : ReachableFx fx nw nr σ)
    (hd : σ.down = false) {t t' n tok tok' k k' : Nat} (hne : t' ≠ t)
    (ht' : σ.threads[t']? = some (.delPhys n tok' k') ∨ σ.threads[t']? = some (.delCas n tok' k'))
    (hwin : (σ.threads[t]? = some (.delPhys n tok k) ∧ n ∈ storeIds σ.store) ∨
            (σ.threads[t]? = some (.delCas n tok k) ∧ AliveIn σ.store n)) :
    Ev.lin t' (.del t' k') (.bool false) ∈ events σ (.step t) ∧
    Ev.lin t (.del t k) (.bool true) ∈ events σ (.step t) := by
  have hinv := inv_reachable hr hd
  have hlos : Ev.lin t' (.del t' k') (.bool false) ∈ losers σ t n := by
    unfold losers
    refine List.mem_filterMap.mpr ⟨t', ?_, ?_⟩
    · rw [List.mem_range]
      rcases ht' with h | h <;> exact (List.getElem?_eq_some_iff.mp h).1
    · unfold loserEv
      rcases ht' with h | h <;> simp [hne, h]
  unfold events
  rcases hwin with ⟨hg, hm⟩ | ⟨hg, x, hx, hid, hxd⟩
  · obtain ⟨x, hf⟩ : ∃ x, findNode σ.store n = some x := by
      cases hf : findNode σ.store n with
      | some x => exact ⟨x, rfl⟩
      | none => exact absurd hm (findNode_none_iff.mp hf)
    have : lins σ (.step t) = .lin t (.del t k) (.bool true) :: losers σ t n := by
      simp only [lins, hd, hg, hf, Bool.false_eq_true, if_false]
    rw [this]
    exact ⟨by simp [hlos], by simp⟩
  · have hfx : findNode σ.store n = some x := by
      rw [← hid]; exact findNode_of_mem hinv.store.ids hx
    have : lins σ (.step t) = .lin t (.del t k) (.bool true) :: losers σ t n := by
      simp only [lins, hd, hg, hfx, hxd, Bool.false_eq_true, if_false, if_true]
    rw [this]
    exact ⟨by simp [hlos], by simp⟩

/-! ### non-vacuity (tests, evaluated by the kernel)

  Two writers race on key 5 in one epoch.  Put 5 by writer 0; both writers start Delete 5 and find the same
  node; writer 1 wins the physical delete, flushes, returns true, and puts 5 again (a new node); only then
  does writer 0 take its DEL_NODE_PHYS step: it fails on the node it holds and returns false although key 5
  is alive at that instant.  The constructed linearization puts writer 0's Delete right after writer 1's
  winning step. -/

def race : List Act :=
  [.put 0 5 0, .step 0, .del 0 5, .del 1 5, .step 1, .step 1, .put 1 5 1, .step 1, .step 0, .get 0 5, .snap]

example :
    trace (init 2 0) race =
      [.call 0 (.put 0 5 0), .lin 0 (.put 0 5 0) (.bool true), .ret 0 (.bool true),
       .call 0 (.del 0 5), .call 1 (.del 1 5),
       .lin 1 (.del 1 5) (.bool true), .lin 0 (.del 0 5) (.bool false),
       .ret 1 (.bool true),
       .call 1 (.put 1 5 1), .lin 1 (.put 1 5 1) (.bool true), .ret 1 (.bool true),
       .ret 0 (.bool false),
       .call 0 (.get 0 5), .lin 0 (.get 0 5) (.val (some 1)), .ret 0 (.val (some 1)),
       .snap (.snap 1 1)] := by decide

example : (replay (SetSpec.init 2) (trace (init 2 0) race)).isSome = true := by decide

example : winners 5 (trace (init 2 0) race) = [true, false, true] := by decide

example : phaseOf 0 .idle (trace (init 2 0) race) = .idle ∧ phaseOf 1 .idle (trace (init 2 0) race) = .idle := by
  decide

end NitroVerif.Props.C03
