/-
  C01 Snapshot isolation.
  "Every snapshot, for as long as it is open, presents exactly the set of items that were live at the
   instant it was created: a full scan yields each of them once, in comparator order, with the bytes
   they had then, and Count() equals that number.  This holds whatever Puts, Deletes, creation and
   closing of other (older or newer) snapshots, garbage collection and concurrent readers happen
   afterwards."

  Model M6 (sequential engine: one goroutine drives everything; garbage collection is performed
  at once inside the `Close` that retires a snapshot).  "Whatever happens afterwards" is the
  quantification over all reachable states / all operation sequences.  The concurrent-reader part
  of the statement is outside this model (it is the M6 small-step variant's job).
-/
import NitroVerif.Lemmas.MvccScanTrace

namespace NitroVerif.Props
open NitroVerif NitroVerif.Mvcc
open NitroVerif.SetSpec (Op Out Item)

/-- **C01 (view invariant)** In every reachable state, for every snapshot with a positive reference
    count: the versions of the physical store visible at its number (`¬ Gen.skipUnwanted born dead sn`)
    are exactly its ghost content, its `Count()` is the length of the content, and the content is
    strictly sorted by key (each item once, in comparator order). -/
theorem C01_view_invariant {n : Nat} {σ : Mvcc.State} (hr : Reachable n σ) :
    ∀ s ∈ σ.snaps, 0 < s.rc →
      view σ.store s.sn = s.content ∧ s.count = (s.content.length : Nat) ∧
      s.content.Pairwise (fun a b => a.key < b.key) := by
  intro s hs hrc
  have h := inv_reachable hr
  have hv := h.view s hs hrc
  refine ⟨hv, h.snaps.cnt s hs, ?_⟩
  rw [← hv]
  exact List.pairwise_map.mpr (vis_keySorted h.sorted h.chains s.sn)

/-- the ghost content is fixed at creation to the items live at that instant: `NewSnapshot`
    records the versions visible at the current number, which are exactly the alive items (those of
    the reference set), and reports their number -/
theorem C01_content_at_creation {n : Nat} {σ : Mvcc.State} (hr : Reachable n σ) :
    (newSnapshot σ).2.content = view σ.store σ.currSn ∧
    (newSnapshot σ).2.content.map Ver.item = (abs σ).alive.map (fun e => (e.key, e.val)) ∧
    (newSnapshot σ).2.count = ((newSnapshot σ).2.content.length : Nat) := by
  have h := inv_reachable hr
  refine ⟨rfl, (absAlive_items h.chains).symm, ?_⟩
  have h' := inv_newSnapshot h
  apply h'.snaps.cnt
  simp [newSnapshot]

/-- …and never changes afterwards, whatever operation is executed -/
theorem C01_content_fixed {n : Nat} {σ : Mvcc.State} (hr : Reachable n σ) (op : Op) {s : Snap}
    (hs : s ∈ σ.snaps) :
    ∃ s' ∈ (Mvcc.step σ op).1.snaps, s'.sn = s.sn ∧ s'.content.map Ver.item = s.content.map Ver.item :=
  model_content_fixed (inv_reachable hr) op hs

/-- **C01 (scan)** a full scan (`NewIterator`, `SeekFirst`, `Next`…, `Close`) of an open snapshot, at
    any refresh rate, yields exactly its content and leaves the state as it was -/
theorem C01_scan {n : Nat} {σ : Mvcc.State} (hr : Reachable n σ) {s : Snap} (hs : s ∈ σ.snaps)
    (hrc : 0 < s.rc) (rate : Int) :
    Mvcc.step σ (.scan s.sn rate) = (σ, .items (s.content.map Ver.item)) ∧
    (scanAll σ.store s.sn rate).map Ver.norm = s.content := by
  have h := inv_reachable hr
  have hf := findSnap_of_mem h.snaps.inc hs
  have hne : s.rc ≠ 0 := by omega
  have ho : Gen.openRefuse s.rc = false := by
    cases hq : Gen.openRefuse s.rc
    · rfl
    · exact absurd ((openRefuse_iff _).mp hq) hne
  constructor
  · simp only [Mvcc.step, hf, ho, Bool.false_eq_true, if_false]
    rw [withRef_eq σ s.sn hne, scanAll_eq h.sorted h.chains, content_items h hf hne]
  · rw [scanAll_eq h.sorted h.chains]
    exact h.view s hs hrc

/-- the position predicate of the interleaved-scan theorem, on the model -/
def IterAt (σ : Mvcc.State) (i : Nat) (c : List Item) (p : Nat) : Prop := AtPos (abs σ) i c p

/-- `SeekFirst` puts an iterator at position 0 of the content of its snapshot -/
theorem C01_seekFirst_at {n : Nat} {σ : Mvcc.State} (hr : Reachable n σ) {i : Nat} {it : Iter}
    (hi : SetSpec.alookup i σ.iters = some it) :
    ∃ c : List Item, c.Pairwise ItemLt ∧ SetSpec.contentOf (abs σ) it.sn = c ∧
      (Mvcc.step σ (.itFirst i)).2 = .cursor c[0]? ∧ IterAt (Mvcc.step σ (.itFirst i)).1 i c 0 := by
  have h := inv_reachable hr
  obtain ⟨x, hx, hrc, hcont, _⟩ := iter_ctx' h hi
  have hsorted : ((vis σ.store it.sn).map Ver.item).Pairwise ItemLt :=
    List.pairwise_map.mpr (vis_keySorted h.sorted h.chains it.sn)
  have hsim := step_refines h (.itFirst i)
  unfold Refines at hsim
  have hspec : SetSpec.step (abs σ) (.itFirst i) =
      ({ abs σ with iters := SetSpec.aset i ⟨it.sn, ((vis σ.store it.sn).map Ver.item).head?⟩ (abs σ).iters },
       .cursor ((vis σ.store it.sn).map Ver.item).head?) := by
    simp only [SetSpec.step, alookup_iters, hi, Option.map_some, absIt, hcont]
  rw [hspec] at hsim
  have h1 := (Prod.ext_iff.mp hsim).1
  have h2 := (Prod.ext_iff.mp hsim).2
  simp only at h1 h2
  have hf : SetSpec.findSnap it.sn (abs σ).snaps = some (absSnap x) := by
    simp only [abs]; rw [findSnap_abs, hx]; rfl
  have hxc : (absSnap x).content = (vis σ.store it.sn).map Ver.item := by
    rw [← hcont, contentOf_eq hf]
  refine ⟨_, hsorted, hcont, ?_, ?_⟩
  · rw [← h2, List.head?_eq_getElem?]
  · unfold IterAt
    rw [← h1]
    exact ⟨_, absSnap x, alookup_aset_self _ _ _, hf, hxc, List.head?_eq_getElem?⟩

/-- **C01 (scan, interleaved)** Let iterator `i` stand at position `p` of the content `c` of its
    snapshot.  Whatever operations are executed afterwards — Puts, Deletes, new snapshots, closes
    (retiring snapshots and collecting garbage), other iterators, `SetRefreshRate` and explicit
    `Refresh` on `i` itself — as long as `i` is not re-positioned, re-created or closed, the `Next`
    calls on `i` deliver `c[p+1]`, `c[p+2]`, …, then `end` exactly after the last item (and are
    refused afterwards). -/
theorem C01_scan_interleaved {n : Nat} {σ : Mvcc.State} (hr : Reachable n σ) {i : Nat} {c : List Item}
    {p : Nat} (hc : c.Pairwise ItemLt) (hat : IterAt σ i c p) (ops : List Op)
    (hall : ∀ op ∈ ops, allowed i op = true) :
    nextOuts i ops (Mvcc.run σ ops) = expectNext c p (countNext i ops) := by
  rw [run_refines ops (inv_reachable hr)]
  exact spec_scan_interleaved hc i ops (abs σ) p hat hall

/-! ### non-vacuity (tests evaluated by the kernel): snapshot 1 keeps showing `1:10, 2:20` although
    key 1 is deleted and re-inserted with other bytes, key 3 is added, snapshot 2 is created and
    closed before it, and the scan is interleaved with those operations at refresh rate 1 -/
example :
    Mvcc.run (Mvcc.init 1)
      [.put 0 1 10, .put 0 2 20, .snap, .itNew 5 1, .itRate 5 1, .itFirst 5, .del 0 1, .put 0 3 30,
       .snap, .put 0 1 11, .itNext 5, .close 2, .itRefresh 5, .itNext 5, .scan 1 0, .count 1] =
      [.bool true, .bool true, .snap 1 2, .ok, .ok, .cursor (some (1, 10)), .bool true, .bool true,
       .snap 2 2, .bool true, .cursor (some (2, 20)), .ok, .cursor (some (2, 20)), .cursor none,
       .items [(1, 10), (2, 20)], .num 2] := by decide

example : ∃ σ : Mvcc.State, Reachable 1 σ ∧ ∃ s ∈ σ.snaps, 0 < s.rc ∧ s.content.length = 1 :=
  ⟨_, Reachable.step .snap (Reachable.step (.put 0 1 10) Reachable.init), by decide⟩

end NitroVerif.Props
