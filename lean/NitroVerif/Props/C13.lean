import NitroVerif.Lemmas.SkipSeqOnce
/-!
  C13 — "On the skiplist package used directly, concurrent Insert, Delete, DeleteNode and Lookup by
  any number of goroutines are linearizable with respect to an ordered set under the supplied
  comparator: Insert succeeds iff no equal item is present, Delete iff one is, and a given node is
  deleted successfully by exactly one caller.  After quiescence an iterator yields exactly the
  resulting set in order."

  Proved here: the SEQUENTIAL specialisation on the pointer-level model M3 (`Model/SkipSeq.lean`):
  every script of `ins / del / look / getnode / delnode / iter / seek` run by one thread, with every
  level request, produces exactly the outputs of the ordered-set specification machine
  (`Spec/OrdSet.lean`).  The concurrent part belongs to M5 (`C13_updates_linearize`, …) and is not
  claimed here.
-/
namespace NitroVerif.Props.C13
open NitroVerif NitroVerif.SkipSeq NitroVerif.OrdSet

/-- C13, sequential: for every operation sequence and every level request the model's outputs of
    `ins`, `del`, `look`, `getnode`, `delnode`, `iter` and `seek` are those of the ordered set. -/
theorem C13_sequential (ops : List Op) : (run St.init ops).2 = (specRun SpecSt.init ops).2 :=
  (run_sim ops St.init SpecSt.init [] sim_init).1

/-- The set the specification holds (and hence what `iter` prints, by `C13_sequential`) is strictly
    ascending after every script: the iterator yields the set in order, without duplicates. -/
theorem C13_iter_in_order (ops : List Op) : Asc (specRun SpecSt.init ops).1.set := by
  rcases (run_sim ops St.init SpecSt.init [] sim_init).2.1 with ⟨L0, hs⟩
  unfold Asc
  rw [hs.keys, List.pairwise_map]
  exact hs.rep.sorted

/-- Insert succeeds iff no equal item is present, Delete iff one is, Lookup reports membership —
    the specification machine says so by definition; recorded for the reader. -/
theorem spec_ins_iff (sp : SpecSt) (k : Int) (l : Nat) :
    (specStep sp (.ins k l)).2 = .bool (decide (k ∉ sp.set)) := by
  simp only [specStep]
  by_cases h : k ∈ sp.set
  · simp [(member_iff k sp.set).mpr h, h]
  · have : member k sp.set = false := by
      cases hm : member k sp.set with
      | false => rfl
      | true => exact absurd ((member_iff _ _).mp hm) h
    simp [this, h]

theorem spec_del_iff (sp : SpecSt) (k : Int) :
    (specStep sp (.del k)).2 = .bool (decide (k ∈ sp.set)) := by
  simp only [specStep]
  by_cases h : k ∈ sp.set
  · simp [(member_iff k sp.set).mpr h, h]
  · have : member k sp.set = false := by
      cases hm : member k sp.set with
      | false => rfl
      | true => exact absurd ((member_iff _ _).mp hm) h
    simp [this, h]

/-- A given node is deleted successfully at most once: if `delnode h` succeeds, a later `delnode h`
    fails, whatever happens in between, as long as the script does not re-bind the handle name `h`
    to another node (`getnode _ h`) — re-inserting the same key does not revive the old node. -/
theorem C13_delete_once (ops mid : List Op) (h : String)
    (hmid : ∀ op ∈ mid, ∀ k, op ≠ .getnode k h) :
    let outs := (run St.init (ops ++ [.delnode h] ++ mid ++ [.delnode h])).2
    outs.getD ops.length .bad = .bool true → outs.getLast? = some (.bool false) := by
  intro outs
  have houts : outs = (specRun SpecSt.init (ops ++ [.delnode h] ++ mid ++ [.delnode h])).2 := C13_sequential _
  rw [houts]
  simp only [specRun_append, specRun, List.append_assoc]
  generalize hsp : (specRun SpecSt.init ops).1 = sp
  have hlen := specRun_outs_length SpecSt.init ops
  intro hfirst
  have hfirst' : (specStep sp (.delnode h)).2 = .bool true := by
    rw [List.getD_eq_getElem?_getD, List.getElem?_append_right (by omega)] at hfirst
    simpa [hlen] using hfirst
  have hd := deadHandle_run mid _ (delnode_true_dead hfirst') hmid
  have := delnode_dead_false hd
  simp only [List.getLast?_append, this]
  simp

/-! ### non-vacuity -/

/-- a script that exercises every operation, with its outputs (a test, decided by evaluation) -/
example :
    (run St.init [.ins 5 0, .ins 3 1, .ins 9 5, .ins 5 2, .getnode 9 "a", .del 9, .delnode "a",
                  .look 3, .seek 4, .iter]).2
      = [.bool true, .bool true, .bool true, .bool false, .node true, .bool true, .bool false,
         .bool true, .seekAt false (some (.item 5)), .keys [.item 3, .item 5]] := by decide

/-- `C13_delete_once` instantiated: delete a node through its handle, re-insert the key, try again -/
example :
    (run St.init ([.ins 7 2, .getnode 7 "n"] ++ [.delnode "n"] ++ [.ins 7 0, .look 7] ++ [.delnode "n"])).2
      = [.bool true, .node true, .bool true, .bool true, .bool true, .bool false] := by decide

end NitroVerif.Props.C13
