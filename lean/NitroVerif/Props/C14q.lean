import NitroVerif.Lemmas.SkipConcQuietLive
/-!
  C14 on the CONCURRENT model M5 (`Model/SkipConc.lean`), all index levels, the code of /repo as it is now
  (`Sys.init`, i.e. `fixedSucc = true`): every interleaving, any number of threads.

  Property C14, verbatim: "Structure and statistics consistent at quiescence: once no operation is in flight, every
  level of the skiplist is a sorted sub-sequence of the level below it that ends at the tail, no deleted (marked)
  node is reachable at any level, every live node is linked at every level up to its height, and the statistics
  (node count, per-level node counts, soft deletes, allocations minus frees) agree with a walk of the structure."

  PROVED HERE, for EVERY reachable state (quiescent or not):
  * Stage 1 `C14_levels_sorted`: on every level `l ≤ MaxLevel` the chain from the head along the level-`l` words
    reaches the tail within `heap.length` steps, its keys are STRICTLY ascending (no exception is needed: a node is
    never linked in front of a node with an equal key), every node on it is published, is not the tail and has
    height `≥ l`.
  * Stage 2 `C14_levels_sublist`: every node on the level-`l` chain that is unmarked at level `l - 1` is on the
    level-`(l-1)` chain, the part of the level-`l` chain that is unmarked at level `l - 1` is a SUB-SEQUENCE of the
    level-`(l-1)` chain, and a node on the level-`l` chain that is unmarked at level `l` is on the chain of every
    level `≤ l`.
    The literal reading "unmarked at level 0 ⇒ on the chain of level `l - 1`" is FALSE in intermediate states
    (`C14_levels_sublist_unmarked0_refuted`, a kernel-checked schedule): softDelete marks top-down, so while a
    Delete is between its level-1 and its level-0 mark a search may already unlink the node at level 1 although
    it is still linked at level 2 and still unmarked at level 0.  This is transient and harmless (the node is
    marked at level 2 and the deleter's cleaning search is still to come).
  * `C14_walk_is_chain`: the walk the driver prints for a level (`walk h l`) is this chain without the head, each
    node shown with its item and its level-`l` mark.
  PROVED HERE, for every QUIESCENT state (`Sys.quiescent`: all threads idle):
  * Stage 3 `C14_quiescent_no_marked_linked`: no node that is marked at level 0 (deleted) — indeed no node that is
    marked at ANY level — is on the chain of any level, and the printed walks of all levels show no mark.
    Invariant (`InvQ.charged`, Lemmas/SkipConcQuiet*.lean): in every reachable state every deleted node that is
    still on the chain of a level `j` is charged to a thread in flight that is responsible for unlinking it there:
    the deleter whose level-0 mark won is at DEL_SEARCH; any findPath for the node's item that has not finished
    level `j` and from whose position the node is reachable along level `j` (the cleaning search of deleteNode, the
    unlinking search of Insert4, or any other search for that item) — such a search cannot finish level `j` while
    the node is linked there, because chains are strictly sorted; an inserter that links its node at a level at
    which the node is already marked starts, in the same segment, the unlinking search (the second repair of
    Insert4: without it the charge is lost at exactly this step; the first repair is what keeps the chains strictly
    sorted, without it the cleaning search stops at the equal-keyed new node in front of the deleted one — the
    pre-fix witness of Props/C14c.lean).  `InvM.marks`: a node marked at some level is marked at level 0 or a thread
    is still inside softDelete for it.
  * Stage 4, structure, `C14_quiescent_live_fully_linked`: at quiescence every node that is unmarked at level 0 is
    on the chain of every level up to its height (`InvP.pend`).
  NOT PROVED (Stage 4, counters): that `levelNodesCount`, `softDeletes` and `nodeAllocs - nodeFrees` agree with the
  walk at quiescence.  Prepared and kernel-checked, but not yet assembled into the counting invariant: the effect of
  every segment on the counters tied to the event of the level-0 core (`stepThread_goodS`,
  Lemmas/SkipConcStatStep.lean, SkipConcStatSeg.lean) and the change of the level-0 chain as a list under unlink /
  publish (`chain0_unlink`, `chain0_publish`, Lemmas/SkipConcStatChain.lean); the intended invariant (softDeletes =
  number of marked nodes on the level-0 chain; levelNodesCount[k] + Insert4 calls in flight after their publish
  with a node of height k = number of chain nodes of height k; nodeAllocs + such calls = nodes ever published) is
  written down in Scratch/SkipConcStatRun.lean.txt (not imported, unfinished).

  The invariant behind Stages 1 and 2 (`InvL`, Lemmas/SkipConcLevels*.lean): a node that is unmarked at an index level is on
  the chain of that level or no word of that level or above points to it yet (it is still being linked by its
  inserter), chains are strictly sorted, and the thread-local facts about search positions and recorded
  predecessors / successors.  The two repairs of Insert4 enter as follows: the check of the recorded successor's
  mark is what makes "key x < key succ" hold at the upper-level link (without it the chain is not strictly
  sorted); the re-check after the link is not needed for Stages 1 and 2.
-/
namespace NitroVerif.SkipConc
open NitroVerif

theorem chain_reaches_tail {h : Heap} (R : ReachInv h) (L : LvInv h) {l : Nat} (hl : l ≤ Gen.maxLevel) :
    ReachL h l 0 1 := by
  cases l with
  | zero => exact reachL_zero_iff.mpr R.1
  | succ l => exact L.tail _ (by omega) hl

/-- STAGE 1 (safety, every reachable state, every level): the chain of level `l` from the head reaches the tail
    within `heap.length` steps, its keys are strictly ascending, and every node on it is a published node other than
    the tail whose height is at least `l`.  (`ns` = the nodes of the chain, the head first, the tail excluded;
    by `PathL.unique` it is the only such list.) -/
theorem C14_levels_sorted (n : Nat) (as : List Action) (l : Nat) (hl : l ≤ Gen.maxLevel) :
    let h := ((Sys.init n).run as).sh.heap
    ∃ ns, PathL h l 0 ns 1 ∧ ns.length ≤ h.length ∧
      ns.Pairwise (fun a b => Key.lt (keyOf h a) (keyOf h b)) ∧
      ∀ a ∈ ns, a < h.length ∧ a ≠ 1 ∧ l ≤ heightOf h a := by
  intro h
  have hI := run_invL (InvL_init n) as
  have H := hI.base.1.1
  obtain ⟨ns, p⟩ := (chain_reaches_tail hI.base.2 hI.lv hl).toPath
  have hs := (p.sorted (chain_edges_sorted H hI.lv l) (.refl _)).1
  have hmem : ∀ a ∈ ns, a < h.length ∧ a ≠ 1 ∧ l ≤ heightOf h a := by
    intro a ha
    obtain ⟨_, _, hw⟩ := p.mem ha
    obtain ⟨w, hw⟩ := Option.isSome_iff_exists.mp hw
    refine ⟨word?_lt hw, ?_, H.wordLevel _ _ _ hw⟩
    intro e; rw [e, H.tailNoWord] at hw; simp at hw
  refine ⟨ns, p, ?_, hs, hmem⟩
  refine length_le_of_nodup_lt (hs.imp (fun hab e => ?_)) (fun a ha => (hmem a ha).1)
  rw [e] at hab; exact Key.lt_irrefl _ hab

/-- STAGE 2 (every reachable state, every index level `1 ≤ l ≤ MaxLevel`):
    (1) a node on the level-`l` chain that is unmarked at level `l - 1` is on the level-`(l-1)` chain;
    (2) the nodes of the level-`l` chain that are unmarked at level `l - 1` form a sub-sequence of the level-`(l-1)`
        chain;
    (3) a node on the level-`l` chain that is unmarked at level `l` is on the chain of every level `≤ l`. -/
theorem C14_levels_sublist (n : Nat) (as : List Action) (l : Nat) (h1 : 1 ≤ l) (hl : l ≤ Gen.maxLevel) :
    let h := ((Sys.init n).run as).sh.heap
    (∀ a, OnChain h l a → unmarkedAt h (l - 1) a → OnChain h (l - 1) a) ∧
    (∀ ns ms, PathL h l 0 ns 1 → PathL h (l - 1) 0 ms 1 →
      (ns.filter fun a => !(getNext h a (l - 1)).2).Sublist ms) ∧
    (∀ a l', OnChain h l a → unmarkedAt h l a → l' ≤ l → OnChain h l' a) := by
  intro h
  have hI := run_invL (InvL_init n) as
  have H := hI.base.1.1
  have R := hI.base.2
  -- a node on the chain of level `l` is on the chain of every level `≤ l` at which it is unmarked
  have key : ∀ a l', OnChain h l a → l' ≤ l → unmarkedAt h l' a → OnChain h l' a := by
    intro a l' hc hle hu
    by_cases ha : a = 0
    · subst ha; exact .refl _
    · obtain ⟨b, m, hw⟩ := hc.pointed ha
      cases l' with
      | zero => exact reachL_zero_iff.mpr (R.2 a hu)
      | succ l' => exact hI.lv.pointed hw _ (by omega) hle hu
  refine ⟨fun a hc hu => key a (l - 1) hc (by omega) hu, ?_, fun a l' hc hu hle => key a l' hc hle (unmarkedAt_down H hu hle)⟩
  intro ns ms p q
  have hsn := (p.sorted (chain_edges_sorted H hI.lv l) (.refl _)).1
  have hsm := (q.sorted (chain_edges_sorted H hI.lv (l - 1)) (.refl _)).1
  refine sublist_of_sorted_subset (R := fun a b => Key.lt (keyOf h a) (keyOf h b)) (fun a => Key.lt_irrefl _)
    (fun a b => Key.lt_asymm) ms _ (hsn.sublist List.filter_sublist) hsm (fun x hx => ?_)
  obtain ⟨hxn, hxm⟩ := List.mem_filter.mp hx
  obtain ⟨r1, _, hw⟩ := p.mem hxn
  obtain ⟨w, hw⟩ := Option.isSome_iff_exists.mp hw
  have hx1 : x ≠ 1 := by
    intro e; rw [e, H.tailNoWord] at hw; simp at hw
  have hs := H.full x (l - 1) (word?_lt hw) hx1 (Nat.le_trans (Nat.sub_le _ _) (H.wordLevel _ _ _ hw))
  obtain ⟨⟨q', m⟩, hq⟩ := Option.isSome_iff_exists.mp hs
  rw [getNext_of_word hq] at hxm
  simp at hxm
  subst hxm
  rcases q.mem_of_reach (H.tailNoWord _) (key x (l - 1) r1 (by omega) ⟨q', hq⟩) with e | e
  · exact absurd e hx1
  · exact e

/-- the walk the driver prints for level `l` is the chain of that level without the head (every reachable state):
    item and level-`l` mark of each node, in chain order -/
theorem C14_walk_is_chain (n : Nat) (as : List Action) (l : Nat) (hl : l ≤ Gen.maxLevel) :
    let h := ((Sys.init n).run as).sh.heap
    ∃ ns, PathL h l 0 (0 :: ns) 1 ∧ walk h l = walkOf h l ns := by
  intro h
  have hI := run_invL (InvL_init n) as
  have H := hI.base.1.1
  obtain ⟨ns, p, hlen, hs, _⟩ := C14_levels_sorted n as l hl
  cases p with
  | @cons _ b _ ns' m hw p' =>
    refine ⟨ns', .cons hw p', walk_eq_path H (.cons hw p') hs ?_⟩
    simp at hlen; omega

/-- STAGE 3 (quiescent states): when all threads are idle,
    (1) no node that is marked at level 0 (deleted) is on the chain of any level;
    (2) no node that is marked at any level is on the chain of any level (softDelete has run to completion, so
        "marked somewhere" and "marked at level 0" coincide);
    (3) the walks the driver prints show no mark, on any level. -/
theorem C14_quiescent_no_marked_linked (n : Nat) (as : List Action)
    (hq : ((Sys.init n).run as).quiescent = true) :
    let h := ((Sys.init n).run as).sh.heap
    (∀ l d, OnChain h l d → ¬ marked0 h d) ∧
    (∀ l l' d, OnChain h l d → ¬ markedAt h l' d) ∧
    (∀ l, l ≤ Gen.maxLevel → ∀ p ∈ walk h l, p.2 = false) := by
  intro h
  have hI := run_invM (InvM_init n) as
  have c1 : ∀ l d, OnChain h l d → ¬ marked0 h d := by
    intro l d hd hm
    obtain ⟨t, th, hget, hr⟩ := hI.q.charged d l hd hm
    have := quiescent_idle hq hget
    rw [hr.not_idle] at this; simp at this
  have c2 : ∀ l l' d, OnChain h l d → ¬ markedAt h l' d := by
    intro l l' d hd hm
    rcases hI.marks d l' hm with h0 | ⟨t, th, hget, hr⟩
    · exact c1 l d hd h0
    · have := quiescent_idle hq hget
      rw [hr.not_idle] at this; simp at this
  refine ⟨c1, c2, fun l hl p hp => ?_⟩
  obtain ⟨ns, path, hw⟩ := C14_walk_is_chain n as l hl
  rw [hw] at hp
  simp only [walkOf, List.mem_map] at hp
  obtain ⟨x, hx, rfl⟩ := hp
  cases hmk : (getNext h x l).2 with
  | false => rfl
  | true =>
    exfalso
    have hxm : x ∈ (0 :: ns) := by simp [hx]
    exact c2 l l x (path.mem hxm).1 ⟨_, word?_of_getNext_marked hmk⟩

/-- STAGE 4, structure (quiescent states): when all threads are idle, every node that is unmarked at level 0 (live)
    is on the chain of every level up to its height (`InvP.pend`: in every reachable state an unmarked index level of
    a node that is not on the chain has the node's inserter in flight at or below that level). -/
theorem C14_quiescent_live_fully_linked (n : Nat) (as : List Action)
    (hq : ((Sys.init n).run as).quiescent = true) :
    let h := ((Sys.init n).run as).sh.heap
    ∀ a, unmarked0 h a → ∀ l, l ≤ heightOf h a → OnChain h l a := by
  intro h a ha l hl
  have hI := run_invP (InvP_init n) as
  have H := hI.m.q.lv.base.1.1
  have R := hI.m.q.lv.base.2
  cases l with
  | zero => exact reachL_zero_iff.mpr (R.2 a ha)
  | succ l =>
    obtain ⟨p0, hp0⟩ := ha
    have hal := word?_lt hp0
    have ha1 : a ≠ 1 := by
      intro e; rw [e, H.tailNoWord] at hp0; simp at hp0
    obtain ⟨⟨q, m⟩, hw⟩ := Option.isSome_iff_exists.mp (H.full a (l + 1) hal ha1 hl)
    have hu : unmarkedAt h (l + 1) a := by
      cases m with
      | false => exact ⟨q, hw⟩
      | true =>
        exfalso
        rcases hI.m.marks a (l + 1) ⟨q, hw⟩ with h0 | ⟨t, th, hget, hr⟩
        · exact not_unmarked0_of_marked0 h0 ⟨p0, hp0⟩
        · have := quiescent_idle hq hget
          rw [hr.not_idle] at this; simp at this
    apply Classical.byContradiction
    intro hnc
    obtain ⟨t, th, hget, hr⟩ := hI.pend a (l + 1) (by omega) hu hnc
    have := quiescent_idle hq hget
    rw [hr.not_idle] at this; simp at this

/-- the schedule of the counter-example to the literal Stage 2: T0 inserts 5 (height 1) and 1 (height 2); T2 =
    Lookup(1) passes level 2 and parks before level 1; T1 = Delete(1) marks levels 2 and 1 of the node and parks
    before the level-0 mark; T2 goes on at level 1, sees the mark and unlinks the node there -/
def w2Acts : List Action :=
  [.start 0 (.ins 5 1)] ++ List.replicate 12 (.step 0) ++
  [.start 0 (.ins 1 2)] ++ List.replicate 20 (.step 0) ++
  [.start 2 (.look 1), .step 2, .step 2] ++
  [.start 1 (.del 1)] ++ List.replicate 8 (.step 1) ++ [.step 2, .step 2, .step 2]

/-- what the walks print in that state: the node with key 1 is on level 2 (marked there) and on level 0 (unmarked),
    but not on level 1 -/
theorem w2_walks :
    walk ((Sys.init 3).run w2Acts).sh.heap 0 = [(1, false), (5, false)] ∧
    walk ((Sys.init 3).run w2Acts).sh.heap 1 = [(5, false)] ∧
    walk ((Sys.init 3).run w2Acts).sh.heap 2 = [(1, true)] := by decide +kernel

/-- REFUTED (transient states only): "every node on the level-`l` chain that is unmarked at level 0 is on the
    level-`(l-1)` chain".  In the state reached by `w2Acts` node 3 (key 1) is on the level-2 chain, unmarked at
    level 0 and NOT on the level-1 chain (it is marked at levels 2 and 1; its deleter is parked before the level-0
    mark).  What holds instead is `C14_levels_sublist`. -/
theorem C14_levels_sublist_unmarked0_refuted :
    ∃ (n : Nat) (as : List Action) (l a : Nat), 1 ≤ l ∧ l ≤ Gen.maxLevel ∧
      OnChain ((Sys.init n).run as).sh.heap l a ∧ unmarked0 ((Sys.init n).run as).sh.heap a ∧
      ¬ OnChain ((Sys.init n).run as).sh.heap (l - 1) a := by
  refine ⟨3, w2Acts, 2, 3, by decide, by decide, ?_, ?_, ?_⟩
  · exact .single (m := false) (by decide +kernel)
  · exact ⟨2, by decide +kernel⟩
  · intro r
    obtain ⟨b, m, hw⟩ := r.pointed (by decide)
    have hb : b < 4 := by
      have h4 : ((Sys.init 3).run w2Acts).sh.heap.length = 4 := by decide +kernel
      have := word?_lt hw
      omega
    have hall : ∀ b, b < 4 → ∀ m, word? ((Sys.init 3).run w2Acts).sh.heap b 1 ≠ some (3, m) := by decide +kernel
    exact hall b hb m hw

/-- non-vacuity (kernel-checked TEST) for Stage 3: `w2Acts` run to completion (Delete(1) and Lookup(1) finish) is
    quiescent; the deleted node, which was still linked at level 2 in the middle, is gone from every level -/
example :
    let s := (Sys.init 3).run (w2Acts ++ List.replicate 14 (.step 1) ++ List.replicate 12 (.step 2))
    s.quiescent = true ∧ walk s.sh.heap 0 = [(5, false)] ∧ walk s.sh.heap 1 = [(5, false)] ∧
    walk s.sh.heap 2 = [] := by decide +kernel

/-- non-vacuity (kernel-checked TEST) for Stages 1 and 2: after the two inserts of `w2Acts` the chains are
    level 0: head → 1 → 5 → tail, level 1: head → 1 → 5 → tail, level 2: head → 1 → tail -/
example :
    let h := ((Sys.init 1).run ([.start 0 (.ins 5 1)] ++ List.replicate 12 (.step 0) ++
              [.start 0 (.ins 1 2)] ++ List.replicate 20 (.step 0))).sh.heap
    PathL h 0 0 [0, 3, 2] 1 ∧ PathL h 1 0 [0, 3, 2] 1 ∧ PathL h 2 0 [0, 3] 1 ∧
    keyOf h 3 = .fin 1 ∧ keyOf h 2 = .fin 5 := by
  intro h
  have w : word? h 0 0 = some (3, false) ∧ word? h 3 0 = some (2, false) ∧ word? h 2 0 = some (1, false) ∧
      word? h 0 1 = some (3, false) ∧ word? h 3 1 = some (2, false) ∧ word? h 2 1 = some (1, false) ∧
      word? h 0 2 = some (3, false) ∧ word? h 3 2 = some (1, false) ∧
      keyOf h 3 = .fin 1 ∧ keyOf h 2 = .fin 5 := by decide +kernel
  obtain ⟨a0, a1, a2, b0, b1, b2, c0, c1, k1, k2⟩ := w
  exact ⟨.cons a0 (.cons a1 (.cons a2 (.nil _))), .cons b0 (.cons b1 (.cons b2 (.nil _))),
    .cons c0 (.cons c1 (.nil _)), k1, k2⟩

end NitroVerif.SkipConc
