/-
  C10 Visitor: exactly once, partitioned in order.
  "Visitor passes every item visible in the snapshot to the callback exactly once over all shards, in
   ascending order within each shard and with every item of shard i ordered before every item of
   shard i+1, for every shard count, concurrency, database size and version history.  If a callback
   returns an error Visitor returns an error; it always terminates."

  Model: `visitor` in `Model/MvccIter.lean`.  The split items handed out by the skiplist
  (`GetRangeSplitItems`) are an ARBITRARY list of items — the theorem quantifies over them, which
  covers every shard count, every state of the level statistics and every version history.  The
  shards are independent (each has its own iterator and only reads), so the concurrency does not
  influence the per-shard sequences; the model runs them in shard order.  Termination: `visitor`
  is a total function (the loops are fuelled by the store length, shown sufficient in
  `shardLoop_eq`), and the number of shards is bounded by the number of split items + 1, which is
  the capacity the fixed code gives the work channel.
-/
import NitroVerif.Lemmas.MvccScanTrace

namespace NitroVerif.Props
open NitroVerif NitroVerif.Mvcc
open NitroVerif.SetSpec (Op Out Item)

/-- **C10** For every reachable state, every snapshot with a positive reference count, every list
    of split items, every refresh rate:
    (1) if no visible item has the key on which the callback fails (in particular if the callback
        never fails), no error is reported, the concatenation of the per-shard callback sequences is
        exactly the content of the snapshot, every shard is strictly ascending and every item of a
        shard is below every item of every later shard, and the driver's partition flag is `ok`;
    (2) if the callback fails on the key of a visible item, Visitor returns an error;
    (3) the number of shards is at most the number of split items + 1. -/
theorem C10_visitor_partition {n : Nat} {σ : Mvcc.State} (hr : Reachable n σ) {s : Snap}
    (hs : s ∈ σ.snaps) (hrc : 0 < s.rc) (pivots : List Ver) (rate : Int) (fail : Option Nat) :
    ((∀ v ∈ s.content, fail ≠ some v.key) →
        (visitor σ.store s.sn rate fail pivots).2 = false ∧
        (visitor σ.store s.sn rate fail pivots).1.flatten.map Ver.norm = s.content ∧
        (∀ shard ∈ (visitor σ.store s.sn rate fail pivots).1, shard.Pairwise KeyLt) ∧
        (visitor σ.store s.sn rate fail pivots).1.Pairwise
          (fun a b => ∀ x ∈ a, ∀ y ∈ b, KeyLt x y) ∧
        partOk (visitor σ.store s.sn rate fail pivots).1 = true) ∧
    ((∃ v ∈ s.content, fail = some v.key) → (visitor σ.store s.sn rate fail pivots).2 = true) ∧
    (visitor σ.store s.sn rate fail pivots).1.length ≤ pivots.length + 1 := by
  have h := inv_reachable hr
  have hview := h.view s hs hrc
  have hpo := filterPivots_ok σ.store s.sn pivots none
  have hks := vis_keySorted h.sorted h.chains s.sn
  have hkeys : ∀ k, (∃ v ∈ s.content, v.key = k) ↔ ∃ v ∈ vis σ.store s.sn, v.key = k := by
    intro k
    rw [← hview]
    constructor
    · rintro ⟨v, hv, hk⟩
      obtain ⟨v', hv', rfl⟩ := List.mem_map.mp hv
      exact ⟨v', hv', hk⟩
    · rintro ⟨v, hv, hk⟩
      exact ⟨v.norm, List.mem_map.mpr ⟨v, hv, rfl⟩, hk⟩
  refine ⟨?_, ?_, ?_⟩
  · intro hnf
    have hnf' : ∀ v ∈ vis σ.store s.sn, fail ≠ some v.key := by
      intro v hv hf
      obtain ⟨w, hw, hwk⟩ := (hkeys v.key).mpr ⟨v, hv, rfl⟩
      exact hnf w hw (by rw [hf, hwk])
    have ⟨h1, h2⟩ := runShards_ok h.sorted h.chains s.sn rate fail hnf' _ none hpo
    simp only [fromStart] at h1
    have hflat : (visitor σ.store s.sn rate fail pivots).1.flatten = vis σ.store s.sn := h1
    have hpw := List.pairwise_flatten.mp (by rw [hflat]; exact hks)
    refine ⟨h2, ?_, hpw.1, hpw.2, ?_⟩
    · rw [hflat]; exact hview
    · unfold partOk; rw [hflat]; exact ascending_of_keySorted hks
  · rintro ⟨v, hv, hf⟩
    obtain ⟨w, hw, hwk⟩ := (hkeys v.key).mp ⟨v, hv, rfl⟩
    rw [hf]
    exact runShards_err h.sorted h.chains s.sn rate v.key _ none hpo ⟨w, hw, hwk⟩
  · -- number of shards = number of kept pivots + 1
    have hlen : ∀ (ps : List Ver) (start : Option Ver),
        (runShards σ.store s.sn rate fail start ps).length = ps.length + 1 := by
      intro ps
      induction ps with
      | nil => intro _; rfl
      | cons p ps ih => intro start; simp [runShards, ih]
    have hfil : ∀ (ps : List Ver) (prev : Option Ver), (filterPivots σ.store s.sn prev ps).length ≤ ps.length := by
      intro ps
      induction ps with
      | nil => intro _; simp [filterPivots]
      | cons p ps ih =>
        intro prev
        unfold filterPivots
        split
        · simp; exact ih _
        · have := ih prev; simp; omega
    simp only [visitor, List.length_map, hlen]
    have := hfil pivots none
    omega

/-- the `visit` operation of the engine: on an open snapshot it leaves the state unchanged and
    reports `err=false part=ok items=<content>`, or `err=true` if the callback fails on a visible key —
    for every choice of split keys and every refresh rate -/
theorem C10_visit_op {n : Nat} {σ : Mvcc.State} (hr : Reachable n σ) {s : Snap} (hs : s ∈ σ.snaps)
    (hrc : 0 < s.rc) (pivots : List Nat) (rate : Int) (fail : Option Nat) :
    Mvcc.step σ (.visit s.sn pivots rate fail) =
      (σ, match fail with
          | some fk => if (s.content.map Ver.item).any (fun it => it.1 == fk) then .visitErr
                       else .visit true (s.content.map Ver.item)
          | none => .visit true (s.content.map Ver.item)) := by
  have h := inv_reachable hr
  have hf := findSnap_of_mem h.snaps.inc hs
  have hne : s.rc ≠ 0 := by omega
  have hsim := step_refines h (.visit s.sn pivots rate fail)
  unfold Refines at hsim
  have hfa : SetSpec.findSnap s.sn (abs σ).snaps = some (absSnap s) := by
    simp only [abs]; rw [findSnap_abs, hf]; rfl
  have hstate : (Mvcc.step σ (.visit s.sn pivots rate fail)).1 = σ := by
    have ho : Gen.openRefuse s.rc = false := by
      cases hq : Gen.openRefuse s.rc
      · rfl
      · exact absurd ((openRefuse_iff _).mp hq) hne
    simp only [Mvcc.step, hf, ho, Bool.false_eq_true, if_false]
    exact withRef_eq σ s.sn hne
  refine Prod.ext hstate ?_
  rw [← (Prod.ext_iff.mp hsim).2]
  simp only [SetSpec.step, hfa, hne, if_false, absSnap]
  cases fail with
  | none => rfl
  | some fk => simp only; split <;> rfl

/-! ### non-vacuity (test evaluated by the kernel): two split keys that are versions of ONE key (the
    history on which the unfixed pivot filter delivered `k0` twice), more shards than items, and a
    failing callback -/
example :
    Mvcc.run (Mvcc.init 1)
      [.put 0 5 0, .snap, .del 0 5, .snap, .put 0 5 0, .put 0 7 0, .snap,
       .visit 3 [5, 5, 6, 9] 1 none, .visit 3 [5, 5] 0 (some 7), .visit 1 [] 0 (some 7)] =
      [.bool true, .snap 1 1, .bool true, .snap 2 0, .bool true, .bool true, .snap 3 2,
       .visit true [(5, 0), (7, 0)], .visitErr, .visit true [(5, 0)]] := by decide

end NitroVerif.Props
