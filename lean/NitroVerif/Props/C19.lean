import NitroVerif.Lemmas.Codec
import NitroVerif.Lemmas.CodecKV
import NitroVerif.Lemmas.CodecPrefix
/-!
  Property C19 — item encoding, file framing and checksums round-trip.

  Model: `NitroVerif.Codec` (item.go EncodeItem/DecodeItem/KVToBytes/KVFromBytes/CompareKV,
  file.go rawFileWriter/rawFileReader).  The length widths, the "an item follows" test and the
  key-length width are the generated `Gen.encodeLenWidth`, `Gen.decodeLenWidthV0/V1`,
  `Gen.decodeHasItem`, `Gen.kvLenWidth`, characterised in `Lemmas/CodecGen.lean`.
  All theorems are generic in the per-item hash `h` (crc32.ChecksumIEEE in the code).
-/
namespace NitroVerif.Props.C19
open NitroVerif NitroVerif.Codec

/-- Whatever non-empty items (each shorter than 2^32 bytes) are written through the file writer,
    the v1 reader returns exactly these items, then end-of-stream, its checksum equals the
    writer's, and it consumes exactly the file (whatever bytes `rest` follow stay unread). -/
theorem C19_file_roundtrip (h : Bytes → Nat) (items : List Bytes)
    (hit : ∀ d ∈ items, 0 < d.length ∧ d.length < 2 ^ 32) (rest : Bytes) :
    readFile h 1 (writeFile items ++ rest) = .ok items (writerChecksum h items) rest := by
  rw [writeFile_eq_frames, writerChecksum_eq]
  exact readFile_framed h lenWidth_one items (fun d hd => by have := hit d hd; omega) rest

/-- the file itself (`rest = []`) -/
theorem C19_file_roundtrip_exact (h : Bytes → Nat) (items : List Bytes)
    (hit : ∀ d ∈ items, 0 < d.length ∧ d.length < 2 ^ 32) :
    readFile h 1 (writeFile items) = .ok items (writerChecksum h items) [] := by
  simpa using C19_file_roundtrip h items hit []

/-- checksum a v0 reader reports: the fold of the per-item sums with the 2-byte length field -/
def v0Checksum (h : Bytes → Nat) (items : List Bytes) : Nat :=
  items.foldl (fun acc d => acc ^^^ itemSum h (beBytes 2 d.length) d) 0

/-- A reader given format version 0 decodes files framed with 2-byte lengths. -/
theorem C19_v0_roundtrip (h : Bytes → Nat) (items : List Bytes)
    (hit : ∀ d ∈ items, 0 < d.length ∧ d.length < 2 ^ 16) (rest : Bytes) :
    readFile h 0 (writeFileV0 items ++ rest) = .ok items (v0Checksum h items) rest := by
  rw [writeFileV0_eq_frames]
  exact readFile_framed h lenWidth_zero items (fun d hd => by have := hit d hd; omega) rest

/-- KVFromBytes inverts KVToBytes for every key shorter than 2^16 bytes and every value, and the
    encoded pair satisfies the bounds KVFromBytes/CompareKV slice with. -/
theorem C19_kv_roundtrip (k v : Bytes) (hk : k.length < 2 ^ 16) :
    kvFromBytes (kvToBytes k v) = (k, v) ∧ kvWellFormed (kvToBytes k v) = true :=
  ⟨kvFromBytes_kvToBytes v hk, kvWellFormed_kvToBytes_general k v⟩

/-- CompareKV orders encoded pairs exactly as bytes.Compare orders their keys. -/
theorem C19_compareKV (k1 v1 k2 v2 : Bytes) (h1 : k1.length < 2 ^ 16) (h2 : k2.length < 2 ^ 16) :
    compareKV (kvToBytes k1 v1) (kvToBytes k2 v2) = cmpBytes k1 k2 :=
  compareKV_kvToBytes v1 v2 h1 h2

/-- `cmpBytes` (bytes.Compare) is the lexicographic order: a sign, zero exactly on equal strings,
    antisymmetric, negative exactly when `a < b` in the lexicographic order of byte lists, and
    transitive. -/
theorem C19_cmpBytes_lexicographic :
    (∀ a b : Bytes, cmpBytes a b = -1 ∨ cmpBytes a b = 0 ∨ cmpBytes a b = 1) ∧
    (∀ a b : Bytes, cmpBytes a b = 0 ↔ a = b) ∧
    (∀ a b : Bytes, cmpBytes a b = - cmpBytes b a) ∧
    (∀ a b : Bytes, cmpBytes a b < 0 ↔ a < b) ∧
    (∀ a b c : Bytes, cmpBytes a b < 0 → cmpBytes b c < 0 → cmpBytes a c < 0) :=
  ⟨cmpBytes_range, cmpBytes_eq_zero_iff, cmpBytes_antisymm, cmpBytes_neg_iff_lt,
   fun _ _ _ => cmpBytes_trans⟩

/-! ### the guards of the code, as they are -/

/-- `l > 0` guard of DecodeItem: a zero-length item IS the terminator.  Written in the middle of a
    stream it ends the stream there: the reader returns the items before it and leaves the rest of
    the file unread.  (The writer's checksum still covers `ys`, so the two checksums differ in
    general — this is what the hypothesis `0 < d.length` of `C19_file_roundtrip` excludes.) -/
theorem C19_empty_item_is_terminator (h : Bytes → Nat) (xs ys : List Bytes)
    (hit : ∀ d ∈ xs, 0 < d.length ∧ d.length < 2 ^ 32) (rest : Bytes) :
    readFile h 1 (writeFile (xs ++ [[]] ++ ys) ++ rest)
      = .ok xs (writerChecksum h xs) (writeFile ys ++ rest) := by
  have : writeFile (xs ++ [[]] ++ ys) ++ rest = writeFile xs ++ (writeFile ys ++ rest) := by
    simp [writeFile, List.flatMap_append, List.append_assoc]
  rw [this]
  exact C19_file_roundtrip h xs hit _

/-- the 4-byte (resp. 2-byte) length field holds the length modulo 2^32 (resp. 2^16):
    `uint32(l)` in allocItem / `PutUint32` -/
theorem C19_length_field_wraps (w L : Nat) : beVal (beBytes w L) = L % 256 ^ w :=
  beVal_beBytes w L

/-- `uint16(klen)` in KVToBytes: for ANY key length the stored key length is `klen mod 2^16`, and
    KVFromBytes splits the concatenation `k ++ v` at that point. -/
theorem C19_long_key_truncates (k v : Bytes) :
    kvFromBytes (kvToBytes k v)
      = ((k ++ v).take (k.length % 2 ^ 16), (k ++ v).drop (k.length % 2 ^ 16)) :=
  kvFromBytes_kvToBytes_general k v

/-- consequence: a key of 2^16 bytes or more does NOT round-trip (the key read back is shorter) -/
theorem C19_long_key_not_roundtrip (k v : Bytes) (hk : 2 ^ 16 ≤ k.length) :
    (kvFromBytes (kvToBytes k v)).1.length = k.length % 2 ^ 16 ∧
    (kvFromBytes (kvToBytes k v)).1 ≠ k := by
  have hlt : k.length % 2 ^ 16 < 2 ^ 16 := Nat.mod_lt _ (by decide)
  have hlen : (kvFromBytes (kvToBytes k v)).1.length = k.length % 2 ^ 16 := by
    rw [C19_long_key_truncates]
    simp only [List.length_take, List.length_append]
    omega
  refine ⟨hlen, fun he => ?_⟩
  rw [he] at hlen
  omega

/-- `Close` writes the terminator through `WriteItem` (`Gen.skeleton_rawFileWriterClose`), which
    also folds the terminator's sum into the writer's checksum: `Checksum()` read AFTER `Close`
    is off by `itemSum h (encodeLen 0) []` from what the reader reports (the reader excludes the
    terminator).  StoreToDisk reads the checksums before the deferred `Close`, which is the value
    `writerChecksum` models. -/
theorem C19_checksum_after_close (h : Bytes → Nat) (items : List Bytes) :
    writerChecksum h (items ++ [[]]) = writerChecksum h items ^^^ itemSum h (encodeLen 0) [] := by
  have _hskel := GenLemmas.skeleton_rawFileWriterClose_ok
  simp [writerChecksum, List.foldl_append]

/-! ### truncated files (for C11 / C12) -/

/-- Every PROPER prefix of a written file makes the reader fail (never `.ok`), and the items it
    had decoded before failing are a prefix of the written items. -/
theorem C19_proper_prefix_never_ok (h : Bytes → Nat) (items : List Bytes)
    (hit : ∀ d ∈ items, 0 < d.length ∧ d.length < 2 ^ 32)
    (p : Bytes) (hp : p <+: writeFile items) (hne : p ≠ writeFile items) :
    ∃ before, readFile h 1 p = .err before ∧ before <+: items := by
  obtain ⟨before, hr⟩ := decode_proper_prefix_errors h items hit p hp hne
  exact ⟨before, hr, readFile_prefix_items h items hit p hp hne before hr⟩

/-! ### non-vacuity: concrete byte strings, including payloads that look like length fields or
    like the terminator -/

/-- a payload of four zero bytes (= the terminator's image) and one that looks like a length -/
def sampleItems : List Bytes := [[0, 0, 0, 0], [0, 0, 0, 2, 7], [255], [0]]

example : ∀ d ∈ sampleItems, 0 < d.length ∧ d.length < 2 ^ 32 := by decide

/-- TEST (by evaluation): the bytes of the sample file -/
example : writeFile sampleItems =
    [0,0,0,4, 0,0,0,0,  0,0,0,5, 0,0,0,2,7,  0,0,0,1, 255,  0,0,0,1, 0,  0,0,0,0] := by decide

example (h : Bytes → Nat) :
    readFile h 1 (writeFile sampleItems) = .ok sampleItems (writerChecksum h sampleItems) [] :=
  C19_file_roundtrip_exact h sampleItems (by decide)

example (h : Bytes → Nat) :
    readFile h 0 (writeFileV0 sampleItems ++ [9, 9]) = .ok sampleItems (v0Checksum h sampleItems) [9, 9] :=
  C19_v0_roundtrip h sampleItems (by decide) [9, 9]

/-- TEST: the same file read with the wrong version does not give the items back -/
example : readFile (fun _ => 0) 0 (writeFile sampleItems) = .ok [] 0
    [0,4, 0,0,0,0,  0,0,0,5, 0,0,0,2,7,  0,0,0,1, 255,  0,0,0,1, 0,  0,0,0,0] := by decide

example : kvFromBytes (kvToBytes [1, 0] [0, 0]) = ([1, 0], [0, 0]) :=
  (C19_kv_roundtrip [1, 0] [0, 0] (by decide)).1

/-- TEST: layout of an encoded pair (2-byte little-endian key length) -/
example : kvToBytes [1, 0] [0, 0] = [2, 0, 1, 0, 0, 0] := by decide

example : compareKV (kvToBytes [1, 2] [9]) (kvToBytes [1, 3] []) = cmpBytes [1, 2] [1, 3] :=
  C19_compareKV _ _ _ _ (by decide) (by decide)

/-- TEST: values differ, keys equal → 0; key is a proper prefix → -1 -/
example : compareKV (kvToBytes [1, 2] [9]) (kvToBytes [1, 2] [7, 7]) = 0 := by decide
example : compareKV (kvToBytes [1] [9]) (kvToBytes [1, 0] []) = -1 := by decide

example (h : Bytes → Nat) :
    readFile h 1 (writeFile ([[5]] ++ [[]] ++ [[6]])) = .ok [[5]] (writerChecksum h [[5]]) (writeFile [[6]]) := by
  simpa using C19_empty_item_is_terminator h [[5]] [[6]] (by decide) []

/-- a key of 2^16 + 3 bytes reads back as a 3-byte key -/
example (v : Bytes) :
    (kvFromBytes (kvToBytes (List.replicate (2 ^ 16 + 3) 1) v)).1.length = 3 := by
  have hk : (List.replicate (2 ^ 16 + 3) (1 : UInt8)).length = 2 ^ 16 + 3 := List.length_replicate
  generalize List.replicate (2 ^ 16 + 3) (1 : UInt8) = k at hk
  rw [(C19_long_key_not_roundtrip k v (by omega)).1, hk]

/-- the 9 proper prefixes of a one-item file: all rejected -/
example (h : Bytes → Nat) (n : Nat) (hn : n < 9) :
    ∃ before, readFile h 1 ((writeFile [[0, 0, 0, 0]]).take n) = .err before ∧ before <+: [[0, 0, 0, 0]] := by
  apply C19_proper_prefix_never_ok h [[0, 0, 0, 0]] (by decide)
  · exact List.take_prefix _ _
  · intro he
    have := congrArg List.length he
    rw [List.length_take] at this
    have h12 : (writeFile [[0, 0, 0, 0]]).length = 12 := by decide
    omega

/-- TEST: cutting inside the payload of zeros -/
example : readFile (fun _ => 0) 1 [0,0,0,4, 0,0,0,0] = .ok [[0,0,0,0]] 0 [] → False := by decide
example : readFile (fun _ => 0) 1 [0,0,0,4, 0,0,0,0, 0,0,0] = .err [[0,0,0,0]] := by decide

end NitroVerif.Props.C19
