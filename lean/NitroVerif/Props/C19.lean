import NitroVerif.Model.Codec
namespace NitroVerif.Props.C19
open NitroVerif.Codec
/-- placeholder until the codec proofs are integrated (pipeline smoke test only) -/
theorem beBytes_length (w n : Nat) : (beBytes w n).length = w := by
  induction w with
  | zero => rfl
  | succ k ih => simp [beBytes, ih]
end NitroVerif.Props.C19
