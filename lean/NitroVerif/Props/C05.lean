import NitroVerif.Lemmas.Backup
import NitroVerif.Lemmas.BackupDelta
/-!
  Property C05 — backup and restore reproduce the snapshot (M7 part).

  "If StoreToDisk of a snapshot returns success, LoadFromDisk of that directory into a fresh instance
  with the same configuration returns a snapshot whose items and Count() are exactly those of the
  stored snapshot, each once and in order.  This holds with and without delta interleaving, whatever
  writers, snapshot churn and garbage collection run concurrently with the backup, and whatever older
  or newer versions of the keys exist; the restored instance then obeys C01-C03 for subsequent
  operations."

  What is proved here is the file-level half: `load (storeImage …) = ok content`.
    * `parts` is ANY partition of the snapshot content into consecutive chunks, empty chunks allowed,
      any number of chunks (`runtime.NumCPU()` in the code).  That the Visitor hands the writers such a
      partition of the snapshot's content — under concurrent writers, snapshot churn and GC — is C10
      (and C01/C09 for the iterators); it enters here as the hypothesis `parts.flatten = content`.
    * with delta files, the shards may miss items the collector unlinked while the backup ran; those
      items are in the delta logs (`Gen.deltaVisible`, appendix A.2 "Delta").  This enters as the
      hypotheses of `C05_roundtrip_delta_general`.
    * the restored list consists of items with bornSn = deadSn = 0; it is the content, strictly sorted
      and key-distinct, i.e. an M6 state in which every item is visible to every snapshot — C01–C03 on
      the restored instance are the M6 theorems from that state (mvcc engine, op `load`).
  All theorems are generic in the hash `h` (crc32.ChecksumIEEE) and in the key comparison.
-/
namespace NitroVerif.Props.C05
open NitroVerif NitroVerif.Codec NitroVerif.Backup NitroVerif.Backup.GenLemmas

/-- **C05_roundtrip** (no delta files).  Whatever partition of the content StoreToDisk wrote,
    LoadFromDisk returns exactly the content, in order, and `Count()` is its length.
    `ver` is the version constant of nitro.go (1); any non-zero value selects the 4-byte framing. -/
theorem C05_roundtrip (h : Bytes → Nat) (keyCmp : Bytes → Bytes → Int) (content : List Bytes)
    (hit : ∀ d ∈ content, 0 < d.length ∧ d.length < 2 ^ 32)
    (parts : List (List Bytes)) (hparts : parts.flatten = content) (ver : Nat := 1) (hv : ver ≠ 0 := by decide) :
    load h keyCmp false (storeImage h parts ver) = .ok content ∧
    (load h keyCmp false (storeImage h parts ver)).count = some content.length := by
  have hval : ValidItems parts.flatten := by rw [hparts]; exact hit
  have hl : load h keyCmp false (storeImage h parts ver) = .ok content := by
    simp only [load, storeImage, versionOf]
    rw [loadShards_written h hv Gen.checksumMismatch (fun has s => checksumMismatch_self has s) parts hval]
    simp [hparts]
  exact ⟨hl, by rw [hl]; rfl⟩

/-- the same backup loaded by an instance configured with delta files: there is no delta directory,
    nothing is inserted -/
theorem C05_roundtrip_loader_delta_on (h : Bytes → Nat) (keyCmp : Bytes → Bytes → Int) (content : List Bytes)
    (hit : ∀ d ∈ content, 0 < d.length ∧ d.length < 2 ^ 32)
    (parts : List (List Bytes)) (hparts : parts.flatten = content) (ver : Nat := 1) (hv : ver ≠ 0 := by decide) :
    load h keyCmp true (storeImage h parts ver) = .ok content := by
  have hval : ValidItems parts.flatten := by rw [hparts]; exact hit
  simp only [load, storeImage, versionOf]
  rw [loadShards_written h hv Gen.checksumMismatch (fun has s => checksumMismatch_self has s) parts hval]
  simp [hparts, dfilesOf, loadShards, sumsOf, openAll, readShards, insertAll]

/-- what `load` computes on a delta-mode backup: the shards' items, then every delta item through
    `Insert2` -/
theorem load_storeImageDelta (h : Bytes → Nat) (keyCmp : Bytes → Bytes → Int)
    (parts dparts : List (List Bytes)) (hval : ValidItems parts.flatten)
    (hdval : ValidItems dparts.flatten) (ver : Nat) (hv : ver ≠ 0) :
    load h keyCmp true (storeImageDelta h parts dparts ver)
      = .ok (insertAll keyCmp parts.flatten dparts.flatten) := by
  simp only [load, storeImageDelta, storeImage, versionOf, dfilesOf]
  rw [loadShards_written h hv Gen.checksumMismatch (fun has s => checksumMismatch_self has s) parts hval]
  simp only [Bool.not_true, Bool.false_eq_true, if_false]
  rw [loadShards_written h hv Gen.deltaChecksumMismatch
    (fun has s => deltaChecksumMismatch_self has s) dparts hdval]

/-- **C05_roundtrip_delta_general.**  Delta-mode backup of a snapshot with content `content`
    (strictly ascending under the key comparison, hence key-distinct):
      * the shard files deliver a sub-sequence of the content (`parts.flatten.Sublist content`: in
        order, each item at most once — items unlinked by the collector during the scan are missing);
      * every delta item is an item of the content (a version visible in the snapshot, logged before
        being unlinked) or carries the key of an item the shards delivered;
      * every item of the content is delivered by a shard or by a delta log.
    Then LoadFromDisk returns exactly the content. -/
theorem C05_roundtrip_delta_general (h : Bytes → Nat) {keyCmp : Bytes → Bytes → Int}
    (ko : KeyOrder keyCmp) (content : List Bytes)
    (hit : ∀ d ∈ content, 0 < d.length ∧ d.length < 2 ^ 32)
    (hsorted : content.Pairwise (fun a b => keyCmp a b < 0))
    (parts dparts : List (List Bytes))
    (hsub : parts.flatten.Sublist content)
    (hdval : ∀ d ∈ dparts.flatten, 0 < d.length ∧ d.length < 2 ^ 32)
    (hds : ∀ x ∈ dparts.flatten, x ∈ content ∨ ∃ c ∈ parts.flatten, keyCmp x c = 0)
    (hall : ∀ y ∈ content, y ∈ parts.flatten ∨ y ∈ dparts.flatten)
    (ver : Nat := 1) (hv : ver ≠ 0 := by decide) :
    load h keyCmp true (storeImageDelta h parts dparts ver) = .ok content ∧
    (load h keyCmp true (storeImageDelta h parts dparts ver)).count = some content.length := by
  have hval : ValidItems parts.flatten := fun d hd => hit d (hsub.subset hd)
  have hl : load h keyCmp true (storeImageDelta h parts dparts ver) = .ok content := by
    rw [load_storeImageDelta h keyCmp parts dparts hval hdval ver hv]
    congr 1
    exact insertAll_eq_content ko content parts.flatten dparts.flatten hsorted
      (hsorted.sublist hsub) (fun y hy => hsub.subset hy) hds hall
  exact ⟨hl, by rw [hl]; rfl⟩

/-- **C05_roundtrip_delta**: the shards deliver the whole content and every delta item has the key
    of some content item (it was visible in the snapshot and is also delivered by a shard): every
    delta item is rejected as a duplicate, the result is the content. -/
theorem C05_roundtrip_delta (h : Bytes → Nat) {keyCmp : Bytes → Bytes → Int}
    (ko : KeyOrder keyCmp) (content : List Bytes)
    (hit : ∀ d ∈ content, 0 < d.length ∧ d.length < 2 ^ 32)
    (hsorted : content.Pairwise (fun a b => keyCmp a b < 0))
    (parts dparts : List (List Bytes)) (hparts : parts.flatten = content)
    (hdval : ∀ d ∈ dparts.flatten, 0 < d.length ∧ d.length < 2 ^ 32)
    (hds : ∀ x ∈ dparts.flatten, ∃ c ∈ content, keyCmp x c = 0)
    (ver : Nat := 1) (hv : ver ≠ 0 := by decide) :
    load h keyCmp true (storeImageDelta h parts dparts ver) = .ok content :=
  (C05_roundtrip_delta_general h ko content hit hsorted parts dparts (by rw [hparts]; exact List.Sublist.refl _)
    hdval (fun x hx => Or.inr (by rw [hparts]; exact hds x hx))
    (fun y hy => Or.inl (by rw [hparts]; exact hy)) ver hv).1

/-- **C05_roundtrip_delta_missing**: the shards deliver the content minus some items; the delta logs
    deliver items of the content, among them every missing one.  The result is the content. -/
theorem C05_roundtrip_delta_missing (h : Bytes → Nat) {keyCmp : Bytes → Bytes → Int}
    (ko : KeyOrder keyCmp) (content : List Bytes)
    (hit : ∀ d ∈ content, 0 < d.length ∧ d.length < 2 ^ 32)
    (hsorted : content.Pairwise (fun a b => keyCmp a b < 0))
    (parts dparts : List (List Bytes)) (hsub : parts.flatten.Sublist content)
    (hds : ∀ x ∈ dparts.flatten, x ∈ content)
    (hall : ∀ y ∈ content, y ∉ parts.flatten → y ∈ dparts.flatten)
    (ver : Nat := 1) (hv : ver ≠ 0 := by decide) :
    load h keyCmp true (storeImageDelta h parts dparts ver) = .ok content :=
  (C05_roundtrip_delta_general h ko content hit hsorted parts dparts hsub
    (fun d hd => hit d (hds d hd)) (fun x hx => Or.inl (hds x hx))
    (fun y hy => by
      by_cases hp : y ∈ parts.flatten
      · exact Or.inl hp
      · exact Or.inr (hall y hy hp)) ver hv).1

/-- The loader's `concurr` goroutines insert the delta files' items in an arbitrary interleaving.
    Under the hypotheses of the round trip the result does not depend on it: ANY sequence `ds` made of
    the logged items (any order, any repetition) that contains each of them gives the content. -/
theorem C05_delta_any_interleaving {keyCmp : Bytes → Bytes → Int}
    (ko : KeyOrder keyCmp) (content : List Bytes)
    (hsorted : content.Pairwise (fun a b => keyCmp a b < 0))
    (parts dparts : List (List Bytes)) (hsub : parts.flatten.Sublist content)
    (hds : ∀ x ∈ dparts.flatten, x ∈ content ∨ ∃ c ∈ parts.flatten, keyCmp x c = 0)
    (hall : ∀ y ∈ content, y ∈ parts.flatten ∨ y ∈ dparts.flatten)
    (ds : List Bytes) (hperm : ∀ x, x ∈ ds ↔ x ∈ dparts.flatten) :
    insertAll keyCmp parts.flatten ds = content :=
  insertAll_eq_content ko content parts.flatten ds hsorted (hsorted.sublist hsub)
    (fun _ hy => hsub.subset hy) (fun x hx => hds x ((hperm x).1 hx))
    (fun _ hy => (hall _ hy).imp id (fun h => (hperm _).2 h))

/-! ### non-vacuity -/

/-- three shards, the middle one empty; one item is four zero bytes (the terminator's image) -/
def exParts : List (List Bytes) := [[[0, 0, 0, 0], [0, 1]], [], [[7, 7, 7]]]
def exContent : List Bytes := [[0, 0, 0, 0], [0, 1], [7, 7, 7]]

example : exParts.flatten = exContent := by decide
example : ∀ d ∈ exContent, 0 < d.length ∧ d.length < 2 ^ 32 := by decide
example : exContent.Pairwise (fun a b => cmpBytes a b < 0) := by decide

/-- TEST (by evaluation): the image itself, with a constant hash -/
example : storeImage (fun _ => 0) exParts =
    { version := .parsed 1, files := .parsed ["shard-0", "shard-1", "shard-2"], sums := .parsed [0, 0, 0],
      dfiles := .absent, dsums := .absent,
      data := [("shard-0", [0,0,0,4, 0,0,0,0, 0,0,0,2, 0,1, 0,0,0,0]), ("shard-1", [0,0,0,0]),
               ("shard-2", [0,0,0,3, 7,7,7, 0,0,0,0])],
      delta := [] } := by decide

example (h : Bytes → Nat) : load h cmpBytes false (storeImage h exParts) = .ok exContent :=
  (C05_roundtrip h cmpBytes exContent (by decide) exParts (by decide)).1

example (h : Bytes → Nat) : (load h cmpBytes false (storeImage h exParts)).count = some 3 :=
  (C05_roundtrip h cmpBytes exContent (by decide) exParts (by decide)).2

/-- delta mode: the shards miss `[0,1]` (unlinked during the scan); writer 0's log has it, writer 1's
    log has `[7,7,7]` again (logged and also delivered by its shard) -/
def exPartsMissing : List (List Bytes) := [[[0, 0, 0, 0]], [], [[7, 7, 7]]]
def exDelta : List (List Bytes) := [[[0, 1]], [[7, 7, 7]]]

example (h : Bytes → Nat) :
    load h cmpBytes true (storeImageDelta h exPartsMissing exDelta) = .ok exContent :=
  C05_roundtrip_delta_missing h keyOrder_cmpBytes exContent (by decide) (by decide)
    exPartsMissing exDelta (by decide) (by decide) (by decide)

/-- kv items: the delta log holds the version `(k=[1], v=[9])`, the shard delivered `(k=[1], v=[9])`
    too, plus a key-equal item with another value is rejected as well -/
def exKV : List Bytes := [kvToBytes [1] [9], kvToBytes [2] [8]]

example (h : Bytes → Nat) :
    load h compareKV true (storeImageDelta h [exKV] [[kvToBytes [1] [5]], [kvToBytes [2] [8]]])
      = .ok exKV :=
  C05_roundtrip_delta h keyOrder_compareKV exKV (by decide) (by decide) [exKV] _ (by decide)
    (by decide) (by decide)

/-- TEST (by evaluation): the delta fold really inserts — an unsorted arrival order, one duplicate -/
example : insertAll cmpBytes [[0, 0, 0, 0], [7, 7, 7]] [[9], [0, 1], [7, 7, 7], [0]]
    = [[0], [0, 0, 0, 0], [0, 1], [7, 7, 7], [9]] := by decide

end NitroVerif.Props.C05
