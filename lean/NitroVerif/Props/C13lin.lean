import NitroVerif.Lemmas.SkipConcLinCall
/-!
  C13, linearization-point theorem over WHOLE HISTORIES of the concurrent skiplist model M5
  (`Model/SkipConc.lean`), for every number of threads `n` and every run `as : List Action` from `Sys.init n`.

  Vocabulary (`Lemmas/SkipConcLin.lean`, `Lemmas/SkipConcLinCall.lean`):
  * `stAt n as i` is the state after the first `i` actions, `absAt n as i k` says that item `k` is in the abstract
    set (nodes unmarked at level 0) of that state: `absAt n as` is the TRACE of abstract sets, `absAt n as 0` is
    empty (`C13_lin_trace_start`) and `absAt n as as.length` is the abstract set of `(Sys.init n).run as`.
    Action index `p` is the action `as[p]`, taking state `p` to state `p + 1`.
  * `Call n as t op s e out`: action `s` is the accepted entry `start t op` (thread `t` idle just before), `t` is
    busy at every position in `(s, e]`, action `e` is the segment of `t` that returns (idle at `e + 1`) and prints
    `out`.  `InCall n as t op s j`: the same without the return — at position `j` the call is in flight.
  * `InsPoint n as t k p`: `as[p] = step t`, `k ∉ abs(p)`, `abs(p+1) = abs(p) ∪ {k}`;
    `DelPoint n as t k p`: `as[p] = step t`, `k ∈ abs(p)`, `abs(p+1) = abs(p) \ {k}`;
    `NoOwnChange n as t a b`: no segment of `t` at a position strictly between `a` and `b` changes the abstract set.

  THEOREMS (all at full strength, no `_partial`):
  * `C13_lin_insert`   a completed Insert k answers true or false.  True: there is exactly one action `p ∈ (s, e]`
                       of the call that changes the abstract set; it is `InsPoint` (its successful publish: `k` absent
                       before, added by it).  False: the call changes nothing and `k ∈ abs(q)` for a position `q ∈ (s, e]`.
  * `C13_lin_delete`   a completed Delete k answers true or false.  True: exactly one changing action `p ∈ (s, e]`, a
                       `DelPoint` (its winning level-0 mark: `k` present before, removed by it).  False: the call changes
                       nothing and `k ∉ abs(q)` for a position `q ∈ (s, e]` — this covers the missing search AND the LOSER
                       of a mark race (it found the node live; another thread's mark of that node lies inside the loser's
                       interval and right after it `k` is absent because live keys are distinct).
  * `C13_lin_lookup`   a completed Lookup k changes nothing, answers true or false, and `k ∈ / ∉ abs(q)` for a `q ∈ (s, e]`.
  * `C13_lin_iterator` completed iterator calls change nothing.
  * `C13_lin_changes`  conversely: every action of the run either leaves the abstract set alone or is a segment of a
                       thread that is, at that position, inside an Insert k call (and the action is an `InsPoint` of `k`)
                       or inside a Delete k call (`DelPoint` of `k`) — no change without a call; in-flight updates
                       whose decisive CAS has happened are accounted for by the trace;
  * `C13_lin_inspoint_is_publish`, `C13_lin_delpoint_is_mark`  the point of a successful Insert is its successful
                       INS_PUBLISH CAS, the point of a successful Delete its winning level-0 SOFT_MARK CAS on a node
                       carrying `k`;
  * `C13_lin_change_is_point`  if such a changing action lies inside a COMPLETED call, it is that call's unique point
                       and the call answered true — no call with two changes, no change by a call that answered false.
  * `C13_lin_real_time` the points respect real time: with updates placed at their action `p` and reads right after
                       state `q`, a call that returned before another was entered has its point first.
  Together: linearizability of the set object in linearization-point form.  The explicit sequential history is in
  `Props/C13linSeq.lean`.

  There is no separate DeleteNode operation in M5 (`Op` has `del`; the engine's Delete is `findPath` + `deleteNode`).
-/
namespace NitroVerif.SkipConc
open NitroVerif

/-- the trace starts from the empty set -/
theorem C13_lin_trace_start (n : Nat) (as : List Action) (k : Nat) : ¬ absAt n as 0 k := by
  rintro ⟨m, ⟨p, hp⟩, hk⟩
  unfold heapAt at hp hk
  rw [stAt_zero] at hp hk
  obtain ⟨rfl, _⟩ := word?_init hp
  simp [keyOf, Sys.init, Sys.initWith, Shared.init, initHeap] at hk

/-- the trace ends with the abstract set of the final state -/
theorem C13_lin_trace_end (n : Nat) (as : List Action) (k : Nat) :
    absAt n as as.length k ↔ absOf ((Sys.init n).run as).sh.heap k := by
  unfold absAt heapAt; rw [stAt_length]

/-- one action = one step of the trace -/
theorem C13_lin_trace_step (n : Nat) (as : List Action) (p : Nat) (a : Action) (h : as[p]? = some a) :
    stAt n as (p + 1) = (stAt n as p).act a := stAt_succ_some h

/-- INSERT.  A completed `Insert k`:
    answers true, has exactly one own action `p ∈ (s, e]` that changes the abstract set, and at it `k` was absent and
    is added; or answers false, changes nothing, and `k` is present at some position `q ∈ (s, e]`. -/
theorem C13_lin_insert {n : Nat} {as : List Action} {t k lvl s e : Nat} {out : String}
    (c : Call n as t (.ins k lvl) s e out) :
    (out = "ret true" ∧ ∃ p, s < p ∧ p ≤ e ∧ InsPoint n as t k p ∧ NoOwnChange n as t s p ∧
      NoOwnChange n as t p (e + 1)) ∨
    (out = "ret false" ∧ NoOwnChange n as t s (e + 1) ∧ ∃ q, s < q ∧ q ≤ e ∧ absAt n as q k) :=
  call_spec c

/-- DELETE.  A completed `Delete k`:
    answers true, has exactly one own action `p ∈ (s, e]` that changes the abstract set, and at it `k` was present and
    is removed; or answers false (missing search, or lost mark race), changes nothing, and `k` is absent at some
    position `q ∈ (s, e]`. -/
theorem C13_lin_delete {n : Nat} {as : List Action} {t k s e : Nat} {out : String}
    (c : Call n as t (.del k) s e out) :
    (out = "ret true" ∧ ∃ p, s < p ∧ p ≤ e ∧ DelPoint n as t k p ∧ NoOwnChange n as t s p ∧
      NoOwnChange n as t p (e + 1)) ∨
    (out = "ret false" ∧ NoOwnChange n as t s (e + 1) ∧ ∃ q, s < q ∧ q ≤ e ∧ ¬ absAt n as q k) :=
  call_spec c

/-- LOOKUP.  A completed `Lookup k` changes nothing and answers true with `k` present, or false with `k` absent, at
    some position `q ∈ (s, e]`. -/
theorem C13_lin_lookup {n : Nat} {as : List Action} {t k s e : Nat} {out : String}
    (c : Call n as t (.look k) s e out) :
    NoOwnChange n as t s (e + 1) ∧
    ((out = "ret true" ∧ ∃ q, s < q ∧ q ≤ e ∧ absAt n as q k) ∨
     (out = "ret false" ∧ ∃ q, s < q ∧ q ≤ e ∧ ¬ absAt n as q k)) :=
  call_spec c

/-- completed iterator calls (Seek, Next, …) never change the abstract set -/
theorem C13_lin_iterator {n : Nat} {as : List Action} {t : Nat} {op : Op} {s e : Nat} {out : String}
    (c : Call n as t op s e out) (hop : opKind op = .iter) : NoOwnChange n as t s (e + 1) := by
  have := call_spec c
  rw [hop] at this
  exact this

/-- CONVERSE: no change without a call.  Every action leaves the abstract set alone, or is a segment of a thread `t`
    that is at that position inside the call `op` it entered at `s`, where `op = Insert k` and the action adds the
    absent `k`, or `op = Delete k` and the action removes the present `k`. -/
theorem C13_lin_changes (n : Nat) (as : List Action) (p : Nat) :
    AbsSame n as p ∨
    ∃ t op s, InCall n as t op s p ∧ as[p]? = some (.step t) ∧
      ((∃ k lvl, op = .ins k lvl ∧ InsPoint n as t k p) ∨ (∃ k, op = .del k ∧ DelPoint n as t k p)) :=
  changes_spec n as p

/-- THE POINT OF A SUCCESSFUL INSERT IS ITS PUBLISH CAS: an action that adds the absent `k` is the segment of a thread
    parked at INS_PUBLISH with item `k`, whose CAS succeeds (the new node `heap.length` carries `k` and joins the set) -/
theorem C13_lin_inspoint_is_publish {n : Nat} {as : List Action} {t k p : Nat} (h : InsPoint n as t k p) :
    ∃ th lvl, thrAt n as t p = some th ∧ th.pc = .insPublish k lvl ∧
      PublishEff (heapAt n as p) (heapAt n as (p + 1)) k := by
  have e1 := heap_ext_succ n as p
  have hI := stAt_invR n as p
  rcases step_class n as p with u | ⟨t', th, k', lvl, haj, hth, hpc, pe⟩ |
      ⟨t', th, item, nd, next, marked, haj, hth, hpc, me⟩
  · exact absurd (AbsSame.of_unmSame u) h.changes
  · have htt : t' = t := by
      have := haj.symm.trans h.1
      simpa using this
    subst htt
    have h1 : absAt n as (p + 1) k := (h.2.2 k).mpr (.inr rfl)
    rcases ((pe.abs e1).2 k).mp h1 with h2 | h2
    · exact absurd h2 h.2.1
    · subst h2; exact ⟨th, lvl, hth, hpc, pe⟩
  · exfalso
    obtain ⟨op, s, hc⟩ := busy_inCall n as p t' ⟨th, hth, by rw [hpc]; rfl⟩
    have hev := ev_invariant n as p t' op s th hc hth
    rw [hpc] at hev
    have hab := me.abs hI.1.1 hI.2 e1 hev.2.1
    have h1 : absAt n as (p + 1) item := (h.2.2 item).mpr (.inl hab.1)
    exact ((hab.2 item).mp h1).2 rfl

/-- THE POINT OF A SUCCESSFUL DELETE IS ITS WINNING LEVEL-0 MARK: an action that removes the present `k` is the
    segment of a thread parked at SOFT_MARK of level 0, in Delete(k), on a node that carries `k`, whose CAS succeeds
    (the node was unmarked and is marked after the step) -/
theorem C13_lin_delpoint_is_mark {n : Nat} {as : List Action} {t k p : Nat} (h : DelPoint n as t k p) :
    ∃ th nd next marked, thrAt n as t p = some th ∧ th.pc = .softMark k nd 0 next marked ∧
      keyOf (heapAt n as p) nd = .fin k ∧ MarkEff (heapAt n as p) (heapAt n as (p + 1)) nd := by
  have e1 := heap_ext_succ n as p
  have hI := stAt_invR n as p
  rcases step_class n as p with u | ⟨t', th, k', lvl, haj, hth, hpc, pe⟩ |
      ⟨t', th, item, nd, next, marked, haj, hth, hpc, me⟩
  · exact absurd (AbsSame.of_unmSame u) h.changes
  · exfalso
    have h1 : absAt n as (p + 1) k := ((pe.abs e1).2 k).mpr (.inl h.2.1)
    exact ((h.2.2 k).mp h1).2 rfl
  · have htt : t' = t := by
      have := haj.symm.trans h.1
      simpa using this
    subst htt
    obtain ⟨op, s, hc⟩ := busy_inCall n as p t' ⟨th, hth, by rw [hpc]; rfl⟩
    have hev := ev_invariant n as p t' op s th hc hth
    rw [hpc] at hev
    have hab := me.abs hI.1.1 hI.2 e1 hev.2.1
    have hki : k = item := by
      by_cases hki : k = item
      · exact hki
      · exfalso
        have h1 : absAt n as (p + 1) k := (hab.2 k).mpr ⟨h.2.1, hki⟩
        exact ((h.2.2 k).mp h1).2 rfl
    subst hki
    exact ⟨th, nd, next, marked, hth, hpc, hev.2.1, me⟩

/-- NO CALL WITH TWO CHANGES, no change by a call that answers false: a changing segment of thread `t` inside a
    completed call of `t` is the unique point of that call, the call is an Insert or a Delete and answered true. -/
theorem C13_lin_change_is_point {n : Nat} {as : List Action} {t : Nat} {op : Op} {s e p : Nat} {out : String}
    (c : Call n as t op s e out) (hsp : s < p) (hpe : p ≤ e) (hstep : as[p]? = some (.step t))
    (hch : ¬ AbsSame n as p) :
    out = "ret true" ∧
    ((∃ k lvl, op = .ins k lvl ∧ InsPoint n as t k p) ∨ (∃ k, op = .del k ∧ DelPoint n as t k p)) ∧
    ∀ p', s < p' → p' ≤ e → as[p']? = some (.step t) → ¬ AbsSame n as p' → p' = p := by
  have hin : InCall n as t op s p := ⟨c.inCall.1, hsp, fun i h1 h2 => c.inCall.2.2 i h1 (by omega)⟩
  have hspec := call_spec c
  -- the kind of change, from the converse theorem
  rcases changes_spec n as p with h | ⟨t', op', s', hc', hst', hkind⟩
  · exact absurd h hch
  · have htt : t' = t := by rw [hstep] at hst'; simpa using hst'.symm
    subst htt
    obtain ⟨rfl, rfl⟩ := hc'.unique hin
    have uniq : ∀ q, s' < q → q ≤ e → NoOwnChange n as t' s' q → NoOwnChange n as t' q (e + 1) →
        as[p]? = some (.step t') → ¬ AbsSame n as p → s' < p → p ≤ e → p = q := by
      intro q _ _ h1 h2 h3 h4 h5 h6
      by_cases hpq : p = q
      · exact hpq
      · by_cases hlt : p < q
        · exact absurd (h1 p h5 hlt h3) h4
        · exact absurd (h2 p (by omega) (by omega) h3) h4
    rcases hkind with ⟨k, lvl, rfl, hpt⟩ | ⟨k, rfl, hpt⟩
    · rcases hspec with ⟨ho, q, hq1, hq2, _, hq4, hq5⟩ | ⟨_, hno, _⟩
      · have hpq := uniq q hq1 hq2 hq4 hq5 hstep hch hsp hpe
        refine ⟨ho, .inl ⟨k, lvl, rfl, hpt⟩, fun p' h1 h2 h3 h4 => ?_⟩
        by_cases hp'q : p' = q
        · omega
        · by_cases hlt : p' < q
          · exact absurd (hq4 p' h1 hlt h3) h4
          · exact absurd (hq5 p' (by omega) (by omega) h3) h4
      · exact absurd (hno p hsp (by omega) hstep) hch
    · rcases hspec with ⟨ho, q, hq1, hq2, _, hq4, hq5⟩ | ⟨_, hno, _⟩
      · have hpq := uniq q hq1 hq2 hq4 hq5 hstep hch hsp hpe
        refine ⟨ho, .inr ⟨k, rfl, hpt⟩, fun p' h1 h2 h3 h4 => ?_⟩
        by_cases hp'q : p' = q
        · omega
        · by_cases hlt : p' < q
          · exact absurd (hq4 p' h1 hlt h3) h4
          · exact absurd (hq5 p' (by omega) (by omega) h3) h4
      · exact absurd (hno p hsp (by omega) hstep) hch

/-- REAL-TIME ORDER of the points.  Give an update point at action `p` the time `2p + 1` and a read point at state
    `q` the time `2q` (a read is placed right after state `q`, before action `q`).  Every point of a call `(s, e)`
    has its time in `[2s + 2, 2e + 1]`; hence if call A returned (`eA`) before call B was entered (`eA < sB`), every
    point of A is strictly before every point of B. -/
theorem C13_lin_real_time {sA eA sB eB : Nat} (timeA timeB : Nat)
    (hA : (∃ p, sA < p ∧ p ≤ eA ∧ timeA = 2 * p + 1) ∨ (∃ q, sA < q ∧ q ≤ eA ∧ timeA = 2 * q))
    (hB : (∃ p, sB < p ∧ p ≤ eB ∧ timeB = 2 * p + 1) ∨ (∃ q, sB < q ∧ q ≤ eB ∧ timeB = 2 * q))
    (hAB : eA < sB) : timeA < timeB := by
  rcases hA with ⟨p, _, _, rfl⟩ | ⟨p, _, _, rfl⟩ <;> rcases hB with ⟨q, _, _, rfl⟩ | ⟨q, _, _, rfl⟩ <;> omega

/-! ### non-vacuity: a concrete run with two threads racing on the same node (kernel-checked TEST) -/

/-- thread 0 inserts 5; then threads 0 and 1 both call Delete(5), both find node 2 live and park at SOFT_MARK;
    thread 0 wins the level-0 mark (action 10), thread 1 loses and answers false (action 11), thread 0 finishes its
    cleaning search and answers true (action 16) -/
def raceActs : List Action :=
  [.start 0 (.ins 5 0), .step 0, .step 0, .step 0,
   .start 0 (.del 5), .step 0, .step 0,
   .start 1 (.del 5), .step 1, .step 1,
   .step 0, .step 1,
   .step 0, .step 0, .step 0, .step 0, .step 0]

/-- the Insert: entered at 0, returned by action 3 with `ret true` -/
theorem race_insert : Call 2 raceActs 0 (.ins 5 0) 0 3 "ret true" where
  inCall := ⟨⟨rfl, _, rfl, rfl⟩, by omega, fun i h1 h2 => by
    have : i = 1 ∨ i = 2 ∨ i = 3 := by omega
    rcases this with rfl | rfl | rfl <;> exact ⟨_, rfl, rfl⟩⟩
  step := rfl
  idle := ⟨_, rfl, rfl⟩
  out := by decide

/-- the winning Delete of thread 0: entered at 4, returned by action 16 with `ret true` -/
theorem race_winner : Call 2 raceActs 0 (.del 5) 4 16 "ret true" where
  inCall := ⟨⟨rfl, _, rfl, rfl⟩, by omega, fun i h1 h2 => by
    have : i = 5 ∨ i = 6 ∨ i = 7 ∨ i = 8 ∨ i = 9 ∨ i = 10 ∨ i = 11 ∨ i = 12 ∨ i = 13 ∨ i = 14 ∨ i = 15 ∨ i = 16 := by
      omega
    rcases this with rfl | rfl | rfl | rfl | rfl | rfl | rfl | rfl | rfl | rfl | rfl | rfl <;> exact ⟨_, rfl, rfl⟩⟩
  step := rfl
  idle := ⟨_, rfl, rfl⟩
  out := by decide

/-- the losing Delete of thread 1: entered at 7, returned by action 11 with `ret false` -/
theorem race_loser : Call 2 raceActs 1 (.del 5) 7 11 "ret false" where
  inCall := ⟨⟨rfl, _, rfl, rfl⟩, by omega, fun i h1 h2 => by
    have : i = 8 ∨ i = 9 ∨ i = 10 ∨ i = 11 := by omega
    rcases this with rfl | rfl | rfl | rfl <;> exact ⟨_, rfl, rfl⟩⟩
  step := rfl
  idle := ⟨_, rfl, rfl⟩
  out := by decide

-- the theorems applied to the race: the Insert has its point, the loser has an instant of absence in (7, 11]
example : ∃ p, 0 < p ∧ p ≤ 3 ∧ InsPoint 2 raceActs 0 5 p := by
  rcases C13_lin_insert race_insert with ⟨_, p, h1, h2, h3, _⟩ | ⟨h, _⟩
  · exact ⟨p, h1, h2, h3⟩
  · exact absurd h (by decide)

example : ∃ q, 7 < q ∧ q ≤ 11 ∧ ¬ absAt 2 raceActs q 5 := by
  rcases C13_lin_delete race_loser with ⟨h, _⟩ | ⟨_, _, q, h1, h2, h3⟩
  · exact absurd h (by decide)
  · exact ⟨q, h1, h2, h3⟩

example : ∃ p, 4 < p ∧ p ≤ 16 ∧ DelPoint 2 raceActs 0 5 p := by
  rcases C13_lin_delete race_winner with ⟨_, p, h1, h2, h3, _⟩ | ⟨h, _⟩
  · exact ⟨p, h1, h2, h3⟩
  · exact absurd h (by decide)

-- the trace itself at the decisive instants: 5 is present at position 10 (node 2 live), the winner's mark is action 10
example : absAt 2 raceActs 10 5 := ⟨2, ⟨1, by decide⟩, by decide⟩
example : marked0 (heapAt 2 raceActs 11) 2 := ⟨1, by decide⟩
example : ∃ th, thrAt 2 raceActs 0 10 = some th ∧ th.pc = .softMark 5 2 0 1 false := ⟨_, rfl, rfl⟩
example : ∃ th, thrAt 2 raceActs 1 10 = some th ∧ th.pc = .softMark 5 2 0 1 false := ⟨_, rfl, rfl⟩

end NitroVerif.SkipConc
