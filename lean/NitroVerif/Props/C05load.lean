import NitroVerif.Props.C05e2e
import NitroVerif.Props.C18
import NitroVerif.Lemmas.BackupAssembleDelta
/-!
  Property C05, the link between the backup model M7 and the skiplist builder of M3.

  M7 (`Model/Backup.lean`) treats the restored store abstractly: `load` returns the concatenation of
  the decoded shard item lists.  The code (`LoadFromDisk`, nitro.go) builds the store with the
  skiplist builder: `segments[i] = b.NewSegment()` for every file of `files.json`, `concurr` loader
  goroutines that call `segments[shard].Add(itm)` for every item of the shard they were handed, in
  file order, and finally `m.store = b.Assemble(segments...)` with the segments in `files.json`
  order.  This file defines that restore ON THE POINTER HEAP of M3 (`restoreWith`, from
  `Lemmas/BackupAssembleRep.lean`: `brun` of the `NewSegment`/`Segment.Add` calls, then `assemble`)
  and proves that it realises M7's `load`.

  Interface between the models (explicit): items of M7 are byte strings, keys of M3 are integers
  (`Key.item k`, compared as integers).  A function `key : Bytes → Int` is a parameter; the
  hypotheses say what is assumed of it:
    * for the no-delta restore: the keys of the loaded items are strictly ascending along the loaded
      list (`(items.map key).Pairwise (· < ·)`) — equivalently every shard is ascending and every shard
      lies below the next one, which is what C10 / `C05_end_to_end` give for a stored snapshot when
      `key` is strictly monotone in the item order;
    * for the delta part additionally `KeyAgreesOn keyCmp key P` with `P` = "is a decoded data or
      delta item": on the items at hand the byte comparison of the loading instance is the comparison
      of the integer keys (relative to the items on purpose: `bytes.Compare` on all byte strings does
      not embed into the integers, on fixed-width keys it does).
  Level requests (the random heights) are arbitrary: the statements quantify over every annotation
  `sh` of the decoded shards with level requests (`Annotates key shards sh`).

  Concurrency of the loaders: the filling history is ANY interleaving `adds` of the loaders' `Add`
  calls that keeps each shard's file order (`Shuffle sh adds`: a superset of what `concurr` workers
  fed from a channel can produce), every call atomic.  (Inside `Add` the only shared write is the CAS
  of `NewLevel` on the level word; M3 takes it to succeed.  A failed CAS returns the current level
  as height and leaves the word alone — the outcome of the level request `req = level` — and the
  statements quantify over all level requests.)  In M3 the calls
  of different loaders do NOT commute as heap transformers — the allocation index of a node and the
  shared `s.level` word (hence the height a node gets) depend on the order, see the `example` at the
  end — so independence is proved where it matters: a loader writes only its own segment record and
  the chain ends of its own segment (`C05_loaders_touch_own_segment`), adjacent calls of different
  loaders can be exchanged inside a history (`C05_loader_steps_swap`), and everything that can be
  observed of the assembled store is the same for all interleavings
  (`C05_load_interleaving_independent`).

  Delta files: `C05_load_delta_is_assemble_then_insert` covers the delta application with the delta
  items inserted ONE AT A TIME in M7's order (`files.json` order of the delta shards).  NOT covered:
  the `concurr` delta loaders insert concurrently into the shared list; that concurrent `Insert`s
  linearize is C13 (`Props/C13lin`), that the order is irrelevant under the round-trip hypotheses is
  `C05_delta_any_interleaving` — these two are still composed by argument only.
-/
namespace NitroVerif.Props.C05
open NitroVerif NitroVerif.Codec NitroVerif.Backup NitroVerif.Backup.GenLemmas NitroVerif.Mvcc
open NitroVerif.SkipSeq NitroVerif.OrdSet

/-! ### what the loaders decode -/

/-- the item lists the loaders decode from the data shards, one per file of `files.json`, in that
    order — `none` when `LoadFromDisk` returns an error before `Assemble` -/
def decodedShards (h : Bytes → Nat) (img : Image) : Option (List (List Bytes)) :=
  match versionOf img.version with
  | none => none
  | some ver =>
    match img.files with
    | .parsed files => loadShards h ver Gen.checksumMismatch files img.sums img.data
    | _ => none

/-- the item lists decoded from the delta shards -/
def decodedDelta (h : Bytes → Nat) (img : Image) : Option (List (List Bytes)) :=
  match versionOf img.version with
  | none => none
  | some ver =>
    match dfilesOf img.dfiles with
    | none => none
    | some dfiles => loadShards h ver Gen.deltaChecksumMismatch dfiles img.dsums img.delta

/-- M7's `load` without delta files is "decode the shards, concatenate" -/
theorem load_eq_decoded (h : Bytes → Nat) (keyCmp : Bytes → Bytes → Int) (img : Image) :
    load h keyCmp false img
      = match decodedShards h img with
        | none => .err
        | some shards => .ok shards.flatten := by
  unfold load decodedShards
  cases versionOf img.version with
  | none => rfl
  | some ver =>
    cases img.files with
    | absent => rfl
    | unparsable => rfl
    | parsed files =>
      simp only
      cases loadShards h ver Gen.checksumMismatch files img.sums img.data <;> simp

/-- M7's `load` with delta files is "decode the shards, concatenate, insert the delta items" -/
theorem load_delta_eq_decoded (h : Bytes → Nat) (keyCmp : Bytes → Bytes → Int) (img : Image) :
    load h keyCmp true img
      = match decodedShards h img with
        | none => .err
        | some shards =>
          match decodedDelta h img with
          | none => .err
          | some dshards => .ok (insertAll keyCmp shards.flatten dshards.flatten) := by
  unfold load decodedShards decodedDelta
  cases versionOf img.version with
  | none => rfl
  | some ver =>
    cases img.files with
    | absent => rfl
    | unparsable => rfl
    | parsed files =>
      simp only
      cases loadShards h ver Gen.checksumMismatch files img.sums img.data with
      | none => rfl
      | some shards =>
        simp only [Bool.not_true, Bool.false_eq_true, if_false]
        cases dfilesOf img.dfiles with
        | none => rfl
        | some dfiles => rfl

/-! ### the restore through the builder -/

/-- **Restore of decoded shards through the builder.**  `shards`: one item list per shard file, in
    `files.json` order, whose concatenation has strictly ascending keys (each shard ascending, each
    below the next).  `sh`: the same with any level request per item.  `adds`: any interleaving of the
    loaders.  Then on the heap `s'` that `Assemble` returns
      * a full level-0 scan (`SeekFirst`/`Valid`/`Next`) leaves `s'` unchanged and yields exactly the
        keys of the concatenated shards, in order;
      * `s'` is well formed (`WF`, C14) and its node count is the number of items, as is the number
        of allocations;
      * every later script of operations behaves as the ordered set that starts with those keys. -/
theorem C05_restore_shards {α : Type} (key : α → Int) (shards : List (List α))
    (hasc : (shards.flatten.map key).Pairwise (· < ·))
    (sh : List (List (Int × Nat))) (hsh : Annotates key shards sh)
    (adds : List BOp) (hadds : Shuffle sh adds) :
    let s' := restoreWith shards.length adds
    (scanAll s').1 = s' ∧
    (scanAll s').2.map (keyOf s'.nodes) = shards.flatten.map (fun b => Key.item (key b)) ∧
    WF s' ∧ nodeCount s' = (shards.flatten.length : Int) ∧
    s'.stats.nodeAllocs = (shards.flatten.length : Int) ∧
    ∀ later : List Op,
      (run { sl := s', handles := [] } later).2
        = (specRun { set := shards.flatten.map key, handles := [] } later).2 := by
  intro s'
  have hs' : s' = restoreWith sh.length adds := by rw [hsh.length]
  rcases restoreWith_spec sh adds hadds with ⟨L, hk, _, _, hal, hrep⟩
  rw [← hs', hsh.flatten] at hk hrep
  rw [← hs'] at hal
  have hr := hrep hasc
  rcases rep_observables hr hk with ⟨o1, o2, o3, o4, o5⟩
  have hlen : L.length = shards.flatten.length := by
    have := congrArg List.length hk
    rw [List.length_map, List.length_map] at this; exact this
  rw [List.length_map] at o4
  refine ⟨o1, ?_, o3, o4, by rw [hal, hlen], o5⟩
  rw [o2, List.map_map]; rfl

/-- **C05_load_is_assemble.**  Whenever M7's `load` (no delta files) succeeds with `items`, and the
    keys of `items` are strictly ascending, the decoded shards exist, their concatenation is `items`,
    and the restore AS THE CODE DOES IT — one `NewSegment` per file, the loaders' `Segment.Add` calls
    in any interleaving `adds` with any level requests, `Assemble` in file order — produces a heap
    whose level-0 scan is exactly `items` (same items, same order, as keys), which is well formed, has
    `items.length` nodes (the `Count()` M7 reports), and on which every later script of operations
    behaves as the ordered set with that content (the restored instance continues the history
    correctly; this is what C05 needs of C18). -/
theorem C05_load_is_assemble (h : Bytes → Nat) (keyCmp : Bytes → Bytes → Int) (img : Image)
    (items : List Bytes) (hload : load h keyCmp false img = .ok items)
    (key : Bytes → Int) (hasc : (items.map key).Pairwise (· < ·)) :
    ∃ shards, decodedShards h img = some shards ∧ shards.flatten = items ∧
      ∀ sh, Annotates key shards sh → ∀ adds, Shuffle sh adds →
        let s' := restoreWith shards.length adds
        (scanAll s').1 = s' ∧
        (scanAll s').2.map (keyOf s'.nodes) = items.map (fun b => Key.item (key b)) ∧
        WF s' ∧ nodeCount s' = (items.length : Int) ∧
        (load h keyCmp false img).count = some items.length ∧
        ∀ later : List Op,
          (run { sl := s', handles := [] } later).2
            = (specRun { set := items.map key, handles := [] } later).2 := by
  rw [load_eq_decoded] at hload
  cases hd : decodedShards h img with
  | none => rw [hd] at hload; cases hload
  | some shards =>
    rw [hd] at hload
    have hfl : shards.flatten = items := by simpa using hload
    refine ⟨shards, rfl, hfl, ?_⟩
    intro sh hsh adds hadds
    have hc := C05_restore_shards key shards (by rw [hfl]; exact hasc) sh hsh adds hadds
    rw [hfl] at hc
    rcases hc with ⟨c1, c2, c3, c4, _, c6⟩
    refine ⟨c1, c2, c3, c4, ?_, c6⟩
    rw [load_eq_decoded, hd]
    show (Outcome.ok shards.flatten).count = _
    rw [hfl]; rfl

/-- The same without any hypothesis on the keys (`LoadFromDisk` compares nothing on this path, and the
    residual damages of C11 can make the concatenation unsorted): level 0 of the assembled heap still
    walks from head to tail through exactly the loaded items, in order, and one node was allocated
    per item.  (Without ascending keys the result is not a search structure: no `WF`.) -/
theorem C05_load_walk_any_input (h : Bytes → Nat) (keyCmp : Bytes → Bytes → Int) (img : Image)
    (items : List Bytes) (hload : load h keyCmp false img = .ok items) (key : Bytes → Int) :
    ∃ shards, decodedShards h img = some shards ∧ shards.flatten = items ∧
      ∀ sh, Annotates key shards sh → ∀ adds, Shuffle sh adds →
        let s' := restoreWith shards.length adds
        ∃ L, walkLevel s' 0 = some L ∧
          L.map (keyOf s'.nodes) = items.map (fun b => Key.item (key b)) ∧
          s'.stats.nodeAllocs = (items.length : Int) := by
  rw [load_eq_decoded] at hload
  cases hd : decodedShards h img with
  | none => rw [hd] at hload; cases hload
  | some shards =>
    rw [hd] at hload
    have hfl : shards.flatten = items := by simpa using hload
    refine ⟨shards, rfl, hfl, ?_⟩
    intro sh hsh adds hadds s'
    have hs' : s' = restoreWith sh.length adds := by rw [hsh.length]
    rcases restoreWith_spec sh adds hadds with ⟨L, hk, hkeys, hwalk, hal, _⟩
    rw [← hs', hsh.flatten, hfl] at hk
    rw [← hs'] at hkeys hwalk hal
    refine ⟨L, by rw [hwalk 0 (Nat.zero_le _), LL_zero], ?_, ?_⟩
    · have e : List.map (fun b => Key.item (key b)) items = (items.map key).map Key.item := by
        rw [List.map_map]; rfl
      rw [e, ← hk, List.map_map]
      exact List.map_congr_left (fun n hn => hkeys n hn)
    · have := congrArg List.length hk
      rw [List.length_map, List.length_map] at this
      rw [hal, this]

/-! ### the loaders run concurrently -/

/-- A loader only touches its own segment: a `Segment.Add` on segment `i`
    * leaves the record (`head`/`tail`/statistics) of every other segment `j` as it is, and
    * changes no existing heap cell other than the ones segment `i`'s own `tail` array points at (the
      last node of each of its chains) — all other cells, in particular every node of another
      loader's segment, keep key, height and all links.
    What the loaders share is the allocator (the index the new node gets) and the store's level word
    (`NewLevel`'s CAS). -/
theorem C05_loaders_touch_own_segment (st : SL × List Segment) (i : Nat) (k : Int) (lvl : Nat) :
    (∀ j, i ≠ j → (bstep st (.add i k lvl)).2[j]? = st.2[j]?) ∧
    (∀ seg, st.2[i]? = some seg → ∀ m, m < st.1.nodes.length → (∀ l, seg.tail.getD l nilId ≠ m) →
      (bstep st (.add i k lvl)).1.nodes[m]? = st.1.nodes[m]?) := by
  refine ⟨fun j hij => bstep_add_other st i j k lvl hij, ?_⟩
  intro seg hseg m hm hnt
  simp only [bstep, hseg]
  exact segAdd_frame st.1 seg (.item k) lvl m hm hnt

/-- Two consecutive `Add` calls of DIFFERENT loaders may be exchanged anywhere in a filling history:
    the result is again an interleaving of the same shards — so every interleaving is reachable from
    the sequential one by such exchanges, and `C05_load_interleaving_independent` applies to both. -/
theorem C05_loader_steps_swap {i j : Nat} (hij : i ≠ j) (k k' : Int) (l l' : Nat) (a b : List BOp)
    (sh : List (List (Int × Nat)))
    (hs : Shuffle sh (a ++ BOp.add i k l :: BOp.add j k' l' :: b)) :
    Shuffle sh (a ++ BOp.add j k' l' :: BOp.add i k l :: b) :=
  Shuffle.swap hij k k' l l' b a sh hs

/-- the loaders running one after the other (shard 0, then 1, …) is one of the interleavings -/
theorem C05_sequential_is_interleaving (sh : List (List (Int × Nat))) : Shuffle sh (fillFrom 0 sh) :=
  shuffle_fillFrom sh

/-- **Interleaving independence.**  Two runs of the concurrent loaders over the same decoded shards —
    any two interleavings `adds₁`, `adds₂`, any two assignments of level requests `sh₁`, `sh₂` — give
    assembled heaps that cannot be told apart: the level-0 scans yield the same keys, the node counts
    agree, both are well formed, and every later script of operations produces the same outputs.
    (The heaps themselves may differ in node numbering and heights.) -/
theorem C05_load_interleaving_independent {α : Type} (key : α → Int) (shards : List (List α))
    (hasc : (shards.flatten.map key).Pairwise (· < ·))
    (sh₁ sh₂ : List (List (Int × Nat))) (h₁ : Annotates key shards sh₁) (h₂ : Annotates key shards sh₂)
    (adds₁ adds₂ : List BOp) (r₁ : Shuffle sh₁ adds₁) (r₂ : Shuffle sh₂ adds₂) :
    let s₁ := restoreWith shards.length adds₁
    let s₂ := restoreWith shards.length adds₂
    (scanAll s₁).2.map (keyOf s₁.nodes) = (scanAll s₂).2.map (keyOf s₂.nodes) ∧
    nodeCount s₁ = nodeCount s₂ ∧ WF s₁ ∧ WF s₂ ∧
    ∀ later : List Op,
      (run { sl := s₁, handles := [] } later).2 = (run { sl := s₂, handles := [] } later).2 := by
  intro s₁ s₂
  rcases C05_restore_shards key shards hasc sh₁ h₁ adds₁ r₁ with ⟨_, a2, a3, a4, _, a6⟩
  rcases C05_restore_shards key shards hasc sh₂ h₂ adds₂ r₂ with ⟨_, b2, b3, b4, _, b6⟩
  exact ⟨a2.trans b2.symm, a4.trans b4.symm, a3, b3, fun later => (a6 later).trans (b6 later).symm⟩

/-! ### composition with the Visitor and the shard writers -/

/-- **End to end through the builder.**  What the Visitor hands to the shard writers (C10, model M6),
    framed into shard files (C19) and described by the manifests (M7 `storeImage`), is decoded by the
    loaders into exactly the Visitor's shards, and loaded back THROUGH THE BUILDER — `NewSegment` per
    file, any interleaving of the loaders, any level requests, `Assemble` in file order — it scans as
    exactly the content of the stored snapshot, in order; the restored heap is well formed, has one
    node per item of the snapshot and continues as the ordered set with the snapshot's keys.
    `enc` as in `C05_end_to_end`; `key` reads the integer key off the bytes and is strictly monotone
    in the key of the version (`hkey`; e.g. `key (enc v) = v.key`). -/
theorem C05_end_to_end_through_builder {n : Nat} {σ : Mvcc.State} (hr : Reachable n σ) {s : Snap}
    (hs : s ∈ σ.snaps) (hrc : 0 < s.rc) (pivots : List Ver) (rate : Int)
    (enc : Ver → Bytes) (henc : ∀ v, 0 < (enc v).length ∧ (enc v).length < 2 ^ 32)
    (henc_norm : ∀ v, enc v.norm = enc v)
    (h : Bytes → Nat) (keyCmp : Bytes → Bytes → Int)
    (key : Bytes → Int) (hkey : ∀ v w : Ver, v.key < w.key → key (enc v) < key (enc w)) :
    let parts := ((visitor σ.store s.sn rate none pivots).1).map (fun shard => shard.map enc)
    load h keyCmp false (storeImage h parts 1) = .ok (s.content.map enc) ∧
    decodedShards h (storeImage h parts 1) = some parts ∧
    ∀ sh, Annotates key parts sh → ∀ adds, Shuffle sh adds →
      let s' := restoreWith parts.length adds
      (scanAll s').1 = s' ∧
      (scanAll s').2.map (keyOf s'.nodes) = s.content.map (fun v => Key.item (key (enc v))) ∧
      WF s' ∧ nodeCount s' = (s.content.length : Int) ∧
      ∀ later : List Op,
        (run { sl := s', handles := [] } later).2
          = (specRun { set := s.content.map (fun v => key (enc v)), handles := [] } later).2 := by
  intro parts
  have hc := (NitroVerif.Props.C10_visitor_partition hr hs hrc pivots rate none).1 (by intro v _ hv; cases hv)
  have hflat : ((visitor σ.store s.sn rate none pivots).1).flatten.map Ver.norm = s.content := hc.2.1
  have hparts : parts.flatten = s.content.map enc := by
    show (((visitor σ.store s.sn rate none pivots).1).map (fun shard => shard.map enc)).flatten = _
    rw [← hflat, List.map_map]
    have hcomp : (enc ∘ Ver.norm) = enc := by funext v; exact henc_norm v
    rw [hcomp, List.map_flatten]
  have hval : ValidItems parts.flatten := by
    rw [hparts]
    intro d hd
    obtain ⟨v, _, rfl⟩ := List.mem_map.mp hd
    exact henc v
  have hdec : decodedShards h (storeImage h parts 1) = some parts := by
    simp only [decodedShards, storeImage, versionOf]
    exact loadShards_written h (by decide) Gen.checksumMismatch (fun has s => checksumMismatch_self has s)
      parts hval
  -- the content is strictly ascending by key
  have hsorted : s.content.Pairwise KeyLt := by
    rw [← hflat, List.pairwise_map]
    have : ((visitor σ.store s.sn rate none pivots).1).flatten.Pairwise KeyLt :=
      List.pairwise_flatten.mpr ⟨hc.2.2.1, hc.2.2.2.1⟩
    exact this.imp (fun hab => hab)
  have hasc : (parts.flatten.map key).Pairwise (· < ·) := by
    rw [hparts, List.map_map, List.pairwise_map]
    exact hsorted.imp (fun hab => hkey _ _ hab)
  refine ⟨C05_end_to_end hr hs hrc pivots rate enc henc henc_norm h keyCmp, hdec, ?_⟩
  intro sh hsh adds hadds
  have hcore := C05_restore_shards key parts hasc sh hsh adds hadds
  rw [hparts] at hcore
  rcases hcore with ⟨c1, c2, c3, c4, _, c6⟩
  refine ⟨c1, ?_, c3, c4.trans (by rw [List.length_map]), ?_⟩
  · rw [c2, List.map_map]; rfl
  · intro later; rw [c6 later, List.map_map]; rfl

/-! ### delta files -/

/-- **Delta application.**  Whenever M7's `load` with delta files succeeds with `items`: the decoded
    data shards and delta shards exist and `items` is M7's `insertAll` of the delta items into the
    concatenated shards.  If the keys of the concatenated data shards are strictly ascending and the
    byte comparison agrees with `key` on the decoded data and delta items, then on M3 — restore through the builder (any interleaving of
    the loaders, any level requests), then one `Insert` per delta item in M7's order with any level
    request (`dops`) —
      * the i-th `Insert` succeeds iff `specRun` says so (the key is not yet present; a rejected item
        is a `DeltaRestoreFailed`),
      * the resulting heap scans as exactly `items`, is well formed, has `items.length` nodes, and
      * continues as the ordered set with the keys of `items`.
    The code calls `Insert2(itm, insCmp, existCmp, …)`, M3's `Insert2` has `eqCmp = nil`: on restored
    items (bornSn = deadSn = 0) sorted by key the `existCmp` test of `Insert4` never fires
    (`predEq_false_of_key`), which is why M7's walk and M3's `Insert2` coincide.  `m.itemsCount` is
    the node count proved here.
    Not covered: the delta `Insert`s of the `concurr` loaders run concurrently on the shared list in
    the code; here they are applied one at a time (see the file header). -/
theorem C05_load_delta_is_assemble_then_insert (h : Bytes → Nat) (keyCmp : Bytes → Bytes → Int)
    (img : Image) (items : List Bytes) (hload : load h keyCmp true img = .ok items)
    (key : Bytes → Int) :
    ∃ shards dshards, decodedShards h img = some shards ∧ decodedDelta h img = some dshards ∧
      items = insertAll keyCmp shards.flatten dshards.flatten ∧
      ((shards.flatten.map key).Pairwise (· < ·) →
        KeyAgreesOn keyCmp key (fun b => b ∈ shards.flatten ∨ b ∈ dshards.flatten) →
        ∀ sh, Annotates key shards sh → ∀ adds, Shuffle sh adds →
        ∀ dops, DeltaOps key dshards.flatten dops →
          let s' := restoreWith shards.length adds
          let st'' := (run { sl := s', handles := [] } dops).1
          (run { sl := s', handles := [] } dops).2
            = (specRun { set := shards.flatten.map key, handles := [] } dops).2 ∧
          (scanAll st''.sl).1 = st''.sl ∧
          (scanAll st''.sl).2.map (keyOf st''.sl.nodes) = items.map (fun b => Key.item (key b)) ∧
          WF st''.sl ∧ nodeCount st''.sl = (items.length : Int) ∧
          ∀ later : List Op,
            (run st'' later).2 = (specRun { set := items.map key, handles := [] } later).2) := by
  rw [load_delta_eq_decoded] at hload
  cases hd : decodedShards h img with
  | none => rw [hd] at hload; cases hload
  | some shards =>
    rw [hd] at hload
    cases hdd : decodedDelta h img with
    | none => rw [hdd] at hload; cases hload
    | some dshards =>
      rw [hdd] at hload
      have hitems : items = insertAll keyCmp shards.flatten dshards.flatten := by
        simp only [Outcome.ok.injEq] at hload; exact hload.symm
      refine ⟨shards, dshards, rfl, rfl, hitems, ?_⟩
      intro hasc ka sh hsh adds hadds dops hdops s' st''
      have hs' : s' = restoreWith sh.length adds := by rw [hsh.length]
      rcases restoreWith_spec sh adds hadds with ⟨L, hk, _, _, _, hrep⟩
      rw [← hs', hsh.flatten] at hk hrep
      have hr := hrep hasc
      have hsim := sim_of_rep hr
      rw [hk] at hsim
      rcases run_sim dops _ _ _ hsim with ⟨hout, ⟨L', hsim'⟩, _⟩
      rcases insertAll_key ka hdops shards.flatten [] (fun y hy => Or.inl hy) (fun y hy => Or.inr hy) hasc
        with ⟨hspec, _⟩
      rw [hspec, ← hitems] at hsim'
      have hr' : Rep st''.sl L' := hsim'.rep
      have hk' : L'.map (ikey st''.sl.nodes) = items.map key := hsim'.keys.symm
      rcases rep_observables hr' hk' with ⟨o1, o2, o3, o4, _⟩
      rw [List.length_map] at o4
      refine ⟨hout, o1, ?_, o3, o4, ?_⟩
      · rw [o2, List.map_map]; rfl
      · intro later
        exact (run_sim later _ _ _ hsim').1

/-! ### non-vacuity and tests by evaluation -/

/-- three shards (the middle one empty), keys `[1,5] [] [7,9]`, heights requested per item -/
def exSh : List (List (Int × Nat)) := [[(1, 0), (5, 3)], [], [(7, 1), (9, 0)]]

/-- an interleaving of the three loaders: shard 2 starts, shard 0 overtakes -/
def exAdds : List BOp := [.add 2 7 1, .add 0 1 0, .add 2 9 0, .add 0 5 3]

example : Shuffle exSh exAdds :=
  .step 2 7 1 [(9, 0)] rfl (.step 0 1 0 [(5, 3)] rfl (.step 2 9 0 [] rfl (.step 0 5 3 [] rfl
    (.done (by decide)))))

example : fillFrom 0 exSh = [.add 0 1 0, .add 0 5 3, .add 2 7 1, .add 2 9 0] := by decide

/-- the hypotheses of `C05_restore_shards` hold for byte items keyed by their first byte -/
example :
    (([[[1, 0], [5]], [], [[7, 7], [9]]] : List (List Bytes)).flatten.map
        (fun b => ((b.headD 0).toNat : Int))).Pairwise (· < ·) ∧
    Annotates (fun b : Bytes => ((b.headD 0).toNat : Int)) [[[1, 0], [5]], [], [[7, 7], [9]]] exSh :=
  ⟨by decide, by unfold Annotates; decide⟩

set_option maxRecDepth 20000 in
/-- TEST (by evaluation): the interleaved and the sequential restore scan alike and answer later
    operations alike … -/
example :
    let s₁ := restoreWith 3 exAdds
    let s₂ := restore exSh
    (scanAll s₁).2.map (keyOf s₁.nodes) = [.item 1, .item 5, .item 7, .item 9] ∧
    (scanAll s₂).2.map (keyOf s₂.nodes) = [.item 1, .item 5, .item 7, .item 9] ∧
    (run { sl := s₁, handles := [] } [.ins 6 1, .ins 5 0, .del 1, .iter]).2
      = [.bool true, .bool false, .bool true, .keys [.item 5, .item 6, .item 7, .item 9]] ∧
    (run { sl := s₂, handles := [] } [.ins 6 1, .ins 5 0, .del 1, .iter]).2
      = [.bool true, .bool false, .bool true, .keys [.item 5, .item 6, .item 7, .item 9]] := by decide

set_option maxRecDepth 20000 in
/-- … although the two heaps differ: `Add` calls of different loaders do not commute in M3 (node
    numbering, and the heights, because `NewLevel` raises the shared level word by one at a time) -/
example :
    (restoreWith 3 exAdds).nodes.map (fun nd => (nd.key, nd.level))
      ≠ (restore exSh).nodes.map (fun nd => (nd.key, nd.level)) := by decide

/-- byte strings of at most four bytes read as big-endian numbers after padding with zeros: on such
    keys `bytes.Compare` is the comparison of the numbers -/
def exKey (b : Bytes) : Int := ((b ++ [0, 0, 0, 0]).take 4).foldl (fun (a : Int) (x : UInt8) => a * 256 + (x.toNat : Int)) 0

/-- the hypotheses of `C05_load_is_assemble` are jointly satisfiable: the image a store leaves -/
example (h : Bytes → Nat) :
    load h cmpBytes false (storeImage h exParts) = .ok exContent ∧
    (exContent.map exKey).Pairwise (· < ·) :=
  ⟨(C05_roundtrip h cmpBytes exContent (by decide) exParts (by decide)).1, by decide⟩

/-- the hypotheses of the delta theorem are jointly satisfiable: a delta-mode backup whose shards miss
    an item (`exPartsMissing`, `exDelta` of `Props/C05.lean`), `bytes.Compare`, `exKey` -/
example (h : Bytes → Nat) :
    load h cmpBytes true (storeImageDelta h exPartsMissing exDelta) = .ok exContent ∧
    decodedShards h (storeImageDelta h exPartsMissing exDelta) = some exPartsMissing ∧
    decodedDelta h (storeImageDelta h exPartsMissing exDelta) = some exDelta ∧
    (exPartsMissing.flatten.map exKey).Pairwise (· < ·) ∧
    KeyAgreesOn cmpBytes exKey (fun b => b ∈ exPartsMissing.flatten ∨ b ∈ exDelta.flatten) := by
  refine ⟨C05_roundtrip_delta_missing h keyOrder_cmpBytes exContent (by decide) (by decide)
      exPartsMissing exDelta (by decide) (by decide) (by decide), ?_, ?_, by decide, ?_⟩
  · simp only [decodedShards, storeImageDelta, storeImage, versionOf]
    exact loadShards_written h (by decide) Gen.checksumMismatch (fun has s => checksumMismatch_self has s)
      exPartsMissing (by decide)
  · simp only [decodedDelta, storeImageDelta, storeImage, versionOf, dfilesOf]
    exact loadShards_written h (by decide) Gen.deltaChecksumMismatch
      (fun has s => deltaChecksumMismatch_self has s) exDelta (by decide)
  · have hU : ∀ b, (b ∈ exPartsMissing.flatten ∨ b ∈ exDelta.flatten) →
        b ∈ ([[0, 0, 0, 0], [7, 7, 7], [0, 1]] : List Bytes) := by
      intro b hb
      have e1 : exPartsMissing.flatten = [[0, 0, 0, 0], [7, 7, 7]] := by decide
      have e2 : exDelta.flatten = [[0, 1], [7, 7, 7]] := by decide
      rw [e1, e2] at hb
      simp only [List.mem_cons, List.mem_nil_iff, or_false] at hb ⊢
      rcases hb with (h | h) | (h | h) <;> simp [h]
    have hall : ∀ a ∈ ([[0, 0, 0, 0], [7, 7, 7], [0, 1]] : List Bytes),
        ∀ b ∈ ([[0, 0, 0, 0], [7, 7, 7], [0, 1]] : List Bytes),
        (cmpBytes a b < 0 ↔ exKey a < exKey b) ∧ (cmpBytes a b = 0 ↔ exKey a = exKey b) := by decide
    exact ⟨fun a b ha hb => (hall a (hU a ha) b (hU b hb)).1, fun a b ha hb => (hall a (hU a ha) b (hU b hb)).2⟩

example : DeltaOps (fun b => ((b.headD 0).toNat : Int)) [[6], [5, 1]] [.ins 6 2, .ins 5 0] :=
  .cons [6] 2 (.cons [5, 1] 0 .nil)

end NitroVerif.Props.C05
