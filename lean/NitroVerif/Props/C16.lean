import NitroVerif.Lemmas.BarrierStep
set_option linter.unusedSimpArgs false
/-!
  C16 — Access barrier safety (model M4, `Model/Barrier.lean`; invariants in `Lemmas/Barrier*.lean`).

  Vocabulary.  Sessions are numbered 0,1,2,… in creation order; session `s` is closed by the
  `(s+1)`-th `FlushSession` call to pass FL_TAG, which gives it `seqno = s+1` and the object of that
  call (clause `numbering`).  "Flush number `m`" below is that call; `st.log` is the list of
  destructor calls `(seqno, obj)` in call order; `st.tagged` the objects of the flushes in order.
  A thread *holds a token* for `s` when `s ∈ t.toks` (its `Acquire` returned `s` and it has not called
  `Release` for it); it is *inside a Release of a unit it really owned* when it is parked at
  `relDec s k` with `k ≠ retAcq` (API `Release`, or the flusher's own unit) — the decrement has not
  happened yet.  (`relDec s retAcq` is the back-off of an `Acquire` that did NOT complete: the
  accessor found the offset in the count and is undoing its increment; the Go comment
  "Accessors which entered a closed barrier session steps down automatically".)

  Quantifiers: every number `n` of threads, every schedule (any interleaving of `start`/`step` of
  any threads, nested holders, flushes by token holders, plus the proof-only `stale` action), both
  protocol variants (`fixed`).

  Excluded regime (explicit): the model refuses (`step … = none`) the ACQ_ADD step that would make the
  count of a not-yet-flushed session reach `barrierFlushOffset = 2^30 - 1`; i.e. fewer than 2^30 - 1
  simultaneous units on one session.  Counts are unbounded integers (no int32 wrap-around).
-/
namespace NitroVerif.Barrier

/-- the safety statement about one state -/
structure Safe (st : St) : Prop where
  /-- (a) destructor calls are numbered 1, 2, …, freeSeqno in call order: in flush order, each once -/
  inOrder : st.log.map Prod.fst = List.range' 1 st.freeSeqno
  /-- (a') the m-th destructor call receives the object attached by flush number m -/
  objects : st.log.map Prod.snd = st.tagged.take st.freeSeqno
  /-- flush number s+1 numbered session s and attached its object to it -/
  numbering : st.tagged.length = st.activeSeqno ∧ st.freeSeqno ≤ st.activeSeqno ∧
    ∀ s, s < st.activeSeqno → (getS st s).seqno = s + 1 ∧ st.tagged[s]? = some (getS st s).obj
  /-- (b) once the destructor of flush number `m` has run (`m ≤ freeSeqno`, i.e. `m` is in the log),
      no thread holds a token for a session closed by flush `m` or an earlier one (`s < m`), and no
      thread is still before the decrement of a real unit of such a session -/
  released : ∀ m, m ∈ st.log.map Prod.fst → ∀ s, s < m → ∀ (i : Nat) (t : Th), st.ths[i]? = some t →
    s ∉ t.toks ∧ ∀ k, k ≠ Cont.retAcq → t.pc ≠ PC.relDec s k
  /-- (c) a token is held only for a session that is not terminated (`closed = 0`) and whose
      destructor has not run; so `Acquire` never returns a terminated session, and an accessor is
      never counted in a session that is being destructed -/
  live : ∀ (i : Nat) (t : Th), st.ths[i]? = some t → ∀ s, s ∈ t.toks → (getS st s).closed = 0 ∧ st.freeSeqno ≤ s
  /-- a token is always for a session that exists: `s ≤ cur`.  (`cur` only grows and the swap of flush
      number `m` sets `cur = m`, so a token obtained before flush `m` swapped is for a session `< m`.) -/
  tokenOld : ∀ (i : Nat) (t : Th), st.ths[i]? = some t → ∀ s, s ∈ t.toks → s ≤ st.cur
  /-- (d) neither panic of `Release` is reachable -/
  noPanic : st.panicked = false

/-- a terminated session has no holder and no real unit in flight -/
theorem no_holder_of_closed {st : St} (h : Inv st) {s : Nat} (hc : 1 ≤ (getS st s).closed)
    (i : Nat) (t : Th) (ht : st.ths[i]? = some t) :
    s ∉ t.toks ∧ ∀ k, k ≠ Cont.retAcq → t.pc ≠ PC.relDec s k := by
  have hr := (h.closed s (Or.inl hc)).2
  have hm := cnt_ge_mem (realT s) st i t ht
  have h0 : realT s t = 0 := by omega
  have hu : realT s t = t.toks.count s + pcReal s t.pc := rfl
  rw [hu] at h0
  constructor
  · intro hin
    have : 0 < t.toks.count s := List.count_pos_iff.mpr hin
    omega
  · intro k hk hpc
    rw [hpc] at h0
    cases k <;> simp [barsimp] at h0 hk

/-- a session whose destructor has run is terminated -/
theorem closed_of_lt_freeSeqno {st : St} (h : Inv st) {s : Nat} (hs : s < st.freeSeqno) :
    1 ≤ (getS st s).closed := by
  have hpl := h.place s
  omega

theorem safe_of_inv {st : St} (h : Inv st) : Safe st := by
  have hfa := freeSeqno_le_active h
  refine ⟨h.logseq, h.logobj, ⟨h.tagged, hfa, h.numbering⟩, ?_, ?_, ?_, h.nopanic⟩
  · intro m hm s hs i t ht
    rw [h.logseq] at hm
    simp [List.mem_range'_1] at hm
    exact no_holder_of_closed h (closed_of_lt_freeSeqno h (by omega)) i t ht
  · intro i t ht s hin
    have : 0 < t.toks.count s := List.count_pos_iff.mpr hin
    have hm := cnt_ge_mem (realT s) st i t ht
    have hu : realT s t = t.toks.count s + pcReal s t.pc := rfl
    have : 1 ≤ cnt (realT s) st := by omega
    have hcl := h.closed s
    have hpl := h.place s
    omega
  · intro i t ht s hin
    have : 0 < t.toks.count s := List.count_pos_iff.mpr hin
    have hm := cnt_ge_mem (refT s) st i t ht
    have hu : refT s t = t.toks.count s + pcRef s t.pc := rfl
    have hlt : s < st.sess.length := ref_lt h ht s (by omega)
    have := h.curlen
    omega

/-- **C16.**  Every state reachable from `init n` — any `n`, any schedule, either protocol variant —
    is safe: destructor calls in flush order and exactly once each (with the right object), only after
    every holder of a token for that or an earlier session has released, tokens only for
    non-terminated sessions, no panic. -/
theorem C16_barrier_safety (fixed : Bool) (n : Nat) (sched : List (Nat × Act)) (st : St)
    (hrun : run fixed (init n) sched = some st) : Safe st :=
  safe_of_inv (run_inv (init_inv n) hrun)

/-- the step-level reading of (c): when the ACQ_ADD step of a thread grants the token (the thread's
    call returns: new pc `idle`), the session is not flushed, not terminated, and its destructor has
    not run -/
theorem C16_grant (fixed : Bool) (n : Nat) (sched : List (Nat × Act)) (st st1 : St) (i : Nat) (t t' : Th)
    (s : Nat) (hrun : run fixed (init n) sched = some st) (ht : st.ths[i]? = some t)
    (hpc : t.pc = PC.acqAdd s) (he : exec fixed st t .step = some (st1, t')) (hgr : t'.pc = PC.idle) :
    t'.toks = t.toks ++ [s] ∧
      (getS st s).flushed = false ∧ (getS st s).closed = 0 ∧ st.freeSeqno ≤ s := by
  have h := run_inv (init_inv n) hrun
  simp only [exec, execStep, hpc] at he
  split at he
  · simp at he
  · split at he
    · simp at he; rw [← he.2] at hgr; simp at hgr
    · rename_i hreg hb
      simp at he
      have hs0 : s < st.sess.length := ref_lt h ht s (by simp [barsimp, hpc])
      rw [acquireBackoff_iff, off_val] at hb
      have hc0 := h.count s hs0
      have hle := b2n_le (getS st s).flushed
      have hnf : b2n (getS st s).flushed = 0 := by omega
      have hcl := h.closed s
      have hpl := h.place s
      refine ⟨by rw [← he.2], b2n_eq_zero.mp hnf, ?_, ?_⟩ <;> omega

/-- the moment of the destructor call: a thread parked at CL_PROC for session `s` is about to call the
    destructor of flush number `s+1` on that flush's object; at that moment the destructors of flushes
    `1 … s` have run (and only those), and no thread holds a token for, or is releasing a real unit of,
    session `s` or any earlier session -/
theorem C16_destructor_call (fixed : Bool) (n : Nat) (sched : List (Nat × Act)) (st : St)
    (i : Nat) (t : Th) (s : Nat) (k : Cont)
    (hrun : run fixed (init n) sched = some st) (ht : st.ths[i]? = some t)
    (hpc : t.pc = PC.clProc s k) :
    s = st.freeSeqno ∧ (getS st s).seqno = s + 1 ∧ st.tagged[s]? = some (getS st s).obj ∧
      st.log.map Prod.fst = List.range' 1 s ∧
      (destruct st s).log = st.log ++ [(s + 1, (getS st s).obj)] ∧
      ∀ s', s' ≤ s → ∀ (j : Nat) (u : Th), st.ths[j]? = some u →
        s' ∉ u.toks ∧ ∀ k', k' ≠ Cont.retAcq → u.pc ≠ PC.relDec s' k' := by
  have h := run_inv (init_inv n) hrun
  have m1 := cnt_ge_mem (onPc (pcProc s)) st i t ht
  simp [barsimp, hpc] at m1
  obtain ⟨hh, hs⟩ := h.proc s m1
  obtain ⟨r, hq⟩ := head_mem hh
  have hc0 := queued_closed h s (by simp [hq])
  obtain ⟨_, _, hseq, hobj, _⟩ := closed_facts h s hc0
  refine ⟨hs, hseq, hobj, by rw [h.logseq, hs], by simp [hseq], ?_⟩
  intro s' hs' j u hu
  by_cases e : s' = s
  · subst e; exact no_holder_of_closed h hc0 j u hu
  · exact no_holder_of_closed h (closed_of_lt_freeSeqno h (by omega)) j u hu

/-! ### temporal reading -/

theorem exec_mono {fixed : Bool} {st st1 : St} {t t' : Th} {a : Act} (h : Inv st)
    (he : exec fixed st t a = some (st1, t')) :
    st.cur ≤ st1.cur ∧ st.freeSeqno ≤ st1.freeSeqno ∧ st.activeSeqno ≤ st1.activeSeqno := by
  have hcl := h.curlen
  cases a with
  | start op =>
    simp only [exec, execStart] at he
    split at he
    · split at he
      · simp at he; obtain ⟨rfl, rfl⟩ := he; simp
      · split at he
        · simp at he; obtain ⟨rfl, rfl⟩ := he; simp
        · simp at he
      · simp at he; obtain ⟨rfl, rfl⟩ := he; simp
    · simp at he
  | stale =>
    simp only [exec, execStale] at he
    split at he
    · simp at he; obtain ⟨rfl, rfl⟩ := he; simp
    · simp at he
  | step =>
    simp only [exec, execStep] at he
    split at he <;> (try split at he) <;> (try split at he) <;> (try split at he) <;>
      simp at he <;> (try (obtain ⟨rfl, rfl⟩ := he)) <;> simp <;> omega

theorem step_mono {fixed : Bool} {st st' : St} {i : Nat} {a : Act} (h : Inv st)
    (hs : step fixed st i a = some st') :
    st.cur ≤ st'.cur ∧ st.freeSeqno ≤ st'.freeSeqno ∧ st.activeSeqno ≤ st'.activeSeqno := by
  unfold step at hs
  split at hs
  · simp at hs
  · split at hs
    · simp at hs
    · rename_i st1 t' he
      simp at hs; subst hs
      simpa using exec_mono h he

/-- `cur` (sessions created), `activeSeqno` (flushes tagged) and `freeSeqno` (destructors run) only grow -/
theorem run_mono {fixed : Bool} {sched : List (Nat × Act)} {st st' : St} (h : Inv st)
    (hr : run fixed st sched = some st') :
    st.cur ≤ st'.cur ∧ st.freeSeqno ≤ st'.freeSeqno ∧ st.activeSeqno ≤ st'.activeSeqno := by
  induction sched generalizing st with
  | nil => simp [run] at hr; subst hr; simp
  | cons x r ih =>
    obtain ⟨i, a⟩ := x
    simp only [run] at hr
    split at hr
    · simp at hr
    · rename_i st1 hs
      have h1 := step_mono h hs
      have h2 := ih (step_inv h hs) hr
      omega

/-- "The destructor of flush number `m` runs only after every accessor whose `Acquire` completed
    before that flush has called `Release`":  take any reachable state `st1` in which flush number `m`
    has not yet swapped the session (`st1.cur < m`) and any token held in `st1`; in every later state
    `st2` in which the destructor of flush `m` has run, no thread holds a token for that session
    (the accessor has released it). -/
theorem C16_released_before_destructor (fixed : Bool) (n : Nat) (sched1 sched2 : List (Nat × Act))
    (st1 st2 : St) (hrun1 : run fixed (init n) sched1 = some st1)
    (hrun2 : run fixed st1 sched2 = some st2)
    (i : Nat) (t : Th) (s m : Nat) (ht : st1.ths[i]? = some t) (htok : s ∈ t.toks)
    (hbefore : st1.cur < m) (hlogged : m ∈ st2.log.map Prod.fst) :
    ∀ (j : Nat) (u : Th), st2.ths[j]? = some u → s ∉ u.toks := by
  have h1 := run_inv (init_inv n) hrun1
  have h2 := run_inv h1 hrun2
  have hs := (safe_of_inv h1).tokenOld i t ht s htok
  intro j u hu
  exact ((safe_of_inv h2).released m hlogged s (by omega) j u hu).1

/-! ### non-vacuity: a concrete reachable state in which a destructor has run, another session is
    flushed and still held, and a thread holds a token (checked by evaluation — a test, not a proof of
    the property) -/

/-- T0 acquires (session 0); T2 flushes twice (objects 100, 200); T1 acquires in between (session 1);
    T0 releases: session 0 terminates and is destructed; T1 still holds its token for session 1. -/
def c16Sched : List (Nat × Act) :=
  [(0, .start .acquire), (0, .step), (0, .step),
   (2, .start (.flush 100)), (2, .step), (2, .step), (2, .step), (2, .step), (2, .step), (2, .step),
   (1, .start .acquire), (1, .step), (1, .step),
   (2, .start (.flush 200)), (2, .step), (2, .step), (2, .step), (2, .step), (2, .step), (2, .step),
   (0, .start (.release 0)), (0, .step), (0, .step), (0, .step), (0, .step), (0, .step), (0, .step),
   (0, .step), (0, .step), (0, .step)]

example : (run true (init 3) c16Sched).map (fun s => (s.log, s.freeSeqno, s.activeSeqno))
      = some ([(1, 100)], 1, 2) ∧
    (run true (init 3) c16Sched).map (fun s => (s.ths.map (fun t => t.toks), s.panicked))
      = some ([[], [1], []], false) := by
  constructor <;> decide

example : ∃ st, run true (init 3) c16Sched = some st ∧ Safe st ∧ st.log ≠ [] ∧
    (∃ t, st.ths[1]? = some t ∧ 1 ∈ t.toks) := by
  have hd : (run true (init 3) c16Sched).isSome = true := by decide
  obtain ⟨st, hst⟩ := Option.isSome_iff_exists.mp hd
  refine ⟨st, hst, C16_barrier_safety true 3 _ st hst, ?_, ?_⟩
  · have : (run true (init 3) c16Sched).map (fun s => s.log) = some [(1, 100)] := by decide
    rw [hst] at this; simp at this; simp [this]
  · have : (run true (init 3) c16Sched).map (fun s => s.ths[1]?.map (·.toks)) = some (some [1]) := by decide
    rw [hst] at this; simp at this
    obtain ⟨t, ht, htk⟩ := this
    exact ⟨t, ht, by simp [htk]⟩

end NitroVerif.Barrier
