import NitroVerif.Lemmas.BackupEffectsDelta
import NitroVerif.Props.C05
/-!
  Property C12 — backup never succeeds silently partial.

  "If any write, flush or close fails during StoreToDisk (for example the disk fills at any byte),
  StoreToDisk returns an error rather than success for a backup that cannot be restored.  If the
  process dies at any point during StoreToDisk into an empty directory, LoadFromDisk of what is left on
  disk returns an error or exactly the stored snapshot."

  Model: `Model/BackupEffects.lean`.  `StoreTrace h parts ver es` says that `es` is an effect list of
  a (non-delta) StoreToDisk of the partition `parts`: the header (mkdir, create of every shard file,
  nitro.json), the Visitor's writes in ANY chunking and ANY interleaving across shards, files.json,
  checksums.json, then the deferred Closes' writes in any chunking; manifest writes are non-atomic
  (`manifestBegin`).  A crash image is `imageAfter p` for any prefix `p` of `es`.
  The order of the calls is the generated `Gen.skeleton_StoreToDisk` / `Gen.skeleton_rawFileWriterClose`
  (`skeleton_StoreToDisk_ok`, `skeleton_rawFileWriterClose_ok`): a reordering in the Go code breaks
  those lemmas, which every theorem below cites.
  Delta-mode stores (`StoreTraceDelta`): the collectors' writes on the delta files interleaved with
  the Visitor's, the delta manifests, the delta writers' Closes, and only then the data writers'
  Closes — `C12_crash_prefix_delta`.
-/
namespace NitroVerif.Props.C12
open NitroVerif NitroVerif.Codec NitroVerif.Backup NitroVerif.Backup.GenLemmas

/-- **C12_crash_prefix.**  For every effect list of a store of `parts` (every chunking, every
    interleaving) and every prefix of it, LoadFromDisk of the directory left behind returns an error
    or exactly the content. -/
theorem C12_crash_prefix (h : Bytes → Nat) (cmp : Bytes → Bytes → Int) (content : List Bytes)
    (hit : ∀ d ∈ content, 0 < d.length ∧ d.length < 2 ^ 32)
    (parts : List (List Bytes)) (hparts : parts.flatten = content)
    (es : List Effect) (tr : StoreTrace h parts 1 es) (p : List Effect) (hp : p <+: es) :
    load h cmp false (imageAfter p) = .err ∨ load h cmp false (imageAfter p) = .ok content := by
  have _hskel := skeleton_StoreToDisk_ok
  have _hclose := skeleton_rawFileWriterClose_ok
  rcases crash_prefix h cmp parts (by rw [hparts]; exact hit) (by decide) tr p hp with he | ⟨hok, _⟩
  · exact Or.inl he
  · exact Or.inr (by rw [hok, hparts])

/-- The load succeeds only when every shard file on disk is complete: a crash image in which some
    shard file lacks bytes is always rejected. -/
theorem C12_crash_success_only_complete (h : Bytes → Nat) (cmp : Bytes → Bytes → Int) (content : List Bytes)
    (hit : ∀ d ∈ content, 0 < d.length ∧ d.length < 2 ^ 32)
    (parts : List (List Bytes)) (hparts : parts.flatten = content)
    (es : List Effect) (tr : StoreTrace h parts 1 es) (p : List Effect) (hp : p <+: es)
    (hne : (imageAfter p).data ≠ shardFiles 0 parts) :
    load h cmp false (imageAfter p) = .err := by
  rcases crash_prefix h cmp parts (by rw [hparts]; exact hit) (by decide) tr p hp with he | ⟨_, hd⟩
  · exact he
  · exact absurd hd hne

/-- Until the deferred Closes start writing, no shard file has its terminator: every crash image up
    to and including checksums.json is rejected (at least one shard, as `runtime.NumCPU() ≥ 1`).
    This is why the data files must be completed last. -/
theorem C12_crash_before_closes_err (h : Bytes → Nat) (cmp : Bytes → Bytes → Int) (content : List Bytes)
    (hit : ∀ d ∈ content, 0 < d.length ∧ d.length < 2 ^ 32)
    (parts : List (List Bytes)) (hparts : parts.flatten = content) (hn : 0 < parts.length)
    (es : List Effect) (tr : StoreTrace h parts 1 es) (p : List Effect)
    (hp : p <+: storeHeader parts.length 1 ++ tr.mid ++ storeManifests h parts) :
    load h cmp false (imageAfter p) = .err :=
  crash_before_closes_err h cmp parts (by rw [hparts]; exact hit) (by decide) hn tr p hp

/-- After the last effect the directory is exactly the image of a successful store. -/
theorem C12_store_complete (h : Bytes → Nat) (parts : List (List Bytes))
    (es : List Effect) (tr : StoreTrace h parts 1 es) : imageAfter es = storeImage h parts :=
  imageAfter_complete h parts 1 tr

/-- **C12_write_failure.**  Every file can take `b.bytes` bytes; a write that does not fit fails
    (after writing what fits).  With the error propagation of the fixed code (the first failing
    write/flush/close of the Visitor, of a manifest, or of a deferred Close becomes the return
    value): if StoreToDisk returns success, the directory restores exactly the content. -/
theorem C12_write_failure (h : Bytes → Nat) (cmp : Bytes → Bytes → Int) (content : List Bytes)
    (hit : ∀ d ∈ content, 0 < d.length ∧ d.length < 2 ^ 32)
    (parts : List (List Bytes)) (hparts : parts.flatten = content)
    (es : List Effect) (tr : StoreTrace h parts 1 es) (b : Budget) (img : Image)
    (hok : storeWithBudget true b (storeHeader parts.length 1 ++ tr.mid ++ storeManifests h parts)
      tr.closes = (.ok, img)) :
    load h cmp false img = .ok content := by
  have _hskel := skeleton_StoreToDisk_ok
  have _hclose := skeleton_rawFileWriterClose_ok
  have := storeWithBudget_ok hok
  rw [← tr.shape, C12_store_complete h parts es tr] at this
  rw [this, load_storeImage h cmp parts (by rw [hparts]; exact hit) (by decide), hparts]

/-- A failing write in a deferred Close (the final Flush of the buffered bytes, the terminator, or
    the close itself) never yields success in the fixed code … -/
theorem C12_failed_close_is_error (b : Budget) (main deferred : List Effect)
    (hfail : (runAll b (runUntilFailure b emptyImage main).1 deferred).2 = false) :
    (storeWithBudget true b main deferred).1 = .err := by
  unfold storeWithBudget
  cases hm : runUntilFailure b emptyImage main with
  | mk i1 ok1 =>
    rw [hm] at hfail
    simp only at hfail ⊢
    cases hd : runAll b i1 deferred with
    | mk i2 ok2 =>
      rw [hd] at hfail
      simp only at hfail
      subst hfail
      simp

/-- … nor does a failing write of the Visitor or of a manifest. -/
theorem C12_failed_write_is_error (propagateClose : Bool) (b : Budget) (main deferred : List Effect)
    (hfail : (runUntilFailure b emptyImage main).2 = false) :
    (storeWithBudget propagateClose b main deferred).1 = .err := by
  unfold storeWithBudget
  cases hm : runUntilFailure b emptyImage main with
  | mk i1 ok1 =>
    rw [hm] at hfail
    simp only at hfail ⊢
    subst hfail
    cases runAll b i1 deferred
    simp

/-! ### non-vacuity: a concrete store with an empty shard, a concrete chunking and interleaving -/

def exParts : List (List Bytes) := [[[1], [2]], [], [[3, 3]]]
def exContent : List Bytes := [[1], [2], [3, 3]]

/-- the Visitor's writes: shard 0 and shard 2 interleaved, cut in the middle of frames -/
def exMid : List Effect :=
  [.appendData 0 [0, 0, 0, 1, 1], .appendData 2 [0, 0], .appendData 0 [0, 0, 0], .appendData 2 [0, 2, 3]]

/-- the deferred Closes: rest of the buffer + terminator, file by file -/
def exCloses : List Effect :=
  [.appendData 0 [1, 2, 0, 0, 0, 0], .appendData 1 [0, 0, 0, 0], .appendData 2 [3], .appendData 2 [0, 0, 0, 0]]

def exEffects (h : Bytes → Nat) : List Effect :=
  storeHeader 3 1 ++ exMid ++ storeManifests h exParts ++ exCloses

def exTrace (h : Bytes → Nat) : StoreTrace h exParts 1 (exEffects h) where
  mid := exMid
  closes := exCloses
  shape := rfl
  midData := by decide
  closesData := by decide
  midItems := by decide
  total := by decide

example : exParts.flatten = exContent := by decide

/-- every one of the 19 crash points of this store, for every hash -/
example (h : Bytes → Nat) (k : Nat) :
    load h cmpBytes false (imageAfter ((exEffects h).take k)) = .err ∨
    load h cmpBytes false (imageAfter ((exEffects h).take k)) = .ok exContent :=
  C12_crash_prefix h cmpBytes exContent (by decide) exParts (by decide) (exEffects h) (exTrace h) _
    (List.take_prefix _ _)

/-- TEST (by evaluation, constant hash): the outcomes at the 19 crash points — errors until the last
    Close has written the last terminator -/
example : (List.range 19).map (fun k =>
      load (fun _ => 0) cmpBytes false (imageAfter ((exEffects (fun _ => 0)).take k)))
    = List.replicate 18 .err ++ [.ok exContent] := by decide

/-- TEST: a crash between the two halves of the last shard's Close: shard 2 has all its items but no
    terminator -/
example : (imageAfter ((exEffects (fun _ => 0)).take 17)).data
    = [("shard-0", writeFile [[1], [2]]), ("shard-1", writeFile []), ("shard-2", [0, 0, 0, 2, 3, 3])] := by
  decide

example (h : Bytes → Nat) : imageAfter (exEffects h) = storeImage h exParts :=
  C12_store_complete h exParts _ (exTrace h)

/-- a budget of 100 bytes per file is enough: success, and the theorem applies -/
example : (storeWithBudget true ⟨100, fun _ => 40⟩
    (storeHeader 3 1 ++ exMid ++ storeManifests (fun _ => 0) exParts) exCloses).1 = .ok := by decide

/-- a budget of 9 bytes: shard 0 (14 bytes) cannot be completed; the failing write is in the deferred
    Close.  Fixed code: error. -/
example : (storeWithBudget true ⟨9, fun _ => 5⟩
    (storeHeader 3 1 ++ exMid ++ storeManifests (fun _ => 0) exParts) exCloses).1 = .err := by decide

/-- **C12_unfixed_witness** (WITNESS, a `decide`d concrete run — the original code, which dropped the
    errors of the deferred Closes): the same budget gives SUCCESS for a directory that LoadFromDisk
    rejects.  (Replayed on the real code before the fix: defect D8.) -/
theorem C12_unfixed_witness :
    ∃ img, storeWithBudget false ⟨9, fun _ => 5⟩
        (storeHeader 3 1 ++ exMid ++ storeManifests (fun _ => 0) exParts) exCloses = (.ok, img) ∧
      load (fun _ => 0) cmpBytes false img = .err :=
  ⟨(storeWithBudget false ⟨9, fun _ => 5⟩
      (storeHeader 3 1 ++ exMid ++ storeManifests (fun _ => 0) exParts) exCloses).2,
    by decide, by decide⟩

/-! ### delta-mode stores -/

/-- **C12_crash_prefix_delta** (file level).  For every effect list of a delta-mode store (at least
    one data shard — `runtime.NumCPU() ≥ 1`), every prefix of it, and a loader with delta files:
    LoadFromDisk fails, or the directory is already the complete image `storeImageDelta`.  The data
    shard files are completed last, so "every data shard has its terminator" implies that the delta
    manifests and delta files are complete. -/
theorem C12_crash_prefix_delta_image (h : Bytes → Nat) (cmp : Bytes → Bytes → Int)
    (parts dparts : List (List Bytes))
    (hval : ∀ d ∈ parts.flatten, 0 < d.length ∧ d.length < 2 ^ 32) (hn : 0 < parts.length)
    (es : List Effect) (tr : StoreTraceDelta h parts dparts 1 es) (p : List Effect) (hp : p <+: es) :
    load h cmp true (imageAfter p) = .err ∨ imageAfter p = storeImageDelta h parts dparts := by
  have _hskel := skeleton_StoreToDisk_ok
  have _hclose := skeleton_rawFileWriterClose_ok
  exact crash_prefix_delta cmp hval (by decide) hn tr p hp

/-- **C12_crash_prefix_delta.**  With the hypotheses of the delta round trip
    (`C05_roundtrip_delta_general`): LoadFromDisk of any crash image returns an error or exactly the
    content. -/
theorem C12_crash_prefix_delta (h : Bytes → Nat) {cmp : Bytes → Bytes → Int} (ko : KeyOrder cmp)
    (content : List Bytes) (hit : ∀ d ∈ content, 0 < d.length ∧ d.length < 2 ^ 32)
    (hsorted : content.Pairwise (fun a b => cmp a b < 0))
    (parts dparts : List (List Bytes)) (hsub : parts.flatten.Sublist content)
    (hdval : ∀ d ∈ dparts.flatten, 0 < d.length ∧ d.length < 2 ^ 32)
    (hds : ∀ x ∈ dparts.flatten, x ∈ content ∨ ∃ c ∈ parts.flatten, cmp x c = 0)
    (hall : ∀ y ∈ content, y ∈ parts.flatten ∨ y ∈ dparts.flatten) (hn : 0 < parts.length)
    (es : List Effect) (tr : StoreTraceDelta h parts dparts 1 es) (p : List Effect) (hp : p <+: es) :
    load h cmp true (imageAfter p) = .err ∨ load h cmp true (imageAfter p) = .ok content := by
  rcases C12_crash_prefix_delta_image h cmp parts dparts (fun d hd => hit d (hsub.subset hd)) hn es tr p hp
    with he | himg
  · exact Or.inl he
  · right
    rw [himg]
    exact (C05.C05_roundtrip_delta_general h ko content hit hsorted parts dparts hsub hdval hds hall).1

/-- a loader WITHOUT delta files reads none of the delta side: whatever delta effects are interleaved,
    its outcome is that of the data side alone -/
theorem C12_load_false_ignores_delta (h : Bytes → Nat) (cmp : Bytes → Bytes → Int) (es : List Effect) :
    load h cmp false (imageAfter es) = load h cmp false (imageAfter (es.filter notDeltaB)) := by
  rw [imageAfter_splitD es, load_false_mergeD]

/-- non-vacuity: the store of `C05.exPartsMissing` + `C05.exDelta` — shard 0 holds `[0,0,0,0]`,
    shard 1 is empty, shard 2 holds `[7,7,7]`; writer 0's collector logged `[0,1]`, writer 1's logged
    `[7,7,7]`; data and delta writes interleaved -/
def exDMid : List Effect :=
  [.appendData 0 [0, 0, 0, 4, 0, 0], .appendDelta 0 [0, 0, 0, 2, 0], .appendData 2 [0, 0, 0, 3, 7, 7, 7],
   .appendDelta 1 [0, 0, 0, 3]]
def exDMid2 : List Effect := [.appendDelta 1 [7, 7]]
def exDCloses : List Effect := [.appendDelta 0 [1, 0, 0, 0, 0], .appendDelta 1 [7, 0, 0, 0, 0]]
def exDataCloses : List Effect :=
  [.appendData 0 [0, 0, 0, 0, 0, 0], .appendData 1 [0, 0, 0, 0], .appendData 2 [0, 0, 0, 0]]

def exDeltaEffects (h : Bytes → Nat) : List Effect :=
  storeHeaderDelta 3 2 1 ++ exDMid ++ storeManifests h C05.exPartsMissing ++ exDMid2 ++
    deltaManifests h C05.exDelta ++ exDCloses ++ exDataCloses

def exDeltaTrace (h : Bytes → Nat) : StoreTraceDelta h C05.exPartsMissing C05.exDelta 1 (exDeltaEffects h) where
  mid := exDMid
  mid2 := exDMid2
  dcloses := exDCloses
  closes := exDataCloses
  shape := rfl
  midOk := by decide
  mid2Ok := by decide
  dclosesOk := by decide
  closesOk := by decide
  midItems := by decide
  total := by decide
  dmidItems := by decide
  dtotal := by decide

example (h : Bytes → Nat) (k : Nat) :
    load h cmpBytes true (imageAfter ((exDeltaEffects h).take k)) = .err ∨
    load h cmpBytes true (imageAfter ((exDeltaEffects h).take k)) = .ok C05.exContent :=
  C12_crash_prefix_delta h keyOrder_cmpBytes C05.exContent (by decide) (by decide)
    C05.exPartsMissing C05.exDelta (by decide) (by decide) (by decide) (by decide) (by decide)
    (exDeltaEffects h) (exDeltaTrace h) _ (List.take_prefix _ _)

/-- TEST (by evaluation, constant hash): the 28 crash points of this store — rejected until the last
    data Close has written -/
example : (List.range 28).map (fun k =>
      load (fun _ => 0) cmpBytes true (imageAfter ((exDeltaEffects (fun _ => 0)).take k)))
    = List.replicate 27 .err ++ [.ok C05.exContent] := by decide

end NitroVerif.Props.C12
