import NitroVerif.Lemmas.BarrierAbsSim
import NitroVerif.Props.C16
import NitroVerif.Props.C17
/-!
  C16abs — "the real access barrier implements the abstract barrier of the MVCC model"
  (DESIGN.md 0.2a, composition (ii)), first half: M4 (`Model/Barrier.lean`, the small-step model of
  `skiplist/access_barrier.go`) against the LAZY abstract barrier `AbsBarrier`
  (`Lemmas/BarrierAbs.lean`: MvccConc's barrier with `cleanup` split off into a `destruct` action).
  The second half (MvccConc's eager barrier = lazy barrier + destructs to exhaustion) is
  `Props/C16absMvcc.lean`.

  Abstraction function `absOf` (`Lemmas/BarrierAbsM4.lean`): sessions `0 … cur`; `s` is closed iff
  `s < cur` (from the FL_SWAP on); one anonymous holder of `s` per token for `s`, a thread being a
  holder from its successful ACQ_ADD to its REL_DEC; the object of the closing flush; `freeSeq = freeSeqno`;
  `log` = the objects of the destructor calls.
  `absAct` names the abstract action of an M4 action: `acq` at the successful ACQ_ADD, `rel s` at the
  REL_DEC of an API `Release`, `flush obj` at FL_SWAP, `destruct` at CL_PROC, nothing elsewhere.

  FINDING (why the main theorem carries the suffix `_partial`).  The full statement — EVERY action of
  every thread in every reachable state is the abstract action `absAct` names or a stutter — is FALSE for
  M4, hence for the Go code: an `Acquire` that loaded `ab.session` before a flusher's FL_SWAP and
  increments `liveCount` before that flusher's FL_ADD is granted a token of the session that is no longer
  current (`lateGrant`; `C16_late_grant_witness` is a `decide`d 6-action schedule, and
  `C16_late_grant_no_abstract_action` shows that no action of `AbsBarrier` and no stutter matches it).
  Between FL_SWAP and FL_ADD both the old and the new session hand out tokens, so no abstraction that is
  a function of the M4 state maps the run to the atomic `flush` of `AbsBarrier`/MvccConc: with flush at
  FL_SWAP the late token is of a closed session (here), with flush at FL_ADD a token of the new session
  taken before FL_ADD would be of a session that does not exist yet.  This is not a safety defect
  (C16 holds; the late holder delays the destructor of the old session, and destructors run in session
  order), but it means that composition (ii) needs either a two-phase abstract flush (open the new
  session / seal the old one, tokens into either while unsealed) or a history-dependent simulation
  relation that counts the late token as a token of the new session; neither is mechanised here.
  `C16_late_grant_characterised` proves that the late grant is the ONLY exception and says exactly what
  it does to the abstraction (`acqAt`: one holder more in session `cur - 1`, whose flusher is parked at
  FL_TAG or FL_ADD).
-/
namespace NitroVerif.Barrier
open NitroVerif NitroVerif.AbsBarrier

/-- **C16abs (partial).**  FULL STATEMENT (false, see the file header and `C16_late_grant_witness`):
    for every number of threads, every schedule, either protocol variant, every state `st` reachable
    from `init n` and every enabled action `a` of every thread `i` leading to `st'`,
    `Sim st t a st'` — i.e. `absOf st' = absOf st` when `absAct st t a = none`, and
    `AbsBarrier.step (absOf st) α = some (absOf st')` when `absAct st t a = some α`
    (acquire at the successful increment, release at the decrement, flush at the swap, destruct at the
    destructor call).
    PROVED: the same with the hypothesis that the action is not a late grant (`lateGrant st t a = false`:
    it is not a successful ACQ_ADD on a session other than `cur`).
    MISSING: the late grant, which is not an action of `AbsBarrier` (`C16_late_grant_characterised`). -/
theorem C16_refines_abstract_barrier_partial (fixed : Bool) (n : Nat) (sched : List (Nat × Barrier.Act))
    (st st' : St) (i : Nat) (t : Th) (a : Barrier.Act)
    (hrun : run fixed (init n) sched = some st) (ht : st.ths[i]? = some t)
    (hstep : step fixed st i a = some st') (hlate : lateGrant st t a = false) :
    Sim st t a st' := by
  have h := run_inv (init_inv n) hrun
  unfold step at hstep
  rw [ht] at hstep
  simp only [] at hstep
  split at hstep
  · simp at hstep
  · rename_i st1 t' he
    simp at hstep; subst hstep
    exact exec_sim h ht he hlate

/-- the late grant is the only exception, and this is what it does: the thread is at ACQ_ADD for
    session `s = cur - 1`, exactly one thread (the flusher of `s`) is parked at FL_TAG/FL_ADD for `s`, and
    the abstraction gains one holder in the abstractly closed session `s` (`acqAt`, not an `AbsBarrier` action) -/
theorem C16_late_grant_characterised (fixed : Bool) (n : Nat) (sched : List (Nat × Barrier.Act))
    (st st' : St) (i : Nat) (t : Th) (a : Barrier.Act)
    (hrun : run fixed (init n) sched = some st) (ht : st.ths[i]? = some t)
    (hstep : step fixed st i a = some st') (hlate : lateGrant st t a = true) :
    ∃ s, t.pc = .acqAdd s ∧ s + 1 = st.cur ∧ cnt (onPc (pcPend s)) st = 1 ∧
      absOf st' = acqAt (absOf st) s := by
  have h := run_inv (init_inv n) hrun
  unfold step at hstep
  rw [ht] at hstep
  simp only [] at hstep
  split at hstep
  · simp at hstep
  · rename_i st1 t' he
    simp at hstep; subst hstep
    exact exec_lateGrant h ht he hlate

/-! ### the late grant: witness -/

/-- T0 starts `Acquire` and loads session 0; T1 starts `FlushSession(100)`, takes the mutex and swaps
    (session 1 is current, session 0 abstractly closed).  T0's next step (ACQ_ADD on session 0) is granted. -/
def lateSched : List (Nat × Barrier.Act) :=
  [(0, .start .acquire), (0, .step), (1, .start (.flush 100)), (1, .step), (1, .step)]

def lateBefore : AbsBarrier Unit Nat := ⟨[⟨[], true, 100⟩, ⟨[], false, 0⟩], 0, []⟩
def lateAfter : AbsBarrier Unit Nat := ⟨[⟨[()], true, 100⟩, ⟨[], false, 0⟩], 0, []⟩

/-- WITNESS (a `decide`d run, not a property): after `lateSched` thread 0's step is a late grant; the
    abstraction goes from `lateBefore` to `lateAfter` (a holder appears in the closed session 0) and the
    thread returns from `Acquire` with a token of session 0 -/
theorem C16_late_grant_witness :
    (run true (init 2) lateSched).map (fun st => (absOf st, st.ths[0]?.map (fun t => lateGrant st t .step)))
      = some (lateBefore, some true) ∧
    (run true (init 2) (lateSched ++ [(0, .step)])).map (fun st => (absOf st, st.ths.map (·.toks), st.ths.map (·.pc)))
      = some (lateAfter, [[0], []], [.idle, .flTag 0 100]) := by
  constructor <;> decide

/-- no action of the lazy abstract barrier, and no stutter, leads from `lateBefore` to `lateAfter` -/
theorem C16_late_grant_no_abstract_action :
    lateAfter ≠ lateBefore ∧ ∀ α : AbsBarrier.Act Unit Nat, AbsBarrier.step lateBefore α ≠ some lateAfter := by
  refine ⟨by decide, ?_⟩
  intro α
  cases α with
  | acq h => cases h; decide
  | rel tok h =>
    cases h
    match tok with
    | 0 => decide
    | 1 => decide
    | n + 2 => simp [AbsBarrier.step, holds, lateBefore]
  | flush o =>
    intro hh
    have := congrArg (fun x => x.map (fun b => b.sess.length)) hh
    simp [AbsBarrier.step, flushF, lateBefore, lateAfter] at this
  | destruct => decide

/-! ### C17 through the abstraction -/

theorem exhaust_of_not_ready {H O : Type} (n : Nat) (b : AbsBarrier H O) (h : ready b = false) :
    exhaust n b = b := by
  cases n with
  | zero => rfl
  | succ n => simp [exhaust, h]

/-- **C17 through the abstraction.**  Fixed protocol, any number of threads, any schedule: in a quiescent
    reachable state (every thread idle, no token held) the abstraction has no terminated undestructed
    session at position `freeSeq` (`ready = false`, `destruct` is not enabled), so it is a fixed point of
    "destruct to exhaustion" (`eager`, MvccConc's `cleanup`: `C16abs_cleanup_is_eager`); moreover every
    session but the current one is destructed, nobody holds a token, and the destructor log is the list of
    the flushed objects. -/
theorem C17_abstract_eager_at_quiescence (n : Nat) (sched : List (Nat × Barrier.Act)) (st : St)
    (hrun : run true (init n) sched = some st) (hq : quiescent st = true) :
    ready (absOf st) = false ∧ eager (absOf st) = absOf st ∧
      (absOf st).freeSeq + 1 = (absOf st).sess.length ∧ (absOf st).log = st.tagged ∧
      ∀ (s : Nat) (x : ASess Unit Nat), (absOf st).sess[s]? = some x → x.holders = [] := by
  have h := run_inv (init_inv n) hrun
  have np := C17_quiescent_nothing_pending n sched st hrun hq
  have z := quiescent_cnt hq
  have hact := h.active
  rw [z (onPc pcTag) (by simp [barsimp])] at hact
  have hfs : st.freeSeqno = st.cur := by have := np.counters.1; omega
  have hr : ready (absOf st) = false := by
    unfold absOf; rw [ready_tab]; simp [hfs]
  refine ⟨hr, exhaust_of_not_ready _ _ hr, ?_, ?_, ?_⟩
  · unfold absOf; rw [tab_sess_length]; simp [hfs]
  · unfold absOf; simp [np.allObjects]
  · intro s x hx
    unfold absOf at hx
    rw [tab_getElem?] at hx
    split at hx
    · simp at hx; subst hx
      have : cnt (heldT s) st = 0 := z (heldT s) (by simp [heldT])
      simp [tabSess, this]
    · simp at hx

/-! ### non-vacuity -/

/-- the abstract actions of a schedule, in order (stutters dropped) -/
def absTrace (fixed : Bool) : St → List (Nat × Barrier.Act) → List (AbsBarrier.Act Unit Nat)
  | _, [] => []
  | st, (i, a) :: r =>
    match st.ths[i]?, step fixed st i a with
    | some t, some st' => (absAct st t a).toList ++ absTrace fixed st' r
    | _, _ => []

/-- TEST: the schedule `c16Sched` of `Props/C16.lean` (two flushes, sessions 0 and 1, three threads) is,
    through the abstraction, acquire · flush 100 · acquire · flush 200 · release of session 0 · destruct;
    these six actions are enabled one after the other in `AbsBarrier` from its initial state and end in
    the abstraction of the final M4 state -/
example : absTrace true (init 3) c16Sched
      = [.acq (), .flush 100, .acq (), .flush 200, .rel 0 (), .destruct] ∧
    AbsBarrier.run (absOf (init 3)) (absTrace true (init 3) c16Sched)
      = (run true (init 3) c16Sched).map absOf ∧
    (run true (init 3) c16Sched).map absOf
      = some ⟨[⟨[], true, 100⟩, ⟨[()], true, 200⟩, ⟨[], false, 0⟩], 1, [100]⟩ := by
  refine ⟨by decide, by decide, by decide⟩

/-- non-vacuity of `C16_refines_abstract_barrier_partial`: a reachable state and a step that is a
    `destruct` of the abstraction -/
example : ∃ st st' t, run true (init 3) (c16Sched.take 26) = some st ∧ st.ths[0]? = some t ∧
    step true st 0 .step = some st' ∧ lateGrant st t .step = false ∧ absAct st t .step = some .destruct ∧
    Sim st t .step st' := by
  have hd : ((run true (init 3) (c16Sched.take 26)).bind (fun st => st.ths[0]?.bind (fun t =>
      (step true st 0 .step).map (fun _ => (lateGrant st t .step, absAct st t .step)))))
      = some (false, some .destruct) := by decide
  cases hst : run true (init 3) (c16Sched.take 26) with
  | none => rw [hst] at hd; simp at hd
  | some st =>
    rw [hst] at hd; simp only [Option.bind_some] at hd
    cases ht : st.ths[0]? with
    | none => rw [ht] at hd; simp at hd
    | some t =>
      rw [ht] at hd; simp only [Option.bind_some] at hd
      cases hs : step true st 0 .step with
      | none => rw [hs] at hd; simp at hd
      | some st' =>
        rw [hs] at hd; simp at hd
        exact ⟨st, st', t, rfl, ht, hs, hd.1, hd.2,
          C16_refines_abstract_barrier_partial true 3 _ st st' 0 t .step hst ht hs hd.1⟩

/-- non-vacuity of `C17_abstract_eager_at_quiescence`: the quiescent state of `Props/C17.lean` with two
    flushes; its abstraction has three sessions, two destructed -/
example : (run true (init 3) (witnessSched ++ [(0, .step), (0, .step), (0, .step), (0, .step),
      (0, .step), (0, .step), (0, .step)])).map (fun st => (quiescent st, absOf st))
    = some (true, ⟨[⟨[], true, 100⟩, ⟨[], true, 200⟩, ⟨[], false, 0⟩], 2, [100, 200]⟩) := by decide

end NitroVerif.Barrier
