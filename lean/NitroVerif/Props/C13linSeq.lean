import NitroVerif.Lemmas.SkipConcLinSeq2
import NitroVerif.Props.C13lin
/-!
  C13, the EXPLICIT sequential history of every run of the concurrent skiplist model M5.

  `linearization n as : List Entry` (computable, `Lemmas/SkipConcLinSeq.lean`, `Lemmas/SkipConcLinSeq2.lean`) lists
  the linearized calls of the run `as` from `Sys.init n`; an `Entry` is (thread, position of the call's entry, kind
  `ins k` / `del k` / `look k`, Boolean result).  It is the concatenation, over the positions `i = 0 … as.length`, of
  the reads placed at state `i` (completed Insert-false, Delete-false, Lookup calls whose chosen instant — the first
  position of their interval at which their answer is true of the abstract set — is `i`) followed by the update made
  by action `i` (a successful INS_PUBLISH / winning level-0 SOFT_MARK, of a completed OR in-flight call).

  Proved for every `n` and every run:
  * `C13_lin_history_replay`     replaying the history on the set specification from the empty set (Insert succeeds iff
                                 absent, Delete iff present, Lookup reports membership — `Entry.ok`, `Entry.next`)
                                 gives EVERY entry its recorded result and ends in the abstract set of the final state;
  * `C13_lin_history_states`     after the buckets `0 … i-1` the specification is in the abstract set of position `i`:
                                 the sequential history walks through the trace of abstract sets;
  * `C13_lin_history_complete`   every completed Insert / Delete / Lookup call is in the history with the result it
                                 printed (and prints `ret true` or `ret false`);
  * `C13_lin_history_sound`      every entry of the history belongs to an accepted call entry of that thread, of that
                                 kind;
  * `C13_lin_history_real_time`  if call A returned before call B was entered, A's entry comes before B's entry.
  * `C13_lin_history_once`       no two entries of the history belong to the same call (same thread, same entry
                                 position): with `C13_lin_history_complete`, every completed Insert / Delete / Lookup
                                 call is in the history EXACTLY once.
  * `C13_linearizable`           the five statements bundled: `Linearizes n as (linearization n as)`.
  Entries of calls still in flight at the end of the run appear only if their decisive CAS has happened (their
  update is then in the trace and in the history, with result `true`); in-flight reads are not listed.
-/
namespace NitroVerif.SkipConc
open NitroVerif

/-- REPLAY on the set specification: every recorded result is right; the final state is the abstract set of the
    final state of the run -/
theorem C13_lin_history_replay (n : Nat) (as : List Action) :
    Replay (fun _ => False) (linearization n as) (fun k => absOf ((Sys.init n).run as).sh.heap k) := by
  have h := lin_replay n as
  unfold absFn absAt heapAt at h
  rw [stAt_length] at h
  exact h

/-- the prefix of the history made of the buckets before position `i` takes the specification from the empty set
    to the abstract set at position `i` -/
theorem C13_lin_history_states (n : Nat) (as : List Action) (i : Nat) :
    Replay (fun _ => False) ((List.range i).flatMap (bucket n as)) (fun k => absAt n as i k) := by
  have h := range'_replay n as i 0
  rw [absFn_zero, ← List.range_eq_range', Nat.zero_add] at h
  exact h

/-- COMPLETE: a completed Insert / Delete / Lookup call prints `ret true` or `ret false` and is in the history with
    that result -/
theorem C13_lin_history_complete {n : Nat} {as : List Action} {t : Nat} {op : Op} {s e : Nat} {out : String}
    (c : Call n as t op s e out) (hk : opKind op ≠ .iter) :
    (out = "ret true" ∧ ⟨t, s, opKind op, true⟩ ∈ linearization n as) ∨
    (out = "ret false" ∧ ⟨t, s, opKind op, false⟩ ∈ linearization n as) := by
  cases op with
  | ins k lvl =>
    rcases call_spec c with ⟨ho, _⟩ | ⟨ho, _⟩
    · subst ho; exact .inl ⟨rfl, lin_ins_true c⟩
    · subst ho; exact .inr ⟨rfl, lin_ins_false c⟩
  | del k =>
    rcases call_spec c with ⟨ho, _⟩ | ⟨ho, _⟩
    · subst ho; exact .inl ⟨rfl, lin_del_true c⟩
    · subst ho; exact .inr ⟨rfl, lin_del_false c⟩
  | look k =>
    rcases (call_spec c).2 with ⟨ho, _⟩ | ⟨ho, _⟩
    · subst ho; exact .inl ⟨rfl, lin_look_true c⟩
    · subst ho; exact .inr ⟨rfl, lin_look_false c⟩
  | itFirst it => exact absurd rfl hk
  | itSeek it k => exact absurd rfl hk
  | itNext it => exact absurd rfl hk
  | itClose it => exact absurd rfl hk
  | itInterval it m => exact absurd rfl hk
  | itRefresh it => exact absurd rfl hk

/-- SOUND: every entry of the history belongs to an accepted call entry `start t op` at position `en.s` with the
    entry's kind -/
theorem C13_lin_history_sound {n : Nat} {as : List Action} {en : Entry} (h : en ∈ linearization n as) :
    ∃ op, StartsAt n as en.t op en.s ∧ opKind op = en.kind := by
  obtain ⟨i, _, hi⟩ := List.mem_flatMap.mp h
  obtain ⟨op, hc, hk, _⟩ := bucket_mem hi
  exact ⟨op, hc.1, hk⟩

/-- REAL TIME: if the call of `a` returned (action `eA`) before the call of `b` was entered (`eA < b.s`), then `a`
    comes before `b` in the history -/
theorem C13_lin_history_real_time {n : Nat} {as : List Action} {a b : Entry} {opA : Op} {eA : Nat} {outA : String}
    (ha : a ∈ linearization n as) (hb : b ∈ linearization n as) (cA : Call n as a.t opA a.s eA outA)
    (hAB : eA < b.s) : Before (linearization n as) a b :=
  lin_real_time ha hb cA hAB

/-- AT MOST ONCE: no two entries of the history belong to the same call -/
theorem C13_lin_history_once (n : Nat) (as : List Action) :
    (linearization n as).Pairwise (fun a b => ¬ (a.t = b.t ∧ a.s = b.s)) :=
  lin_nodup n as

/-- what it means for a sequential history `lin` to linearize the run `as` from `Sys.init n` -/
structure Linearizes (n : Nat) (as : List Action) (lin : List Entry) : Prop where
  /-- legal: on the set specification every entry gets its recorded result; the final state is the abstract set -/
  replay : Replay (fun _ => False) lin (fun k => absOf ((Sys.init n).run as).sh.heap k)
  /-- every completed Insert / Delete / Lookup call is listed with the result it printed -/
  complete : ∀ t op s e out, Call n as t op s e out → opKind op ≠ .iter →
    (out = "ret true" ∧ ⟨t, s, opKind op, true⟩ ∈ lin) ∨ (out = "ret false" ∧ ⟨t, s, opKind op, false⟩ ∈ lin)
  /-- every entry is a call of the run -/
  sound : ∀ en ∈ lin, ∃ op, StartsAt n as en.t op en.s ∧ opKind op = en.kind
  /-- no call is listed twice -/
  once : lin.Pairwise (fun a b => ¬ (a.t = b.t ∧ a.s = b.s))
  /-- the order respects real time -/
  realTime : ∀ a ∈ lin, ∀ b ∈ lin, ∀ opA eA outA, Call n as a.t opA a.s eA outA → eA < b.s → Before lin a b

/-- C13, LINEARIZABILITY of the concurrent skiplist model as a set object: for every number of threads and every
    run, the computed history `linearization n as` is a legal sequential history of the set specification that
    contains every completed Insert / Delete / Lookup call exactly once with the result it printed (plus the
    in-flight updates whose decisive CAS has happened) and respects real-time order -/
theorem C13_linearizable (n : Nat) (as : List Action) : Linearizes n as (linearization n as) where
  replay := C13_lin_history_replay n as
  complete := fun _ _ _ _ _ c hk => C13_lin_history_complete c hk
  sound := fun _ h => C13_lin_history_sound h
  once := C13_lin_history_once n as
  realTime := fun _ ha _ hb _ _ _ cA h => C13_lin_history_real_time ha hb cA h

/-! ### non-vacuity (kernel-checked TESTS on the race of `Props/C13lin.lean`) -/

/-- the history of the race: the Insert, then the winning Delete (placed at its mark, action 10), then the losing
    Delete (placed at state 11, right after the winner's mark) -/
theorem race_linearization :
    linearization 2 raceActs = [⟨0, 0, .ins 5, true⟩, ⟨0, 4, .del 5, true⟩, ⟨1, 7, .del 5, false⟩] := by decide

-- the replay theorem on the race, spelled out: {} --ins 5 true--> {5} --del 5 true--> {} --del 5 false--> {}
example : Replay (fun _ => False)
    [⟨0, 0, .ins 5, true⟩, ⟨0, 4, .del 5, true⟩, ⟨1, 7, .del 5, false⟩]
    (fun k => absOf ((Sys.init 2).run raceActs).sh.heap k) := by
  rw [← race_linearization]; exact C13_lin_history_replay 2 raceActs

-- completeness on the race: the loser is in the history with `false`
example : (⟨1, 7, .del 5, false⟩ : Entry) ∈ linearization 2 raceActs := by
  rcases C13_lin_history_complete race_loser (by decide) with ⟨h, _⟩ | ⟨_, h⟩
  · exact absurd h (by decide)
  · exact h

-- real time on the race: the Insert returned (action 3) before the winning Delete was entered (action 4)
example : Before (linearization 2 raceActs) ⟨0, 0, .ins 5, true⟩ ⟨0, 4, .del 5, true⟩ :=
  C13_lin_history_real_time (a := ⟨0, 0, .ins 5, true⟩) (b := ⟨0, 4, .del 5, true⟩)
    (by rw [race_linearization]; decide) (by rw [race_linearization]; decide) race_insert (by decide)

end NitroVerif.SkipConc
