import NitroVerif.Lemmas.VisitPool
import NitroVerif.Lemmas.VisitPoolHang
/-!
  C10, termination half: "… If a callback returns an error Visitor returns an error; it always terminates."

  Model: `Model/VisitPool.lean` — the dispatcher, the buffered work channel `wch`, the `concurrency` workers and
  the `errors` slice of `(*Nitro).Visitor`, small-step, one action per step; a schedule is a list of actions.
  All theorems quantify over the number of shards `n`, the number of workers `c`, the set of failing shards
  `fails` and the schedule `sched`; they are proved by invariants (`Lemmas/VisitPool.lean`), not by enumeration.

  The capacity `cap` of the channel is a parameter.  The code has `cap = n`: both are the expression
  `len(pivotItems) - 1` — generated `Gen.visitorChanCap` and `Gen.visitorDispatchBound`, tied by
  `MvccGenExtra.visitor_channel_holds_every_shard` (Lemmas/MvccGen.lean), so a change of either expression breaks
  that lemma.  Termination (`C10_pool_no_deadlock`) needs `n ≤ cap`; with the sizing before fix D19
  (`make(chan int, shards)` with the REQUESTED number of shards, which `GetRangeSplitItems` can exceed) a deadlock
  is reachable: `C10_pool_unfixed_hang_witness`.  The exact threshold (for `cap ≥ 1`) is `n ≤ cap + c`:
  `C10_pool_no_deadlock_sharp`, `C10_pool_deadlock_free_iff`.  The statements about the result
  (`C10_pool_error_reported`, `C10_pool_error_iff`, `C10_pool_final_dichotomy`) hold for every capacity.

  What the per-shard callback sequences are (every visible item exactly once, in order, partitioned) is
  `C10_visitor_partition` (Props/C10.lean), whose model runs the shards one after the other in shard order.  The
  link, in words: by `C10_pool_error_reported` (3), when no shard fails every shard index `0 … n-1` is run by
  exactly one worker exactly once, so the callback sees, per shard, exactly the sequence that
  `C10_visitor_partition` describes, and Visitor returns nil — as the sequential model does; when some shard fails
  Visitor returns an error (`C10_pool_error_iff`) — as the sequential model does (its clause (2)); which shards
  were run in that case depends on the schedule (`C10_pool_final_dichotomy`).
-/
namespace NitroVerif.Props.C10pool
open NitroVerif NitroVerif.VisitPool

/-- **C10_pool_no_deadlock**: whatever the number `n` of shards, the number `c` of workers (in particular every
    `c ≥ 1`; `c = 0` too), the set of failing shards and the capacity `cap ≥ n` of the channel (the code: `cap = n`),
    every schedule that can be executed from the initial state is at most `measure n (init n c) = 3n + 1 + c` steps
    long, and the state it reaches is final (all indexes sent, channel closed, every worker returned: the dispatcher
    gets past `wg.Wait()`) or has an enabled action.  So every maximal run is finite and ends in a final state. -/
theorem C10_pool_no_deadlock (n c cap : Nat) (fails : Nat → Bool) (hcap : n ≤ cap) (sched : List Action)
    (st : State) (hrun : run fails n cap (init n c) sched = some st) :
    sched.length ≤ 3 * n + 1 + c ∧
    (final n st ∨ ∃ a st', step fails n cap st a = some st') := by
  refine ⟨?_, progress hcap (inv_run sched _ _ (inv_init fails n c) hrun)⟩
  have := run_length sched _ _ hrun
  rw [measure_init] at this
  omega

/-- every single step decreases the measure (so there is no infinite run, for ANY capacity) -/
theorem C10_pool_step_decreases (n cap : Nat) (fails : Nat → Bool) (st st' : State) (a : Action)
    (h : step fails n cap st a = some st') : measure n st' < measure n st := step_measure h

/-- a maximal schedule (nothing enabled at its end) ends in a final state -/
theorem C10_pool_maximal_final (n c cap : Nat) (fails : Nat → Bool) (hcap : n ≤ cap) (sched : List Action)
    (st : State) (hrun : run fails n cap (init n c) sched = some st)
    (hmax : ∀ a, step fails n cap st a = none) : final n st := by
  rcases (C10_pool_no_deadlock n c cap fails hcap sched st hrun).2 with hf | ⟨a, st', hs⟩
  · exact hf
  · rw [hmax a] at hs; cases hs

/-- **C10_pool_no_deadlock_sharp** (more than the task asks): for a buffered channel (`cap ≥ 1`) the pool
    cannot deadlock as soon as `n ≤ cap + c` — each of the `c` workers takes one index out of the buffer before it
    can leave.  The code's `cap = n` (with `n ≥ 1`: `pivotItems` always has the start and the end entry) is an
    instance; the sizing before fix D19 (`cap = shards`) hangs only when more than `shards + concurrency` shards
    come out of `GetRangeSplitItems`, as in `C10_pool_unfixed_hang_witness` (3 > 1 + 1). -/
theorem C10_pool_no_deadlock_sharp (n c cap : Nat) (fails : Nat → Bool) (hcap1 : 0 < cap) (hcap : n ≤ cap + c)
    (sched : List Action) (st : State) (hrun : run fails n cap (init n c) sched = some st) :
    sched.length ≤ 3 * n + 1 + c ∧
    (final n st ∨ ∃ a st', step fails n cap st a = some st') := by
  refine ⟨?_, progress_sharp hcap1 hcap (inv_run sched _ _ (inv_init fails n c) hrun)
    (acct_run sched _ _ (acct_init n c) hrun)⟩
  have := run_length sched _ _ hrun
  rw [measure_init] at this
  omega

/-- **C10_pool_deadlock_free_iff** (more than the task asks; the exact threshold): for a buffered channel
    (`cap ≥ 1`) and `c` workers, "no reachable state is a deadlock, whichever shards fail and whatever the schedule"
    holds IF AND ONLY IF `n ≤ cap + c`.  The direction ← is `C10_pool_no_deadlock_sharp`; for → a schedule is
    constructed for every `n > cap + c` (Lemmas/VisitPoolHang.lean: each worker takes one failing shard and leaves,
    the dispatcher fills the buffer and blocks) — by induction, not by enumeration. -/
theorem C10_pool_deadlock_free_iff (n c cap : Nat) (hcap1 : 0 < cap) :
    (∀ (fails : Nat → Bool) (sched : List Action) (st : State), run fails n cap (init n c) sched = some st →
        (final n st ∨ ∃ a st', step fails n cap st a = some st')) ↔ n ≤ cap + c := by
  constructor
  · intro h
    apply Classical.byContradiction
    intro hn
    obtain ⟨sched, st, hrun, hnf, hno⟩ :=
      deadlock_reachable (fun _ => true) n c cap hcap1 (fun _ _ => rfl) (by omega)
    rcases h _ sched st hrun with hf | ⟨a, st', hs⟩
    · exact hnf hf
    · rw [hno a] at hs; cases hs
  · intro hn fails sched st hrun
    exact (C10_pool_no_deadlock_sharp n c cap fails hcap1 hn sched st hrun).2

/-- **C10_pool_error_reported**: for every capacity, in every reachable state (in particular in every final one,
    where Visitor reads `errors`):
    (1) Visitor's result is an error iff some shard that a worker actually processed fails;
    (2) the error returned is the one of the LEAST processed failing shard;
    (3) no shard is processed twice, only shards `< n` are processed, and only by workers of the pool;
    (4) with at least one worker, in a final state, if no shard fails: Visitor returns nil, the buffer is empty and
        every shard `0 … n-1` was processed exactly once, by exactly one worker `w < c`.  (Clauses (1)–(3) hold for
        every `c`; with `c = 0` nothing is processed at all, see the last example below.) -/
theorem C10_pool_error_reported (n c cap : Nat) (fails : Nat → Bool) (sched : List Action) (st : State)
    (hrun : run fails n cap (init n c) sched = some st) :
    (result st ≠ none ↔ ∃ s ∈ processed st, fails s = true) ∧
    (∀ s, result st = some s ↔
      (s ∈ processed st ∧ fails s = true ∧ ∀ s', s' < s → ¬ (s' ∈ processed st ∧ fails s' = true))) ∧
    (∀ s, (processed st).count s ≤ 1) ∧ (∀ s ∈ processed st, s < n) ∧ (∀ e ∈ st.log, e.1 < c) ∧
    (0 < c → final n st → (∀ s, s < n → fails s = false) →
      result st = none ∧ st.chan = [] ∧
      ∀ s, s < n → (processed st).count s = 1 ∧
        ∃ w, w < c ∧ (w, s) ∈ st.log ∧ ∀ w', (w', s) ∈ st.log → w' = w) := by
  have hi := inv_run sched _ _ (inv_init fails n c) hrun
  refine ⟨?_, result_some_iff hi, processed_count_le_one hi, fun s hs => processed_lt hi hs, hi.logw, ?_⟩
  · rw [Ne, result_none_iff hi]
    constructor
    · intro h
      apply Classical.byContradiction
      intro hno
      apply h
      intro s hs
      cases hf : fails s with
      | false => rfl
      | true => exact absurd ⟨s, hs, hf⟩ hno
    · rintro ⟨s, hs, hf⟩ h
      rw [h s hs] at hf; cases hf
  · intro hc hf hnf
    have hnone : result st = none := (result_none_iff hi).mpr (fun s hs => hnf s (processed_lt hi hs))
    have hch : st.chan = [] := by
      apply Classical.byContradiction
      intro hne
      obtain ⟨s, hs, hfs⟩ := final_leftover hi hf hne hc
      have hp : s ∈ processed st := List.mem_map.mpr ⟨(0, s), hs, rfl⟩
      rw [hnf s (processed_lt hi hp)] at hfs; cases hfs
    refine ⟨hnone, hch, ?_⟩
    intro s hs
    have h1 := final_partition hi hf hs
    rw [hch] at h1
    simp only [List.count_nil, Nat.zero_add] at h1
    refine ⟨h1, ?_⟩
    obtain ⟨w, hw, hu⟩ := unique_worker st.log s h1
    exact ⟨w, hi.logw _ hw, hw, hu⟩

/-- **C10_pool_error_iff** (the strongest true statement): with at least one worker, in every final state, for
    every capacity, Visitor returns an error IF AND ONLY IF some shard `s < n` fails — even when the failing shard
    was never processed (then every worker has left on another failing shard, whose error is recorded). -/
theorem C10_pool_error_iff (n c cap : Nat) (fails : Nat → Bool) (hc : 0 < c) (sched : List Action) (st : State)
    (hrun : run fails n cap (init n c) sched = some st) (hf : final n st) :
    result st ≠ none ↔ ∃ s, s < n ∧ fails s = true := by
  have hi := inv_run sched _ _ (inv_init fails n c) hrun
  have h1 := (C10_pool_error_reported n c cap fails sched st hrun).1
  rw [h1]
  constructor
  · rintro ⟨s, hs, hfs⟩
    exact ⟨s, processed_lt hi hs, hfs⟩
  · rintro ⟨s, hs, hfs⟩
    by_cases hp : s ∈ processed st
    · exact ⟨s, hp, hfs⟩
    · have h2 := final_partition hi hf hs
      rw [List.count_eq_zero.mpr hp] at h2
      have hne : st.chan ≠ [] := by
        intro he; rw [he] at h2; simp at h2
      obtain ⟨s0, hs0, hf0⟩ := final_leftover hi hf hne hc
      exact ⟨s0, List.mem_map.mpr ⟨(0, s0), hs0, rfl⟩, hf0⟩

/-- **C10_pool_final_dichotomy**: a final state is of one of two kinds — either some worker survived to the end
    and then EVERYTHING was processed (buffer empty, every shard exactly once), or shards are left in the buffer
    and then EVERY worker has left on a failing shard of its own (so at least `c` shards fail and the result is an
    error). -/
theorem C10_pool_final_dichotomy (n c cap : Nat) (fails : Nat → Bool) (sched : List Action) (st : State)
    (hrun : run fails n cap (init n c) sched = some st) (hf : final n st) :
    (st.chan = [] ∧ ∀ s, s < n → (processed st).count s = 1) ∨
    (st.chan ≠ [] ∧ (∀ s ∈ st.chan, s < n ∧ s ∉ processed st) ∧
      ∀ w, w < c → ∃ s, (w, s) ∈ st.log ∧ fails s = true) := by
  have hi := inv_run sched _ _ (inv_init fails n c) hrun
  by_cases hch : st.chan = []
  · refine Or.inl ⟨hch, ?_⟩
    intro s hs
    have h1 := final_partition hi hf hs
    rw [hch] at h1
    simpa using h1
  · refine Or.inr ⟨hch, ?_, fun w hw => final_leftover hi hf hch hw⟩
    intro s hs
    have hpos := List.count_pos_iff.mpr hs
    have h1 := hi.once s
    have h2 := hi.next_le
    refine ⟨by split at h1 <;> omega, ?_⟩
    intro hp
    have := List.count_pos_iff.mpr hp
    split at h1 <;> omega

/-- **C10_pool_unfixed_hang_witness** (WITNESS, a `decide`d concrete trace — the sizing before fix D19, commit
    0a8383c: `wch := make(chan int, shards)` with the requested `shards = 1`, while `GetRangeSplitItems` returned
    enough pivots for `n = 3` shards; one worker; the callback fails).  The worker takes shard 0, fails and
    returns; the dispatcher puts shard 1 into the buffer and then blocks at `wch <- 2` for ever: the state is not
    final and no action is enabled. -/
theorem C10_pool_unfixed_hang_witness :
    ∃ st, run (fun _ => true) 3 1 (init 3 1) [.send, .recv 0, .finish 0, .send] = some st ∧
      ¬ final 3 st ∧ ∀ a, step (fun _ => true) 3 1 st a = none := by
  refine ⟨{ next := 2, chan := [1], closed := false, workers := [.done], errors := [true, false, false],
            log := [(0, 0)] }, by decide, by decide, ?_⟩
  intro a
  cases a with
  | send => decide
  | recv w => match w with
    | 0 => decide
    | w + 1 => simp [step]
  | finish w => match w with
    | 0 => decide
    | w + 1 => simp [step]
  | close => decide
  | exit w => simp [step]

/-! ### non-vacuity -/

/-- the witness's schedule with the capacity of the code now (`cap = n = 3`) goes on to a final state: shards 1
    and 2 stay in the buffer, the result is the error of shard 0 -/
example : ∃ st, run (fun _ => true) 3 3 (init 3 1) [.send, .recv 0, .finish 0, .send, .send, .close] = some st ∧
    final 3 st ∧ result st = some 0 ∧ st.chan = [1, 2] ∧ processed st = [0] :=
  ⟨{ next := 3, chan := [1, 2], closed := true, workers := [.done], errors := [true, false, false],
     log := [(0, 0)] }, by decide, by decide, by decide, rfl, by decide⟩

/-- hypotheses of `C10_pool_no_deadlock`/`C10_pool_error_iff` met by a run where shard 1 fails but a worker
    survives: 3 shards, 2 workers, everything processed, the result is the error of shard 1 -/
example : ∃ st, run (fun s => s == 1) 3 3 (init 3 2)
    [.send, .send, .recv 0, .recv 1, .send, .finish 1, .finish 0, .recv 0, .close, .finish 0, .exit 0] = some st ∧
    final 3 st ∧ result st = some 1 ∧ st.chan = [] ∧ processed st = [1, 0, 2] :=
  ⟨{ next := 3, chan := [], closed := true, workers := [.done, .done], errors := [false, true, false],
     log := [(1, 1), (0, 0), (0, 2)] }, by decide, by decide, by decide, rfl, by decide⟩

/-- a failing shard that is NEVER processed (shard 2), the result is an error all the same: both workers left on
    shards 0 and 1 -/
example : ∃ st, run (fun _ => true) 3 3 (init 3 2)
    [.send, .send, .send, .recv 0, .recv 1, .finish 0, .finish 1, .close] = some st ∧
    final 3 st ∧ result st = some 0 ∧ st.chan = [2] ∧ 2 ∉ processed st :=
  ⟨{ next := 3, chan := [2], closed := true, workers := [.done, .done], errors := [true, true, false],
     log := [(0, 0), (1, 1)] }, by decide, by decide, by decide, rfl, by decide⟩

/-- no shard fails: every shard processed once, nil returned (clause (4) of `C10_pool_error_reported`) -/
example : ∃ st, run (fun _ => false) 2 2 (init 2 1)
    [.send, .recv 0, .send, .finish 0, .recv 0, .close, .finish 0, .exit 0] = some st ∧
    final 2 st ∧ result st = none ∧ st.chan = [] ∧ processed st = [0, 1] :=
  ⟨{ next := 2, chan := [], closed := true, workers := [.done], errors := [false, false],
     log := [(0, 0), (0, 1)] }, by decide, by decide, by decide, rfl, by decide⟩

/-- `c ≥ 1` is needed in `C10_pool_error_iff`: with no worker at all the run is final with everything in the
    buffer and nil is returned although every shard would fail (Go: `Visitor(…, concurrency = 0)` returns nil
    without calling the callback) -/
example : ∃ st, run (fun _ => true) 2 2 (init 2 0) [.send, .send, .close] = some st ∧
    final 2 st ∧ result st = none :=
  ⟨{ next := 2, chan := [0, 1], closed := true, workers := [], errors := [false, false], log := [] },
   by decide, by decide, by decide⟩

end NitroVerif.Props.C10pool
