import NitroVerif.Props.C04
import NitroVerif.Lemmas.MvccConcIter6
/-!
  # C01 (concurrent part) — a reader standing on a version that is unlinked under it

  Snapshot iterators give their skiplist iterator a comparator (`NewIterator`, `Refresh` in
  iterator.go; `Gen.iteratorStoreCmp`).  When the node under the cursor has been unlinked, skiplist
  `Iterator.Next` re-searches from the top with that comparator for the item under the cursor and lands
  on `succs[0]`.  With the key-only comparator (the code before the fix, `fixedIter = false` in the model)
  that is the OLDEST physical version of the key — a position the cursor has already passed — and a version
  visible to the snapshot is delivered a second time.  With the insert comparator (the code as it is) it is
  the first node after the unlinked one.
-/
namespace NitroVerif.Props.C01c
open NitroVerif NitroVerif.MvccConc

/-- one writer, one reader: Put 5; snapshot 1; Delete 5; Put 5 (a second version, born in epoch 2);
    the reader of snapshot 1 delivers 5, moves on and parks at ITER_NEXT standing on the invisible new
    version; the writer deletes that version in its own epoch (physical unlink); the reader steps. -/
def dupSched : List Act :=
  [.put 0 5 0, .step 0, .snap, .del 0 5, .step 0, .put 0 5 0, .step 0,
   .itNew 1 0 1, .itFirst 1 0, .itNext 1 0, .step 1,
   .del 0 5, .step 0, .step 0,
   .step 1]

/-- **C01_unfixed_duplicate_witness** (WITNESS: a concrete schedule evaluated by the kernel).
    With key-only snapshot iterators (the code before the fix) the reader of snapshot 1 is handed item 5
    twice: by `it_first` and again by the last step. -/
theorem C01_unfixed_duplicate_witness :
    (outs (init 1 1 false) dupSched).getLast? = some (.ret (.item (some (5, 0)))) ∧
    (outs (init 1 1 false) dupSched)[8]? = some (.ret (.item (some (5, 0)))) := by decide

/-- the same schedule on the code as it is: the reader reaches the end, nothing is delivered twice
    (TEST: concrete schedule evaluated by the kernel) -/
theorem C01_fixed_same_schedule :
    (outs (init 1 1 true) dupSched).getLast? = some (.ret (.item none)) ∧
    (outs (init 1 1 true) dupSched)[8]? = some (.ret (.item (some (5, 0)))) := by decide

/-- the model uses the generated comparator choice -/
theorem iterStoreCmp_fixed (σ : State) (h : σ.fixedIter = true) : iterStoreCmp σ = Mvcc.insCmp := by
  unfold iterStoreCmp; simp [h, Gen.iteratorStoreCmp, Mvcc.cmpOf]

/-! ### the code as it is: a reader never goes back

  `delivered t i σ sched` is the list of versions, as `(key, bornSn)`, that iterator `i` of reader thread `t`
  hands to its user along `sched` (its own `it_first` / ITER_NEXT steps that answer `ret <k:v>`).  `kbLt` is the
  physical order of the store: `(key, bornSn)` lexicographic.

  Full statement asked for (NOT proved here; proved in `Props/C01cc.lean`: `C01_conc_scan_keys_increasing_full`,
  together with completeness of the scan, `C01_conc_scan_complete`, and the fixed content of an open snapshot,
  `C01_conc_view_fixed`): "the delivered sequence is strictly increasing in KEY".  What is
  proved here is the strict increase in `(key, bornSn)` — in particular no version is ever delivered twice, which is
  exactly what the key-only iterators violated.  Missing for the key form: that two different versions of one
  key are never both visible to one snapshot along a concurrent history (the sequential engine proves that as
  V2/S1 in `Props/C01`; the small-step model does not yet carry the per-key lifetime chain over unlinked
  nodes). -/

/-- **C01_conc_scan_no_duplicates_partial.**  Code as it is (`fixedIter = true`), any number of writers and
    readers, any schedule `pre` before the scan and any schedule `scan` of all threads and jobs during it that
    contains no further `it_first` of this iterator: the versions delivered by the scan that starts with
    `it_first` are strictly increasing in `(key, bornSn)` — whatever the writers, collection jobs and free
    jobs do to the nodes under and around the cursor. -/
theorem C01_conc_scan_no_duplicates_partial (nw nr : Nat) (pre scan : List Act) (t i : Nat)
    (hno : Act.itFirst t i ∉ scan) :
    (delivered t i (run (init nw nr true) pre) (.itFirst t i :: scan)).Pairwise kbLt := by
  have hr : ReachableFx true nw nr (run (init nw nr true) pre) := reachable_run .init pre
  obtain ⟨h1, h2, _⟩ := delivered_sorted rfl t i scan (ReachableFx.step (.itFirst t i) hr) hno
  simp only [delivered]
  cases hd : deliveredBy (run (init nw nr true) pre) (.itFirst t i) t i with
  | none => simpa using h1
  | some e =>
    simp only [Option.toList_some, List.cons_append, List.nil_append, List.pairwise_cons]
    refine ⟨?_, h1⟩
    intro e' he'
    -- the delivered version is the cursor after `it_first`
    unfold deliveredBy at hd
    split at hd
    · split at hd
      · cases hc : curOf (step (run (init nw nr true) pre) (.itFirst t i)).1 t i with
        | none => rw [hc] at hd; cases hd
        | some c =>
          rw [hc] at hd; simp at hd
          have := h2 e' he' c hc
          rw [hd] at this; exact this
      · cases hd
    · cases hd

/-- the same for any stretch of a scan (from any reachable state, no `it_first` in between), and: no version is
    handed out twice -/
theorem C01_conc_scan_nodup {nw nr : Nat} {σ : State} (hr : Reachable nw nr σ) (sched : List Act) (t i : Nat)
    (hno : Act.itFirst t i ∉ sched) :
    (delivered t i σ sched).Pairwise kbLt ∧ (delivered t i σ sched).Nodup := by
  have h := (delivered_sorted rfl t i sched hr hno).1
  refine ⟨h, ?_⟩
  exact h.imp (fun {a b} hab he => by subst he; exact kbLt_irrefl a hab)

/-- the cursor itself never moves backwards (one step, any action other than the iterator's `it_first`) -/
theorem C01_conc_cursor_monotone {nw nr : Nat} {σ : State} (hr : Reachable nw nr σ) (a : Act) (t i : Nat)
    (ha : a ≠ .itFirst t i) (c' : Cur) (hc' : curOf (step σ a).1 t i = some c') :
    ∃ c, curOf σ t i = some c ∧ kbLe c.kb c'.kb :=
  (cursor_step hr rfl a t i ha).1 c' hc'

/-! non-vacuity (tests, evaluated by the kernel): two items delivered in order while a writer deletes
    the first one under the reader; and the schedule of the witness above on the code as it is -/
example :
    delivered 1 0 (run (init 1 1 true) [.put 0 5 0, .step 0, .put 0 7 0, .step 0, .snap, .itNew 1 0 1])
      [.itFirst 1 0, .del 0 5, .step 0, .itNext 1 0, .step 1, .itNext 1 0, .step 1] = [(5, 1), (7, 1)] := by decide

example : delivered 1 0 (init 1 1 true) dupSched = [(5, 1)] := by decide
example : delivered 1 0 (init 1 1 false) dupSched = [(5, 1), (5, 1)] := by decide

end NitroVerif.Props.C01c
