/-
  C02 Sequential set semantics.
  "Between snapshots the store behaves as a set keyed by the configured comparator: Put succeeds
   (returns a node) iff no live item with an equal key exists, Delete succeeds iff one exists and
   removes exactly that item, and a writer's lookup finds an item iff it is live.  After any sequence
   of such operations and snapshot creations, the live-item count and the content and Count() of the
   next snapshot equal those of a reference set that executed the same sequence."

  Model: `Model/Mvcc*.lean` (M6: nitro.go at the granularity "one skiplist operation = one atomic
  step", one goroutine, any number of writers).  Specification: `Spec/SetSpec.lean`.
  Keys are `Nat` ordered by `<` (standing for an arbitrary lawful total key order); values are
  arbitrary, so key-only comparators such as `CompareKV` (equal keys, different bytes) are covered;
  the default comparator is the special case "value = 0".
-/
import NitroVerif.Lemmas.MvccScanTrace

namespace NitroVerif.Props
open NitroVerif NitroVerif.Mvcc
open NitroVerif.SetSpec (Op Out)

/-- **C02** For every number of writers and every finite sequence of Put/Put2, Delete/Delete2,
    GetNode (+ lookup of the value), DeleteNode through handles obtained earlier, NewSnapshot, Open,
    Close, Count, ItemsCount, full scans, iterator operations and Visitor calls, through any of the
    writers, the outputs of the model (success flags, lookup results and values, `sn`/`Count()` of
    each new snapshot, ItemsCount, snapshot contents, …) equal the outputs of the reference set. -/
theorem C02_refines_set (n : Nat) (ops : List Op) :
    Mvcc.run (Mvcc.init n) ops = SetSpec.run (SetSpec.init n) ops := by
  rw [run_refines ops (inv_init n), abs_init]

/-- the same from any reachable state, through the abstraction function -/
theorem C02_refines_set_from {n : Nat} {σ : Mvcc.State} (hr : Reachable n σ) (ops : List Op) :
    Mvcc.run σ ops = SetSpec.run (abs σ) ops :=
  run_refines ops (inv_reachable hr)

/-- one step: the specification, started in the abstraction of the model state, produces the
    model's output and ends in the abstraction of the model's next state -/
theorem C02_step_refines {n : Nat} {σ : Mvcc.State} (hr : Reachable n σ) (op : Op) :
    SetSpec.step (abs σ) op = (abs (Mvcc.step σ op).1, (Mvcc.step σ op).2) :=
  step_refines (inv_reachable hr) op

/-- V1, V2, V3 in every reachable state -/
theorem C02_invariants {n : Nat} {σ : Mvcc.State} (hr : Reachable n σ) :
    σ.store.Pairwise vlt ∧ Chains σ.currSn σ.store ∧
    σ.itemsCount + (σ.writers.map (·.count)).sum = ((σ.store.filter isAlive).length : Nat) :=
  ⟨(inv_reachable hr).sorted, (inv_reachable hr).chains, (inv_reachable hr).count⟩

/-- the reference set really is a set: its alive list is strictly sorted by key -/
theorem C02_spec_alive_is_set {n : Nat} {σ : Mvcc.State} (hr : Reachable n σ) :
    (abs σ).alive.Pairwise (fun a b => a.key < b.key) := by
  have h := inv_reachable hr
  have hk := vis_keySorted h.sorted h.chains σ.currSn
  unfold vis at hk
  rw [visible_cur_iff_alive h.chains] at hk
  simp only [abs, absAlive]
  exact List.pairwise_map.mpr hk

/-- Put succeeds iff no live item with an equal key exists (stated on the physical store; the
    code decides this by an exact-hit search plus an exists-comparison with the predecessor) -/
theorem C02_put_iff {n : Nat} {σ : Mvcc.State} (hr : Reachable n σ) {w : Nat} (hw : w < σ.writers.length)
    (k v : Nat) :
    (Mvcc.step σ (.put w k v)).2 = .bool true ↔ ¬ ∃ x ∈ σ.store, x.key = k ∧ x.dead = 0 := by
  have h := inv_reachable hr
  simp only [Mvcc.step, hw, if_true, put, lookup_probe h]
  cases ha : aliveOf σ.store k with
  | none =>
    simp only [true_iff]
    rintro ⟨x, hx, hk, hd⟩
    exact aliveOf_none ha x hx hk hd
  | some x =>
    have ⟨hx, hk, hd⟩ := aliveOf_some ha
    simp only [Out.bool.injEq, Bool.false_eq_true, false_iff]
    exact fun hn => hn ⟨x, hx, hk, hd⟩

/-- Delete succeeds iff a live item with that key exists -/
theorem C02_del_iff {n : Nat} {σ : Mvcc.State} (hr : Reachable n σ) {w : Nat} (hw : w < σ.writers.length)
    (k : Nat) :
    (Mvcc.step σ (.del w k)).2 = .bool true ↔ ∃ x ∈ σ.store, x.key = k ∧ x.dead = 0 := by
  have h := inv_reachable hr
  simp only [Mvcc.step, hw, if_true, del, getNode_eq h]
  cases ha : aliveOf σ.store k with
  | none =>
    simp only [Out.bool.injEq, Bool.false_eq_true, false_iff]
    rintro ⟨x, hx, hk, hd⟩
    exact aliveOf_none ha x hx hk hd
  | some x =>
    have ⟨hx, hk, hd⟩ := aliveOf_some ha
    have := (abs_deleteNode (w := w) h hx hd).1
    simp only [this, true_iff]
    exact ⟨x, hx, hk, hd⟩

/-- a writer's lookup finds an item iff it is live, and returns its value -/
theorem C02_get_iff {n : Nat} {σ : Mvcc.State} (hr : Reachable n σ) {w : Nat} (hw : w < σ.writers.length)
    (k v : Nat) :
    (Mvcc.step σ (.get w k)).2 = .val (some v) ↔ ∃ x ∈ σ.store, x.key = k ∧ x.dead = 0 ∧ x.val = v := by
  have h := inv_reachable hr
  simp only [Mvcc.step, hw, if_true, getNode_eq h]
  cases ha : aliveOf σ.store k with
  | none =>
    simp only [Option.map_none, Out.val.injEq, reduceCtorEq, false_iff]
    rintro ⟨x, hx, hk, hd, _⟩
    exact aliveOf_none ha x hx hk hd
  | some x =>
    have ⟨hx, hk, hd⟩ := aliveOf_some ha
    simp only [Option.map_some, Out.val.injEq, Option.some.injEq]
    constructor
    · intro hv; exact ⟨x, hx, hk, hd, hv⟩
    · rintro ⟨y, hy, hyk, hyd, hyv⟩
      rw [alive_unique h.sorted h.chains hx hy (by omega) hd hyd]; exact hyv

/-! ### non-vacuity: a concrete history (test, evaluated by the kernel) with re-insert after a
    delete across epochs, a same-epoch delete through a stale handle, two writers, and equal keys
    with different values -/
example :
    Mvcc.run (Mvcc.init 2)
      [.put 0 1 10, .put 1 1 11, .getnode 1 1 7, .snap, .del 1 1, .delnode 0 7, .put 0 1 12,
       .getnode 0 1 8, .delnode 1 8, .delnode 1 8, .put 1 1 13, .snap, .items, .scan 1 0, .scan 2 0,
       .get 0 1, .get 0 2] =
      [.bool true, .bool false, .found true, .snap 1 1, .bool true, .bool false, .bool true,
       .found true, .bool true, .bool false, .bool true, .snap 2 1, .num 1, .items [(1, 10)],
       .items [(1, 13)], .val (some 13), .val none] := by decide

example : ∃ σ, Reachable 2 σ ∧ σ.store.length = 2 :=
  ⟨_, Reachable.step (.put 1 2 0) (Reachable.step (.put 0 1 0) Reachable.init), by decide⟩

end NitroVerif.Props
