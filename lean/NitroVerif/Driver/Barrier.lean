import NitroVerif.Driver.Engine
import NitroVerif.Model.Barrier
/-!
  Engine `barrier` (PROTOCOL.md "engine barrier"): steers the M4 model (fixed protocol) one
  shared-memory step at a time.
    threads <n>              -> `ok`
    start <t> acquire        -> `at ACQ_LOAD`
    start <t> release <i>    -> `at REL_DEC`
    start <t> flush <obj>    -> `at FL_LOCK`
    step <t>                 -> `at <POINT>` | `ret` | `blocked` | `bad-op` | `panic`
                                (`blocked`: parked at FL_LOCK while the mutex is taken, nothing happens;
                                 `bad-op`: the thread is idle or does not exist)
    log                      -> objects of the destructor calls, call order
    stats                    -> `allocated=<n> freed=<n> queued=<n> freeseq=<n>`
    enabled <t>              -> `true|false`
  Anything else, and every action the model refuses, is `bad-op`.  The proof-only action
  `Act.stale` is never taken.
-/
namespace NitroVerif.Driver
open NitroVerif.Barrier

def barParked (st : St) (t : Nat) : String :=
  match st.ths[t]? with
  | none => "bad-op"
  | some th =>
    match pointName th.pc with
    | some p => s!"at {p}"
    | none => "ret"

def barAct (st : St) (t : Nat) (a : Act) : St × String :=
  if st.panicked then (st, "panic") else
  match step true st t a with
  | none => (st, "bad-op")
  | some st' => if st'.panicked then (st', "panic") else (st', barParked st' t)

def natList (l : List Nat) : String :=
  if l.isEmpty then "." else ",".intercalate (l.map toString)

def barrierStep (st : St) (toks : List String) : St × String :=
  match toks with
  | ["threads", n] =>
    match n.toNat? with
    | some k => (init k, "ok")
    | none => (st, "bad-op")
  | ["start", t, "acquire"] =>
    match t.toNat? with
    | some i => barAct st i (.start .acquire)
    | none => (st, "bad-op")
  | ["start", t, "release", k] =>
    match t.toNat?, k.toNat? with
    | some i, some j => barAct st i (.start (.release j))
    | _, _ => (st, "bad-op")
  | ["start", t, "flush", o] =>
    match t.toNat?, o.toNat? with
    | some i, some obj => barAct st i (.start (.flush obj))
    | _, _ => (st, "bad-op")
  | ["step", t] =>
    match t.toNat? with
    | some i =>
      match st.ths[i]? with
      | some th =>
        match th.pc with
        | .flLock _ => if st.mutex && !st.panicked then (st, "blocked") else barAct st i .step
        | _ => barAct st i .step
      | none => (st, "bad-op")
    | none => (st, "bad-op")
  | ["log"] => (st, natList (st.log.map Prod.snd))
  | ["stats"] =>
    (st, s!"allocated={st.numAllocated} freed={st.numFreed} queued={st.freeq.length} freeseq={st.freeSeqno}")
  | ["enabled", t] =>
    match t.toNat? with
    | some i =>
      match st.ths[i]? with
      | some _ => (st, if (step true st i .step).isSome && !st.panicked then "true" else "false")
      | none => (st, "bad-op")
    | none => (st, "bad-op")
  | _ => (st, "bad-op")

def barrierEngine : Engine := { σ := St, init := init 0, step := barrierStep }

end NitroVerif.Driver
