import NitroVerif.Driver.Engine
import NitroVerif.Model.Codec
/-!
  Engine `codec` (stateful only in the list of items queued for the next `write`):
    item <hex>             queue an item                       -> `ok`
    write                  writer output for the queued items  -> `bytes=<hex> sum=<n>`   (queue kept)
    writev0                same in 2-byte framing (model-side writer for the old format)
                                                               -> `bytes=<hex>`
    read ver=<0|1> <hex>   reader over a file image            -> `ok n=<k> sum=<n> items=<hex,..>` | `err n=<k>`
    kv <khex> <vhex>       KVToBytes then KVFromBytes          -> `bytes=<hex> k=<hex> v=<hex>`
    cmpkv <ahex> <bhex>    CompareKV sign                      -> `-1|0|1`
    cmp <ahex> <bhex>      bytes.Compare sign                  -> `-1|0|1`
    crc <hex>                                                  -> `<n>`
-/
namespace NitroVerif.Driver
open NitroVerif.Codec

def sgn (i : Int) : String := if i < 0 then "-1" else if i > 0 then "1" else "0"

def hexList (l : List Bytes) : String :=
  if l.isEmpty then "." else ",".intercalate (l.map bytesToHex)

def codecStep (q : List Bytes) (toks : List String) : List Bytes × String :=
  match toks with
  | ["item", h] =>
    match hexToBytes h with
    | some b => (q ++ [b], "ok")
    | none => (q, "bad-op")
  | ["write"] => (q, s!"bytes={bytesToHex (writeFile q)} sum={writerChecksum crc32 q}")
  | ["writev0"] => (q, s!"bytes={bytesToHex (writeFileV0 q)}")
  | ["read", v, h] =>
    match natArg [v] "ver", hexToBytes h with
    | some ver, some bs =>
      match readFile crc32 ver bs with
      | .ok items sum _ => (q, s!"ok n={items.length} sum={sum} items={hexList items}")
      | .err before => (q, s!"err n={before.length}")
    | _, _ => (q, "bad-op")
  | ["pwrite", a, b, c] =>
    -- W writers of one instance write W files concurrently and W readers read them back concurrently.  The model
    -- has no shared state between files, so by `C19_file_roundtrip` (applied to each writer's own item list) every
    -- file reads back as written with the writer's checksum: the answer is `ok` for every well-formed request.
    match natArg [a, b, c] "w", natArg [a, b, c] "n", natArg [a, b, c] "seed" with
    | some w, some n, some _ => if w < 1 || w > 16 || n > 100000 then (q, "bad-op") else (q, "ok")
    | _, _, _ => (q, "bad-op")
  | ["kv", k, v] =>
    match hexToBytes k, hexToBytes v with
    | some kb, some vb =>
      let e := kvToBytes kb vb
      let (k', v') := kvFromBytes e
      (q, s!"bytes={bytesToHex e} k={bytesToHex k'} v={bytesToHex v'}")
    | _, _ => (q, "bad-op")
  | ["cmpkv", a, b] =>
    match hexToBytes a, hexToBytes b with
    | some x, some y => if kvWellFormed x && kvWellFormed y then (q, sgn (compareKV x y)) else (q, "bad-op")
    | _, _ => (q, "bad-op")
  | ["cmp", a, b] =>
    match hexToBytes a, hexToBytes b with
    | some x, some y => (q, sgn (cmpBytes x y))
    | _, _ => (q, "bad-op")
  | ["crc", a] =>
    match hexToBytes a with
    | some x => (q, toString (crc32 x))
    | none => (q, "bad-op")
  | _ => (q, "bad-op")

def codecEngine : Engine := { σ := List Bytes, init := [], step := codecStep }

end NitroVerif.Driver
