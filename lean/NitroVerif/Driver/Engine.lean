/-
  Line-protocol plumbing shared by all engines (core Lean only, so `nvmodel` links).
  One input line = one operation; every operation line yields exactly one output line.
-/
namespace NitroVerif.Driver

structure Engine where
  σ : Type
  init : σ
  step : σ → List String → σ × String

structure Running where
  eng : Engine
  st : eng.σ

def Running.start (e : Engine) : Running := ⟨e, e.init⟩

def Running.feed (r : Running) (toks : List String) : Running × String :=
  let (s, out) := r.eng.step r.st toks
  (⟨r.eng, s⟩, out)

/-- split a line into blank-separated tokens -/
def isBlank (c : Char) : Bool := c == ' ' || c == '\t' || c == '\n' || c == '\r'

def tokChars : List Char → List Char → List (List Char) → List (List Char)
  | [], cur, acc => (if cur.isEmpty then acc else cur.reverse :: acc).reverse
  | c :: r, cur, acc =>
    if isBlank c then tokChars r [] (if cur.isEmpty then acc else cur.reverse :: acc)
    else tokChars r (c :: cur) acc

def tokens (line : String) : List String :=
  (tokChars line.toList [] []).map String.ofList

def dropPrefix (s : String) (n : Nat) : String := String.ofList (s.toList.drop n)

def splitOnChar (s : String) (d : Char) : List String :=
  let rec go : List Char → List Char → List (List Char) → List (List Char)
    | [], cur, acc => (cur.reverse :: acc).reverse
    | c :: r, cur, acc => if c == d then go r [] (cur.reverse :: acc) else go r (c :: cur) acc
  (go s.toList [] []).map String.ofList

/-- value of `key=` among the tokens -/
def argOf (toks : List String) (key : String) : Option String :=
  match toks.find? (fun t => t.startsWith (key ++ "=")) with
  | some t => some (dropPrefix t (key.length + 1))
  | none => none

def natArg (toks : List String) (key : String) : Option Nat :=
  (argOf toks key).bind String.toNat?

def hexDigit (c : Char) : Option Nat :=
  if '0' ≤ c ∧ c ≤ '9' then some (c.toNat - '0'.toNat)
  else if 'a' ≤ c ∧ c ≤ 'f' then some (c.toNat - 'a'.toNat + 10)
  else none

/-- lower-case hex string to bytes; `-` denotes the empty string -/
def hexToBytes (s : String) : Option (List UInt8) :=
  if s == "-" then some [] else
  let rec go : List Char → Option (List UInt8)
    | [] => some []
    | [_] => none
    | a :: b :: r =>
      match hexDigit a, hexDigit b, go r with
      | some x, some y, some t => some (UInt8.ofNat (x * 16 + y) :: t)
      | _, _, _ => none
  go s.toList

def hexChar (n : Nat) : Char :=
  if n < 10 then Char.ofNat ('0'.toNat + n) else Char.ofNat ('a'.toNat + (n - 10))

def bytesToHex (bs : List UInt8) : String :=
  if bs.isEmpty then "-" else
  String.ofList (bs.flatMap fun b => [hexChar (b.toNat / 16), hexChar (b.toNat % 16)])

def joinSp (l : List String) : String := " ".intercalate l

end NitroVerif.Driver
