import NitroVerif.Driver.Engine
import NitroVerif.Model.MvccStep
/-!
  Engine `mvcc` (PROTOCOL.md, "engine mvcc"): the M6 model behind the line protocol.
  Iterator and handle names of the script are interned (position in a name table = the number
  the model uses).  Under `cmp=plain` the value of an item is always 0.
  Pivots of `visit`: like `GetRangeSplitItems` on level 0, every `(len+1)/shards`-th physical
  node, at most `shards-1` of them (the theorem C10 holds for every choice).
-/
namespace NitroVerif.Driver
open NitroVerif NitroVerif.Mvcc NitroVerif.SetSpec

structure MvccSt where
  configured : Bool := false
  down : Bool := false
  kv : Bool := false
  st : Mvcc.State := Mvcc.init 0
  iterNames : List String := []
  handleNames : List String := []

/-- intern a name: its index in the table, extending the table if new -/
def intern (names : List String) (n : String) : List String × Nat :=
  match names.findIdx? (· == n) with
  | some i => (names, i)
  | none => (names ++ [n], names.length)

def itemStr (it : Item) : String := s!"{it.1}:{it.2}"

def itemsStr (l : List Item) : String :=
  if l.isEmpty then "." else ",".intercalate (l.map itemStr)

def showOut : Out → String
  | .bool b => if b then "true" else "false"
  | .val (some v) => toString v
  | .val none => "none"
  | .found b => if b then "found" else "none"
  | .snap sn c => s!"sn={sn} count={c}"
  | .ok => "ok"
  | .num n => toString n
  | .items l => itemsStr l
  | .nil => "nil"
  | .cursor (some it) => itemStr it
  | .cursor none => "end"
  | .visit p l => s!"err=false part={if p then "ok" else "bad"} items={itemsStr l}"
  | .visitErr => "err=true part=ok items=."
  | .bad => "bad-op"

/-- split items of the store for `shards` shards -/
def pickPivots (store : List Ver) (shards : Nat) : List Nat :=
  if shards ≤ 1 then [] else
  let per := (store.length + 1) / shards
  if per = 0 then [] else
  let rec go : List Ver → Nat → Nat → List Nat
    | [], _, _ => []
    | x :: xs, j, left =>
      if left = 0 then []
      else if j + 1 = per then x.key :: go xs 0 (left - 1)
      else go xs (j + 1) left
  go store 0 (shards - 1)

def intArg (s : String) : Option Int :=
  match s.toList with
  | '-' :: r => (String.ofList r).toNat?.map (fun n => - (n : Int))
  | _ => s.toNat?.map (fun n => (n : Int))

def mvccParseOp (d : MvccSt) (toks : List String) : Option (MvccSt × Op) :=
  match toks with
  | ["put", w, k, v] =>
    match w.toNat?, k.toNat?, v.toNat? with
    | some w, some k, some v => some (d, .put w k (if d.kv then v else 0))
    | _, _, _ => none
  | ["del", w, k] =>
    match w.toNat?, k.toNat? with
    | some w, some k => some (d, .del w k)
    | _, _ => none
  | ["get", w, k] =>
    match w.toNat?, k.toNat? with
    | some w, some k => some (d, .get w k)
    | _, _ => none
  | ["getnode", w, k, h] =>
    match w.toNat?, k.toNat? with
    | some w, some k =>
      let (names, i) := intern d.handleNames h
      some ({ d with handleNames := names }, .getnode w k i)
    | _, _ => none
  | ["delnode", w, h] =>
    match w.toNat?, d.handleNames.findIdx? (· == h) with
    | some w, some i => some (d, .delnode w i)
    | _, _ => none
  | ["snap"] => some (d, .snap)
  | ["open", s] => s.toNat?.map fun s => (d, .open s)
  | ["close", s] => s.toNat?.map fun s => (d, .close s)
  | ["count", s] => s.toNat?.map fun s => (d, .count s)
  | ["items"] => some (d, .items)
  | ["scan", s] => s.toNat?.map fun s => (d, .scan s 0)
  | ["it_new", i, s] =>
    match s.toNat? with
    | some s =>
      let (names, n) := intern d.iterNames i
      some ({ d with iterNames := names }, .itNew n s)
    | none => none
  | ["it_rate", i, r] =>
    match d.iterNames.findIdx? (· == i), intArg r with
    | some n, some r => some (d, .itRate n r)
    | _, _ => none
  | ["it_first", i] => (d.iterNames.findIdx? (· == i)).map fun n => (d, .itFirst n)
  | ["it_seek", i, k] =>
    match d.iterNames.findIdx? (· == i), k.toNat? with
    | some n, some k => some (d, .itSeek n k)
    | _, _ => none
  | ["it_next", i] => (d.iterNames.findIdx? (· == i)).map fun n => (d, .itNext n)
  | ["it_refresh", i] => (d.iterNames.findIdx? (· == i)).map fun n => (d, .itRefresh n)
  | ["it_close", i] => (d.iterNames.findIdx? (· == i)).map fun n => (d, .itClose n)
  | "visit" :: s :: rest =>
    match s.toNat?, natArg rest "shards", natArg rest "conc" with
    | some s, some shards, some conc =>
      if shards = 0 ∨ conc = 0 then none else
      let fail := natArg rest "failkey"
      if (argOf rest "failkey").isSome && fail.isNone then none else
      some (d, .visit s (pickPivots d.st.store shards) 10000 fail)
    | _, _, _ => none
  | _ => none

def mvccStep (d : MvccSt) (toks : List String) : MvccSt × String :=
  if d.down then (d, "bad-op") else
  match toks with
  | "cfg" :: rest =>
    if d.configured then (d, "bad-op") else
    match argOf rest "cmp", argOf rest "mem", natArg rest "writers" with
    | some c, some m, some n =>
      -- `plainv`: like `plain`, the harness encodes keys with variable length (order preserving); same model
      if (c == "plain" || c == "kv" || c == "plainv") && (m == "go" || m == "mm") && 1 ≤ n && n ≤ 16 then
        ({ configured := true, kv := c == "kv", st := Mvcc.init n }, "ok")
      else (d, "bad-op")
    | _, _, _ => (d, "bad-op")
  | ["gcwait"] =>
    if d.configured then
      (d, s!"nodes={d.st.store.length} lastgc={d.st.lastGCSn} snaps={(d.st.snaps.filter (fun s => s.st == .live)).length}")
    else (d, "bad-op")
  | ["shutdown"] =>
    if d.configured && d.st.snaps.all (fun s => s.rc == 0) && d.st.iters.isEmpty then
      ({ d with down := true }, "live=0 badfree=0")
    else (d, "bad-op")
  | _ =>
    if !d.configured then (d, "bad-op") else
    match mvccParseOp d toks with
    | some (d', op) =>
      let r := Mvcc.step d'.st op
      -- with `failkey` only the error flag is reported
      let out := match op, r.2 with
        | .visit _ _ _ (some _), .visitErr => "err=true"
        | .visit _ _ _ (some _), .visit _ _ => "err=false"
        | _, o => showOut o
      ({ d' with st := r.1 }, out)
    | none => (d, "bad-op")

def mvccEngine : Engine := { σ := MvccSt, init := {}, step := mvccStep }

end NitroVerif.Driver
