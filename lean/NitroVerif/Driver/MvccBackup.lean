import NitroVerif.Driver.Mvcc
import NitroVerif.Driver.Backup
/-!
  Engine `mvcc` extended with the backup operations of PROTOCOL.md ("engine backup"):
  `store`, `image`, `loadimg`, `load`, `storeload`, `crashload`.
  What the model answers:
    store s        -> `ok`, and one reference of s is released (StoreToDisk closes the snapshot it is given);
                      the content of s is remembered as "the stored snapshot"
    image          -> `*` (informational on the implementation side)
    loadimg …      -> `Backup.load` on the image written on the line (M7), rendered by `loadImgLine`
    load           -> the instance is replaced by a fresh one holding the stored content as versions born in
                      epoch 0, followed by NewSnapshot: `ok sn=1 count=<n>` (theorem C05_roundtrip)
    storeload s …  -> `err || ok items=<content of s>`          (theorem C12_write_failure)
    crashload s …  -> `none || err || ok items=<content of s>`  (theorem C12_crash_prefix)
-/
namespace NitroVerif.Driver
open NitroVerif NitroVerif.Mvcc NitroVerif.SetSpec

structure MvccBk where
  base : MvccSt := {}
  delta : Bool := false
  nwriters : Nat := 0
  stored : Option (List Ver) := none

def contentOf (d : MvccSt) (s : Nat) : Option (List Ver) :=
  match Mvcc.findSnap s d.st.snaps with
  | some sn => if sn.rc > 0 then some sn.content else none
  | none => none

def showVers (l : List Ver) : String := itemsStr (l.map fun v => (v.key, v.val))

/-- What a StoreToDisk call does to the instance, whatever happens to the files: one reference of snapshot `s`
    is released; with `churn=k1,k2,..` keys are deleted through writer 0, a snapshot is cut and released at once
    (mutation while the backup runs). Returns the new state and the content of `s` (the stored snapshot). -/
def storeEffects (b : MvccBk) (s : String) (toks : List String) : Option (MvccSt × List Ver) :=
  if !b.base.configured || b.base.down then none else
  match s.toNat? with
  | none => none
  | some sn =>
    match contentOf b.base sn with
    | none => none
    | some c =>
      let (d0, out) := mvccStep b.base ["close", s]
      if out != "ok" then none else
      -- `release=<s2>`: the script's reference on another snapshot is dropped in the middle of the backup
      let rel : Option MvccSt := match argOf toks "release" with
        | none => some d0
        | some r => let (dr, o) := mvccStep d0 ["close", r]; if o == "ok" then some dr else none
      match rel with
      | none => none
      | some d =>
      match argOf toks "churn" with
      | none => some (d, c)
      | some "each" =>
        -- every item of the stored snapshot is deleted right after it has been written, each time followed by a
        -- snapshot that is cut and released (use conc=1: the order of the callbacks is then the content order)
        let d' := c.foldl (fun d v =>
          let d1 := (mvccStep d ["del", "0", toString v.key]).1
          let (d2, o2) := mvccStep d1 ["snap"]
          let sn2 := (natArg (tokens o2) "sn").getD 0
          (mvccStep d2 ["close", toString sn2]).1) d
        some (d', c)
      | some ks =>
        let keys := if ks == "." then some [] else (splitOnChar ks ',').mapM String.toNat?
        match keys with
        | none => none
        | some keys =>
          let d1 := keys.foldl (fun d k => (mvccStep d ["del", "0", toString k]).1) d
          let (d2, o2) := mvccStep d1 ["snap"]
          let sn2 := (natArg (tokens o2) "sn").getD 0
          let (d3, _) := mvccStep d2 ["close", toString sn2]
          some (d3, c)

def mvccBkStep (b : MvccBk) (toks : List String) : MvccBk × String :=
  match toks with
  | "cfg" :: rest =>
    let (d, out) := mvccStep b.base toks
    if out == "ok" then
      ({ b with base := d, delta := argOf rest "delta" == some "1", nwriters := (natArg rest "writers").getD 0 }, out)
    else (b, out)
  | "store" :: s :: _ =>
    if argOf toks "failopen" == some "1" then
      -- the shard files cannot be created: StoreToDisk fails, and (like every StoreToDisk call) has released the
      -- one reference it was given — no more
      if !b.base.configured || b.base.down then (b, "bad-op") else
      match s.toNat?.bind (contentOf b.base) with
      | none => (b, "bad-op")
      | some _ =>
        let (d, out) := mvccStep b.base ["close", s]
        if out == "ok" then ({ b with base := d }, "err") else (b, "bad-op")
    else
    match storeEffects b s toks with
    | some (d, c) => ({ b with base := d, stored := some c }, "ok")
    | none => (b, "bad-op")
  | "visitgap" :: s :: rest =>
    -- Visitor while a same-epoch delete of `delkey` is parked between its mark and its unlink: the delete has
    -- taken effect (its linearization point is the level-0 mark), so the model deletes first and then visits
    match natArg rest "delkey" with
    | none => (b, "bad-op")
    | some k =>
      let (d1, o1) := mvccStep b.base ["del", "0", toString k]
      if o1 == "bad-op" then (b, "bad-op") else
      let vis := if rest.contains "mode=scan" then ["scan", s]
        else ["visit", s] ++ rest.filter (fun t => t.startsWith "shards=" || t.startsWith "conc=")
      let (d2, o2) := mvccStep d1 vis
      if o2 == "bad-op" then (b, "bad-op") else ({ b with base := d2 }, s!"del={o1} {o2}")
  | ["image"] => (b, "*")
  | ["manifest", _, _] => (b, "*")
  | ["laststeps"] => (b, "*")
  | "loadimg" :: rest =>
    if !b.base.configured then (b, "bad-op") else (b, loadImgLine b.delta b.base.kv rest)
  | "load" :: _ =>
    if !b.base.configured || b.base.down then (b, "bad-op") else
    match b.stored with
    | none => (b, "bad-op")
    | some c =>
      -- the old instance must be idle (all snapshots and iterators closed), as for `shutdown`
      if !(b.base.st.snaps.all (fun s => s.rc == 0) && b.base.st.iters.isEmpty) then (b, "bad-op") else
      let vers := c.map fun v => ({ key := v.key, val := v.val, born := 0, dead := 0 } : Ver)
      let st0 : Mvcc.State := { Mvcc.init b.nwriters with store := vers, itemsCount := vers.length }
      let r := Mvcc.step st0 .snap
      ({ b with base := { b.base with st := r.1, iterNames := [], handleNames := [] } }, "ok " ++ showOut r.2)
  | "storeload" :: s :: _ =>
    match storeEffects b s toks with
    | some (d, c) => ({ b with base := d }, s!"err || ok items={showVers c}")
    | none => (b, "bad-op")
  | "crashload" :: s :: _ =>
    match storeEffects b s toks with
    | some (d, c) => ({ b with base := d }, s!"none || err || ok items={showVers c}")
    | none => (b, "bad-op")
  | _ =>
    let (d, out) := mvccStep b.base toks
    ({ b with base := d }, out)

def mvccBkEngine : Engine := { σ := MvccBk, init := {}, step := mvccBkStep }

end NitroVerif.Driver
