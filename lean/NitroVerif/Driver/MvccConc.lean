import NitroVerif.Driver.Engine
import NitroVerif.Model.MvccConc
/-!
  Engine `mvccconc` (PROTOCOL.md "engine mvccconc"): the small-step M6 model with the reclamation
  pipeline behind the line protocol.
    init writers=<w> readers=<r> cmp=<plain|kv>   -> ok          (1 ≤ w ≤ 8, r ≤ 8, once per case)
    snap | start <t> put|del|get|close|it_new|it_first|it_next|it_close … | step <t|gc<j>|fr<j>> | state | shutdown
  Every `start`/`step` answer is followed by ` +gc<j>` / ` +fr<j>` for the jobs created in that segment
  (collection jobs first).  Iterator names are interned (index in a name table = the number the model
  uses).  Under `cmp=plain` the value of an item is always 0.
  `start t it_close i` answers `at COLLECT_SEND` when that close dropped the last reference of the
  snapshot and the collector found it collectable (Iterator.Close calls Snapshot.Close).
  Outcomes the theorems exclude are printed as `uaf` (C04) and `hang`.
-/
namespace NitroVerif.Driver
open NitroVerif NitroVerif.MvccConc

structure MvccConcSt where
  configured : Bool := false
  kv : Bool := false
  st : MvccConc.State := MvccConc.init 0 0
  names : List String := []

def mcIntern (names : List String) (n : String) : List String × Nat :=
  match names.findIdx? (· == n) with
  | some i => (names, i)
  | none => (names ++ [n], names.length)

def mcList (l : List String) : String := if l.isEmpty then "." else ",".intercalate l

def pointName : Point → String
  | .PUT_INSERT => "PUT_INSERT" | .DEL_NODE_PHYS => "DEL_NODE_PHYS" | .DEL_NODE_CAS => "DEL_NODE_CAS"
  | .DEL_NODE_FLUSH => "DEL_NODE_FLUSH" | .COLLECT_SEND => "COLLECT_SEND" | .WORKER_RECV => "WORKER_RECV"
  | .WORKER_NODE => "WORKER_NODE" | .WORKER_FLUSH => "WORKER_FLUSH" | .WORKER_DONE => "WORKER_DONE"
  | .FREE_RECV => "FREE_RECV" | .FREE_DONE => "FREE_DONE" | .ITER_NEXT => "ITER_NEXT"

def valStr : Val → String
  | .unit => "ret"
  | .bool b => if b then "ret true" else "ret false"
  | .val (some v) => s!"ret {v}"
  | .val none => "ret none"
  | .ok => "ret ok"
  | .nil => "ret nil"
  | .item (some (k, v)) => s!"ret {k}:{v}"
  | .item none => "ret end"

def respStr : Resp → String
  | .at_ p => s!"at {pointName p}"
  | .ret v => valStr v
  | .snap sn c => s!"sn={sn} count={c}"
  | .closed l b => s!"live={l} badfree={b}"
  | .bad => "bad-op"
  | .uaf => "uaf"
  | .hang => "hang"

/-- ` +gc<j>` … ` +fr<j>` for the jobs created between two states -/
def newJobs (a b : MvccConc.State) : String :=
  String.join ((List.range' a.gcJobs.length (b.gcJobs.length - a.gcJobs.length)).map (fun j => s!" +gc{j}") ++
               (List.range' a.frJobs.length (b.frJobs.length - a.frJobs.length)).map (fun j => s!" +fr{j}"))

def mcAct (d : MvccConcSt) (a : Act) : MvccConcSt × String :=
  let r := MvccConc.step d.st a
  ({ d with st := r.1 }, respStr r.2 ++ newJobs d.st r.1)

def insertStr (s : String) : List String → List String
  | [] => [s]
  | x :: xs => if s < x then s :: x :: xs else x :: insertStr s xs

def sortStr (l : List String) : List String := l.foldr insertStr []

def enumFrom {α : Type} : Nat → List α → List (Nat × α)
  | _, [] => []
  | n, x :: xs => (n, x) :: enumFrom (n + 1) xs

def mcState (σ : MvccConc.State) : String :=
  let store := mcList (σ.store.map fun x => s!"{x.ver.key}:{x.ver.val}@{x.ver.born}-{x.ver.dead}")
  let gcs := ((enumFrom 0 σ.gcJobs).filter (fun p => gcPending p.2)).map (fun p => s!"gc{p.1}")
  let frs := ((enumFrom 0 σ.frJobs).filter (fun p => frPending p.2)).map (fun p => s!"fr{p.1}")
  s!"store={store} lastgc={σ.lastGCSn} items={σ.itemsCount} live={liveCount σ} jobs={mcList (sortStr (gcs ++ frs))}"

def jobIndex (pre : String) (s : String) : Option Nat :=
  if s.startsWith pre then (dropPrefix s pre.length).toNat? else none

def mvccConcStep (d : MvccConcSt) (toks : List String) : MvccConcSt × String :=
  match toks with
  | "init" :: args =>
    match natArg args "writers", natArg args "readers", argOf args "cmp" with
    | some w, some r, some c =>
      if d.configured || w < 1 || w > 8 || r > 8 || (c != "plain" && c != "kv") then (d, "bad-op")
      else ({ configured := true, kv := c == "kv", st := MvccConc.init w r, names := [] }, "ok")
    | _, _, _ => (d, "bad-op")
  | _ =>
    if !d.configured || d.st.down then (d, "bad-op") else
    match toks with
    | ["snap"] => mcAct d .snap
    | ["state"] => (d, mcState d.st)
    | ["shutdown"] => mcAct d .shutdown
    | ["start", t, "put", k, v] =>
      match t.toNat?, k.toNat?, v.toNat? with
      | some t, some k, some v => mcAct d (.put t k (if d.kv then v else 0))
      | _, _, _ => (d, "bad-op")
    | ["start", t, "del", k] =>
      match t.toNat?, k.toNat? with
      | some t, some k => mcAct d (.del t k)
      | _, _ => (d, "bad-op")
    | ["start", t, "get", k] =>
      match t.toNat?, k.toNat? with
      | some t, some k => mcAct d (.get t k)
      | _, _ => (d, "bad-op")
    | ["start", t, "close", s] =>
      match t.toNat?, s.toNat? with
      | some t, some s => mcAct d (.close t s)
      | _, _ => (d, "bad-op")
    | ["start", t, "it_new", i, s] =>
      match t.toNat?, s.toNat? with
      | some t, some s =>
        let (names, n) := mcIntern d.names i
        mcAct { d with names := names } (.itNew t n s)
      | _, _ => (d, "bad-op")
    | ["start", t, "it_first", i] =>
      match t.toNat?, d.names.findIdx? (· == i) with
      | some t, some n => mcAct d (.itFirst t n)
      | _, _ => (d, "bad-op")
    | ["start", t, "it_next", i] =>
      match t.toNat?, d.names.findIdx? (· == i) with
      | some t, some n => mcAct d (.itNext t n)
      | _, _ => (d, "bad-op")
    | ["start", t, "it_close", i] =>
      match t.toNat?, d.names.findIdx? (· == i) with
      | some t, some n => mcAct d (.itClose t n)
      | _, _ => (d, "bad-op")
    | ["step", x] =>
      match jobIndex "gc" x, jobIndex "fr" x, x.toNat? with
      | some j, _, _ => mcAct d (.gc j)
      | none, some j, _ => mcAct d (.fr j)
      | none, none, some t => mcAct d (.step t)
      | none, none, none => (d, "bad-op")
    | _ => (d, "bad-op")

def mvccConcEngine : Engine := { σ := MvccConcSt, init := {}, step := mvccConcStep }

end NitroVerif.Driver
