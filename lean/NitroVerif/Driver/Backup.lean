import NitroVerif.Driver.Engine
import NitroVerif.Model.Backup
/-!
  `loadimg` of engine backup (operations added to engine mvcc; not a separate engine).

    loadimg conc=<c> <name>=<hex> ... version=<n|absent|err> files=<list|err|absent>
            sums=<list|err|absent> dfiles=<..> dsums=<..>
       -> ok count=<n> items=<list of k:v> | err

  Tokens `data/<file>=<hex>` and `delta/<file>=<hex>` are shard files (file names relative to the
  directory are what files.json lists); tokens naming a `.json` file (`nitro.json=<hex>`,
  `data/files.json=<hex>`, …) are the manifests' raw bytes and are ignored in favour of the parse
  results; `conc=` does not influence the outcome (Model/LoadPool.lean).  A manifest key that does not
  occur on the line counts as `absent`.  A malformed line gives `bad-op`.
  Items are shown with the mvcc engine's encoding: plain = 8-byte big-endian key shown `k:0`;
  kv = KVToBytes(key8, vbytes) where the value is big-endian on 1 to 8 bytes (the harness uses
  1 + v%4 bytes, 8 if it does not fit), shown `k:v` when the key part has exactly 8 bytes and the
  value part between 1 and 8 bytes; anything else `badbytes:<hex>`.
-/
namespace NitroVerif.Driver
open NitroVerif.Codec NitroVerif.Backup

/-- split `name=value` at the first `=` -/
def splitEq (t : String) : Option (String × String) :=
  let cs := t.toList
  let name := cs.takeWhile (· != '=')
  let rest := cs.dropWhile (· != '=')
  match rest with
  | [] => none
  | _ :: v => some (String.ofList name, String.ofList v)

def parseList (s : String) : List String :=
  if s == "." then [] else splitOnChar s ','

def parseNatList (s : String) : Option (List Nat) :=
  (parseList s).mapM String.toNat?

/-- `version=`: a number, `absent` or `err`; a negative number is some non-zero version -/
def parseVersion (v : Option String) : Option (Manifest Nat) :=
  match v with
  | none => some .absent
  | some s =>
    if s == "absent" then some .absent
    else if s == "err" then some .unparsable
    else match s.toNat? with
      | some n => some (.parsed n)
      | none =>
        match (dropPrefix s 1).toNat? with
        | some n => if s.startsWith "-" then some (.parsed (if n = 0 then 0 else 1)) else none
        | none => none

def parseNames (v : Option String) : Option (Manifest (List String)) :=
  match v with
  | none => some .absent
  | some s =>
    if s == "absent" then some .absent
    else if s == "err" then some .unparsable
    else some (.parsed (parseList s))

def parseSums (v : Option String) : Option (Manifest (List Nat)) :=
  match v with
  | none => some .absent
  | some s =>
    if s == "absent" then some .absent
    else if s == "err" then some .unparsable
    else (parseNatList s).map .parsed

def isJsonName (n : String) : Bool := n.endsWith ".json"

/-- the shard files of directory `dir` (`data` / `delta`) among the tokens; `none` on bad hex -/
def shardTokens (dir : String) : List String → Option (List (String × Bytes))
  | [] => some []
  | t :: r =>
    match splitEq t with
    | none => shardTokens dir r
    | some (n, v) =>
      if n.startsWith (dir ++ "/") && !isJsonName n then
        match hexToBytes v, shardTokens dir r with
        | some b, some l => some ((dropPrefix n (dir.length + 1), b) :: l)
        | _, _ => none
      else shardTokens dir r

def parseImage (toks : List String) : Option Image :=
  match parseVersion (argOf toks "version"), parseNames (argOf toks "files"),
        parseSums (argOf toks "sums"), parseNames (argOf toks "dfiles"),
        parseSums (argOf toks "dsums"), shardTokens "data" toks, shardTokens "delta" toks with
  | some v, some f, some s, some df, some ds, some data, some delta =>
    some { version := v, files := f, sums := s, dfiles := df, dsums := ds, data := data, delta := delta }
  | _, _, _, _, _, _, _ => none

/-- the mvcc engine's rendering of an item (`show` in harness/cmd/nvdrive/mvcc.go) -/
def showItemBytes (kv : Bool) (b : Bytes) : String :=
  if !kv then
    if b.length = 8 then s!"{beVal b}:0" else "badbytes:" ++ bytesToHex b
  else if kvWellFormed b then
    let (k, v) := kvFromBytes b
    if k.length = 8 ∧ 1 ≤ v.length ∧ v.length ≤ 8 then s!"{beVal k}:{beVal v}"
    else "badbytes:" ++ bytesToHex b
  else "badbytes:" ++ bytesToHex b

def showItems (kv : Bool) (l : List Bytes) : String :=
  if l.isEmpty then "." else ",".intercalate (l.map (showItemBytes kv))

/-- key comparison of the case: bytes.Compare (plain) or CompareKV (kv) -/
def caseKeyCmp (kv : Bool) : Bytes → Bytes → Int := if kv then compareKV else cmpBytes

def showOutcome (kv : Bool) : Outcome → String
  | .err => "err"
  | .ok items => s!"ok count={items.length} items={showItems kv items}"

/-- the output line of `loadimg …` (the tokens after the operation name, or the whole line) -/
def loadImgLine (useDelta : Bool) (kv : Bool) (toks : List String) : String :=
  match parseImage toks with
  | none => "bad-op"
  | some img => showOutcome kv (load crc32 (caseKeyCmp kv) useDelta img)

/-- the `image`-style rendering of a model image (used by tests; the model prints `*` for `image`) -/
def showManifestNames : Manifest (List String) → String
  | .absent => "absent" | .unparsable => "err"
  | .parsed l => if l.isEmpty then "." else ",".intercalate l
def showManifestSums : Manifest (List Nat) → String
  | .absent => "absent" | .unparsable => "err"
  | .parsed l => if l.isEmpty then "." else ",".intercalate (l.map toString)
def showManifestVersion : Manifest Nat → String
  | .absent => "absent" | .unparsable => "err" | .parsed n => toString n

def imageLine (img : Image) : String :=
  joinSp (img.data.map (fun (n, b) => s!"data/{n}={bytesToHex b}")
    ++ img.delta.map (fun (n, b) => s!"delta/{n}={bytesToHex b}")
    ++ [s!"version={showManifestVersion img.version}", s!"files={showManifestNames img.files}",
        s!"sums={showManifestSums img.sums}", s!"dfiles={showManifestNames img.dfiles}",
        s!"dsums={showManifestSums img.dsums}"])

end NitroVerif.Driver

namespace NitroVerif.Driver
open NitroVerif.Codec NitroVerif.Backup

/-- TEST engine `backupimg` (optional; for trying `loadImgLine` without the mvcc engine):
      mode delta=<true|false> cmp=<plain|kv>     -> ok
      loadimg …                                   -> as above
      storeimg <hex,hex|hex|.|…>                  parts separated by `|`, items by `,` (`.` = empty part)
                                                  -> the image line of `storeImage crc32 parts` -/
def backupImgStep (st : Bool × Bool) (toks : List String) : (Bool × Bool) × String :=
  match toks with
  | "mode" :: r =>
    match argOf r "delta", argOf r "cmp" with
    | some d, some c => ((d == "true", c == "kv"), "ok")
    | _, _ => (st, "bad-op")
  | "loadimg" :: r => (st, loadImgLine st.1 st.2 r)
  | ["storeimg", ps] =>
    match (splitOnChar ps '|').mapM (fun p => (parseList p).mapM hexToBytes) with
    | some parts => (st, imageLine (storeImage crc32 parts))
    | none => (st, "bad-op")
  | _ => (st, "bad-op")

def backupImgEngine : Engine := { σ := Bool × Bool, init := (false, false), step := backupImgStep }

end NitroVerif.Driver
