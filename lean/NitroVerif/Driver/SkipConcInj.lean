import NitroVerif.Driver.SkipConc
/-!
  Engine `skipconc`, sub-segment interleavings at LATE points (PROTOCOL.md, "late points").

    stepinj <a> <b> <op…>     op = ins <k> lvl=<L> | del <k> | delf <k> | look <k>
        one segment of thread a (parked); if that segment passes a late point, thread b (idle, b ≠ a) performs the
        whole operation there                                      -> <answer of a> | <ret … of b>
        otherwise b does nothing                                   -> <answer of a> | noinj

  A late point is a place in the Go code AFTER a shared-memory step from which the rest of the segment is local to
  the goroutine (so far: ITER_HELPED, after the successful unlink CAS of `Iterator.Next`; the rest is `it.curr = next`,
  the counter and, when the refresh interval is reached, the part of Refresh up to its own yield point).  The real
  code runs b's operation AT the late point, the model runs a's segment to its end and THEN b's operation: the
  answers agree exactly when the rest of a's segment does not touch shared memory — which is what the model says of
  the code.  Nothing here changes the model (`Model/SkipConc.lean`); this file only composes `Sys.step`/`Sys.start`.
-/
namespace NitroVerif.Driver
open NitroVerif NitroVerif.SkipConc

/-- does the segment that thread `t` is about to run pass the late point ITER_HELPED?  (parked at HELP_DELETE of
    `Iterator.Next` and the unlink CAS is going to succeed) -/
def lateFires (s : Sys) (t : Nat) : Bool :=
  match s.threads[t]? with
  | some th =>
    match th.pc with
    | .iterHelp it next =>
      let I := th.iter it
      (dcas s.sh.heap I.prev 0 I.curr next false).2
    | _ => false
  | none => false

/-- run thread `t` until its call returns (fuel bounds the number of segments) -/
def runToRet (s : Sys) (t : Nat) : Nat → String → Sys × String
  | 0, out => (s, out)
  | fuel + 1, out =>
    if out.startsWith "at " then
      let r := s.step t
      runToRet r.1 t fuel r.2
    else (s, out)

def simpleOp : List String → Bool
  | ["ins", _, _] | ["del", _] | ["delf", _] | ["look", _] => true
  | _ => false

def threadIdle (s : Sys) (t : Nat) : Option Bool := (s.threads[t]?).map fun th => isIdle th.pc

def skipConcStepInj (s : SkipConcSt) (toks : List String) : SkipConcSt × String :=
  match toks with
  | "stepinj" :: a :: b :: rest =>
    match s.made, a.toNat?, b.toNat?, (if simpleOp rest then parseOp s.names rest else none) with
    | true, some a, some b, some (names, op) =>
      if a != b && threadIdle s.sys a == some false && threadIdle s.sys b == some true then
        let fires := lateFires s.sys a
        let r := s.sys.step a
        if fires then
          let r2 := r.1.start b op
          let r3 := runToRet r2.1 b 100000 r2.2
          ({ s with sys := r3.1, names := names }, r.2 ++ " | " ++ r3.2)
        else ({ s with sys := r.1 }, r.2 ++ " | noinj")
      else (s, "bad-op")
    | _, _, _, _ => (s, "bad-op")
  | _ => skipConcStep s toks

def skipConcInjEngine : Engine := { σ := SkipConcSt, init := {}, step := skipConcStepInj }

end NitroVerif.Driver
