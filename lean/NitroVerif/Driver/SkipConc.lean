import NitroVerif.Driver.Engine
import NitroVerif.Model.SkipConc
/-!
  Engine `skipconc` (PROTOCOL.md, "engine skipconc"): logical threads steered through the yield points of
  package skiplist on one shared list.

    threads <n> [mem=go|mem=mm]     (once per case, 1 ≤ n ≤ 64)             -> ok
    start <t> ins <k> lvl=<L>                                             -> at <POINT> | ret <true|false>
    start <t> del <k> | look <k>                                          -> at <POINT> | ret <true|false>
    start <t> it_first <i>          (iterator names <i> are arbitrary tokens) -> ret <key|end>
    start <t> it_seek <i> <k>                                             -> at <POINT> | ret <key|end>
    start <t> it_next <i>           (bad-op unless iterator i exists and is valid) -> at <POINT> | ret <key|end>
    start <t> it_close <i>                                                -> ret
    start <t> it_interval <i> <n>   SetRefreshInterval(n); bad-op unless iterator i exists and n ≥ 1 -> ret
    start <t> it_refresh <i>        the public Refresh() called by the user; bad-op unless iterator i exists and is valid
                                    (same test as it_next); parks at ITER_REFRESH, the following `step`s run
                                    Seek(item under the cursor); `count` is not changed     -> at ITER_REFRESH, then at <POINT>… | ret <key|end>
    start <t> it_pause <i>          Pause(): releases the barrier session only; the model is NOT touched;
    start <t> it_resume <i>         Resume(): re-acquires a barrier session only; the model is NOT touched;
                                    both: bad-op unless thread t exists and is idle and iterator i exists (of thread t) -> ret
    step <t>                        (bad-op when t is idle)               -> at <POINT> | ret <value>
    walk                            (bad-op unless quiescent)             -> lvl=<level> L0=<list>;L1=<list>;…
    stats                                                                 -> nodes=<n> soft=<n> allocs=<n> frees=<n> dist=<…>
-/
namespace NitroVerif.Driver
open NitroVerif NitroVerif.SkipConc

structure SkipConcSt where
  sys : Sys := {}
  made : Bool := false
  /-- iterator names of the script (arbitrary tokens); the model names an iterator by its index here -/
  names : List String := []

/-- index of an iterator name, adding it if new -/
def internName (names : List String) (n : String) : List String × Nat :=
  match names.idxOf? n with
  | some i => (names, i)
  | none => (names ++ [n], names.length)

def commaList (l : List String) : String := if l.isEmpty then "." else ",".intercalate l

def showWalkItem (p : Nat × Bool) : String := (if p.2 then "!" else "") ++ toString p.1

/-- drop trailing elements satisfying `p` -/
def trimTrailing {α} (p : α → Bool) (l : List α) : List α := (l.reverse.dropWhile p).reverse

def showWalk (sh : Shared) : String :=
  let levels := (List.range (sh.level + 1)).map fun l => walk sh.heap l
  let kept := match trimTrailing (fun (w : List (Nat × Bool)) => w.isEmpty) levels with
    | [] => [[]]
    | ls => ls
  let parts := (kept.zipIdx).map fun (w, l) => s!"L{l}=" ++ commaList (w.map showWalkItem)
  s!"lvl={sh.level} " ++ ";".intercalate parts

def sumInts (l : List Int) : Int := l.foldl (· + ·) 0

def showStats (st : Stats) : String :=
  let dist := trimTrailing (fun (c : Int) => c == 0) st.dist
  s!"nodes={sumInts st.dist} soft={st.soft} allocs={st.allocs} frees={st.frees} dist=" ++
    commaList (dist.map toString)

def parseOp (names : List String) : List String → Option (List String × Op)
  | ["ins", k, l] =>
    match k.toNat?, natArg [l] "lvl" with
    | some k, some l => some (names, .ins k l)
    | _, _ => none
  | ["del", k] => k.toNat?.map fun k => (names, .del k)
  -- `delf`: Delete as nitro does it (same search and removal under one barrier token, then the node is handed to the
  -- access barrier and freed by the harness when the barrier says so); the list operations are those of `del`
  | ["delf", k] => k.toNat?.map fun k => (names, .del k)
  | ["look", k] => k.toNat?.map fun k => (names, .look k)
  | ["it_first", i] => let r := internName names i; some (r.1, .itFirst r.2)
  | ["it_seek", i, k] =>
    match k.toNat? with
    | some k => let r := internName names i; some (r.1, .itSeek r.2 k)
    | none => none
  | ["it_next", i] => let r := internName names i; some (r.1, .itNext r.2)
  | ["it_close", i] => let r := internName names i; some (r.1, .itClose r.2)
  | ["it_interval", i, n] =>
    match n.toNat? with
    | some n => let r := internName names i; some (r.1, .itInterval r.2 n)
    | none => none
  | ["it_refresh", i] => let r := internName names i; some (r.1, .itRefresh r.2)
  | _ => none

/-- `it_pause` / `it_resume`: Pause/Resume only release / re-acquire the barrier session, which M5 does not model.
    Answer `ret` when thread `t` exists, is idle and owns an iterator of that name; the state is not changed. -/
def pauseResume (s : SkipConcSt) (t : Nat) (name : String) : String :=
  match s.sys.threads[t]?, s.names.idxOf? name with
  | some th, some i => if isIdle th.pc && (th.iter? i).isSome then "ret" else "bad-op"
  | _, _ => "bad-op"

def skipConcStep (s : SkipConcSt) (toks : List String) : SkipConcSt × String :=
  match toks with
  | ["threads", n] =>
    match n.toNat? with
    | some n =>
      if s.made || n < 1 || n > 64 then (s, "bad-op")
      else ({ sys := { threads := List.replicate n {} }, made := true }, "ok")
    | none => (s, "bad-op")
  | ["threads", n, m] =>
    -- memory mode of the real list (Go-managed: no access barrier, iterators carry no session); the list
    -- operations, and therefore the model, are the same
    match n.toNat? with
    | some n =>
      if s.made || n < 1 || n > 64 || !(m == "mem=go" || m == "mem=mm" || m == "mem=mmfree") then (s, "bad-op")
      else ({ sys := { threads := List.replicate n {} }, made := true }, "ok")
    | none => (s, "bad-op")
  | ["start", t, "it_pause", i] | ["start", t, "it_resume", i] =>
    match s.made, t.toNat? with
    | true, some t => (s, pauseResume s t i)
    | _, _ => (s, "bad-op")
  | "start" :: t :: rest =>
    match s.made, t.toNat?, parseOp s.names rest with
    | true, some t, some (names, op) =>
      let r := s.sys.start t op
      ({ s with sys := r.1, names := names }, r.2)
    | _, _, _ => (s, "bad-op")
  | ["step", t] =>
    match s.made, t.toNat? with
    | true, some t =>
      let r := s.sys.step t
      ({ s with sys := r.1 }, r.2)
    | _, _ => (s, "bad-op")
  | ["walk"] =>
    if s.made && s.sys.quiescent then (s, showWalk s.sys.sh) else (s, "bad-op")
  | ["stats"] =>
    if s.made then (s, showStats s.sys.sh.stats) else (s, "bad-op")
  | _ => (s, "bad-op")

def skipConcEngine : Engine := { σ := SkipConcSt, init := {}, step := skipConcStep }

end NitroVerif.Driver
