import NitroVerif.Driver.Engine
import NitroVerif.Model.Table
import NitroVerif.Model.NodeList
/-!
  Engines `table` and `nodelist` (C20).

  engine table — keys and pointers are natural numbers:
    hash const|mod2|mod3|mod7|id   `nodetable.New` with that hash (fresh table; pointer
                                   declarations are kept; the default before any `hash` line is `id`) -> `ok`
    ptr <p> <k>            declare keyOf p = k (a pointer can be declared once)         -> `ok`
    update <k> <p>         Update; `bad-op` if p is undeclared or keyOf p ≠ k            -> `updated=<true|false> old=<p|nil>`
    get <k>                                                                            -> `<p|nil>`
    remove <k>                                                                         -> `success=<true|false> ptr=<p|nil>`
    count                  ItemsCount                                                  -> `<n>`
    stats                                                                              -> `fast=<n> slow=<n> conflicts=<n>`
  A call on which the Go code would panic (index out of range in Remove) prints `panic`
  (C20 proves this never happens).

  engine nodelist:
    add <id> <keyhex>      `bad-op` if node <id> is in the list already (would make the Go list cyclic) -> `ok`
    remove <keyhex>                                                                    -> `<id|nil>`
    keys                                                                               -> `<list of hex>`
    head                                                                               -> `<id|nil>`
-/
namespace NitroVerif.Driver
open NitroVerif NitroVerif.Table

structure TableSt where
  hashName : String := "id"
  decls : List (Nat × Nat) := []
  t : Table := {}

def hashByName : String → Option (Nat → Nat)
  | "const" => some (fun _ => 0)
  | "mod2" => some (· % 2)
  | "mod3" => some (· % 3)
  | "mod7" => some (· % 7)
  | "id" => some id
  | _ => none

def TableSt.hash (s : TableSt) : Nat → Nat := (hashByName s.hashName).getD id
def TableSt.keyOf (s : TableSt) : Nat → Nat := fun p => (AL.get s.decls p).getD 0

def optNat : Option Nat → String
  | some p => toString p
  | none => "nil"

def tableStep (s : TableSt) (toks : List String) : TableSt × String :=
  match toks with
  | ["hash", n] =>
    match hashByName n with
    | some _ => ({ s with hashName := n, t := {} }, "ok")
    | none => (s, "bad-op")
  | ["ptr", p, k] =>
    match p.toNat?, k.toNat? with
    | some p, some k =>
      match AL.get s.decls p with
      | some _ => (s, "bad-op")
      | none => ({ s with decls := AL.set s.decls p k }, "ok")
    | _, _ => (s, "bad-op")
  | ["update", k, p] =>
    match k.toNat?, p.toNat? with
    | some k, some p =>
      if AL.get s.decls p = some k then
        let (t', u, o) := update s.hash s.keyOf s.t k p
        if t'.panicked then ({ s with t := t' }, "panic")
        else ({ s with t := t' }, s!"updated={u} old={optNat o}")
      else (s, "bad-op")
    | _, _ => (s, "bad-op")
  | ["get", k] =>
    match k.toNat? with
    | some k => (s, optNat (get s.hash s.keyOf s.t k))
    | none => (s, "bad-op")
  | ["remove", k] =>
    match k.toNat? with
    | some k =>
      let (t', ok, p) := remove s.hash s.keyOf s.t k
      if t'.panicked then ({ s with t := t' }, "panic")
      else ({ s with t := t' }, s!"success={ok} ptr={optNat p}")
    | none => (s, "bad-op")
  | ["count"] => (s, toString (itemsCount s.t))
  | ["stats"] => (s, s!"fast={s.t.fastHTCount} slow={s.t.slowHTCount} conflicts={s.t.conflicts}")
  | _ => (s, "bad-op")

def tableEngine : Engine := { σ := TableSt, init := {}, step := tableStep }

def nodeListStep (l : NodeList.NodeList) (toks : List String) : NodeList.NodeList × String :=
  match toks with
  | ["add", id, k] =>
    match id.toNat?, hexToBytes k with
    | some id, some kb =>
      if l.nodes.any (fun n => n.1 == id) then (l, "bad-op")
      else (NodeList.add l (id, kb), "ok")
    | _, _ => (l, "bad-op")
  | ["remove", k] =>
    match hexToBytes k with
    | some kb => let (l', r) := NodeList.remove l kb; (l', optNat r)
    | none => (l, "bad-op")
  | ["keys"] =>
    let ks := NodeList.keys l
    (l, if ks.isEmpty then "." else ",".intercalate (ks.map bytesToHex))
  | ["head"] => (l, optNat (NodeList.head l))
  | _ => (l, "bad-op")

def nodeListEngine : Engine := { σ := NodeList.NodeList, init := {}, step := nodeListStep }

end NitroVerif.Driver
