import NitroVerif.Driver.Engine
import NitroVerif.Model.SkipSeq
/-!
  Engine `skipseq` (M3; C13 sequential, C14, C18) — see PROTOCOL.md.
    ins <k> lvl=<L>          -> true|false
    del <k>                  -> true|false
    look <k>                 -> true|false
    getnode <k> <h>          -> found|none          (the handle is (re)bound only when found)
    delnode <h>              -> true|false          (unknown handle: bad-op)
    walk                     -> lvl=<level> L0=<list>;L1=<list>;...   (unmarked nodes on the chain head→tail;
                                L0 always, then up to the highest non-empty level; `broken` for a level
                                whose chain does not reach the tail)
    stats                    -> nodes=<n> soft=<n> allocs=<n> frees=<n> dist=<c0,..|.>
    iter                     -> <list>
    seek <k>                 -> found=<true|false> at=<key|end>
    seg_new <s>              -> ok                  (an existing name is replaced)
    seg_add <s> <k> lvl=<L>  -> ok                  (unknown segment: bad-op)
    assemble <s1,s2,...>     -> ok                  (`.` = no segment; unknown or repeated name: bad-op)
    list <id> <k1,..|.>      -> ok
    m_new <id,id,...>        -> ok                  (unknown list: bad-op)
    m_first                  -> <key>|end
    m_seek <k>               -> found=<true|false> at=<key|end>
    m_next                   -> <key>|end           (bad-op when there is no merge iterator or it is not valid)
  A line `stuck` would mean that a fuel-bounded loop of the model ran dry (proved impossible).
-/
namespace NitroVerif.Driver
open NitroVerif.SkipSeq

structure SkipSeqState where
  st : St
  segs : List (String × Segment)
  lists : List (String × SL)
  mit : Option MergeIt

def SkipSeqState.init : SkipSeqState := { st := St.init, segs := [], lists := [], mit := none }

def intOfString (s : String) : Option Int :=
  match s.toList with
  | '-' :: r => (String.ofList r).toNat?.map fun n => -(n : Int)
  | _ => s.toNat?.map fun n => (n : Int)

def keyStr : Key → String
  | .min => "min"
  | .max => "max"
  | .item k => toString k

def listStr (l : List String) : String := if l.isEmpty then "." else ",".intercalate l

def ssParseList (s : String) : List String := if s == "." then [] else splitOnChar s ','

def parseInts (s : String) : Option (List Int) :=
  (ssParseList s).foldr (fun t acc => match intOfString t, acc with
    | some i, some r => some (i :: r)
    | _, _ => none) (some [])

def boolStr (b : Bool) : String := if b then "true" else "false"

def outStr : Out → String
  | .bool b => boolStr b
  | .node f => if f then "found" else "none"
  | .keys ks => listStr (ks.map keyStr)
  | .seekAt f pos => s!"found={boolStr f} at={match pos with | some k => keyStr k | none => "end"}"
  | .bad => "bad-op"

/-- unmarked nodes of the level-`l` chain, as text -/
def walkStr (s : SL) (l : Nat) : String × Bool :=
  match walkLevel s l with
  | some ns =>
    let live := ns.filter fun n => !markedAt s.nodes l n
    (listStr (live.map fun n => keyStr (keyOf s.nodes n)), !live.isEmpty)
  | none => ("broken", true)

def walkLine (s : SL) : String :=
  let rows := (List.range (s.level + 1)).map fun l => (l, walkStr s l)
  -- keep L0 and everything up to the highest non-empty level
  let top := rows.foldl (fun acc r => if r.2.2 then r.1 else acc) 0
  let shown := rows.filter fun r => r.1 ≤ top
  s!"lvl={s.level} " ++ ";".intercalate (shown.map fun r => s!"L{r.1}={r.2.1}")

def trimZeros (l : List Int) : List Int := (l.reverse.dropWhile (· == 0)).reverse

def statsLine (s : SL) : String :=
  let d := s.stats.levelNodesCount
  s!"nodes={d.foldl (· + ·) 0} soft={s.stats.softDeletes} allocs={s.stats.nodeAllocs} frees={s.stats.nodeFrees} dist={listStr ((trimZeros d).map toString)}"

def assocGet {α : Type} (l : List (String × α)) (k : String) : Option α :=
  (l.find? fun e => e.1 == k).map (·.2)

def assocSet {α : Type} (l : List (String × α)) (k : String) (v : α) : List (String × α) :=
  (k, v) :: l.filter fun e => e.1 != k

def getAll {α : Type} (l : List (String × α)) (ks : List String) : Option (List α) :=
  ks.foldr (fun k acc => match assocGet l k, acc with
    | some v, some r => some (v :: r)
    | _, _ => none) (some [])

def hasDup : List String → Bool
  | [] => false
  | a :: r => r.contains a || hasDup r

/-- `list <id> <keys>` : keys inserted in this order with level requests 0,1,2,0,1,2,… -/
def buildList (ks : List Int) : SL :=
  (ks.foldl (fun (acc : SL × Nat) k => ((insert2 acc.1 (.item k) (acc.2 % 3)).1, acc.2 + 1)) (SL.init, 0)).1

def guardStuck (s : SL) (out : String) : String := if s.stuck then "stuck" else out

def mergeKeyStr (m : MergeIt) : String :=
  match m.key with
  | some k => keyStr k
  | none => "end"

def mergeStuck (m : MergeIt) : Bool := m.sls.any (·.stuck)

def runOp (σ : SkipSeqState) (op : Op) : SkipSeqState × String :=
  let r := step σ.st op
  ({ σ with st := r.1 }, guardStuck r.1.sl (outStr r.2))

def skipSeqStep (σ : SkipSeqState) (toks : List String) : SkipSeqState × String :=
  match toks with
  | ["ins", k, l] =>
    match intOfString k, natArg [l] "lvl" with
    | some k, some l => runOp σ (.ins k l)
    | _, _ => (σ, "bad-op")
  | ["del", k] =>
    match intOfString k with
    | some k => runOp σ (.del k)
    | none => (σ, "bad-op")
  | ["look", k] =>
    match intOfString k with
    | some k => runOp σ (.look k)
    | none => (σ, "bad-op")
  | ["getnode", k, h] =>
    match intOfString k with
    | some k => runOp σ (.getnode k h)
    | none => (σ, "bad-op")
  | ["delnode", h] => runOp σ (.delnode h)
  | ["iter"] => runOp σ .iter
  | ["seek", k] =>
    match intOfString k with
    | some k => runOp σ (.seek k)
    | none => (σ, "bad-op")
  | ["walk"] => (σ, walkLine σ.st.sl)
  | ["stats"] => (σ, statsLine σ.st.sl)
  | ["seg_new", s] => ({ σ with segs := assocSet σ.segs s Segment.new }, "ok")
  | ["seg_add", s, k, l] =>
    match assocGet σ.segs s, intOfString k, natArg [l] "lvl" with
    | some seg, some k, some l =>
      let r := segAdd σ.st.sl seg (.item k) l
      ({ σ with st := { σ.st with sl := r.1 }, segs := assocSet σ.segs s r.2 }, "ok")
    | _, _, _ => (σ, "bad-op")
  | ["assemble", ss] =>
    let names := ssParseList ss
    if hasDup names then (σ, "bad-op") else
    match getAll σ.segs names with
    | some segs =>
      let r := assemble σ.st.sl segs
      let segs' := (names.zip r.2).foldl (fun acc e => assocSet acc e.1 e.2) σ.segs
      ({ σ with st := { σ.st with sl := r.1 }, segs := segs' }, "ok")
    | none => (σ, "bad-op")
  | ["list", id, ks] =>
    match parseInts ks with
    | some ks => ({ σ with lists := assocSet σ.lists id (buildList ks) }, "ok")
    | none => (σ, "bad-op")
  | ["m_new", ids] =>
    match getAll σ.lists (ssParseList ids) with
    | some sls => ({ σ with mit := some (MergeIt.new sls) }, "ok")
    | none => (σ, "bad-op")
  | ["m_first"] =>
    match σ.mit with
    | some m =>
      let m' := mergeSeekFirst m
      ({ σ with mit := some m' }, if mergeStuck m' then "stuck" else mergeKeyStr m')
    | none => (σ, "bad-op")
  | ["m_seek", k] =>
    match σ.mit, intOfString k with
    | some m, some k =>
      let r := mergeSeek m (.item k)
      ({ σ with mit := some r.1 },
       if mergeStuck r.1 then "stuck" else s!"found={boolStr r.2} at={mergeKeyStr r.1}")
    | _, _ => (σ, "bad-op")
  | ["m_next"] =>
    match σ.mit with
    | some m =>
      if m.valid then
        let m' := mergeNext m
        ({ σ with mit := some m' }, if mergeStuck m' then "stuck" else mergeKeyStr m')
      else (σ, "bad-op")
    | none => (σ, "bad-op")
  | _ => (σ, "bad-op")

def skipSeqEngine : Engine := { σ := SkipSeqState, init := SkipSeqState.init, step := skipSeqStep }

end NitroVerif.Driver
