import NitroVerif.Driver.Engine
import NitroVerif.Driver.Codec
import NitroVerif.Driver.Table
import NitroVerif.Driver.Barrier
import NitroVerif.Driver.RefCount
namespace NitroVerif.Driver

def engineByName (name : String) : Option Engine :=
  match name with
  | "codec" => some codecEngine
  | "table" => some tableEngine
  | "nodelist" => some nodeListEngine
  | "barrier" => some barrierEngine
  | "refcount" => some refcountEngine
  | _ => none

end NitroVerif.Driver
