import NitroVerif.Driver.Engine
import NitroVerif.Driver.Codec
namespace NitroVerif.Driver

def engineByName (name : String) : Option Engine :=
  match name with
  | "codec" => some codecEngine
  | _ => none

end NitroVerif.Driver
