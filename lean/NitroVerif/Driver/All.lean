import NitroVerif.Driver.Engine
import NitroVerif.Driver.Codec
import NitroVerif.Driver.Table
import NitroVerif.Driver.Barrier
import NitroVerif.Driver.RefCount
import NitroVerif.Driver.SkipConc
import NitroVerif.Driver.SkipConcInj
import NitroVerif.Driver.SkipSeq
import NitroVerif.Driver.Mvcc
import NitroVerif.Driver.Backup
import NitroVerif.Driver.MvccBackup
import NitroVerif.Driver.MvccConc
namespace NitroVerif.Driver

def engineByName (name : String) : Option Engine :=
  match name with
  | "codec" => some codecEngine
  | "table" => some tableEngine
  | "nodelist" => some nodeListEngine
  | "barrier" => some barrierEngine
  | "refcount" => some refcountEngine
  | "skipconc" => some skipConcInjEngine
  | "skipseq" => some skipSeqEngine
  | "mvcc" => some mvccBkEngine
  | "mvccconc" => some mvccConcEngine
  | "backupimg" => some backupImgEngine
  | _ => none

end NitroVerif.Driver
