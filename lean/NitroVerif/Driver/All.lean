import NitroVerif.Driver.Engine
import NitroVerif.Driver.Codec
import NitroVerif.Driver.Table
namespace NitroVerif.Driver

def engineByName (name : String) : Option Engine :=
  match name with
  | "codec" => some codecEngine
  | "table" => some tableEngine
  | "nodelist" => some nodeListEngine
  | _ => none

end NitroVerif.Driver
