import NitroVerif.Driver.Engine
import NitroVerif.Model.RefCount
/-!
  Engine `refcount` (PROTOCOL.md "engine refcount"): steers the small-step model of
  `Snapshot.Open/Close`, `GC`, `collectDead` (fixed protocol: `fixedOpen = fixedGC = true`) one
  shared-memory step at a time.
    init threads=<n> snaps=<k>   -> `ok`
    start <t> open <s>           -> `at OPEN_LOAD`
    start <t> close <s>          -> `at CLOSE_DEC`     (`bad-op` when no held reference on `s` remains)
    start <t> gc                 -> `at GC_TRY_LOCK`
    step <t>                     -> `at <POINT>` | `ret true` | `ret false` | `ret`
                                    (`Close` retires in two steps: `at CLOSE_RETIRE` → `at CLOSE_RETIRE2` → `at CLOSE_GC`)
    state                        -> `refs=<r1,..> live=<list> retired=<list> lastgc=<n> sent=<list> flag=<0|1>`
  `step` on an idle thread, `start` on a busy one, an unknown thread or snapshot, and anything else
  is `bad-op` (state unchanged).  The proof-only action `Act.step true` is never taken.
-/
namespace NitroVerif.Driver
open NitroVerif.RefCount

def rcCfg : Cfg := { fixedOpen := true, fixedGC := true }

def rcList (l : List String) : String :=
  if l.isEmpty then "." else ",".intercalate l

def rcAct (st : St) (t : Nat) (a : Act) : St × String :=
  match step rcCfg st t a with
  | none => (st, "bad-op")
  | some (st', ev) =>
    match ev with
    | .retOpen _ b => (st', if b then "ret true" else "ret false")
    | .ret => (st', "ret")
    | .parked =>
      match (st'.ths[t]?).bind pointName with
      | some p => (st', s!"at {p}")
      | none => (st', "ret")

def rcState (st : St) : String :=
  let refs := rcList (st.snaps.map fun x => toString x.refs)
  let nl (l : List Nat) := rcList (l.map toString)
  s!"refs={refs} live={nl st.live} retired={nl st.dead} lastgc={st.lastGCSn} sent={nl st.sent} flag={if st.flag then 1 else 0}"

def refcountStep (st : St) (toks : List String) : St × String :=
  match toks with
  | "init" :: args =>
    match natArg args "threads", natArg args "snaps" with
    | some n, some k => (init n k, "ok")
    | _, _ => (st, "bad-op")
  | ["start", t, "open", s] =>
    match t.toNat?, s.toNat? with
    | some i, some sn => rcAct st i (.start (.opn sn))
    | _, _ => (st, "bad-op")
  | ["start", t, "close", s] =>
    match t.toNat?, s.toNat? with
    | some i, some sn => rcAct st i (.start (.cls sn))
    | _, _ => (st, "bad-op")
  | ["start", t, "gc"] =>
    match t.toNat? with
    | some i => rcAct st i (.start .gc)
    | none => (st, "bad-op")
  | ["step", t] =>
    match t.toNat? with
    | some i => rcAct st i (.step false)
    | none => (st, "bad-op")
  | ["state"] => (st, rcState st)
  | _ => (st, "bad-op")

def refcountEngine : Engine := { σ := St, init := init 0 0, step := refcountStep }

end NitroVerif.Driver
