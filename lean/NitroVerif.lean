-- Root of the `NitroVerif` library: everything that must build for the checks.
import NitroVerif.Gen.Guards
import NitroVerif.Driver.All
import NitroVerif.Props.C19
import NitroVerif.Props.C20
import NitroVerif.Props.C16
import NitroVerif.Props.C17
import NitroVerif.Props.C08
import NitroVerif.Props.C06Handoff
