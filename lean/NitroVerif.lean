-- Root of the `NitroVerif` library: everything that must build for the checks.
import NitroVerif.Gen.Guards
import NitroVerif.Driver.All
import NitroVerif.Props.C19
import NitroVerif.Props.C20
import NitroVerif.Props.C16
import NitroVerif.Props.C17
import NitroVerif.Props.C08
import NitroVerif.Props.C06Handoff
import NitroVerif.Props.C01
import NitroVerif.Props.C02
import NitroVerif.Props.C06
import NitroVerif.Props.C09
import NitroVerif.Props.C10
import NitroVerif.Props.C05
import NitroVerif.Props.C11
import NitroVerif.Props.C12
