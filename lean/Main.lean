import NitroVerif.Driver.All
/-!
  `nvmodel`: reads operation lines on stdin, prints one line per operation.
    engine <name>   selects the engine (and resets it)         -> `engine <name>`
    case <id>       resets the current engine to its init state -> `case <id>`
    # ...           comment, echoed as `#`
    anything else   is an operation of the current engine
-/
open NitroVerif.Driver

partial def loop (h : IO.FS.Stream) (out : IO.FS.Stream) (cur : Option Running) : IO Unit := do
  let line ← h.getLine
  if line.isEmpty then return ()
  let toks := tokens line
  match toks with
  | [] => loop h out cur
  | "engine" :: name :: _ =>
    match engineByName name with
    | some e => out.putStrLn s!"engine {name}"; loop h out (some (Running.start e))
    | none => out.putStrLn s!"bad-engine {name}"; loop h out none
  | "case" :: id :: _ =>
    out.putStrLn s!"case {id}"
    loop h out (cur.map fun r => Running.start r.eng)
  | t :: _ =>
    if t.startsWith "#" then
      out.putStrLn "#"; loop h out cur
    else
      match cur with
      | none => out.putStrLn "no-engine"; loop h out cur
      | some r =>
        let (r', o) := r.feed toks
        out.putStrLn o
        loop h out (some r')

def main : IO Unit := do
  let i ← IO.getStdin
  let o ← IO.getStdout
  loop i o none
  o.flush
