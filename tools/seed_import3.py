#!/usr/bin/env python3
"""Import third-round output (/tmp/seed3-out/<Cxx>/) into /verif/seeded/<Cxx>-5/ and remove the agent's worktree."""
import os, shutil, json, sys, subprocess
for prop in sys.argv[1:]:
    d = '/tmp/seed3-out/%s' % prop
    if not os.path.exists(os.path.join(d, 'patch.diff')):
        print('no patch for', prop); continue
    dst = '/verif/seeded/%s-5' % prop
    os.makedirs(dst, exist_ok=True)
    for f in os.listdir(d):
        p = os.path.join(d, f)
        if os.path.isfile(p) and os.path.getsize(p) < 200000 and not f.endswith('.log'):
            shutil.copy2(p, os.path.join(dst, f))
    notes = open(os.path.join(dst, 'notes.md')).read() if os.path.exists(os.path.join(dst, 'notes.md')) else ''
    json.dump({'property': prop, 'source': 'independent sub-agent, third round (property text + scratch worktree only)',
               'needs_to_manifest': 'see notes.md', 'confirmed': {}, 'caught_by': {}}, open(os.path.join(dst, 'meta.json'), 'w'), indent=1)
    subprocess.run('git -C /repo worktree remove --force /tmp/seed3-%s; rm -rf /tmp/seed3-%s' % (prop, prop), shell=True)
    print('imported', dst)
