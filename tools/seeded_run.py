#!/usr/bin/env python3
"""Run the registered check of every seeded change against it (patch applied to /repo, undone straight afterwards)
   and record in seeded/<id>/meta.json whether it is caught with a concrete replay, by a broken obligation only, or missed."""
import os, sys, json, subprocess, glob, re
V = os.path.dirname(os.path.dirname(os.path.abspath(__file__)))
only = sys.argv[1:]
for d in sorted(glob.glob(os.path.join(V, 'seeded', '*'))):
    sid = os.path.basename(d)
    if only and sid not in only:
        continue
    patch = os.path.join(d, 'patch.diff')
    if not os.path.exists(patch):
        continue
    mp = os.path.join(d, 'meta.json')
    meta = json.load(open(mp))
    if meta.get('obsolete'):
        continue
    prop = meta['property']
    if subprocess.run(['git', '-C', '/repo', 'apply', '--check', patch]).returncode != 0:
        meta['caught_by'] = {'result': 'patch does not apply to the current tree'}
        json.dump(meta, open(mp, 'w'), indent=1)
        print(sid, 'does not apply')
        continue
    subprocess.check_call(['git', '-C', '/repo', 'apply', patch])
    try:
        p = subprocess.run(['python3', os.path.join(V, 'tools', 'check.py'), prop, '--tier', 'quick'], cwd=V, stdout=subprocess.PIPE, stderr=subprocess.STDOUT, text=True, timeout=3600)
    finally:
        subprocess.check_call(['git', '-C', '/repo', 'checkout', '--', '.'])
    vl = [l for l in p.stdout.splitlines() if l.startswith('VIOLATION')]
    replay = [l for l in vl if 'no-failing-input-found' not in l]
    res = 'replay' if replay else ('broken-obligation-only' if vl else 'MISSED')
    detail = None
    if replay:
        f = replay[0].split('replay=')[1].split()[0]
        try:
            r = json.load(open(f))
            detail = {'script_tail': r.get('script', [])[-6:], 'diff': r.get('diff')}
        except Exception:
            pass
    kinds = []
    for l in vl:
        try:
            r_ = json.load(open(l.split('replay=')[1].split()[0]))
            kinds.append({'kind': r_.get('kind') or ('differential' if r_.get('diff') else 'obligation'), 'broken_obligations': bool(r_.get('proof_errors') or r_.get('tie_errors'))})
        except Exception:
            kinds.append(None)
    meta['caught_by_kinds'] = kinds
    meta['caught_by'] = {'check': prop, 'tier': 'quick', 'seed': int(os.environ.get('VERIF_SEED', '1')), 'result': res, 'exit': p.returncode, 'example': detail}
    json.dump(meta, open(mp, 'w'), indent=1)
    print(sid, res, flush=True)
