#!/bin/sh
# Run a command in a private universe: scratch copies of /repo (a detached worktree of HEAD, optionally with a patch
# applied) and of /verif (working tree incl. build output) are bind-mounted over /repo and /verif in a private mount
# namespace, so sweeps over seeded / harmless changes run in parallel and never touch the real /repo or /verif.
# Nothing registered in MANIFEST.json uses this; registered checks always run in /verif against /repo itself.
#   usage: iso.sh <name> <patch.diff | -> <command...>      (results: /root/iso/<name>/verif/...)
set -e
name=$1; patch=$2; shift 2
base=/root/iso/$name
git -C /repo worktree remove --force $base/repo 2>/dev/null || true
rm -rf $base; mkdir -p $base
git -C /repo worktree add -q --detach $base/repo HEAD
if [ "$patch" != "-" ]; then git -C $base/repo apply "$patch"; fi
mkdir $base/verif
rsync -a --exclude .git --exclude work --exclude replays --exclude 'seeded' --exclude 'harmless' /verif/ $base/verif/
rc=0
unshare -m sh -c "mount --bind $base/repo /repo && mount --bind $base/verif /verif && cd /verif && $*" || rc=$?
git -C /repo worktree remove --force $base/repo 2>/dev/null || true
rm -rf $base/repo $base/verif/lean/.lake $base/verif/harness/bin
exit $rc
