#!/usr/bin/env python3
"""Import second-round output (/tmp/mut2-Cxx.out/<n>/) into /verif/seeded/<Cxx>-<n+2>/."""
import os, shutil, json, sys
for prop in sys.argv[1:]:
    src = '/tmp/mut2-%s.out' % prop
    for n in ('1', '2'):
        d = os.path.join(src, n)
        if not os.path.exists(os.path.join(d, 'patch.diff')):
            continue
        dst = '/verif/seeded/%s-%d' % (prop, int(n) + 2)
        os.makedirs(dst, exist_ok=True)
        for f in os.listdir(d):
            p = os.path.join(d, f)
            if os.path.isfile(p) and os.path.getsize(p) < 200000 and not f.endswith('.log') and not f.startswith('suite'):
                shutil.copy2(p, os.path.join(dst, f))
        json.dump({'property': prop, 'source': 'independent sub-agent, second round', 'needs_to_manifest': 'see notes.md', 'confirmed': {}, 'caught_by': {}}, open(os.path.join(dst, 'meta.json'), 'w'), indent=1)
        print('imported', dst)
