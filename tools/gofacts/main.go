// gofacts translates the decision predicates, constants and atomic skeletons of couchbase/nitro
// from the Go AST into Lean definitions (lean/NitroVerif/Gen/Guards.lean). It understands a
// deliberately tiny Go subset and fails closed: an expression it does not recognise, or a
// function/statement shape it cannot find, is an error (exit 1), which check.py reports as a
// broken tie.
package main

import (
	"flag"
	"fmt"
	"go/ast"
	"go/parser"
	"go/token"
	"go/types"
	"os"
	"path/filepath"
	"regexp"
	"strings"
)

var fset = token.NewFileSet()
var files = map[string]*ast.File{}
var repo string

func die(format string, a ...interface{}) {
	fmt.Fprintf(os.Stderr, "gofacts: "+format+"\n", a...)
	os.Exit(1)
}

func file(rel string) *ast.File {
	if f, ok := files[rel]; ok {
		return f
	}
	f, err := parser.ParseFile(fset, filepath.Join(repo, rel), nil, parser.ParseComments)
	if err != nil {
		die("%v", err)
	}
	files[rel] = f
	return f
}

func str(e ast.Node) string {
	if x, ok := e.(ast.Expr); ok {
		return types.ExprString(x)
	}
	return fmt.Sprint(e)
}

// fn finds a function or method declaration: recv "" for functions, "*T"/"T" for methods.
func fn(rel, recv, name string) *ast.FuncDecl {
	for _, d := range file(rel).Decls {
		fd, ok := d.(*ast.FuncDecl)
		if !ok || fd.Name.Name != name {
			continue
		}
		r := ""
		if fd.Recv != nil && len(fd.Recv.List) == 1 {
			r = str(fd.Recv.List[0].Type)
		}
		if strings.TrimPrefix(r, "*") == strings.TrimPrefix(recv, "*") {
			return fd
		}
	}
	die("%s: function %s.%s not found", rel, recv, name)
	return nil
}

// env maps Go sub-expressions (by printed form, exact or /regex/) to Lean variable names.
type env map[string]string

func (e env) lookup(s string) (string, bool) {
	if v, ok := e[s]; ok {
		return v, true
	}
	for k, v := range e {
		if strings.HasPrefix(k, "/") && strings.HasSuffix(k, "/") && len(k) > 2 {
			if regexp.MustCompile("^" + k[1:len(k)-1] + "$").MatchString(s) {
				return v, true
			}
		}
	}
	return "", false
}

var consts = map[string]string{"math.MaxInt32": "2147483647", "MaxLevel": "maxLevel", "barrierFlushOffset": "barrierFlushOffset",
	"ntFoundMask": "ntFoundMask", "ntFoundInFast": "ntFoundInFast", "ntFoundInSlow": "ntFoundInSlow", "ntNotFound": "ntNotFound"}

// tr translates an integer/boolean Go expression into a Lean term. Comparisons become `decide (..)`.
func tr(x ast.Expr, e env, where string) string {
	if v, ok := e.lookup(str(x)); ok {
		return v
	}
	switch t := x.(type) {
	case *ast.ParenExpr:
		return tr(t.X, e, where)
	case *ast.BasicLit:
		if t.Kind == token.INT {
			return t.Value
		}
	case *ast.Ident:
		if v, ok := consts[t.Name]; ok {
			return v
		}
		if t.Name == "true" || t.Name == "false" {
			return t.Name
		}
	case *ast.SelectorExpr:
		if v, ok := consts[str(t)]; ok {
			return v
		}
	case *ast.UnaryExpr:
		if t.Op == token.NOT {
			return "!" + tr(t.X, e, where)
		}
	case *ast.CallExpr:
		// integer conversions: int(x), int64(x), uint32(x) ... of a mapped operand
		if id, ok := t.Fun.(*ast.Ident); ok && len(t.Args) == 1 {
			switch id.Name {
			case "int", "int64", "int32":
				return "(" + tr(t.Args[0], e, where) + " : Int)"
			}
		}
	case *ast.BinaryExpr:
		a, b := tr(t.X, e, where), tr(t.Y, e, where)
		switch t.Op {
		case token.LAND:
			return "(" + a + " && " + b + ")"
		case token.LOR:
			return "(" + a + " || " + b + ")"
		case token.GTR:
			return "decide (" + a + " > " + b + ")"
		case token.LSS:
			return "decide (" + a + " < " + b + ")"
		case token.GEQ:
			return "decide (" + a + " ≥ " + b + ")"
		case token.LEQ:
			return "decide (" + a + " ≤ " + b + ")"
		case token.EQL:
			return "decide (" + a + " = " + b + ")"
		case token.NEQ:
			return "decide (" + a + " ≠ " + b + ")"
		case token.ADD:
			return "(" + a + " + " + b + ")"
		case token.SUB:
			return "(" + a + " - " + b + ")"
		case token.QUO:
			return "(" + a + " / " + b + ")"
		case token.AND:
			return "(" + a + " &&& " + b + ")"
		}
	}
	die("%s: cannot translate expression `%s`", where, str(x))
	return ""
}

// ifs returns all if statements of a node in source order.
func ifs(n ast.Node) []*ast.IfStmt {
	var out []*ast.IfStmt
	ast.Inspect(n, func(x ast.Node) bool {
		if s, ok := x.(*ast.IfStmt); ok {
			out = append(out, s)
		}
		return true
	})
	return out
}

// ifWith finds the first if statement whose condition text matches the regexp.
func ifWith(n ast.Node, re, where string) *ast.IfStmt {
	r := regexp.MustCompile(re)
	for _, s := range ifs(n) {
		if r.MatchString(str(s.Cond)) {
			return s
		}
	}
	die("%s: no `if` whose condition matches /%s/", where, re)
	return nil
}

func calls(n ast.Node) []*ast.CallExpr {
	var out []*ast.CallExpr
	ast.Inspect(n, func(x ast.Node) bool {
		if c, ok := x.(*ast.CallExpr); ok {
			out = append(out, c)
		}
		return true
	})
	return out
}

func callWith(n ast.Node, re, where string) *ast.CallExpr {
	r := regexp.MustCompile(re)
	for _, c := range calls(n) {
		if r.MatchString(str(c.Fun)) {
			return c
		}
	}
	die("%s: no call matching /%s/", where, re)
	return nil
}

func funcLit(fd *ast.FuncDecl) *ast.FuncLit {
	var fl *ast.FuncLit
	ast.Inspect(fd, func(x ast.Node) bool {
		if l, ok := x.(*ast.FuncLit); ok && fl == nil {
			fl = l
		}
		return true
	})
	if fl == nil {
		die("%s: no function literal", fd.Name.Name)
	}
	return fl
}

func lastReturn(n ast.Node, where string) ast.Expr {
	var r *ast.ReturnStmt
	ast.Inspect(n, func(x ast.Node) bool {
		if s, ok := x.(*ast.ReturnStmt); ok {
			r = s
		}
		return true
	})
	if r == nil || len(r.Results) != 1 {
		die("%s: no single-value return", where)
	}
	return r.Results[0]
}

// skeleton lists, in source order, the shared-memory / effect operations of a function.
var skelRe = regexp.MustCompile(`^(atomic\.\w+|.*\.dcasNext|.*\.getNext|.*\.Insert2|.*\.freeItem|.*[fF]reeNode|close|.*\.Lock|.*\.Unlock|.*\.callb|.*\.FlushSession|.*freeq\.Insert|.*freeq\.DeleteNode|.*\.doCleanup|.*\.hasReadySession|.*\.hasCollectableSnapshot|.*\.Release|.*\.Acquire|os\.MkdirAll|ioutil\.WriteFile|.*\.Open|.*\.Close|m\.Visitor|m\.changeDeltaWrState|.*snapshots\.Delete|.*gcsnapshots\.Insert|.*gcsnapshots\.DeleteNode|.*\.GC|m\.collectDead|.*store\.DeleteNode|.*\.SetLink|s\.findPath|s\.softDelete|s\.helpDelete|.*\.WriteItem|.*\.Flush|.*\.skipUnwanted|.*iter\.Seek|.*iter\.Next|.*iter\.SeekFirst|it\.Refresh|json\.Unmarshal|b\.Assemble|m\.NewSnapshot)$`)

var skelExtra *regexp.Regexp

// skeletonWith lists additionally the calls matching extra (used for functions whose order of set-up calls matters)
func skeletonWith(fd *ast.FuncDecl, extra string) string {
	skelExtra = regexp.MustCompile(extra)
	defer func() { skelExtra = nil }()
	return skeleton(fd)
}

func skeleton(fd *ast.FuncDecl) string {
	var ops []string
	ast.Inspect(fd.Body, func(x ast.Node) bool {
		switch t := x.(type) {
		case *ast.CallExpr:
			f := str(t.Fun)
			if skelRe.MatchString(f) || (skelExtra != nil && skelExtra.MatchString(f)) {
				op := f
				if strings.HasPrefix(f, "atomic.") && len(t.Args) > 0 {
					op = f + "(" + strings.TrimPrefix(str(t.Args[0]), "&") + ")"
				}
				if f == "ioutil.WriteFile" && len(t.Args) > 0 {
					if c, ok := t.Args[0].(*ast.CallExpr); ok && len(c.Args) == 2 {
						op = f + "(" + strings.Trim(str(c.Args[1]), `"`) + ")"
					}
				}
				ops = append(ops, op)
			}
		case *ast.SendStmt:
			ops = append(ops, "send("+str(t.Chan)+")")
		case *ast.DeferStmt:
			ops = append(ops, "defer")
		}
		return true
	})
	q := make([]string, len(ops))
	for i, o := range ops {
		q[i] = `"` + o + `"`
	}
	return "[" + strings.Join(q, ", ") + "]"
}

var out strings.Builder

func emit(format string, a ...interface{}) { fmt.Fprintf(&out, format+"\n", a...) }

func cmpKind(c *ast.CallExpr, where string) string {
	sel, ok := c.Fun.(*ast.SelectorExpr)
	if ok {
		switch sel.Sel.Name {
		case "insCmp":
			return ".ins"
		case "iterCmp":
			return ".iter"
		case "existCmp":
			return ".exist"
		}
	}
	die("%s: comparator call expected, got `%s`", where, str(c.Fun))
	return ""
}

func cmpKindOf(x ast.Expr, where string) string {
	if sel, ok := x.(*ast.SelectorExpr); ok {
		switch sel.Sel.Name {
		case "insCmp":
			return ".ins"
		case "iterCmp":
			return ".iter"
		case "existCmp":
			return ".exist"
		}
	}
	die("%s: comparator expected, got `%s`", where, str(x))
	return ""
}

func main() {
	flag.StringVar(&repo, "repo", "/repo", "path of the couchbase/nitro working tree")
	shapesOnly := flag.Bool("shapes", false, "print Gen/Shapes.lean instead of Gen/Guards.lean")
	shapeLemmas := flag.String("shape-lemmas", "", "print the bootstrap of Lemmas/Shape<Area>.lean for this area")
	flag.Parse()
	if *shapesOnly {
		emitShapes()
		fmt.Print(out.String())
		return
	}
	if *shapeLemmas != "" {
		if _, ok := shapeAreas[*shapeLemmas]; !ok {
			die("unknown area %s", *shapeLemmas)
		}
		emitShapeLemmas(*shapeLemmas)
		fmt.Print(out.String())
		return
	}

	emit("/-")
	emit("  GENERATED by tools/gofacts from /repo's working tree -- DO NOT EDIT BY HAND.")
	emit("  Every definition below is a translation of one Go expression or constant; the comment")
	emit("  above it names the source function.  The models call these definitions, so the theorems")
	emit("  are re-checked against what the code says now.")
	emit("-/")
	emit("namespace NitroVerif.Gen")
	emit("")
	emit("/-- which nitro comparator a call site uses -/")
	emit("inductive CmpKind where")
	emit("  | ins | iter | exist")
	emit("deriving Repr, DecidableEq")
	emit("")

	// ---- iterator.go
	{
		f := fn("iterator.go", "*Iterator", "skipUnwanted")
		s := ifWith(f, `bornSn`, "skipUnwanted")
		e := env{"itm.bornSn": "bornSn", "itm.deadSn": "deadSn", "it.snap.sn": "sn"}
		emit("-- iterator.go (*Iterator).skipUnwanted : condition under which the cursor skips an item")
		emit("def skipUnwanted (bornSn deadSn sn : Nat) : Bool :=\n  %s\n", tr(s.Cond, e, "skipUnwanted"))
		emit("def skeleton_skipUnwanted : List String := %s\n", skeleton(f))
		f = fn("iterator.go", "*Iterator", "Next")
		s = ifWith(f, `refreshRate`, "Iterator.Next")
		emit("-- iterator.go (*Iterator).Next : refresh condition")
		emit("def refreshDue (refreshRate count : Int) : Bool :=\n  %s\n", tr(s.Cond, env{"it.refreshRate": "refreshRate", "it.count": "count"}, "Iterator.Next"))
		emit("def skeleton_IteratorNext : List String := %s\n", skeleton(f))
		emit("def skeleton_IteratorRefresh : List String := %s\n", skeletonWith(fn("iterator.go", "*Iterator", "Refresh"), `.*\.ptrToItem$`))
		emit("def skeleton_IteratorSeek : List String := %s\n", skeleton(fn("iterator.go", "*Iterator", "Seek")))
		emit("def skeleton_IteratorSeekFirst : List String := %s\n", skeleton(fn("iterator.go", "*Iterator", "SeekFirst")))
		// comparator the snapshot iterator walks the store with (NewIterator and Refresh must agree)
		c1 := callWith(fn("iterator.go", "*Nitro", "NewIterator"), `store\.NewIterator`, "NewIterator")
		c2 := callWith(fn("iterator.go", "*Iterator", "Refresh"), `store\.NewIterator`, "Iterator.Refresh")
		k1 := cmpKindOf(c1.Args[0], "NewIterator")
		if k2 := cmpKindOf(c2.Args[0], "Iterator.Refresh"); k1 != k2 {
			die("NewIterator and Refresh walk the store with different comparators (%s, %s)", k1, k2)
		}
		emit("def skeleton_NitroNewIterator : List String := %s\n", skeletonWith(fn("iterator.go", "*Nitro", "NewIterator"), `.*\.NewIterator$|.*\.MakeBuf$`))
		emit("def skeleton_NitroIteratorClose : List String := %s\n", skeletonWith(fn("iterator.go", "*Iterator", "Close"), `.*\.FreeBuf$`))
		emit("-- iterator.go NewIterator / Refresh : comparator of the underlying skiplist iterator")
		emit("def iteratorStoreCmp : CmpKind := %s\n", k1)
	}
	// ---- nitro.go comparators
	{
		fl := funcLit(fn("nitro.go", "", "newInsertCompare"))
		var is *ast.IfStmt
		for _, s := range ifs(fl) {
			if s.Init != nil {
				is = s
			}
		}
		if is == nil {
			die("newInsertCompare: `if v = keyCmp(..); v == 0` not found")
		}
		as, ok := is.Init.(*ast.AssignStmt)
		if !ok || len(as.Rhs) != 1 || !strings.HasPrefix(str(as.Rhs[0]), "keyCmp(thisItem.Bytes(), thatItem.Bytes())") {
			die("newInsertCompare: unexpected init `%s`", str(is.Init))
		}
		if len(is.Body.List) != 1 {
			die("newInsertCompare: unexpected body")
		}
		bs, ok := is.Body.List[0].(*ast.AssignStmt)
		if !ok || str(bs.Lhs[0]) != "v" {
			die("newInsertCompare: unexpected body")
		}
		e := env{"v": "keyCmp", "thisItem.bornSn": "thisBornSn", "thatItem.bornSn": "thatBornSn", "thisItem.deadSn": "thisDeadSn", "thatItem.deadSn": "thatDeadSn"}
		if str(lastReturn(fl, "newInsertCompare")) != "v" {
			die("newInsertCompare: does not return v")
		}
		emit("-- nitro.go newInsertCompare : v = keyCmp(..); if <cond> { v = <expr> }; return v")
		emit("def insertCompare (keyCmp : Int) (thisBornSn thatBornSn : Nat) : Int :=\n  if %s then %s else keyCmp\n", tr(is.Cond, e, "newInsertCompare"), tr(bs.Rhs[0], e, "newInsertCompare"))

		fl = funcLit(fn("nitro.go", "", "newIterCompare"))
		e2 := env{"keyCmp(thisItem.Bytes(), thatItem.Bytes())": "keyCmp"}
		emit("-- nitro.go newIterCompare")
		emit("def iterCompare (keyCmp : Int) : Int :=\n  %s\n", tr(lastReturn(fl, "newIterCompare"), e2, "newIterCompare"))

		fl = funcLit(fn("nitro.go", "", "newExistCompare"))
		s := ifs(fl)
		if len(s) != 1 || len(s[0].Body.List) != 1 {
			die("newExistCompare: expected one guard")
		}
		rs, ok := s[0].Body.List[0].(*ast.ReturnStmt)
		if !ok {
			die("newExistCompare: guard does not return")
		}
		e3 := env{"keyCmp(thisItem.Bytes(), thatItem.Bytes())": "keyCmp", "thisItem.deadSn": "thisDeadSn", "thatItem.deadSn": "thatDeadSn"}
		emit("-- nitro.go newExistCompare : if <cond> { return <k> }; return keyCmp(..)")
		emit("def existCompare (keyCmp : Int) (thisDeadSn thatDeadSn : Nat) : Int :=\n  if %s then %s else %s\n", tr(s[0].Cond, e3, "newExistCompare"), tr(rs.Results[0], e3, "newExistCompare"), tr(lastReturn(fl, "newExistCompare"), e3, "newExistCompare"))

		f := fn("nitro.go", "", "CompareSnapshot")
		emit("-- nitro.go CompareSnapshot")
		emit("def compareSnapshot (thisSn thatSn : Nat) : Int :=\n  %s\n", tr(lastReturn(f, "CompareSnapshot"), env{"thisItem.sn": "thisSn", "thatItem.sn": "thatSn"}, "CompareSnapshot"))
	}
	// ---- nitro.go writer
	{
		f := fn("nitro.go", "*Writer", "doDeltaWrite")
		s := ifWith(f, `bornSn`, "doDeltaWrite")
		emit("-- nitro.go (*Writer).doDeltaWrite : which versions are logged to the delta file")
		emit("def deltaVisible (bornSn deadSn sn : Nat) : Bool :=\n  %s\n", tr(s.Cond, env{"itm.bornSn": "bornSn", "itm.deadSn": "deadSn", "ctx.sn": "sn"}, "doDeltaWrite"))
		f = fn("nitro.go", "*Writer", "DeleteNode")
		s = ifWith(f, `bornSn`, "DeleteNode")
		emit("-- nitro.go (*Writer).DeleteNode : same-epoch test (physical delete instead of deadSn)")
		emit("def sameEpoch (bornSn sn : Nat) : Bool :=\n  %s\n", tr(s.Cond, env{"gotItem.bornSn": "bornSn", "sn": "sn"}, "DeleteNode"))
		emit("def skeleton_DeleteNode : List String := %s\n", skeleton(f))
		emit("def skeleton_Delete2 : List String := %s\n", skeleton(fn("nitro.go", "*Writer", "Delete2")))
		emit("def skeleton_Put2 : List String := %s\n", skeleton(fn("nitro.go", "*Writer", "Put2")))
	}
	// ---- nitro.go snapshots / gc
	{
		f := fn("nitro.go", "*Nitro", "collectDead")
		s := ifWith(f, `GetLastGCSn`, "collectDead")
		emit("-- nitro.go (*Nitro).collectDead : stop condition of the in-order collection")
		emit("def gcStop (sn lastGCSn : Nat) : Bool :=\n  %s\n", tr(s.Cond, env{"sn.sn": "sn", "m.GetLastGCSn()": "lastGCSn"}, "collectDead"))
		emit("def skeleton_collectDead : List String := %s\n", skeleton(f))
		emit("def skeleton_GC : List String := %s\n", skeleton(fn("nitro.go", "*Nitro", "GC")))
		emit("-- nitro.go (*Nitro).hasCollectableSnapshot : the head of the retired list is next in order")
		emit("def collectableHead (sn lastGCSn : Nat) : Bool :=\n  %s\n", tr(lastReturn(fn("nitro.go", "*Nitro", "hasCollectableSnapshot"), "hasCollectableSnapshot"), env{"sn.sn": "sn", "m.GetLastGCSn()": "lastGCSn"}, "hasCollectableSnapshot"))
		f = fn("nitro.go", "*Snapshot", "Open")
		s = ifWith(f, `rc`, "Snapshot.Open")
		emit("-- nitro.go (*Snapshot).Open : refuse when the observed count satisfies this")
		emit("def openRefuse (rc : Int) : Bool :=\n  %s\n", tr(s.Cond, env{"rc": "rc"}, "Snapshot.Open"))
		emit("def skeleton_Open : List String := %s\n", skeleton(f))
		f = fn("nitro.go", "*Snapshot", "Close")
		s = ifWith(f, `newRefcount`, "Snapshot.Close")
		emit("-- nitro.go (*Snapshot).Close : retire when the decremented count satisfies this")
		emit("def closeRetire (newRefcount : Int) : Bool :=\n  %s\n", tr(s.Cond, env{"newRefcount": "newRefcount"}, "Snapshot.Close"))
		emit("def skeleton_Close : List String := %s\n", skeleton(f))
		emit("def skeleton_NewSnapshot : List String := %s\n", skeleton(fn("nitro.go", "*Nitro", "NewSnapshot")))
		emit("def skeleton_collectionWorker : List String := %s\n", skeleton(fn("nitro.go", "*Nitro", "collectionWorker")))
		emit("def skeleton_freeWorker : List String := %s\n", skeleton(fn("nitro.go", "*Nitro", "freeWorker")))
		emit("def skeleton_NitroClose : List String := %s\n", skeleton(fn("nitro.go", "*Nitro", "Close")))
	}
	// ---- nitro.go Visitor
	{
		f := fn("nitro.go", "*Nitro", "Visitor")
		s := ifWith(f, `prevItm == nil`, "Visitor")
		b, ok := s.Cond.(*ast.BinaryExpr)
		if !ok || b.Op != token.LOR || str(b.X) != "prevItm == nil" {
			die("Visitor: pivot filter shape changed: `%s`", str(s.Cond))
		}
		cb, ok := b.Y.(*ast.BinaryExpr)
		if !ok {
			die("Visitor: pivot filter shape changed")
		}
		cc, ok := cb.X.(*ast.CallExpr)
		if !ok || !regexp.MustCompile(`^unsafe\.Pointer\(itm\), unsafe\.Pointer\(prevItm\)$`).MatchString(str(cc.Args[0])+", "+str(cc.Args[1])) {
			die("Visitor: pivot filter arguments changed: `%s`", str(cb.X))
		}
		emit("-- nitro.go (*Nitro).Visitor : comparator and test of the pivot filter")
		emit("def visitorPivotCmp : CmpKind := %s", cmpKind(cc, "Visitor"))
		emit("def visitorPivotKeep (c : Int) : Bool :=\n  %s\n", tr(cb, env{str(cc): "c"}, "Visitor"))
		s = ifWith(f, `endItem != nil`, "Visitor")
		b, ok = s.Cond.(*ast.BinaryExpr)
		if !ok || b.Op != token.LAND || str(b.X) != "endItem != nil" {
			die("Visitor: end-of-shard test shape changed: `%s`", str(s.Cond))
		}
		cb, ok = b.Y.(*ast.BinaryExpr)
		if !ok {
			die("Visitor: end-of-shard test shape changed")
		}
		cc, ok = cb.X.(*ast.CallExpr)
		if !ok || str(cc.Args[0]) != "itr.GetNode().Item()" || str(cc.Args[1]) != "unsafe.Pointer(endItem)" {
			die("Visitor: end-of-shard test arguments changed: `%s`", str(cb.X))
		}
		emit("-- nitro.go (*Nitro).Visitor : comparator and test of the end-of-shard check")
		emit("def visitorEndCmp : CmpKind := %s", cmpKind(cc, "Visitor"))
		emit("def visitorEndStop (c : Int) : Bool :=\n  %s\n", tr(cb, env{str(cc): "c"}, "Visitor"))
		emit("def skeleton_Visitor : List String := %s\n", skeletonWith(f, `.*\.ptrToItem$|.*\.GetRangeSplitItems$|.*\.Seek$|.*\.SeekFirst$`))
		// termination of the dispatcher: the work channel must hold every shard index without a receiver
		// (a worker that hits a callback error stops receiving)
		var chanCap, loopBound string
		ast.Inspect(f, func(x ast.Node) bool {
			if a, ok := x.(*ast.AssignStmt); ok && len(a.Lhs) == 1 && str(a.Lhs[0]) == "wch" {
				if c, ok := a.Rhs[0].(*ast.CallExpr); ok && str(c.Fun) == "make" && len(c.Args) == 2 {
					chanCap = str(c.Args[1])
				}
			}
			if fs, ok := x.(*ast.ForStmt); ok && fs.Cond != nil && strings.HasPrefix(str(fs.Cond), "shard < ") {
				loopBound = strings.TrimPrefix(str(fs.Cond), "shard < ")
			}
			return true
		})
		if chanCap == "" || loopBound == "" {
			die("Visitor: work channel or dispatch loop not found")
		}
		emit("-- nitro.go (*Nitro).Visitor : capacity of the work channel and number of shard indexes sent into it")
		emit("def visitorChanCap : String := %q", chanCap)
		emit("def visitorDispatchBound : String := %q\n", loopBound)
	}
	// ---- nitro.go backup
	{
		f := fn("nitro.go", "*Nitro", "LoadFromDisk")
		s := ifWith(f, `rdr\.Checksum\(\)`, "LoadFromDisk")
		emit("-- nitro.go (*Nitro).LoadFromDisk : a data shard is rejected when")
		emit("def checksumMismatch (hasChecksums : Bool) (stored actual : Nat) : Bool :=\n  %s\n", tr(s.Cond, env{"hasChecksums": "hasChecksums", "checksums[i]": "stored", "rdr.Checksum()": "actual"}, "LoadFromDisk"))
		r := regexp.MustCompile(`deltaChecksums`)
		var ds *ast.IfStmt
		for _, x := range ifs(f) {
			if r.MatchString(str(x.Cond)) && strings.Contains(str(x.Cond), "Checksum()") {
				ds = x
			}
		}
		if ds == nil {
			die("LoadFromDisk: delta checksum test not found")
		}
		emit("-- nitro.go (*Nitro).LoadFromDisk : a delta shard is rejected when")
		emit("def deltaChecksumMismatch (hasChecksums : Bool) (stored actual : Nat) : Bool :=\n  %s\n", tr(ds.Cond, env{"hasDeltaChecksums": "hasChecksums", "deltaChecksums[i]": "stored", "rdr.Checksum()": "actual"}, "LoadFromDisk"))
		emit("def skeleton_LoadFromDisk : List String := %s\n", skeleton(f))
		emit("def skeleton_StoreToDisk : List String := %s\n", skeleton(fn("nitro.go", "*Nitro", "StoreToDisk")))
		emit("def skeleton_rawFileWriterClose : List String := %s\n", skeleton(fn("file.go", "*rawFileWriter", "Close")))
	}
	// ---- item.go framing
	{
		f := fn("item.go", "*Nitro", "EncodeItem")
		c := callWith(f, `binary\.(Big|Little)Endian\.PutUint32`, "EncodeItem")
		emit("-- item.go EncodeItem / DecodeItem : framing")
		emit("def encodeBigEndian : Bool := %v", strings.Contains(str(c.Fun), "BigEndian"))
		w := sliceWidth(c.Args[0], "EncodeItem")
		emit("def encodeLenWidth : Nat := %s", w)
		f = fn("item.go", "*Nitro", "DecodeItem")
		vs := ifWith(f, `ver == 0`, "DecodeItem")
		c0 := callWith(vs.Body, `io\.ReadFull`, "DecodeItem v0")
		c1 := callWith(vs.Else, `io\.ReadFull`, "DecodeItem v1")
		d0 := callWith(vs.Body, `binary\.(Big|Little)Endian\.Uint16`, "DecodeItem v0")
		d1 := callWith(vs.Else, `binary\.(Big|Little)Endian\.Uint32`, "DecodeItem v1")
		emit("def decodeBigEndian : Bool := %v", strings.Contains(str(d0.Fun), "BigEndian") && strings.Contains(str(d1.Fun), "BigEndian"))
		emit("def decodeLenWidthV0 : Nat := %s", sliceWidth(c0.Args[1], "DecodeItem"))
		emit("def decodeLenWidthV1 : Nat := %s", sliceWidth(c1.Args[1], "DecodeItem"))
		s := ifWith(f, `^l `, "DecodeItem")
		emit("-- item.go DecodeItem : an item follows the length (otherwise: terminator)")
		emit("def decodeHasItem (l : Nat) : Bool :=\n  %s\n", tr(s.Cond, env{"l": "l"}, "DecodeItem"))
		f = fn("item.go", "", "KVToBytes")
		c = callWith(f, `binary\.(Big|Little)Endian\.PutUint16`, "KVToBytes")
		emit("-- item.go KVToBytes / KVFromBytes / CompareKV : key length prefix")
		emit("def kvLittleEndian : Bool := %v", strings.Contains(str(c.Fun), "LittleEndian") &&
			strings.Contains(str(callWith(fn("item.go", "", "KVFromBytes"), `binary\..*Uint16`, "KVFromBytes").Fun), "LittleEndian") &&
			strings.Contains(str(callWith(fn("item.go", "", "CompareKV"), `binary\..*Uint16`, "CompareKV").Fun), "LittleEndian"))
		emit("def kvLenWidth : Nat := %s\n", sliceWidth(c.Args[0], "KVToBytes"))
	}
	// ---- access barrier
	{
		var spec *ast.ValueSpec
		ast.Inspect(file("skiplist/access_barrier.go"), func(x ast.Node) bool {
			if v, ok := x.(*ast.ValueSpec); ok && len(v.Names) == 1 && v.Names[0].Name == "barrierFlushOffset" {
				spec = v
			}
			return true
		})
		if spec == nil || len(spec.Values) != 1 {
			die("barrierFlushOffset not found")
		}
		emit("-- skiplist/access_barrier.go")
		emit("def barrierFlushOffset : Int := %s", tr(spec.Values[0], env{}, "barrierFlushOffset"))
		f := fn("skiplist/access_barrier.go", "*AccessBarrier", "Acquire")
		s := ifWith(f, `liveCount`, "Acquire")
		emit("-- Acquire : back off when")
		emit("def acquireBackoff (liveCount : Int) : Bool :=\n  %s", tr(s.Cond, env{"liveCount": "liveCount"}, "Acquire"))
		emit("def skeleton_Acquire : List String := %s", skeleton(f))
		f = fn("skiplist/access_barrier.go", "*AccessBarrier", "Release")
		s = ifWith(f, `liveCount`, "Release")
		emit("-- Release : the caller is the last accessor of a flushed session when")
		emit("def releaseIsLast (liveCount : Int) : Bool :=\n  %s", tr(s.Cond, env{"liveCount": "liveCount"}, "Release"))
		es, ok := s.Else.(*ast.IfStmt)
		if !ok {
			die("Release: panic branch not found")
		}
		emit("-- Release : panic when")
		emit("def releasePanic (liveCount : Int) : Bool :=\n  %s", tr(es.Cond, env{"liveCount": "liveCount"}, "Release"))
		s = ifWith(f, `bs\.closed`, "Release")
		cb := s.Cond.(*ast.BinaryExpr)
		emit("-- Release : the first closer (value returned by the add on bs.closed)")
		emit("def closedFirst (v : Int) : Bool :=\n  %s", tr(cb, env{str(cb.X): "v"}, "Release"))
		emit("def skeleton_Release : List String := %s", skeleton(f))
		f = fn("skiplist/access_barrier.go", "*AccessBarrier", "doCleanup")
		s = ifWith(f, `seqno`, "doCleanup")
		emit("-- doCleanup : stop condition")
		emit("def cleanupStop (seqno freeSeqno : Nat) : Bool :=\n  %s", tr(s.Cond, env{"bs.seqno": "seqno", "atomic.LoadUint64(&ab.freeSeqno)": "freeSeqno", "ab.freeSeqno": "freeSeqno"}, "doCleanup"))
		emit("def skeleton_doCleanup : List String := %s", skeleton(f))
		f = fn("skiplist/access_barrier.go", "*AccessBarrier", "hasReadySession")
		emit("-- hasReadySession : ready condition")
		emit("def readyHead (seqno freeSeqno : Nat) : Bool :=\n  %s", tr(lastReturn(f, "hasReadySession"), env{"bs.seqno": "seqno", "atomic.LoadUint64(&ab.freeSeqno)": "freeSeqno"}, "hasReadySession"))
		f = fn("skiplist/access_barrier.go", "*AccessBarrier", "FlushSession")
		c := callWith(f, `atomic\.AddInt32`, "FlushSession")
		emit("-- FlushSession : amount added to the live count of the closed session")
		emit("def flushAdd : Int := %s", tr(c.Args[1], env{}, "FlushSession"))
		emit("def skeleton_FlushSession : List String := %s\n", skeleton(f))
	}
	// ---- skiplist
	{
		var spec *ast.ValueSpec
		ast.Inspect(file("skiplist/skiplist.go"), func(x ast.Node) bool {
			if v, ok := x.(*ast.ValueSpec); ok && len(v.Names) == 1 && v.Names[0].Name == "MaxLevel" {
				spec = v
			}
			return true
		})
		if spec == nil {
			die("MaxLevel not found")
		}
		emit("-- skiplist/skiplist.go")
		emit("def maxLevel : Nat := %s", tr(spec.Values[0], env{}, "MaxLevel"))
		f := fn("skiplist/skiplist.go", "*Skiplist", "findPath")
		s := ifWith(f, `^cmpVal <`, "findPath")
		emit("-- findPath : advance along the level when")
		emit("def findAdvance (cmpVal : Int) : Bool :=\n  %s", tr(s.Cond, env{"cmpVal": "cmpVal"}, "findPath"))
		s = ifWith(f, `^cmpVal ==`, "findPath")
		emit("-- findPath : found when")
		emit("def findFound (cmpVal : Int) : Bool :=\n  %s", tr(s.Cond, env{"cmpVal": "cmpVal"}, "findPath"))
		emit("def skeleton_findPath : List String := %s", skeleton(f))
		f = fn("skiplist/skiplist.go", "*Skiplist", "helpDelete")
		s = ifWith(f, `success`, "helpDelete")
		emit("-- helpDelete : the unlink is accounted in the statistics when")
		emit("def helpAccounts (success : Bool) (level : Nat) : Bool :=\n  %s", tr(s.Cond, env{"success": "success", "level": "level"}, "helpDelete"))
		f = fn("skiplist/skiplist.go", "*Skiplist", "softDelete")
		s = ifWith(f, `dcasNext`, "softDelete")
		cb := s.Cond.(*ast.BinaryExpr)
		emit("-- softDelete : the caller wins the delete when")
		emit("def softDeleteWins (swapped : Bool) (i : Nat) : Bool :=\n  %s", tr(cb, env{str(cb.X): "swapped", "i": "i"}, "softDelete"))
		emit("def skeleton_softDelete : List String := %s", skeleton(f))
		emit("def skeleton_deleteNode : List String := %s", skeleton(fn("skiplist/skiplist.go", "*Skiplist", "deleteNode")))
		emit("def skeleton_Insert4 : List String := %s", skeleton(fn("skiplist/skiplist.go", "*Skiplist", "Insert4")))
		f = fn("skiplist/skiplist.go", "*Skiplist", "NewLevel")
		s = ifWith(f, `nextLevel > MaxLevel`, "NewLevel")
		emit("-- NewLevel : clamp and bump")
		emit("def newLevelClamp (nextLevel : Nat) : Nat :=\n  if %s then maxLevel else nextLevel", tr(s.Cond, env{"nextLevel": "nextLevel"}, "NewLevel"))
		s = ifWith(f, `nextLevel > level`, "NewLevel")
		emit("def newLevelBump (nextLevel level : Nat) : Bool :=\n  %s", tr(s.Cond, env{"nextLevel": "nextLevel", "level": "level"}, "NewLevel"))
		emit("def skeleton_SkiplistIteratorNext : List String := %s", skeleton(fn("skiplist/iterator.go", "*Iterator", "Next")))
		emit("def skeleton_helpDelete : List String := %s", skeleton(fn("skiplist/skiplist.go", "*Skiplist", "helpDelete")))
		f = fn("skiplist/merger.go", "*MergeIterator", "SeekFirst")
		emit("-- merger.go : SeekFirst / Seek empty the heap first")
		emit("def mergeSeekFirstResets : Bool := %v", len(f.Body.List) > 0 && str2(f.Body.List[0]) == "mit.h = mit.h[:0]")
		f = fn("skiplist/merger.go", "*MergeIterator", "Seek")
		emit("def mergeSeekResets : Bool := %v\n", len(f.Body.List) > 1 && (str2(f.Body.List[0]) == "mit.h = mit.h[:0]" || str2(f.Body.List[1]) == "mit.h = mit.h[:0]"))
	}
	// ---- nodetable
	{
		emit("-- nodetable/table.go")
		for _, n := range []string{"ntNotFound", "ntFoundInFast", "ntFoundInSlow", "ntFoundMask"} {
			var spec *ast.ValueSpec
			ast.Inspect(file("nodetable/table.go"), func(x ast.Node) bool {
				if v, ok := x.(*ast.ValueSpec); ok && len(v.Names) == 1 && v.Names[0].Name == n {
					spec = v
				}
				return true
			})
			if spec == nil || len(spec.Values) != 1 {
				die("%s not found", n)
			}
			emit("def %s : Nat := %s", n, spec.Values[0].(*ast.BasicLit).Value)
		}
		f := fn("nodetable/table.go", "", "encodePointer")
		var sh *ast.BinaryExpr
		ast.Inspect(f, func(x ast.Node) bool {
			if b, ok := x.(*ast.BinaryExpr); ok && b.Op == token.SHL {
				sh = b
			}
			return true
		})
		if sh == nil || str(sh.X) != "1" {
			die("encodePointer: conflict bit not found")
		}
		emit("def ntConflictBit : Nat := %s", str(sh.Y))
		f = fn("nodetable/table.go", "*NodeTable", "Update")
		var as *ast.AssignStmt
		ast.Inspect(f, func(x ast.Node) bool {
			if a, ok := x.(*ast.AssignStmt); ok && len(a.Lhs) == 1 && str(a.Lhs[0]) == "newSlowValue" {
				as = a
			}
			return true
		})
		if as == nil {
			die("Update: newSlowValue not found")
		}
		e := env{"res.fastHTHasEntry": "fastHTHasEntry", "res.hasConflict": "hasConflict", "newSlowValue": "newSlowValue", "res.status": "status"}
		emit("-- Update : a new key goes to the slow table when")
		emit("def ntNewSlowValue (fastHTHasEntry hasConflict : Bool) : Bool :=\n  %s", tr(as.Rhs[0], e, "Update"))
		s := ifWith(f, `newSlowValue$`, "Update")
		emit("def ntInsertSlow (hasConflict newSlowValue : Bool) : Bool :=\n  %s", tr(s.Cond, e, "Update"))
		s = ifWith(f, `ntFoundMask`, "Update")
		emit("-- Get/Update/Remove : found test on the status word")
		emit("def ntIsFound (status : Nat) : Bool :=\n  %s\n", tr(s.Cond, e, "Update"))
		for _, n := range []string{"Get", "Remove"} {
			s2 := ifWith(fn("nodetable/table.go", "*NodeTable", n), `ntFoundMask`, n)
			if str(s2.Cond) != str(s.Cond) {
				die("%s: found test differs from Update's", n)
			}
		}
	}
	emit("end NitroVerif.Gen")
	fmt.Print(out.String())
}

func str2(s ast.Stmt) string {
	if a, ok := s.(*ast.AssignStmt); ok && len(a.Lhs) == 1 && len(a.Rhs) == 1 {
		return str(a.Lhs[0]) + " " + a.Tok.String() + " " + str(a.Rhs[0])
	}
	return ""
}

// sliceWidth: buf[0:N] -> N
func sliceWidth(x ast.Expr, where string) string {
	s, ok := x.(*ast.SliceExpr)
	if !ok || s.Low == nil || s.High == nil || str(s.Low) != "0" {
		die("%s: expected buf[0:N], got `%s`", where, str(x))
	}
	return str(s.High)
}
