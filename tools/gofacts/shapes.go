// shapes: a second, uniform tie. For every function a model mirrors, gofacts emits its *control shape*:
// in source order, the control statements (with the operators and integer literals of their conditions),
// the returns (with literal results), the branch statements, and the names of the functions called
// (last identifier only: receiver and variable names do not matter; logging and the inert verif
// instrumentation are left out). Renaming variables, re-wrapping lines, comments and log lines do not
// change a shape; a changed operator, bound, call, early return or loop does, and breaks the
// `shape_<f>_ok` lemma of the area the function belongs to (Lemmas/Shape<Area>.lean).
package main

import (
	"go/ast"
	"go/token"
	"sort"
	"strings"
)

var convNames = map[string]bool{"int": true, "int8": true, "int16": true, "int32": true, "int64": true, "uint": true, "uint8": true,
	"uint16": true, "uint32": true, "uint64": true, "uintptr": true, "string": true, "byte": true, "float64": true, "bool": true,
	"len": true, "cap": true, "append": true, "make": true, "new": true, "copy": true, "Pointer": true, "Sizeof": true,
	"verifYield": true, "Printf": true, "Println": true, "Sprintf": true, "Sprint": true, "Fprintf": true, "Errorf": true, "Debug": true}

func callName(x ast.Expr) string {
	switch t := x.(type) {
	case *ast.Ident:
		return t.Name
	case *ast.SelectorExpr:
		return t.Sel.Name
	case *ast.ParenExpr, *ast.StarExpr, *ast.ArrayType, *ast.FuncLit, *ast.MapType, *ast.ChanType, *ast.InterfaceType:
		return "" // conversion or literal function
	case *ast.IndexExpr:
		return callName(t.X)
	}
	return "?"
}

func condOps(x ast.Expr, out *[]string) {
	switch t := x.(type) {
	case nil:
	case *ast.ParenExpr:
		condOps(t.X, out)
	case *ast.BinaryExpr:
		condOps(t.X, out)
		*out = append(*out, t.Op.String())
		condOps(t.Y, out)
	case *ast.UnaryExpr:
		if t.Op == token.NOT || t.Op == token.SUB {
			*out = append(*out, t.Op.String())
		}
		condOps(t.X, out)
	case *ast.BasicLit:
		if t.Kind == token.INT {
			*out = append(*out, t.Value)
		}
	case *ast.Ident:
		if t.Name == "true" || t.Name == "false" || t.Name == "nil" {
			*out = append(*out, t.Name)
		}
	case *ast.CallExpr:
		for _, a := range t.Args {
			condOps(a, out)
		}
	}
}

func cond(x ast.Expr) string {
	var o []string
	condOps(x, &o)
	return strings.Join(o, " ")
}

func shape(fd *ast.FuncDecl) string {
	var ops []string
	add := func(s string) { ops = append(ops, s) }
	ast.Inspect(fd.Body, func(x ast.Node) bool {
		switch t := x.(type) {
		case *ast.IfStmt:
			if t.Else != nil {
				add("if-else(" + cond(t.Cond) + ")")
			} else {
				add("if(" + cond(t.Cond) + ")")
			}
		case *ast.ForStmt:
			add("for(" + cond(t.Cond) + ")")
		case *ast.RangeStmt:
			add("range")
		case *ast.SwitchStmt, *ast.TypeSwitchStmt:
			add("switch")
		case *ast.SelectStmt:
			add("select")
		case *ast.CaseClause:
			if t.List == nil {
				add("default")
			} else {
				var c []string
				for _, e := range t.List {
					c = append(c, cond(e))
				}
				add("case(" + strings.Join(c, ",") + ")")
			}
		case *ast.CommClause:
			add("comm")
		case *ast.ReturnStmt:
			var r []string
			for _, e := range t.Results {
				switch v := e.(type) {
				case *ast.Ident:
					if v.Name == "true" || v.Name == "false" || v.Name == "nil" {
						r = append(r, v.Name)
						continue
					}
				case *ast.BasicLit:
					r = append(r, v.Value)
					continue
				}
				r = append(r, "_")
			}
			add("return(" + strings.Join(r, ",") + ")")
		case *ast.BranchStmt:
			s := t.Tok.String()
			if t.Label != nil {
				s += " " + t.Label.Name
			}
			add(s)
		case *ast.LabeledStmt:
			add("label " + t.Label.Name)
		case *ast.DeferStmt:
			add("defer")
		case *ast.GoStmt:
			add("go")
		case *ast.SendStmt:
			add("send")
		case *ast.IncDecStmt:
			add(t.Tok.String())
		case *ast.CallExpr:
			n := callName(t.Fun)
			if n != "" && !convNames[n] {
				add(n)
			}
		}
		return true
	})
	q := make([]string, len(ops))
	for i, o := range ops {
		q[i] = `"` + strings.ReplaceAll(o, `"`, `'`) + `"`
	}
	return "[" + strings.Join(q, ", ") + "]"
}

type shapeFn struct{ file, recv, name, lean string }

// the functions the models mirror, by area (an area = one Lemmas/Shape<Area>.lean file)
var shapeAreas = map[string][]shapeFn{
	"Codec": {
		{"item.go", "*Nitro", "EncodeItem", ""}, {"item.go", "*Nitro", "DecodeItem", ""}, {"item.go", "*Item", "Bytes", "ItemBytes"},
		{"item.go", "", "ItemSize", ""}, {"item.go", "", "KVToBytes", ""}, {"item.go", "", "KVFromBytes", ""}, {"item.go", "", "CompareKV", ""},
		{"file.go", "*rawFileWriter", "Open", "WriterOpen"}, {"file.go", "*rawFileWriter", "WriteItem", ""},
		{"file.go", "*rawFileWriter", "Checksum", "WriterChecksum"}, {"file.go", "*rawFileWriter", "Close", "WriterClose"},
		{"file.go", "*rawFileReader", "Open", "ReaderOpen"}, {"file.go", "*rawFileReader", "ReadItem", ""},
		{"file.go", "*rawFileReader", "Checksum", "ReaderChecksum"}, {"file.go", "*rawFileReader", "Close", "ReaderClose"},
	},
	"Table": {
		{"nodetable/table.go", "*NodeTable", "Get", "TableGet"}, {"nodetable/table.go", "*NodeTable", "Update", "TableUpdate"},
		{"nodetable/table.go", "*NodeTable", "Remove", "TableRemove"}, {"nodetable/table.go", "*NodeTable", "find", "TableFind"},
		{"nodetable/table.go", "*NodeTable", "hasConflict", "TableHasConflict"}, {"nodetable/table.go", "*NodeTable", "isEqual", "TableIsEqual"},
		{"nodetable/table.go", "", "encodePointer", ""}, {"nodetable/table.go", "", "decodePointer", ""},
		{"nodelist.go", "*NodeList", "Add", "NodeListAdd"}, {"nodelist.go", "*NodeList", "Remove", "NodeListRemove"},
		{"nodelist.go", "*NodeList", "Keys", "NodeListKeys"},
	},
	"SkipSeq": {
		{"skiplist/builder.go", "*Segment", "Add", "SegmentAdd"}, {"skiplist/builder.go", "*Builder", "NewSegment", ""},
		{"skiplist/builder.go", "*Builder", "Assemble", ""},
		{"skiplist/merger.go", "nodeHeap", "Less", "HeapLess"}, {"skiplist/merger.go", "*nodeHeap", "Push", "HeapPush"},
		{"skiplist/merger.go", "*nodeHeap", "Pop", "HeapPop"}, {"skiplist/merger.go", "", "NewMergeIterator", ""},
		{"skiplist/merger.go", "*MergeIterator", "SeekFirst", "MergeSeekFirst"}, {"skiplist/merger.go", "*MergeIterator", "Valid", "MergeValid"},
		{"skiplist/merger.go", "*MergeIterator", "Next", "MergeNext"}, {"skiplist/merger.go", "*MergeIterator", "Seek", "MergeSeek"},
		{"skiplist/merger.go", "*MergeIterator", "GetNode", "MergeGetNode"},
		{"skiplist/skiplist.go", "*Skiplist", "NewLevel", ""}, {"skiplist/stats.go", "*Stats", "Merge", "StatsMerge"},
		{"skiplist/stats.go", "*StatsReport", "Apply", "StatsApply"},
	},
	"SkipConc": {
		{"skiplist/skiplist.go", "*Skiplist", "Lookup", ""}, {"skiplist/skiplist.go", "*Skiplist", "findPath", ""},
		{"skiplist/skiplist.go", "*Skiplist", "Insert", ""}, {"skiplist/skiplist.go", "*Skiplist", "Insert2", ""},
		{"skiplist/skiplist.go", "*Skiplist", "Insert3", ""}, {"skiplist/skiplist.go", "*Skiplist", "Insert4", ""},
		{"skiplist/skiplist.go", "*Skiplist", "softDelete", ""}, {"skiplist/skiplist.go", "*Skiplist", "Delete", ""},
		{"skiplist/skiplist.go", "*Skiplist", "DeleteNode", ""}, {"skiplist/skiplist.go", "*Skiplist", "DeleteNode2", ""},
		{"skiplist/skiplist.go", "*Skiplist", "deleteNode", "deleteNodeInner"}, {"skiplist/skiplist.go", "*Skiplist", "helpDelete", ""},
		{"skiplist/skiplist.go", "*Skiplist", "NewLevel", "NewLevelC"},
		{"skiplist/iterator.go", "*Skiplist", "NewIterator2", ""}, {"skiplist/iterator.go", "*Iterator", "SeekFirst", "SkipIterSeekFirst"},
		{"skiplist/iterator.go", "*Iterator", "SeekWithCmp", "SkipIterSeekWithCmp"}, {"skiplist/iterator.go", "*Iterator", "Seek", "SkipIterSeek"},
		{"skiplist/iterator.go", "*Iterator", "Valid", "SkipIterValid"}, {"skiplist/iterator.go", "*Iterator", "Next", "SkipIterNext"},
		{"skiplist/iterator.go", "*Iterator", "Refresh", "SkipIterRefresh"}, {"skiplist/iterator.go", "*Iterator", "Close", "SkipIterClose"},
		{"skiplist/iterator.go", "*Iterator", "Pause", "SkipIterPause"}, {"skiplist/iterator.go", "*Iterator", "Resume", "SkipIterResume"},
		{"skiplist/iterator.go", "*Iterator", "SetRefreshInterval", "SkipIterSetRefreshInterval"},
		{"skiplist/node_amd64.go", "*Node", "setNext", ""}, {"skiplist/node_amd64.go", "*Node", "getNext", ""},
		{"skiplist/node_amd64.go", "*Node", "dcasNext", ""}, {"skiplist/item.go", "", "compare", "itemCompare"},
		{"skiplist/skiplist.go", "", "NewWithConfig", "SkiplistNewWithConfig"}, {"skiplist/skiplist.go", "*Skiplist", "NewNode", ""},
		{"skiplist/skiplist.go", "*Skiplist", "FreeNode", ""}, {"skiplist/skiplist.go", "*Skiplist", "MakeBuf", ""},
		{"skiplist/node_alloc_amd64.go", "", "allocNode", ""}, {"skiplist/node_amd64.go", "*Node", "SetLink", ""},
		{"skiplist/node_amd64.go", "*Node", "GetLink", ""}, {"skiplist/node_amd64.go", "*Node", "GetNext", "NodeGetNext"},
		{"skiplist/node_amd64.go", "Node", "Size", "NodeSize"}, {"skiplist/node_amd64.go", "Node", "Level", "NodeLevel"},
		{"skiplist/stats.go", "*Skiplist", "GetStats", ""}, {"skiplist/stats.go", "*Skiplist", "MemoryInUse", "SkiplistMemoryInUse"},
	},
	"Barrier": {
		{"skiplist/access_barrier.go", "", "CompareBS", ""}, {"skiplist/access_barrier.go", "", "newBarrierSession", ""},
		{"skiplist/access_barrier.go", "*AccessBarrier", "doCleanup", ""}, {"skiplist/access_barrier.go", "*AccessBarrier", "hasReadySession", ""},
		{"skiplist/access_barrier.go", "*AccessBarrier", "Acquire", ""}, {"skiplist/access_barrier.go", "*AccessBarrier", "Release", ""},
		{"skiplist/access_barrier.go", "*AccessBarrier", "FlushSession", ""},
	},
	"Mvcc": {
		{"nitro.go", "*Writer", "Put", ""}, {"nitro.go", "*Writer", "Put2", ""}, {"nitro.go", "*Writer", "Delete", "WriterDelete"},
		{"nitro.go", "*Writer", "Delete2", ""}, {"nitro.go", "*Writer", "DeleteNode", "WriterDeleteNode"}, {"nitro.go", "*Writer", "GetNode", ""},
		{"nitro.go", "", "newInsertCompare", ""}, {"nitro.go", "", "newIterCompare", ""}, {"nitro.go", "", "newExistCompare", ""},
		{"nitro.go", "", "defaultKeyCmp", ""}, {"nitro.go", "", "CompareNitro", ""}, {"nitro.go", "", "CompareSnapshot", ""},
		{"nitro.go", "*Nitro", "NewSnapshot", ""}, {"nitro.go", "*Snapshot", "Open", "SnapshotOpen"}, {"nitro.go", "*Snapshot", "Close", "SnapshotClose"},
		{"nitro.go", "*Snapshot", "NewIterator", "SnapshotNewIterator"}, {"nitro.go", "*Nitro", "collectDead", ""}, {"nitro.go", "*Nitro", "GC", ""},
		{"nitro.go", "*Nitro", "hasCollectableSnapshot", ""}, {"nitro.go", "*Nitro", "collectionWorker", ""}, {"nitro.go", "*Nitro", "freeWorker", ""},
		{"nitro.go", "*Nitro", "newBSDestructor", ""}, {"nitro.go", "*Nitro", "ptrToItem", ""}, {"nitro.go", "*Nitro", "Close", "NitroClose"},
		{"nitro.go", "*Nitro", "newWriter", ""}, {"nitro.go", "*Nitro", "ItemsCount", ""},
		{"iterator.go", "*Iterator", "skipUnwanted", ""}, {"iterator.go", "*Iterator", "SeekFirst", "IterSeekFirst"}, {"iterator.go", "*Iterator", "Seek", "IterSeek"},
		{"iterator.go", "*Iterator", "Valid", "IterValid"}, {"iterator.go", "*Iterator", "Next", "IterNext"}, {"iterator.go", "*Iterator", "Refresh", "IterRefresh"},
		{"iterator.go", "*Iterator", "SetRefreshRate", "IterSetRefreshRate"}, {"iterator.go", "*Iterator", "Close", "IterClose"},
		{"iterator.go", "*Nitro", "NewIterator", "NitroNewIterator"},
		{"item.go", "*Nitro", "newItem", ""}, {"item.go", "*Nitro", "freeItem", ""}, {"item.go", "*Nitro", "allocItem", ""},
		{"nitro.go", "", "DefaultConfig", ""}, {"nitro.go", "*Config", "SetKeyComparator", ""}, {"nitro.go", "*Config", "UseMemoryMgmt", ""},
		{"nitro.go", "*Config", "UseDeltaInterleaving", ""}, {"nitro.go", "", "NewWithConfig", ""}, {"nitro.go", "*Nitro", "newStoreConfig", ""},
		{"nitro.go", "*Nitro", "initSizeFuns", ""}, {"nitro.go", "*Nitro", "NewWriter", ""}, {"nitro.go", "*Nitro", "GetSnapshots", ""},
	},
	"Visitor": {
		{"nitro.go", "*Nitro", "Visitor", ""}, {"skiplist/skiplist.go", "*Skiplist", "GetRangeSplitItems", ""},
	},
	"Backup": {
		{"nitro.go", "*Nitro", "StoreToDisk", ""}, {"nitro.go", "*Nitro", "LoadFromDisk", ""}, {"nitro.go", "*Writer", "doCheckpoint", ""},
		{"nitro.go", "*Writer", "doDeltaWrite", ""}, {"nitro.go", "*deltaWrContext", "Init", "deltaWrInit"},
		{"nitro.go", "*Nitro", "changeDeltaWrState", ""}, {"nitro.go", "*Nitro", "numWriters", ""},
		{"nitro.go", "*Snapshot", "Encode", "SnapshotEncode"}, {"nitro.go", "*Snapshot", "Decode", "SnapshotDecode"},
	},
}

func emitShapes() {
	emit("/-")
	emit("  GENERATED by tools/gofacts -shapes from /repo's working tree -- DO NOT EDIT BY HAND.")
	emit("  Control shape of every function a model mirrors (see tools/gofacts/shapes.go for what a shape is).")
	emit("-/")
	emit("namespace NitroVerif.Gen.Shape")
	var areas []string
	for a := range shapeAreas {
		areas = append(areas, a)
	}
	sort.Strings(areas)
	for _, a := range areas {
		emit("")
		emit("-- area %s", a)
		for _, s := range shapeAreas[a] {
			n := s.lean
			if n == "" {
				n = s.name
			}
			emit("-- %s %s.%s", s.file, s.recv, s.name)
			emit("def %s_%s : List String := %s", a, n, shape(fn(s.file, s.recv, s.name)))
		}
	}
	emit("")
	emit("end NitroVerif.Gen.Shape")
}

// emitShapeLemmas prints the pinned expectations (bootstrap of Lemmas/Shape<Area>.lean; kept by hand afterwards)
func emitShapeLemmas(area string) {
	emit("import NitroVerif.Gen.Shapes")
	emit("/-!")
	emit("  Pinned control shapes, area %s: the functions of /repo the models of this area mirror have, today, exactly", area)
	emit("  these shapes (tools/gofacts/shapes.go).  `Gen/Shapes.lean` is regenerated from the working tree on every run; a change")
	emit("  of an operator, bound, call, early return or loop in one of these functions breaks the lemma named after it.")
	emit("  Expectations are maintained by hand (bootstrap: `go run . -shape-lemmas %s`).", area)
	emit("-/")
	emit("namespace NitroVerif.ShapeTie.%s", area)
	emit("open NitroVerif.Gen.Shape")
	for _, s := range shapeAreas[area] {
		n := s.lean
		if n == "" {
			n = s.name
		}
		emit("")
		emit("/-- %s `%s.%s` -/", s.file, s.recv, s.name)
		emit("theorem shape_%s_ok : %s_%s =\n    %s := rfl", n, area, n, shape(fn(s.file, s.recv, s.name)))
	}
	emit("")
	emit("end NitroVerif.ShapeTie.%s", area)
}
