module gofacts

go 1.18
