#!/usr/bin/env python3
"""Run every registered quick check against every behaviour-preserving change under harmless/<n>/patch.diff (patch applied
   to /repo, undone straight afterwards) and record, per change, which checks stayed quiet, which reported a broken
   obligation only (`no-failing-input-found`: the tie noticed the rewrite, the search found no failing input) and which
   reported a concrete replay (that would be a FALSE ALARM of the correspondence and must be corrected)."""
import os, sys, json, subprocess, glob, concurrent.futures
V = os.path.dirname(os.path.dirname(os.path.abspath(__file__)))
PROPS = ['C%02d' % i for i in range(1, 21)]
only = sys.argv[1:]


def one(prop):
    p = subprocess.run(['python3', os.path.join(V, 'tools', 'check.py'), prop, '--tier', 'quick'], cwd=V, stdout=subprocess.PIPE,
                       stderr=subprocess.STDOUT, text=True, timeout=7200)
    vl = [l for l in p.stdout.splitlines() if l.startswith('VIOLATION')]
    concrete = [l for l in vl if 'no-failing-input-found' not in l]
    detail = None
    if concrete:
        try:
            r = json.load(open(concrete[0].split('replay=')[1].split()[0]))
            detail = {'kind': r.get('kind'), 'diff': r.get('diff'), 'script_tail': r.get('script', [])[-8:]}
        except Exception:
            pass
    elif vl:
        try:
            r = json.load(open(vl[0].split('replay=')[1].split()[0]))
            detail = {'broken_obligations': str(r.get('broken_obligations') or r.get('proof_errors'))[:600], 'broken_tie': str(r.get('broken_tie') or r.get('tie_errors'))[:300]}
        except Exception:
            pass
    return prop, ('concrete-replay' if concrete else 'obligation-only' if vl else 'quiet'), detail


for d in sorted(glob.glob(os.path.join(V, 'harmless', '*')), key=lambda x: int(os.path.basename(x)) if os.path.basename(x).isdigit() else 0):
    hid = os.path.basename(d)
    if only and hid not in only:
        continue
    patch = os.path.join(d, 'patch.diff')
    if not os.path.exists(patch):
        continue
    if subprocess.run(['git', '-C', '/repo', 'apply', '--check', patch]).returncode != 0:
        print(hid, 'does not apply')
        continue
    subprocess.check_call(['git', '-C', '/repo', 'apply', patch])
    res = {}
    try:
        with concurrent.futures.ThreadPoolExecutor(max_workers=int(os.environ.get('HARMLESS_JOBS', '5'))) as ex:
            for prop, r, detail in ex.map(one, PROPS):
                res[prop] = {'result': r, 'detail': detail}
    finally:
        subprocess.check_call(['git', '-C', '/repo', 'checkout', '--', '.'])
    json.dump(res, open(os.path.join(d, 'result.json'), 'w'), indent=1)
    print(hid, 'quiet=%d obligation-only=%s concrete=%s' % (
        sum(1 for v in res.values() if v['result'] == 'quiet'),
        [k for k, v in res.items() if v['result'] == 'obligation-only'],
        [k for k, v in res.items() if v['result'] == 'concrete-replay']), flush=True)
