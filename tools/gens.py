"""Seeded generators of operation scripts (one case = list of op lines). Every random choice comes from
the rng passed in, which check.py derives from VERIF_SEED."""


def hx(b):
    return b.hex() if b else '-'


def rand_bytes(rng, n):
    mode = rng.randrange(4)
    if mode == 0:
        return bytes(rng.randrange(256) for _ in range(n))
    if mode == 1:
        return bytes(rng.choice((0, 0, 0, 1, 2, 255)) for _ in range(n))
    if mode == 2:
        return bytes(rng.choice(b'abkz') for _ in range(n))
    return bytes([0, 0, 0, rng.randrange(4)] * (n // 4 + 1))[:n]


def rand_len(rng, tier):
    r = rng.random()
    if r < 0.6:
        return rng.randrange(1, 12)
    if r < 0.9:
        return rng.randrange(1, 300)
    if r < 0.97:
        return rng.choice((255, 256, 257, 4095, 4096))
    if tier == 'thorough' and r < 0.995:
        return rng.choice((65535, 65536, 65537, 70000))
    return rng.randrange(300, 2000)


def frame(items, w):
    out = b''
    for it in items + [b'']:
        out += len(it).to_bytes(w, 'big') + it
    return out


def gen_codec(rng, tier):
    """items -> write -> read back (whole, proper prefixes, trailing garbage), v0 framing, kv, compare."""
    lines = []
    n = rng.choice((0, 1, 1, 2, 3, 5, 8))
    items = [rand_bytes(rng, rand_len(rng, tier)) for _ in range(n)]
    for it in items:
        lines.append('item ' + hx(it))
    lines.append('write')
    f1 = frame(items, 4)
    lines.append('read ver=1 ' + hx(f1))
    if len(f1) > 1:
        cut = rng.randrange(0, len(f1))
        lines.append('read ver=1 ' + hx(f1[:cut]))
    lines.append('read ver=1 ' + hx(f1 + rand_bytes(rng, rng.randrange(0, 6))))
    if all(len(i) < 65536 for i in items):
        lines.append('writev0')
        f0 = frame(items, 2)
        lines.append('read ver=0 ' + hx(f0))
        if len(f0) > 1:
            lines.append('read ver=0 ' + hx(f0[:rng.randrange(0, len(f0))]))
    # a malformed stream
    mal = bytearray(rand_bytes(rng, rng.randrange(0, 40)))
    ver = rng.randrange(2)
    if ver == 1 and len(mal) >= 2:
        # keep the first length prefix below 2^20: the real reader allocates whatever the prefix says
        # (a 2 GB allocation per case is legal but takes seconds)
        mal[0] = 0
        mal[1] &= 0x0f
    lines.append('read ver=%d %s' % (ver, hx(bytes(mal))))
    # kv
    for _ in range(2):
        k = rand_bytes(rng, rng.choice((0, 1, 2, 3, 8, 255, 256, 300)))
        v = rand_bytes(rng, rng.randrange(0, 10))
        lines.append('kv %s %s' % (hx(k), hx(v)))
        k2 = rand_bytes(rng, rng.choice((0, 1, 2, 3, 8))) if rng.random() < 0.7 else k
        if rng.random() < 0.3:
            k2 = k + rand_bytes(rng, 1)
        a = len(k).to_bytes(2, 'little') + k + v
        b = len(k2).to_bytes(2, 'little') + k2 + rand_bytes(rng, rng.randrange(0, 4))
        lines.append('cmpkv %s %s' % (hx(a), hx(b)))
        lines.append('cmp %s %s' % (hx(k), hx(k2)))
    lines.append('crc ' + hx(rand_bytes(rng, rng.randrange(0, 30))))
    return lines
