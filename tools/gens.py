"""Seeded generators of operation scripts (one case = list of op lines). Every random choice comes from
the rng passed in, which check.py derives from VERIF_SEED."""


def hx(b):
    return b.hex() if b else '-'


def rand_bytes(rng, n):
    mode = rng.randrange(4)
    if mode == 0:
        return bytes(rng.randrange(256) for _ in range(n))
    if mode == 1:
        return bytes(rng.choice((0, 0, 0, 1, 2, 255)) for _ in range(n))
    if mode == 2:
        return bytes(rng.choice(b'abkz') for _ in range(n))
    return bytes([0, 0, 0, rng.randrange(4)] * (n // 4 + 1))[:n]


def rand_len(rng, tier):
    r = rng.random()
    if r < 0.6:
        return rng.randrange(1, 12)
    if r < 0.9:
        return rng.randrange(1, 300)
    if r < 0.97:
        return rng.choice((255, 256, 257, 4095, 4096))
    if r < 0.985 or (tier == 'thorough' and r < 0.995):
        return rng.choice((65535, 65536, 65537, 70000))
    return rng.randrange(300, 2000)


def frame(items, w):
    out = b''
    for it in items + [b'']:
        out += len(it).to_bytes(w, 'big') + it
    return out


def gen_codec(rng, tier):
    """items -> write -> read back (whole, proper prefixes, trailing garbage), v0 framing, kv, compare."""
    lines = []
    n = rng.choice((0, 1, 1, 2, 3, 5, 8))
    items = [rand_bytes(rng, rand_len(rng, tier)) for _ in range(n)]
    for it in items:
        lines.append('item ' + hx(it))
    lines.append('write')
    f1 = frame(items, 4)
    lines.append('read ver=1 ' + hx(f1))
    if len(f1) > 1:
        cut = rng.randrange(0, len(f1))
        lines.append('read ver=1 ' + hx(f1[:cut]))
    lines.append('read ver=1 ' + hx(f1 + rand_bytes(rng, rng.randrange(0, 6))))
    if all(len(i) < 65536 for i in items):
        lines.append('writev0')
        f0 = frame(items, 2)
        lines.append('read ver=0 ' + hx(f0))
        if len(f0) > 1:
            lines.append('read ver=0 ' + hx(f0[:rng.randrange(0, len(f0))]))
    # a malformed stream
    mal = bytearray(rand_bytes(rng, rng.randrange(0, 40)))
    ver = rng.randrange(2)
    if ver == 1 and len(mal) >= 2:
        # keep the first length prefix below 2^20: the real reader allocates whatever the prefix says
        # (a 2 GB allocation per case is legal but takes seconds)
        mal[0] = 0
        mal[1] &= 0x0f
    lines.append('read ver=%d %s' % (ver, hx(bytes(mal))))
    # kv
    for _ in range(2):
        k = rand_bytes(rng, rng.choice((0, 1, 2, 3, 8, 255, 256, 300)))
        v = rand_bytes(rng, rng.randrange(0, 10))
        lines.append('kv %s %s' % (hx(k), hx(v)))
        k2 = rand_bytes(rng, rng.choice((0, 1, 2, 3, 8))) if rng.random() < 0.7 else k
        if rng.random() < 0.3:
            k2 = k + rand_bytes(rng, 1)
        a = len(k).to_bytes(2, 'little') + k + v
        b = len(k2).to_bytes(2, 'little') + k2 + rand_bytes(rng, rng.randrange(0, 4))
        lines.append('cmpkv %s %s' % (hx(a), hx(b)))
        lines.append('cmp %s %s' % (hx(k), hx(k2)))
    lines.append('crc ' + hx(rand_bytes(rng, rng.randrange(0, 30))))
    return lines


def gen_codec_parallel(rng, tier):
    """several writers, then several readers, of ONE instance working at the same time on their own files (what
       StoreToDisk/LoadFromDisk do with concurrency > 1): every file round-trips with matching checksums"""
    return ['pwrite w=%d n=%d seed=%d' % (rng.choice((2, 4, 8)), rng.choice((500, 2000, 4000)), rng.randrange(1 << 30))
            for _ in range(2)]


# ------------------------------------------------------------------------------------------------
# node table / node list (C20)
# ------------------------------------------------------------------------------------------------

def gen_table(rng, tier):
    lines = ['hash ' + rng.choice(('const', 'mod2', 'mod3', 'mod7', 'id'))]
    nkeys = rng.choice((2, 3, 4, 6, 10))
    nptr = 0
    ptr_key = {}
    n = rng.randrange(5, 60 if tier == 'quick' else 200)
    for _ in range(n):
        r = rng.random()
        k = rng.randrange(nkeys)
        if r < 0.45:
            if ptr_key and rng.random() < 0.2:
                p = rng.choice([p for p in ptr_key])       # re-use an old pointer (maybe wrong key -> bad-op)
                k = ptr_key[p] if rng.random() < 0.9 else k
            else:
                nptr += 1
                p = nptr
                ptr_key[p] = k
                lines.append('ptr %d %d' % (p, k))
            lines.append('update %d %d' % (k, p))
        elif r < 0.7:
            lines.append('remove %d' % k)
        elif r < 0.9:
            lines.append('get %d' % k)
        elif r < 0.95:
            lines.append('count')
        else:
            lines.append('stats')
    lines += ['count', 'stats'] + ['get %d' % k for k in range(nkeys)]
    return lines


def gen_nodelist(rng, tier):
    lines = []
    keys = [rand_bytes(rng, rng.randrange(0, 4)) for _ in range(rng.choice((1, 2, 3, 5)))]
    nid = 0
    keyof = {}
    for _ in range(rng.randrange(3, 40)):
        r = rng.random()
        if r < 0.12 and keyof:
            # add a node again (maybe one that was removed meanwhile; if it is still in the list: bad-op on both sides)
            i = rng.choice(sorted(keyof))
            lines.append('add %d %s' % (i, hx(keyof[i])))
        elif r < 0.5:
            nid += 1
            keyof[nid] = rng.choice(keys)
            lines.append('add %d %s' % (nid, hx(keyof[nid])))
        elif r < 0.8:
            k = rng.choice(keys) if rng.random() < 0.9 else rand_bytes(rng, 2)
            lines.append('remove ' + hx(k))
        elif r < 0.9:
            lines.append('keys')
        else:
            lines.append('head')
    lines += ['keys', 'head']
    return lines


# ------------------------------------------------------------------------------------------------
# MVCC sequential histories (C01 C02 C06 C09 C10, also C05/C07 through store/load/shutdown)
# ------------------------------------------------------------------------------------------------

class MvccSim:
    """Tracks just enough of the set semantics to keep the script legal and interesting."""

    def __init__(self, rng, tier, focus=None, mem=None, cmp=None):
        self.rng = rng
        self.cmp = cmp or rng.choice(('plain', 'kv', 'plainv'))
        self.kv = self.cmp == 'kv'
        self.mm = (mem or rng.choice(('go', 'go', 'mm'))) == 'mm'
        self.nw = rng.choice((1, 1, 2, 3, 4))
        self.nkeys = rng.choice((1, 2, 3, 5, 8, 8, 20))
        self.live = {}        # key -> born epoch
        self.epoch = 1
        self.refs = []        # refs per snapshot
        self.iters = {}       # name -> snapshot index
        self.handles = {}     # name -> (key, epoch taken)
        self.nit = 0
        self.nh = 0
        self.lines = ['cfg cmp=%s mem=%s writers=%d' % (self.cmp, 'mm' if self.mm else 'go', self.nw)]
        if rng.random() < 0.3:
            # the application chains its live nodes through Node.link (nitro.NodeList); the model is not concerned
            self.lines[0] += ' links=1'
        self.focus = focus

    def w(self):
        return self.rng.randrange(self.nw)

    def key(self):
        return self.rng.randrange(self.nkeys) * 3 + 1      # gaps so that seeks can miss

    def anykey(self):
        return self.rng.randrange(self.nkeys * 3 + 3)

    def open_snaps(self):
        return [i for i, r in enumerate(self.refs) if r > 0]

    def op(self):
        rng = self.rng
        r = rng.random()
        L = self.lines
        f = self.focus
        if r < 0.30:
            k = self.key()
            L.append('put %d %d %d' % (self.w(), k, rng.randrange(3) if self.kv else 0))
            if k not in self.live:
                self.live[k] = self.epoch
        elif r < 0.50:
            k = self.key()
            L.append('del %d %d' % (self.w(), k))
            self.live.pop(k, None)
        elif r < 0.56:
            L.append('get %d %d' % (self.w(), self.key()))
        elif r < 0.62:
            k = self.key()
            self.nh += 1
            h = 'h%d' % self.nh
            wr = self.w()
            L.append('getnode %d %d %s' % (wr, k, h))
            if k in self.live:
                if self.mm or rng.random() < 0.6:
                    L.append('delnode %d %s' % (self.w(), h))
                    del self.live[k]
                    if not self.mm and rng.random() < 0.3:
                        L.append('delnode %d %s' % (self.w(), h))     # the loser of a double delete
                else:
                    self.handles[h] = k
        elif r < 0.635 and not self.mm and len(self.live) >= 2:
            # a stale handle loses against deletes of the same key and of further keys (the loser must not
            # disturb the winner's garbage list): handle on k1, delete k1, k2.., then DeleteNode(handle)
            ks = rng.sample(sorted(self.live), min(len(self.live), rng.choice((2, 3))))
            self.nh += 1
            h = 'h%d' % self.nh
            L.append('getnode %d %d %s' % (self.w(), ks[0], h))
            w1 = self.w()
            for k in ks:
                L.append('del %d %d' % (w1, k))
                self.live.pop(k, None)
            L.append('delnode %d %s' % (self.w(), h))
        elif r < 0.65 and self.handles and not self.mm:
            h = rng.choice(sorted(self.handles))
            k = self.handles.pop(h)
            L.append('delnode %d %s' % (self.w(), h))
            self.live.pop(k, None)
        elif r < 0.75:
            L.append('snap')
            self.refs.append(1)
            self.epoch += 1
            self.handles = {}
            if rng.random() < 0.5:
                L.append('items')
        elif r < 0.80:
            o = self.open_snaps()
            if o or self.refs:
                s = rng.choice(o) if o and rng.random() < 0.9 else rng.randrange(len(self.refs))
                L.append('open %d' % (s + 1))
                if self.refs[s] > 0:
                    self.refs[s] += 1
        elif r < 0.88:
            o = [i for i in self.open_snaps() if self.refs[i] > sum(1 for v in self.iters.values() if v == i)]
            if o:
                s = rng.choice(o)
                L.append('close %d' % (s + 1))
                self.refs[s] -= 1
                if rng.random() < 0.3:
                    L.append('gcwait')
        elif r < 0.93:
            if self.refs:
                o = self.open_snaps()
                s = rng.choice(o) if o and rng.random() < 0.9 else rng.randrange(len(self.refs))
                L.append('scan %d' % (s + 1))
                if rng.random() < 0.3:
                    L.append('count %d' % (s + 1))
        elif r < 0.97:
            self.iter_ops()
        elif r < 0.99:
            o = self.open_snaps()
            if o:
                s = rng.choice(o)
                L.append('visit %d shards=%d conc=%d' % (s + 1, rng.choice((1, 2, 3, 4, 7, 16, 40)), rng.choice((1, 2, 3, 8))))
        else:
            L.append('gcwait')

    def iter_ops(self):
        rng = self.rng
        L = self.lines
        o = self.open_snaps()
        if not o:
            return
        s = rng.choice(o)
        self.nit += 1
        name = 'i%d' % self.nit
        L.append('it_new %s %d' % (name, s + 1))
        self.refs[s] += 1
        self.iters[name] = s
        if rng.random() < 0.6:
            L.append('it_rate %s %d' % (name, rng.choice((0, 1, 1, 2, 3, 5))))
        L.append(rng.choice(['it_first %s' % name, 'it_seek %s %d' % (name, self.anykey())]))
        for _ in range(rng.randrange(0, 12)):
            q = rng.random()
            if q < 0.6:
                L.append('it_next %s' % name)
            elif q < 0.75:
                L.append('it_refresh %s' % name)
            elif q < 0.85:
                L.append('it_seek %s %d' % (name, self.anykey()))
            elif q < 0.9:
                L.append('it_first %s' % name)
            else:
                # mutate underneath the open iterator
                k = self.key()
                if rng.random() < 0.5:
                    L.append('put %d %d %d' % (self.w(), k, rng.randrange(3) if self.kv else 0))
                    self.live.setdefault(k, self.epoch)
                else:
                    L.append('del %d %d' % (self.w(), k))
                    self.live.pop(k, None)
        if rng.random() < 0.8:
            L.append('it_close %s' % name)
            self.refs[s] -= 1
            del self.iters[name]

    def finish(self, shutdown=True):
        L = self.lines
        for name in sorted(self.iters):
            L.append('it_close %s' % name)
            self.refs[self.iters[name]] -= 1
        self.iters = {}
        if self.rng.random() < 0.7:
            L.append('snap')
            self.refs.append(1)
            L.append('scan %d' % len(self.refs))
        order = self.open_snaps()
        self.rng.shuffle(order)
        for s in order:
            while self.refs[s] > 0:
                L.append('close %d' % (s + 1))
                self.refs[s] -= 1
        L.append('gcwait')
        if shutdown:
            L.append('shutdown')
        return L


def gen_mvcc(rng, tier, **kw):
    sim = MvccSim(rng, tier, **kw)
    n = rng.randrange(5, 60 if tier == 'quick' else 300)
    for _ in range(n):
        sim.op()
    return sim.finish()


def gen_mvcc_mm(rng, tier):
    return gen_mvcc(rng, tier, mem='mm')


def gen_mvcc_iter(rng, tier):
    """iterator-heavy histories for C09: versions pile up on few keys, then many seeks/refreshes"""
    sim = MvccSim(rng, tier)
    sim.nkeys = rng.choice((1, 2, 3, 5))
    for _ in range(rng.randrange(5, 40)):
        r = rng.random()
        if r < 0.7:
            k = sim.key()
            if rng.random() < 0.55:
                sim.lines.append('put %d %d %d' % (sim.w(), k, rng.randrange(3) if sim.kv else 0))
            else:
                sim.lines.append('del %d %d' % (sim.w(), k))
        elif r < 0.9:
            sim.lines.append('snap')
            sim.refs.append(1)
        else:
            sim.iter_ops()
    if not sim.refs:
        sim.lines.append('snap')
        sim.refs.append(1)
    for _ in range(rng.randrange(1, 6)):
        sim.iter_ops()
    return sim.finish()


def gen_mvcc_visit(rng, tier):
    sim = MvccSim(rng, tier)
    sim.nkeys = rng.choice((1, 3, 8, 30, 100))
    for _ in range(rng.randrange(5, 80 if tier == 'quick' else 400)):
        r = rng.random()
        k = sim.key()
        if r < 0.55:
            sim.lines.append('put %d %d %d' % (sim.w(), k, rng.randrange(3) if sim.kv else 0))
        elif r < 0.85:
            sim.lines.append('del %d %d' % (sim.w(), k))
        else:
            sim.lines.append('snap')
            sim.refs.append(1)
    sim.lines.append('snap')
    sim.refs.append(1)
    if rng.random() < 0.4:
        # every key deleted and re-inserted after the snapshot: the structure (and so the pivots) is made of
        # versions the older snapshots cannot see
        for k in range(sim.nkeys):
            kk = k * 3 + 1
            sim.lines.append('del %d %d' % (sim.w(), kk))
            sim.lines.append('put %d %d %d' % (sim.w(), kk, rng.randrange(3) if sim.kv else 0))
        sim.lines.append('snap')
        sim.refs.append(1)
    for _ in range(rng.randrange(1, 5)):
        s = rng.choice(sim.open_snaps())
        line = 'visit %d shards=%d conc=%d' % (s + 1, rng.choice((1, 2, 3, 4, 7, 16, 40, 200)), rng.choice((1, 2, 3, 8)))
        if rng.random() < 0.2:
            line += ' failkey=%d' % sim.key()
        sim.lines.append(line)
        sim.lines.append('scan %d' % (s + 1))
    # the Visitor of an OLDER snapshot while a same-epoch delete sits between its mark and its unlink: several
    # fresh keys are inserted in the current epoch (spread over the key range) and deleted one by one in that gap
    o = sim.open_snaps()
    if o and rng.random() < 0.6:
        s = rng.choice(o)
        fresh = sorted(set(rng.randrange(sim.nkeys * 3 + 3) * 3 + 2 for _ in range(rng.randrange(1, 6))))
        for k in fresh:
            sim.lines.append('put 0 %d 0' % k)
        for k in fresh:
            sim.lines.append('visitgap %d shards=%d conc=%d delkey=%d%s' % (s + 1, rng.choice((2, 3, 7, 16, 33)), rng.choice((1, 2, 4)), k,
                                                                            ' mode=scan' if rng.random() < 0.5 else ''))
    return sim.finish()


# ------------------------------------------------------------------------------------------------
# access barrier: steered schedules, chosen interactively from the implementation's answers
# ------------------------------------------------------------------------------------------------

def gen_barrier(rng, tier, sess, nthreads=None, steps=None):
    n = nthreads or rng.choice((2, 3, 3, 4, 5))
    sess.send('threads %d' % n)
    busy = [False] * n          # a call is in progress
    point = [''] * n
    ntok = [0] * n
    mutex = -1
    nobj = 0
    stick = rng.random()        # probability to keep running the same thread
    last = 0
    budget = steps or rng.randrange(20, 150 if tier == 'quick' else 600)

    def handle(t, o):
        nonlocal mutex
        if o.startswith('at '):
            busy[t] = True
            point[t] = o[3:]
        elif o in ('ret', 'panic'):
            busy[t] = False
            point[t] = ''
            if mutex == t:
                mutex = -1

    def start(t, kind):
        nonlocal nobj
        if kind == 'acquire':
            o = sess.send('start %d acquire' % t)
            pending[t] = 'acquire'
        elif kind == 'release':
            i = rng.randrange(ntok[t])
            o = sess.send('start %d release %d' % (t, i))
            ntok[t] -= 1
            pending[t] = 'release'
        else:
            nobj += 1
            o = sess.send('start %d flush %d' % (t, nobj))
            pending[t] = 'flush'
        handle(t, o)

    def step(t):
        nonlocal mutex
        if point[t] == 'FL_LOCK':
            if mutex != -1:
                if rng.random() < 0.1:
                    sess.send('step %d' % t)      # expect: blocked
                return False
            mutex = t
        o = sess.send('step %d' % t)
        handle(t, o)
        if o == 'ret' and pending[t] == 'acquire':
            ntok[t] += 1
        return True

    pending = [''] * n
    for _ in range(budget):
        t = last if rng.random() < stick else rng.randrange(n)
        last = t
        if busy[t]:
            step(t)
        else:
            r = rng.random()
            if r < 0.45 and ntok[t] < 3:
                start(t, 'acquire')
            elif r < 0.8 and ntok[t] > 0:
                start(t, 'release')
            elif r < 0.95:
                start(t, 'flush')
            else:
                sess.send(rng.choice(('log', 'stats', 'enabled %d' % t)))
    # drain: finish every call, release every token, finish again
    for _round in range(3):
        guard = 0
        while any(busy) and guard < 100000:
            guard += 1
            ts = [t for t in range(n) if busy[t] and not (point[t] == 'FL_LOCK' and mutex != -1)]
            if not ts:
                break
            step(rng.choice(ts))
        for t in range(n):
            while not busy[t] and ntok[t] > 0:
                start(t, 'release')
                while busy[t]:
                    if not step(t):
                        break
    sess.send('log')
    sess.send('stats')


# ------------------------------------------------------------------------------------------------
# snapshot reference counts and collector hand-off (C08, C06 hand-off), interactive
# ------------------------------------------------------------------------------------------------

def gen_refcount(rng, tier, sess):
    n = rng.choice((2, 2, 3, 4))
    k = rng.choice((1, 2, 2, 3))
    sess.send('init threads=%d snaps=%d' % (n, k))
    busy = [False] * n
    kind = [''] * n
    arg = [0] * n
    held = [1] * k
    stick = rng.random()
    last = 0

    def handle(t, o):
        if o.startswith('at '):
            busy[t] = True
        elif o.startswith('ret') or o == 'panic':
            busy[t] = False
            if kind[t] == 'open' and o == 'ret true':
                held[arg[t]] += 1

    def start(t):
        r = rng.random()
        s = rng.randrange(k)
        if r < 0.4:
            kind[t], arg[t] = 'open', s
            handle(t, sess.send('start %d open %d' % (t, s + 1)))
        elif r < 0.9:
            cands = [i for i in range(k) if held[i] > 0]
            if not cands:
                kind[t], arg[t] = 'open', s
                handle(t, sess.send('start %d open %d' % (t, s + 1)))
                return
            s = rng.choice(cands)
            held[s] -= 1
            kind[t], arg[t] = 'close', s
            handle(t, sess.send('start %d close %d' % (t, s + 1)))
        else:
            kind[t] = 'gc'
            handle(t, sess.send('start %d gc' % t))

    for _ in range(rng.randrange(15, 120 if tier == 'quick' else 400)):
        t = last if rng.random() < stick else rng.randrange(n)
        last = t
        if busy[t]:
            handle(t, sess.send('step %d' % t))
        elif rng.random() < 0.9:
            start(t)
        else:
            sess.send('state')
    guard = 0
    while any(busy) and guard < 10000:
        guard += 1
        t = rng.choice([i for i in range(n) if busy[i]])
        handle(t, sess.send('step %d' % t))
    sess.send('state')
    # release everything and let the collector finish: the property is evaluated at quiescence
    for s in range(k):
        while held[s] > 0:
            held[s] -= 1
            kind[0], arg[0] = 'close', s
            handle(0, sess.send('start 0 close %d' % (s + 1)))
            while busy[0]:
                handle(0, sess.send('step 0'))
    sess.send('state')


# ------------------------------------------------------------------------------------------------
# concurrent skiplist: steered schedules, chosen interactively (C13, C14, C15)
# ------------------------------------------------------------------------------------------------

def inject_line(rng, t, lastout, busy, inflight, nkeys, free, hint=None):
    """`stepinj`: when thread t is parked at HELP_DELETE (of Iterator.Next or of a search: only the former has a late
    point behind its CAS, the latter answers `noinj`) let an idle thread perform a whole operation at the late
    point ITER_HELPED, i.e. between the unlink CAS and the cursor move.  In runs with real reclamation an injected
    `ins k` / `delf k` never overlaps with the other half of D23 on the same key."""
    if lastout != 'at HELP_DELETE' or rng.random() < 0.35:
        return None
    idle = [b for b in range(len(busy)) if b != t and not busy[b]]
    if not idle:
        return None
    b = rng.choice(idle)
    k = rng.randrange(nkeys * 2 + 2) + 1          # odd keys too: between two existing nodes
    r = rng.random()
    if hint is not None and hint >= 1 and r < 0.5:
        k = hint - 1                                # just in front of the node the iterator stands on
    if r < 0.6:
        op = 'ins %d lvl=%d' % (k, rng.choice((0, 0, 1, 2)))
        clash = ('delf', k)
    elif r < 0.85:
        op = ('delf %d' if free else 'del %d') % k
        clash = ('ins', k)
    else:
        op, clash = 'look %d' % k, None
    if free and clash and any(x == clash for x in inflight):
        op = 'look %d' % k
    return 'stepinj %d %d %s' % (t, b, op)


def gen_skipconc(rng, tier, sess, free=False):
    """free=True: real reclamation (mem=mmfree): deletes are `delf` (node handed to the access barrier and freed, freed
    memory faults on access).  An `ins k` and a `delf k` of the SAME key never overlap in these runs: that overlap is
    the open finding C04-D23 (its witness is replayed separately on every run)."""
    n = rng.choice((2, 2, 3, 4))
    nkeys = rng.choice((1, 2, 3, 5)) if not free else rng.choice((2, 3, 5))
    sess.send('threads %d%s' % (n, ' mem=mmfree' if free else rng.choice(('', '', ' mem=go', ' mem=mm'))))
    inflight = [None] * n                   # (op, key) of the call in progress on each thread
    busy = [False] * n
    iters = [dict() for _ in range(n)]      # name -> valid?
    pend = [None] * n
    stick = rng.random() * 0.8
    last = 0
    nit = 0
    # a few sequential inserts first so that deletes have something to hit
    for _ in range(rng.randrange(0, 4)):
        o = sess.send('start 0 ins %d lvl=%d' % (rng.randrange(nkeys) * 2 + 2, rng.choice((0, 0, 1, 2, 3))))
        while o.startswith('at '):
            o = sess.send('step 0')

    lastout = [''] * n
    lastkey = [None] * n

    def handle(t, o):
        lastout[t] = o
        if pend[t] and pend[t][0].startswith('it_') and o.startswith('ret ') and o[4:].isdigit():
            lastkey[t] = int(o[4:])
        if o.startswith('at '):
            busy[t] = True
            return
        busy[t] = False
        inflight[t] = None
        p = pend[t]
        if p and o.startswith('ret'):
            kind, name = p
            if kind in ('it_first', 'it_seek', 'it_next'):
                iters[t][name] = (o != 'ret end')
            elif kind == 'it_close':
                iters[t].pop(name, None)
        pend[t] = None

    def start(t):
        nonlocal nit
        r = rng.random()
        k = rng.randrange(nkeys) * 2 + 2
        if free and r < 0.65:
            want = 'ins' if r < 0.35 else 'delf'
            other = 'delf' if want == 'ins' else 'ins'
            if any(x == (other, k) for x in inflight):
                r = 0.7                     # would overlap with the other half of D23 on this key: look it up instead
        if r < 0.35:
            pend[t] = ('ins', None)
            inflight[t] = ('ins', k)
            handle(t, sess.send('start %d ins %d lvl=%d' % (t, k, rng.choice((0, 0, 0, 1, 1, 2, 3, 5)))))
        elif r < 0.65:
            pend[t] = ('del', None)
            dop = 'delf' if (free and rng.random() < 0.85) else 'del'
            inflight[t] = (dop, k)
            handle(t, sess.send('start %d %s %d' % (t, dop, k)))
        elif r < 0.72:
            pend[t] = ('look', None)
            handle(t, sess.send('start %d look %d' % (t, k)))
        else:
            valid = [nm for nm, v in iters[t].items() if v]
            q = rng.random()
            if valid and q < 0.12:
                # the public Refresh() between two Next calls
                nm = rng.choice(valid)
                pend[t] = ('it_next', nm)
                handle(t, sess.send('start %d it_refresh %s' % (t, nm)))
            elif valid and q < 0.6:
                nm = rng.choice(valid)
                pend[t] = ('it_next', nm)
                handle(t, sess.send('start %d it_next %s' % (t, nm)))
            elif iters[t] and q < 0.7:
                nm = rng.choice(sorted(iters[t]))
                pend[t] = ('it_close', nm)
                handle(t, sess.send('start %d it_close %s' % (t, nm)))
            elif iters[t] and q < 0.84:
                nm = rng.choice(sorted(iters[t]))
                pend[t] = ('it_interval', nm)
                handle(t, sess.send('start %d it_interval %s %d' % (t, nm, rng.choice((1, 1, 1, 2, 3)))))
            elif len(iters[t]) < 2:
                nit += 1
                nm = 'i%d' % nit
                if rng.random() < 0.5:
                    pend[t] = ('it_first', nm)
                    handle(t, sess.send('start %d it_first %s' % (t, nm)))
                else:
                    pend[t] = ('it_seek', nm)
                    handle(t, sess.send('start %d it_seek %s %d' % (t, nm, rng.randrange(nkeys * 2 + 3))))

    for _ in range(rng.randrange(20, 200 if tier == 'quick' else 800)):
        t = last if rng.random() < stick else rng.randrange(n)
        last = t
        if busy[t]:
            inj = inject_line(rng, t, lastout[t], busy, inflight, nkeys, free, hint=lastkey[t])
            if inj:
                handle(t, sess.send(inj).split(' | ')[0])
            else:
                handle(t, sess.send('step %d' % t))
        else:
            start(t)
    guard = 0
    while any(busy) and guard < 100000:
        guard += 1
        t = rng.choice([i for i in range(n) if busy[i]])
        handle(t, sess.send('step %d' % t))
    for t in range(n):
        for nm in sorted(iters[t]):
            pend[t] = ('it_close', nm)
            handle(t, sess.send('start %d it_close %s' % (t, nm)))
    sess.send('walk')
    sess.send('stats')
    # a final sequential full scan: after quiescence an iterator yields exactly the set
    o = sess.send('start 0 it_first z')
    pend[0] = None
    while o.startswith('ret') and o != 'ret end':
        o = sess.send('start 0 it_next z')
        while o.startswith('at '):
            o = sess.send('step 0')
    sess.send('start 0 it_close z')


# ------------------------------------------------------------------------------------------------
# backup / restore (C05 round trips; C11 and C12 are driven interactively from props.py)
# ------------------------------------------------------------------------------------------------

def gen_backup(rng, tier):
    """history -> store a random open snapshot (with churn during the backup) -> close everything ->
    load -> continue the history on the restored instance."""
    sim = MvccSim(rng, tier)
    delta = rng.random() < 0.5
    if delta:
        sim.lines[0] += ' delta=1'
    if rng.random() < 0.5:
        # a small refresh rate for the Visitor's iterators: by default only shards above 10000 steps ever refresh
        sim.lines[0] += ' rr=%d' % rng.choice((1, 1, 2, 7))
    sim.nkeys = rng.choice((1, 3, 8, 30, 120))
    for _ in range(rng.randrange(3, 60 if tier == 'quick' else 400)):
        r = rng.random()
        k = sim.key()
        if r < 0.55:
            sim.lines.append('put %d %d %d' % (sim.w(), k, rng.randrange(3) if sim.kv else 0))
            sim.live.setdefault(k, sim.epoch)
        elif r < 0.8:
            sim.lines.append('del %d %d' % (sim.w(), k))
            sim.live.pop(k, None)
        elif r < 0.93:
            sim.lines.append('snap')
            sim.refs.append(1)
            sim.epoch += 1
        else:
            o = sim.open_snaps()
            if o:
                s = rng.choice(o)
                sim.lines.append('close %d' % (s + 1))
                sim.refs[s] -= 1
    sim.lines.append('snap')
    sim.refs.append(1)
    sim.epoch += 1
    s = rng.choice(sim.open_snaps())
    sim.lines.append('scan %d' % (s + 1))
    line = 'store %d conc=%d' % (s + 1, rng.choice((1, 2, 3, 8)))
    if rng.random() < 0.6:
        nk = rng.randrange(0, 6) if rng.random() < 0.6 else rng.randrange(5, 60)
        ks = sorted(set(sim.key() for _ in range(nk)))
        line += ' churn=' + (','.join(map(str, ks)) if ks else '.')
        if delta and rng.random() < 0.5:
            line += ' churnat=gc'
        sim.refs.append(0)
        sim.epoch += 1
    sim.lines.append(line)
    sim.refs[s] -= 1
    for i in sim.open_snaps():
        while sim.refs[i] > 0:
            sim.lines.append('close %d' % (i + 1))
            sim.refs[i] -= 1
    sim.lines.append('gcwait')
    sim.lines.append('load conc=%d pre=%d' % (rng.choice((1, 2, 3, 8)), rng.randrange(2)))
    # the restored instance: one snapshot (number 1), fresh epoch counter
    sim.refs = [1]
    sim.iters = {}
    sim.handles = {}
    sim.lines.append('scan 1')
    sim.lines.append('count 1')
    if rng.random() < 0.5:
        # restored items keep the birth epoch 0 of a lookup probe: delete (and re-insert) some of them, take a
        # snapshot and position an iterator on exactly those keys
        ks = [sim.key() for _ in range(rng.randrange(1, 4))]
        for k in ks:
            sim.lines.append('del %d %d' % (sim.w(), k))
            sim.live.pop(k, None)
            if rng.random() < 0.5:
                sim.lines.append('put %d %d %d' % (sim.w(), k, rng.randrange(3) if sim.kv else 0))
                sim.live.setdefault(k, sim.epoch)
        sim.lines.append('snap')
        sim.refs.append(1)
        sim.epoch += 1
        sn = len(sim.refs) - 1
        sim.nit += 1
        name = 'i%d' % sim.nit
        sim.lines.append('it_new %s %d' % (name, sn + 1))
        sim.refs[sn] += 1
        sim.iters[name] = sn
        for k in ks:
            sim.lines.append('it_seek %s %d' % (name, k))
            if rng.random() < 0.5:
                sim.lines.append('it_next %s' % name)
    for _ in range(rng.randrange(0, 25)):
        sim.op()
    return sim.finish()


# ------------------------------------------------------------------------------------------------
# sequential skiplist, builder, merge iterator (C13 sequential, C14, C18)
# ------------------------------------------------------------------------------------------------

def _lvl(rng):
    return rng.choice((0, 0, 0, 0, 1, 1, 2, 3, 5, 9, 40))


def gen_skipseq(rng, tier):
    L = []
    nkeys = rng.choice((2, 4, 8, 30))
    nh = 0
    for _ in range(rng.randrange(5, 80 if tier == 'quick' else 400)):
        r = rng.random()
        k = rng.randrange(nkeys)
        if r < 0.4:
            L.append('ins %d lvl=%d' % (k, _lvl(rng)))
        elif r < 0.6:
            L.append('del %d' % k)
        elif r < 0.68:
            L.append('look %d' % k)
        elif r < 0.78:
            nh += 1
            L.append('getnode %d h%d' % (k, nh))
            if rng.random() < 0.7:
                L.append('delnode h%d' % nh)
            if rng.random() < 0.3:
                L.append('delnode h%d' % rng.randrange(1, nh + 1))
        elif r < 0.86:
            L.append('walk')
            L.append('stats')
        elif r < 0.93:
            L.append('seek %d' % rng.randrange(nkeys + 2))
        else:
            L.append('iter')
    L += ['walk', 'stats', 'iter']
    return L


def gen_builder(rng, tier):
    L = []
    nseg = rng.choice((0, 1, 2, 3, 5, 8))
    names = ['s%d' % i for i in range(nseg)]
    for n in names:
        L.append('seg_new ' + n)
    # ascending keys distributed over the segments in order; some segments stay empty
    k = 0
    sizes = [rng.choice((0, 0, 1, 2, 5, 20)) for _ in names]
    adds = []
    for n, sz in zip(names, sizes):
        for _ in range(sz):
            k += rng.randrange(1, 4)
            adds.append((n, k))
    # segments are filled "concurrently": interleave the Add calls of different segments, keeping each one's order
    per = {n: [a for a in adds if a[0] == n] for n in names}
    while any(per.values()):
        n = rng.choice([n for n in names if per[n]])
        seg, key = per[n].pop(0)
        L.append('seg_add %s %d lvl=%d' % (seg, key, _lvl(rng)))
    L.append('assemble ' + (','.join(names) if names else '.'))
    L += ['walk', 'stats', 'iter']
    for _ in range(rng.randrange(0, 25)):
        r = rng.random()
        kk = rng.randrange(k + 3)
        if r < 0.4:
            L.append('ins %d lvl=%d' % (kk, _lvl(rng)))
        elif r < 0.7:
            L.append('del %d' % kk)
        elif r < 0.85:
            L.append('seek %d' % kk)
        else:
            L.append('look %d' % kk)
    L += ['walk', 'stats', 'iter']
    return L


def gen_merge(rng, tier):
    L = []
    n = rng.choice((0, 1, 2, 3, 4, 6))
    ids = []
    for i in range(n):
        ks = sorted(set(rng.randrange(12) for _ in range(rng.choice((0, 0, 1, 3, 6)))))
        L.append('list l%d %s' % (i, ','.join(map(str, ks)) if ks else '.'))
        ids.append('l%d' % i)
    L.append('m_new ' + (','.join(ids) if ids else '.'))
    L.append(rng.choice(('m_first', 'm_seek %d' % rng.randrange(14))))
    for _ in range(rng.randrange(3, 40)):
        r = rng.random()
        if r < 0.7:
            L.append('m_next')
        elif r < 0.85:
            L.append('m_first')
        else:
            L.append('m_seek %d' % rng.randrange(14))
    L.append('m_first')
    L += ['m_next'] * 20
    return L


# ------------------------------------------------------------------------------------------------
# concurrent MVCC layer with the reclamation pipeline (C03, C04, C07; interactive)
# ------------------------------------------------------------------------------------------------

def gen_mvccconc(rng, tier, sess):
    nw = rng.choice((1, 2, 2, 3))
    nr = rng.choice((0, 1, 1, 2))
    kv = rng.random() < 0.4
    sess.send('init writers=%d readers=%d cmp=%s' % (nw, nr, 'kv' if kv else 'plain'))
    n = nw + nr
    nkeys = rng.choice((1, 2, 3, 5))
    busy = [False] * n
    pend = [None] * n
    jobs = []                 # pending job names
    held = []                 # creation references per snapshot
    iters = [dict() for _ in range(n)]     # reader: name -> valid
    nit = 0
    stick = rng.random() * 0.7
    last = 0

    def handle(t, o):
        parts = o.split(' +')
        head = parts[0]
        for j in parts[1:]:
            jobs.append(j)
        # nitro has one collection worker and one free worker per Writer (the harness creates writers+24):
        # never keep more than a dozen jobs in flight
        while len(jobs) > 12:
            step_job()
        if head.startswith('at '):
            busy[t] = True
            return
        busy[t] = False
        p = pend[t]
        if p and head.startswith('ret'):
            kind, name = p
            if kind in ('it_first', 'it_next'):
                iters[t][name] = (head != 'ret end')
            elif kind == 'it_new':
                if head == 'ret ok':
                    iters[t][name] = False
            elif kind == 'it_close':
                iters[t].pop(name, None)
        pend[t] = None

    def step_job():
        j = rng.choice(jobs)
        o = sess.send('step ' + j)
        parts = o.split(' +')
        for x in parts[1:]:
            jobs.append(x)
        if parts[0].startswith('ret') or parts[0] == 'bad-op':
            jobs.remove(j)

    def start(t):
        nonlocal nit
        k = rng.randrange(nkeys) * 3 + 1
        if t < nw:
            r = rng.random()
            if r < 0.45:
                pend[t] = ('put', None)
                handle(t, sess.send('start %d put %d %d' % (t, k, rng.randrange(3) if kv else 0)))
            elif r < 0.8:
                pend[t] = ('del', None)
                handle(t, sess.send('start %d del %d' % (t, k)))
            elif r < 0.88:
                pend[t] = ('get', None)
                handle(t, sess.send('start %d get %d' % (t, k)))
            else:
                cands = [i for i, h in enumerate(held) if h > 0]
                if cands:
                    s = rng.choice(cands)
                    held[s] -= 1
                    pend[t] = ('close', None)
                    handle(t, sess.send('start %d close %d' % (t, s + 1)))
        else:
            valid = [nm for nm, v in iters[t].items() if v]
            q = rng.random()
            if valid and q < 0.55:
                nm = rng.choice(valid)
                pend[t] = ('it_next', nm)
                handle(t, sess.send('start %d it_next %s' % (t, nm)))
            elif iters[t] and q < 0.7:
                nm = rng.choice(sorted(iters[t]))
                pend[t] = ('it_close', nm)
                handle(t, sess.send('start %d it_close %s' % (t, nm)))
            elif iters[t] and q < 0.8:
                nm = rng.choice(sorted(iters[t]))
                pend[t] = ('it_first', nm)
                handle(t, sess.send('start %d it_first %s' % (t, nm)))
            elif held and len(iters[t]) < 2:
                nit += 1
                nm = 'i%d' % nit
                s = rng.randrange(len(held))
                pend[t] = ('it_new', nm)
                handle(t, sess.send('start %d it_new %s %d' % (t, nm, s + 1)))

    for _ in range(rng.randrange(20, 160 if tier == 'quick' else 600)):
        r = rng.random()
        if jobs and r < 0.25:
            step_job()
            continue
        if r < 0.33 and not any(busy[:nw]):
            o = sess.send('snap')
            if o.startswith('sn='):
                held.append(1)
            continue
        if r < 0.36:
            sess.send('state')
            continue
        t = last if rng.random() < stick else rng.randrange(n)
        last = t
        if busy[t]:
            handle(t, sess.send('step %d' % t))
        else:
            start(t)
    # drain: finish calls, release iterators and snapshots, run every job, shut down
    guard = 0
    while (any(busy) or jobs) and guard < 100000:
        guard += 1
        ts = [i for i in range(n) if busy[i]]
        if ts and (not jobs or rng.random() < 0.6):
            t = rng.choice(ts)
            handle(t, sess.send('step %d' % t))
        else:
            step_job()
    for t in range(nw, n):
        for nm in sorted(iters[t]):
            pend[t] = ('it_close', nm)
            handle(t, sess.send('start %d it_close %s' % (t, nm)))
            while busy[t]:
                handle(t, sess.send('step %d' % t))
    for s in range(len(held)):
        while held[s] > 0:
            held[s] -= 1
            pend[0] = ('close', None)
            handle(0, sess.send('start 0 close %d' % (s + 1)))
            while busy[0]:
                handle(0, sess.send('step 0'))
    guard = 0
    while jobs and guard < 100000:
        guard += 1
        step_job()
    sess.send('state')
    sess.send('shutdown')


# ------------------------------------------------------------------------------------------------
# exhaustive exploration of small scenarios (thorough tier): stateless depth-first search by re-execution
# ------------------------------------------------------------------------------------------------

class Explorer:
    """Enumerates ALL schedules of a scenario: each logical thread has a fixed list of calls; a schedule is the
    order in which their steps are taken. Every leaf is one fresh execution on the real code (one recorded case),
    later replayed on the model. `blocked` answers and ops that yield `bad-op` are not scheduling alternatives."""

    def __init__(self, engine, init_lines, calls, final_lines, cap=4000):
        self.engine, self.init, self.calls, self.final, self.cap = engine, init_lines, calls, final_lines, cap
        self.cases = []          # (lines, outs)
        self.complete = True

    def run(self, sess):
        stack = [[]]             # prefixes (lists of thread choices) still to be executed
        while stack:
            if len(self.cases) >= self.cap:
                self.complete = False
                break
            prefix = stack.pop()
            alts = self.execute(sess, prefix)
            # alts[d] = enabled alternatives at depth d that were not taken (only for d >= len(prefix))
            for d in range(len(alts) - 1, len(prefix) - 1, -1):
                for t in alts[d][1]:
                    stack.append(alts[d][0] + [t])
        return self.cases

    def execute(self, sess, prefix):
        sess.new_case()
        for l in self.init:
            sess.send(l)
        n = len(self.calls)
        nextcall = [0] * n
        busy = [False] * n
        blocked = set()
        taken = []
        alts = []

        def enabled():
            return [t for t in range(n) if (busy[t] and t not in blocked) or (not busy[t] and nextcall[t] < len(self.calls[t]))]

        def take(t):
            if busy[t]:
                o = sess.send('step %d' % t)
            else:
                o = sess.send('start %d %s' % (t, self.calls[t][nextcall[t]]))
                nextcall[t] += 1
            head = o.split(' +')[0]
            if head == 'blocked':
                blocked.add(t)
            elif head.startswith('at '):
                busy[t] = True
                blocked.clear()
            else:
                busy[t] = False
                blocked.clear()
            for j in o.split(' +')[1:]:
                jobs.append(j)

        jobs = []
        depth = 0
        guard = 0
        while guard < 5000:
            guard += 1
            en = enabled()
            if not en:
                break
            if depth < len(prefix):
                t = prefix[depth]
                if t not in en:
                    break
            else:
                t = en[0]
                alts.append((list(taken), [x for x in en[1:]]))
            if depth < len(prefix):
                alts.append((list(taken), []))
            taken.append(t)
            take(t)
            depth += 1
        # background jobs (mvccconc) are run to completion in creation order at the end
        g2 = 0
        while jobs and g2 < 1000:
            g2 += 1
            j = jobs[0]
            o = sess.send('step ' + j)
            parts = o.split(' +')
            jobs.extend(parts[1:])
            if parts[0].startswith('ret') or parts[0] == 'bad-op':
                jobs.pop(0)
        for l in self.final:
            sess.send(l)
        self.cases.append((list(sess.lines), list(sess.outs)))
        return alts


EXHAUSTIVE = {
    'barrier': [
        (['threads 3'], [['acquire', 'release 0'], ['acquire', 'release 0'], ['flush 1']], ['log', 'stats']),
        (['threads 3'], [['acquire', 'release 0'], ['flush 1'], ['flush 2']], ['log', 'stats']),
    ],
    'refcount': [
        (['init threads=3 snaps=1'], [['open 1'], ['close 1'], ['open 1']], ['state']),
        (['init threads=2 snaps=2'], [['close 1'], ['close 2']], ['state']),
        (['init threads=3 snaps=2'], [['close 2'], ['close 1'], ['gc']], ['state']),
    ],
    'skipconc': [
        (['threads 2'], [['ins 2 lvl=1'], ['ins 2 lvl=1']], ['walk', 'stats']),
        (['threads 2', 'start 0 ins 2 lvl=1', 'step 0', 'step 0', 'step 0', 'step 0', 'step 0', 'step 0', 'step 0', 'step 0'],
         [['del 2'], ['ins 2 lvl=1']], ['walk', 'stats']),
        (['threads 2', 'start 0 ins 2 lvl=0', 'step 0', 'step 0', 'step 0', 'step 0'], [['del 2'], ['del 2']], ['walk', 'stats']),
    ],
    'mvccconc': [
        (['init writers=2 readers=0 cmp=plain', 'start 0 put 5 0', 'step 0'], [['del 5'], ['del 5']], ['snap', 'state']),
        (['init writers=2 readers=0 cmp=plain', 'start 0 put 5 0', 'step 0', 'snap'], [['del 5', 'put 5 0'], ['del 5']], ['snap', 'state']),
        (['init writers=2 readers=0 cmp=plain'], [['put 5 0', 'del 5'], ['put 5 0']], ['snap', 'state']),
    ],
}


def gen_skipconc_free(rng, tier, sess):
    return gen_skipconc(rng, tier, sess, free=True)


def gen_skipconc_scan(rng, tier, sess):
    """thread 0 scans with a finite refresh interval while the other threads insert and delete around it; in a third
    of the runs with real reclamation (mem=mmfree, deletes are `delf`; an `ins k` and a `delf k` never overlap, see
    gen_skipconc)"""
    n = rng.choice((2, 3))
    nkeys = rng.choice((3, 5, 8))
    free = rng.random() < 0.34
    inflight = [None] * n
    sess.send('threads %d%s' % (n, ' mem=mmfree' if free else rng.choice(('', ' mem=go'))))
    for k in range(nkeys):
        if rng.random() < 0.7:
            o = sess.send('start 0 ins %d lvl=%d' % (k * 2 + 2, rng.choice((0, 0, 1, 2))))
            while o.startswith('at '):
                o = sess.send('step 0')
    busy = [False] * n
    lastout = [''] * n
    cursor = None
    want_refresh = False
    o = sess.send('start 0 it_first s')
    if o[4:].isdigit():
        cursor = int(o[4:])
    valid = o.startswith('ret') and o != 'ret end'
    sess.send('start 0 it_interval s %d' % rng.choice((1, 1, 2, 3)))
    stick = rng.random() * 0.92
    last = 0
    for _ in range(rng.randrange(20, 160 if tier == 'quick' else 500)):
        # sticky scheduling: whole calls of the other threads have to fit between two segments of the scanner
        if rng.random() < stick:
            t = last
        else:
            t = 0 if rng.random() < 0.45 else rng.randrange(1, n)
        last = t
        if (t == 0 and not busy[0] and valid and cursor is not None and rng.random() < 0.12
                and not any(x is not None and x[1] == cursor for x in inflight)):
            # the node under the cursor is deleted by another thread, which is left between its level-0 mark and its
            # cleaning search; the scanner then unlinks the node itself (HELP_DELETE of Next) and an operation of a
            # third party runs at the late point behind that CAS
            others = [b for b in range(1, n) if not busy[b]]
            if others:
                b = rng.choice(others)
                inflight[b] = ('delf' if free else 'del', cursor)
                ob = sess.send('start %d %s %d' % (b, inflight[b][0], cursor))
                guard2 = 0
                whole = rng.random() < 0.4          # or: the whole delete (with reclamation: node handed to the barrier)
                want_refresh = whole and rng.random() < 0.6
                while ob.startswith('at ') and (whole or ob != 'at DEL_SEARCH') and guard2 < 200:
                    guard2 += 1
                    ob = sess.send('step %d' % b)
                busy[b] = ob.startswith('at ')
                lastout[b] = ob
                if not busy[b]:
                    inflight[b] = None
        if busy[t]:
            inj = inject_line(rng, t, lastout[t], busy, inflight, nkeys, free, hint=cursor if t == 0 else None)
            o = sess.send(inj).split(' | ')[0] if inj else sess.send('step %d' % t)
        elif t == 0:
            q = rng.random()
            if valid and (q < 0.15 or want_refresh):
                want_refresh = False
                o = sess.send('start 0 it_refresh s')
            elif valid and q < 0.25 and not free:
                # Pause / Resume around whole operations of the other threads (with real reclamation a paused iterator
                # is not protected: recorded finding C15-D24, replayed separately)
                sess.send('start 0 it_pause s')
                for _p in range(rng.randrange(0, 4)):
                    b = rng.randrange(1, n)
                    if busy[b]:
                        ob = sess.send('step %d' % b)
                    else:
                        kk = rng.randrange(nkeys) * 2 + 2
                        inflight[b] = (rng.choice(('ins', 'del')), kk)
                        ob = sess.send('start %d ins %d lvl=%d' % (b, kk, rng.choice((0, 1)))) if inflight[b][0] == 'ins' else sess.send('start %d del %d' % (b, kk))
                    busy[b] = ob.startswith('at ')
                    lastout[b] = ob
                    if not busy[b]:
                        inflight[b] = None
                sess.send('start 0 it_resume s')
                o = 'resumed'          # the cursor is where it was
            elif valid:
                o = sess.send('start 0 it_next s')
            else:
                o = sess.send(rng.choice(('start 0 it_first s', 'start 0 it_seek s %d' % rng.randrange(nkeys * 2 + 3))))
        else:
            k = rng.randrange(nkeys) * 2 + 2
            want = 'ins' if rng.random() < 0.5 else ('delf' if free else 'del')
            if free and any(x == ({'ins': 'delf', 'delf': 'ins'}[want], k) for x in inflight):
                want = 'look'
            inflight[t] = (want, k)
            if want == 'ins':
                o = sess.send('start %d ins %d lvl=%d' % (t, k, rng.choice((0, 0, 1, 2))))
            else:
                o = sess.send('start %d %s %d' % (t, want, k))
        busy[t] = o.startswith('at ')
        lastout[t] = o
        if not busy[t]:
            inflight[t] = None
        if t == 0 and o.startswith('ret'):
            valid = o != 'ret end' and o != 'ret'
            if o[4:].isdigit():
                cursor = int(o[4:])
    guard = 0
    while any(busy) and guard < 100000:
        guard += 1
        t = rng.choice([i for i in range(n) if busy[i]])
        busy[t] = sess.send('step %d' % t).startswith('at ')
    sess.send('start 0 it_close s')
    sess.send('walk')
    sess.send('stats')



def gen_backup_stress(rng, tier):
    """delta-mode backup of a multi-shard snapshot in user-managed memory with a refresh rate of 1 or 2, while half
    of the stored keys (always including the smallest ones) are deleted and collected during the backup: every item
    the backup has not yet written reaches it through the delta log only, pivots and cursor items are freed under it"""
    sim = MvccSim(rng, tier, mem='mm')
    sim.lines[0] += ' delta=1 rr=%d' % rng.choice((1, 1, 2))
    nk = rng.choice((12, 40, 40, 120, 300))
    keys = [k * 3 + 1 for k in range(nk)]
    for k in keys:
        sim.lines.append('put %d %d %d' % (sim.w(), k, rng.randrange(3) if sim.kv else 0))
    if rng.random() < 0.5:
        # older versions of some keys pinned by an older snapshot
        sim.lines.append('snap')
        sim.refs.append(1)
        for k in rng.sample(keys, nk // 4):
            sim.lines.append('del %d %d' % (sim.w(), k))
            sim.lines.append('put %d %d %d' % (sim.w(), k, rng.randrange(3) if sim.kv else 0))
    sim.lines.append('snap')
    sim.refs.append(1)
    s = len(sim.refs) - 1
    sim.lines.append('scan %d' % (s + 1))
    for i in range(len(sim.refs) - 1):
        sim.lines.append('close %d' % (i + 1))
        sim.refs[i] = 0
    if rng.random() < 0.35:
        # the items the backup walks over were deleted in a LATER epoch and are pinned only by that later snapshot,
        # which is released in the middle of the backup (in a gap where the backup holds no barrier token)
        dels = sorted(set(keys[1:6] + rng.sample(keys, nk // 2)))
        for k in dels:
            sim.lines.append('del %d %d' % (sim.w(), k))
        sim.lines.append('snap')
        sim.refs.append(1)
        b = len(sim.refs)
        sim.lines.append('store %d conc=%d release=%d' % (s + 1, rng.choice((1, 1, 2)), b))
        sim.lines.append('gcwait')
        sim.lines.append('load conc=%d pre=%d' % (rng.choice((1, 4)), rng.randrange(2)))
        sim.lines += ['scan 1', 'count 1', 'close 1', 'gcwait', 'shutdown']
        return sim.lines
    churn = sorted(set(keys[:4] + rng.sample(keys, nk // 2)))
    if nk <= 40 and rng.random() < 0.6:
        # the key just written is deleted and collected after every single item (conc=1: deterministic order)
        sim.lines.append('store %d conc=1 churn=each' % (s + 1))
    else:
        sim.lines.append('store %d conc=%d churn=%s%s' % (s + 1, rng.choice((1, 2, 4)), ','.join(map(str, churn)), rng.choice(('', ' churnat=gc'))))
    sim.refs[s] = 0
    sim.refs.append(0)
    sim.lines.append('gcwait')
    sim.lines.append('load conc=%d pre=%d' % (rng.choice((1, 4)), rng.randrange(2)))
    sim.lines.append('scan 1')
    sim.lines.append('count 1')
    sim.lines.append('close 1')
    sim.lines.append('gcwait')
    sim.lines.append('shutdown')
    return sim.lines



def gen_store_fault(rng, tier):
    """a backup that cannot create its shard files: StoreToDisk fails and must have released exactly the one
    reference it was given (the caller's other handles stay valid and the collector stays in order)"""
    sim = MvccSim(rng, tier)
    if rng.random() < 0.4:
        sim.lines[0] += ' delta=1'
    for _ in range(rng.randrange(1, 12)):
        sim.lines.append('put %d %d %d' % (sim.w(), sim.key(), rng.randrange(3) if sim.kv else 0))
    sim.lines.append('snap')
    nsn = 1
    if rng.random() < 0.5:
        sim.lines.append('del %d %d' % (sim.w(), sim.key()))
        sim.lines.append('snap')
        nsn = 2
    s = rng.randrange(nsn) + 1
    extra = rng.choice((1, 1, 2))
    for _ in range(extra):
        sim.lines.append('open %d' % s)
    sim.lines.append('store %d conc=%d failopen=1' % (s, rng.choice((1, 2))))
    sim.lines.append('open %d' % s)          # still open for the caller: true
    sim.lines.append('scan %d' % s)
    for _ in range(extra + 1):
        sim.lines.append('close %d' % s)
    sim.lines.append('open %d' % s)          # now fully released: false
    for i in range(1, nsn + 1):
        if i != s:
            sim.lines.append('close %d' % i)
    sim.lines.append('gcwait')
    sim.lines.append('shutdown')
    return sim.lines
