#!/usr/bin/env python3
"""Inside an iso.sh universe: run the quick checks of the given properties (ISO_JOBS in parallel), write iso_result.json."""
import os, sys, json, subprocess, concurrent.futures
V = os.path.dirname(os.path.dirname(os.path.abspath(__file__)))
tier = os.environ.get('ISO_TIER', 'quick')


def one(prop):
    try:
        p = subprocess.run(['python3', os.path.join(V, 'tools', 'check.py'), prop, '--tier', tier], cwd=V, stdout=subprocess.PIPE,
                           stderr=subprocess.STDOUT, text=True, timeout=7200)
        out, rc = p.stdout, p.returncode
    except subprocess.TimeoutExpired as e:
        out, rc = (e.stdout or '') + '\nTIMEOUT', 124
    vl = [l for l in out.splitlines() if l.startswith('VIOLATION')]
    concrete = [l for l in vl if 'no-failing-input-found' not in l]
    res = 'replay' if concrete else ('obligation-only' if vl else ('quiet' if rc == 0 else 'error-exit'))
    details = []
    for l in vl[:3]:
        try:
            r = json.load(open(l.split('replay=')[1].split()[0]))
            details.append({'kind': r.get('kind') or ('differential' if r.get('diff') else 'obligation'), 'engine': r.get('engine'),
                            'diff': r.get('diff'), 'script_tail': r.get('script', [])[-8:], 'script_len': len(r.get('script', [])),
                            'broken_obligations': (r.get('broken_obligations') or r.get('proof_errors') or [])[:6],
                            'broken_tie': (r.get('broken_tie') or r.get('tie_errors') or [])[:3]})
        except Exception as e:
            details.append({'unreadable': str(e)})
    return prop, {'result': res, 'exit': rc, 'known': [l for l in out.splitlines() if l.startswith('KNOWN-FINDING')][:6],
                  'details': details, 'tail': out.splitlines()[-3:]}


res = {}
with concurrent.futures.ThreadPoolExecutor(max_workers=int(os.environ.get('ISO_JOBS', '4'))) as ex:
    for prop, r in ex.map(one, sys.argv[1:]):
        res[prop] = r
        print(prop, r['result'], flush=True)
json.dump(res, open(os.path.join(V, 'iso_result.json'), 'w'), indent=1)
