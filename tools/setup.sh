#!/bin/sh
# One-time build after a fresh restore (offline): Lean library + model driver, translator, harness.
set -e
export GOFLAGS=-mod=mod GOPROXY=off GOSUMDB=off GOTOOLCHAIN=local
cd /verif/lean && lake build
cd /verif/tools/gofacts && go build -o /dev/null .
cd /verif/harness && mkdir -p bin && go build -tags verif -o bin/nvdrive ./cmd/nvdrive
echo setup-ok
