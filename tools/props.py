"""Per-property configuration and the check flow."""
import os, sys, json, time, random, shutil, re
import check as C
import gens
import faults

# Each property: lean modules holding its theorems, the helper-lemma modules that tie generated guards,
# the correspondence runs (engine, generator, #cases quick, #cases thorough), claimed level.
PROPS = {
    'C19': dict(
        modules=['NitroVerif.Props.C19'],
        runs=[('codec', gens.gen_codec, 300, 20000), ('codec', gens.gen_codec_parallel, 6, 60)],
        level='proof',
        level_text='C19_file_roundtrip, C19_v0_roundtrip, C19_kv_roundtrip, C19_compareKV and the guard lemmas are proved in Lean for all item lists, all byte contents, any hash; the model is tied to item.go/file.go by regenerated widths/endianness/tests and by a differential run of the real writer/reader',
        trusted=['Lean 4 kernel', 'tools/gofacts translation of item.go/file.go widths and tests',
                 'differential run against the real rawFileWriter/rawFileReader/KV functions',
                 'bufio/os modelled as byte lists; crc32 generic in the theorems, concrete in the driver'],
    ),
    'C20': dict(
        modules=['NitroVerif.Props.C20'],
        runs=[('table', gens.gen_table, 400, 30000), ('nodelist', gens.gen_nodelist, 200, 10000)],
        level='proof',
        level_text='C20_table_refines_map (any hash, any op sequence under the Update contract), C20_table_invariant and C20_nodelist are proved in Lean; tied to nodetable/table.go by regenerated conditions and by a differential run of the real table and list',
        trusted=['Lean 4 kernel', 'tools/gofacts translation of nodetable/table.go status constants and insertion conditions',
                 'differential run against the real nodetable.NodeTable and nitro.NodeList',
                 'Go maps modelled as association lists; pointers below 2^63; keyEqual compares keyOf(pointer) with the key'],
    ),
    'C16': dict(
        modules=['NitroVerif.Props.C16', 'NitroVerif.Props.C16abs'],
        iruns=[('barrier', gens.gen_barrier, 150, 6000)],
        level='proof',
        level_text='C16_barrier_safety, C16_grant, C16_destructor_call, C16_released_before_destructor are proved in Lean for every schedule and any number of threads on a small-step model with one program counter per shared-memory step of access_barrier.go; the model is tied to the source by regenerated thresholds/skeletons and by steered schedules on the real AccessBarrier validated step by step against the model. Relation to the abstract barrier used by the MVCC model (Props/C16abs): C16_refines_abstract_barrier_partial (every step of every thread maps to at most one action — acquire, release, flush, destruct — of a lazy abstract barrier, except the late grant), C16_late_grant_characterised / C16_late_grant_witness / C16_late_grant_no_abstract_action (an Acquire that loaded the session before a concurrent FL_SWAP is granted on the session being closed: harmless for safety, but no state abstraction maps it to an atomic flush), C17_abstract_eager_at_quiescence',
        trusted=['Lean 4 kernel', 'tools/gofacts translation of access_barrier.go thresholds, tests and operation skeletons',
                 'steered schedules (cooperative scheduler over verif yield points) on the real AccessBarrier, each trace validated against the model',
                 'each sync/atomic operation is one sequentially consistent step; int32 overflow excluded (fewer than 2^30 simultaneous accessors of one session)',
                 'the internal free queue (a skiplist with an inactive barrier) is modelled as a list sorted by seqno'],
    ),
    'C17': dict(
        modules=['NitroVerif.Props.C17', 'NitroVerif.Props.C16abs'],
        iruns=[('barrier', gens.gen_barrier, 150, 6000)],
        runs=[('mvcc', gens.gen_mvcc_mm, 60, 4000)],
        keep_prefix=1,
        level='proof',
        level_text='C17_quiescent_nothing_pending is proved in Lean for the current protocol (with the re-check after the destructor flag is dropped), every schedule, any number of threads; C17_unfixed_counterexample is the kernel-checked witness for the original code; tie as for C16, and every steered run ends quiescent so the property itself is evaluated on the real barrier',
        trusted=['Lean 4 kernel', 'tools/gofacts translation of access_barrier.go thresholds, tests and operation skeletons',
                 'steered schedules on the real AccessBarrier, each trace validated against the model and ending in a quiescent state',
                 'each sync/atomic operation is one sequentially consistent step; scheduling inside a segment between two yield points is not explored'],
    ),
    'C08': dict(
        modules=['NitroVerif.Props.C08', 'NitroVerif.Props.C06Handoff'],
        iruns=[('refcount', gens.gen_refcount, 200, 8000)],
        runs=[('mvcc', gens.gen_store_fault, 40, 2000)],
        keep_prefix=1,
        level='proof',
        level_text='C08_zero_is_final, C08_open_iff, C08_frontier_sound and C08_collector_progress are proved in Lean for every schedule, any number of threads and snapshots, on a small-step model with one program counter per yield point of Snapshot.Open/Close, GC, collectDead; C08_unfixed_counterexample is the kernel-checked witness for the original test-then-add Open; tied to nitro.go by regenerated tests/skeletons and steered schedules on the real code validated step by step',
        trusted=['Lean 4 kernel', 'tools/gofacts translation of Open/Close/GC/collectDead tests and skeletons',
                 'steered schedules on real snapshots (verif yield points), every trace validated against the model',
                 'references are pooled per snapshot (any thread may close a held reference), which over-approximates every ownership discipline',
                 'the live and dead snapshot lists (skiplists) are modelled as ascending lists; their own lock-free steps are not yield points'],
    ),
    'C02': dict(
        modules=['NitroVerif.Props.C02'],
        runs=[('mvcc', gens.gen_mvcc, 400, 40000), ('mvcc', gens.gen_mvcc_mm, 100, 10000)],
        keep_prefix=1,
        level='proof',
        level_text='C02_refines_set: for every operation sequence through any writers the outputs of the MVCC model (Put/Delete/lookup results, ItemsCount, snapshot counts and contents) equal those of a reference set; C02_put_iff/del_iff/get_iff. The model performs Put and lookup the way the code does (search under the insert comparator, exists-comparator on the predecessor) with the comparators regenerated from nitro.go; tied by a differential run of random histories on the real Nitro (both comparators, both memory modes)',
        trusted=['Lean 4 kernel', 'tools/gofacts translation of the comparators, same-epoch test, skeletons of Put2/Delete2/DeleteNode/NewSnapshot',
                 'differential run of random sequential histories on the real code (default and CompareKV comparators, Go and user-managed memory)',
                 'a skiplist operation is one atomic step of the model (C13); keys are modelled as Nat under <, standing for any lawful total order'],
    ),
    'C01': dict(
        modules=['NitroVerif.Props.C01', 'NitroVerif.Props.C01c', 'NitroVerif.Props.C01cc'],
        runs=[('mvcc', gens.gen_mvcc, 300, 30000), ('mvcc', gens.gen_mvcc_iter, 150, 10000), ('mvcc', gens.gen_mvcc_visit, 100, 5000)],
        iruns=[('mvccconc', gens.gen_mvccconc, 100, 5000)],
        keep_prefix=1,
        level='proof',
        level_text='C01_view_invariant, C01_content_fixed, C01_scan and C01_scan_interleaved (an open snapshot presents exactly the content fixed at its creation, whatever operations, snapshot closes and collections are interleaved with the scan) are proved for every reachable state of the MVCC model; for a reader stepping CONCURRENTLY with writers, closes, collectors, collection and free jobs the small-step model (every schedule, any number of writers and readers; Props/C01cc) proves the property in full: C01_conc_view_fixed / C01_conc_view_fixed_run (no action of any thread or job changes the view of a snapshot that is open), C01_conc_one_version_per_key, C01_conc_scan_prefix and C01_conc_scan_complete (a scan that answered `end` delivered exactly the view as it was at it_first — every visible version once, in comparator order, with its value — whatever was put, deleted, re-inserted, unlinked or freed around the cursor meanwhile), C01_conc_scan_keys_increasing_full, C01_conc_count / C01_conc_count_at_creation, C01_conc_collector_frontier (a node a collection job may still unlink is invisible to every open snapshot), with C01_conc_cursor_monotone and the kernel-checked witness C01_unfixed_duplicate_witness of defect D22 (Props/C01c); the steered engine validates such schedules on the real code',
        trusted=['Lean 4 kernel', 'tools/gofacts translation of skipUnwanted, comparators, gc frontier test and skeletons',
                 'differential run: after random histories every open snapshot is scanned (item by item, with mutations in between) and compared with the model',
                 'granularity: one skiplist operation = one atomic step (C13_linearizable); in the sequential engine collection is performed at the Close that enables it, in the small-step engine by separate jobs',
                 'in 30% of the runs the application chains its live nodes through Node.link (nitro.NodeList), as an index built on nitro does'],
    ),
    'C09': dict(
        modules=['NitroVerif.Props.C09'],
        runs=[('mvcc', gens.gen_mvcc_iter, 400, 40000), ('mvcc', gens.gen_mvcc_visit, 100, 5000), ('mvcc', gens.gen_backup, 40, 2000)],
        keep_prefix=1,
        level='proof',
        level_text='C09_iterator_exact, C09_rate_independent, C09_refresh_independent: Seek/SeekFirst/Next/Refresh of the model iterator equal the positions in the snapshot content for every reachable state and every call sequence; refresh rates and explicit refreshes are unobservable. The skip and refresh conditions and the operation order inside Next/Refresh/Seek are regenerated from iterator.go',
        trusted=['Lean 4 kernel', 'tools/gofacts translation of skipUnwanted, the refresh condition and the skeletons of Iterator.Next/Refresh/Seek/SeekFirst',
                 'differential run of iterator-heavy histories (seek keys present/absent/outside, refresh rates 0..5, explicit Refresh, mutation under the iterator), incl. restored instances whose items are deleted / re-inserted and then sought exactly'],
    ),
    'C10': dict(
        modules=['NitroVerif.Props.C10', 'NitroVerif.Props.C10pool'],
        runs=[('mvcc', gens.gen_mvcc_visit, 300, 20000)],
        keep_prefix=1,
        level='proof',
        level_text='C10_visitor_partition: for every snapshot with references, EVERY pivot list, every shard count, the concatenation over shards equals the content, each shard ascends and lies below the next, a failing callback yields an error; pivot filter and end-of-shard comparator/test regenerated from nitro.go. Termination (Props/C10pool, small-step model of the dispatcher, the buffered work channel, the workers and the errors slice, every number of shards/workers/failing shards, every schedule): C10_pool_no_deadlock (every run is at most 3n+1+c steps and ends final when capacity >= shards, which is what the code has: both are len(pivotItems)-1, pinned by visitor_channel_holds_every_shard), C10_pool_no_deadlock_sharp / C10_pool_deadlock_free_iff (exact threshold n <= cap + c), C10_pool_unfixed_hang_witness (the sizing before fix D19), C10_pool_error_reported / C10_pool_error_iff / C10_pool_final_dichotomy',
        trusted=['Lean 4 kernel', 'tools/gofacts translation of the Visitor pivot filter and end test (comparator kind and comparison)',
                 'differential run: Visitor with 1..200 shards, concurrency 1..8, failing callbacks, latest and older snapshots',
                 'GetRangeSplitItems is not modelled: the theorem holds for every list of pivot items'],
    ),
    'C06': dict(
        modules=['NitroVerif.Props.C06', 'NitroVerif.Props.C06Handoff'],
        runs=[('mvcc', gens.gen_mvcc, 300, 30000), ('mvcc', gens.gen_mvcc_mm, 100, 10000), ('mvcc', gens.gen_backup, 60, 3000)],
        iruns=[('refcount', gens.gen_refcount, 100, 4000), ('mvccconc', gens.gen_mvccconc, 80, 4000)],
        keep_prefix=1,
        level='proof',
        level_text='C06_safety_seq, C06_stays_present and C06_exact_at_quiescence_seq (in-order characterisation: after collection the store is the alive versions plus those with dead > lastGCSn, and lastGCSn+1 is the oldest live snapshot) on the MVCC model; C06_handoff_quiescent (no closing order or interleaving of Close/GC leaves a collectable snapshot behind at quiescence) on the small-step collector model. The differential run compares node count, statistics, lastGCSn after gcwait',
        trusted=['Lean 4 kernel', 'tools/gofacts translation of the frontier test, same-epoch test, skeletons of Close/GC/collectDead/DeleteNode',
                 'differential run with gcwait (level-0 walk and statistics against the model store) and steered Close/GC schedules',
                 'reading of the statement: collection is in snapshot order by design, an older open snapshot pins later garbage (recorded by-design finding D18)'],
    ),
    'C05': dict(
        modules=['NitroVerif.Props.C05', 'NitroVerif.Props.C05e2e', 'NitroVerif.Props.C05load', 'NitroVerif.Props.C10', 'NitroVerif.Props.C18'],
        runs=[('mvcc', gens.gen_backup, 120, 6000), ('mvcc', gens.gen_mvcc_visit, 100, 5000), ('mvcc', gens.gen_backup_stress, 12, 400),
              ('codec', gens.gen_codec_parallel, 4, 40)],
        keep_prefix=1,
        level='proof',
        level_text='C05_end_to_end (what the Visitor of the MVCC model hands to the shard writers, framed and described by the manifests, loads back as exactly the snapshot content, for every pivot list), C05_roundtrip (any partition of the content into shard files), C05_roundtrip_delta_general and C05_delta_any_interleaving are proved on the backup model over an abstract file system (framing from C19, assembly in file order); that the Visitor produces a partition is C10, that the assembled list is well formed is C18, and the two are composed mechanically (Props/C05load): C05_load_is_assemble / C05_restore_shards (the restore AS THE CODE DOES IT on the pointer-heap skiplist model — one builder segment per shard filled by Segment.Add with arbitrary level requests, in ANY interleaving of the concurrent loaders, then Assemble in file order — scans as exactly the list that the backup model load returns, is well formed, has one node per item and continues as the ordered set), C05_load_interleaving_independent, C05_end_to_end_through_builder, C05_load_delta_is_assemble_then_insert (delta items applied one at a time). Differential: random histories, store of any open snapshot with mutation and collection during the backup (delta on/off), restore into a fresh instance, scan, continue the history',
        trusted=['Lean 4 kernel', 'tools/gofacts translation of the checksum tests, delta visibility test, skeletons of StoreToDisk/LoadFromDisk',
                 'differential run of store/load round trips on the real code, including churn during the backup through the item callback',
                 'encoding/json, bufio, os are parameters of the model; crc32 is generic in the theorems'],
    ),
    'C13': dict(
        modules=['NitroVerif.Props.C13', 'NitroVerif.Props.C13c', 'NitroVerif.Props.C13lin', 'NitroVerif.Props.C13linSeq'],
        runs=[('skipseq', gens.gen_skipseq, 300, 20000)],
        iruns=[('skipconc', gens.gen_skipconc, 150, 5000)],
        level='proof',
        level_text='Sequential part proved in full on a pointer-level heap model (C13_sequential: every script with every level request equals the ordered set; C13_delete_once). Concurrent part proved on the CAS-granularity model for any number of threads and ALL interleavings, over whole histories: C13_linearizable (Props/C13linSeq: the explicit, computable sequential history `linearization n as` of every run replays on the set specification with every recorded result, walks through the trace of abstract sets, contains every completed Insert/Delete/Lookup exactly once with the result it printed, and respects real time), C13_lin_insert / C13_lin_delete / C13_lin_lookup / C13_lin_changes / C13_lin_change_is_point / C13_lin_real_time (Props/C13lin: each completed call has exactly one linearization point inside its interval — the successful INS_PUBLISH CAS, the winning level-0 SOFT_MARK, or an instant at which the answer of a read/failed update is true — and no change of the abstract set happens outside a call), plus the state theorems C13_invariant, C13_updates_linearize, C13_live_keys_distinct, C13_one_deleter, C13_reads_miss. Tie: regenerated tests/skeletons/shapes, scripted-level differential runs, steered schedules validated step by step against the executable model',
        trusted=['Lean 4 kernel', 'tools/gofacts translation of findPath/helpDelete/softDelete/NewLevel tests and skeletons of findPath, Insert4, softDelete, deleteNode',
                 'steered schedules at the skiplist yield points on the real list (user-managed memory), every trace validated against the model, final walk of all levels',
                 'node ids are never recycled in the model (memory reuse is the subject of C04); unsafe pointer packing of node_amd64.go is not modelled',
                 'linearizability is proved of the model (one step per yield-point segment); interleavings inside a segment of the real code are not explored'],
    ),
    'C14': dict(
        modules=['NitroVerif.Props.C14', 'NitroVerif.Props.C14c', 'NitroVerif.Props.C14q'],
        runs=[('skipseq', gens.gen_skipseq, 300, 20000), ('skipseq', gens.gen_builder, 150, 8000),
              ('mvcc', gens.gen_backup, 40, 2000), ('mvcc', gens.gen_mvcc_mm, 40, 4000)],
        iruns=[('skipconc', gens.gen_skipconc, 150, 5000)],
        level='proof',
        level_text='C14_wf_sequential and C14_wf_assemble (full well-formedness of all levels and statistics after every sequential history and after Assemble of any segments) proved on the pointer-level heap; for the CONCURRENT model (CAS granularity, every interleaving, any number of threads; Props/C14q): C14_levels_sorted (every reachable state, every level: the chain from the head reaches the tail, keys strictly ascending, every node published and of sufficient height), C14_levels_sublist (the part of level l unmarked at level l-1 is a sub-sequence of level l-1; a node unmarked at level l is on every lower chain), C14_walk_is_chain (the walk the driver prints is that chain), and at QUIESCENCE C14_quiescent_no_marked_linked (no deleted node is on the chain of any level: every marked node still linked is charged to an operation in flight — the two repairs of Insert4 are what makes the invariant inductive; C14_upper_level_unfixed_witness is the kernel-checked witness without them) and C14_quiescent_live_fully_linked (every live node is linked at every level up to its height); C14_levels_sublist_unmarked0_refuted: the sub-sequence claim in terms of the level-0 mark is false in transient states (a Delete parked before its level-0 mark). PARTIAL only in this: the statistics counters after concurrent histories (node count, per-level counts, soft deletes, allocations minus frees) are compared with the walk after every steered run, not proved (per-segment counter lemmas exist, the counting invariant is not finished)',
        trusted=['Lean 4 kernel', 'tools/gofacts translation of the accounting conditions',
                 'walk of all levels and raw statistics after every sequential operation and every steered concurrent run',
                 'with Go-managed memory node_frees stays 0 by construction (by-design finding D20): allocs - frees is compared with the number of successful inserts there, and with the node count in user-managed mode'],
    ),
    'C15': dict(
        modules=['NitroVerif.Props.C15', 'NitroVerif.Props.C15scan'],
        iruns=[('skipconc', gens.gen_skipconc, 150, 6000), ('skipconc', gens.gen_skipconc_scan, 100, 4000), ('skipconc', gens.gen_skipconc_free, 60, 3000)],
        level='proof',
        level_text='Whole scans (Props/C15scan, history variables next to the unchanged model, every run, every number of threads): C15_complete (every node published before the scan started, still unmarked, with seek key <= key < cursor key has been returned — in every state in which no call of the scan is in progress; for the first call this is "Seek(x) lands on an item >= x with no stable item in between"), C15_complete_at_end, C15_monotone (strictly larger key, or the same key with the earlier node deleted and the later one published after the earlier return), C15_present_partial (every returned position is a published node still on the level-0 chain in the state of the return; unmarked when the returning segment ended a findPath). The literal reading of "present at some moment during the scan" as "unmarked at level 0" is REFUTED for the model and the real code (C15_present_refuted / C15_present_counterexample: a node whose Delete is parked between softDelete and its cleaning search is returned by SeekFirst / Next; replayed with the Go harness) — its Delete has not returned yet, which is the reading the check uses. Scans may contain explicit Refresh() calls anywhere between the Next calls (Op.itRefresh; C15_refresh_return: a refresh that lands on the same node delivers nothing new, one that finds the cursor node deleted appends the node it lands on) — the mechanised content of "refreshing does not change these guarantees"; Pause/Resume do not touch the cursor (with user-managed memory a paused iterator is unprotected: recorded finding C15-D24). Per-step theorems C15_monotone_partial, C15_research_ge_partial, C15_seek_ge_partial, C15_seek_no_stable_between, C15_refresh_after_step. Steered schedules with iterators parked on nodes that are deleted (helpDelete success and failure paths), finite refresh intervals and real reclamation are validated against the model',
        trusted=['Lean 4 kernel', 'tools/gofacts skeleton of skiplist Iterator.Next', 'steered iterator/insert/delete schedules validated step by step, incl. explicit Refresh, Pause/Resume, and operations injected at the late point behind the unlink CAS of Next (stepinj)'],
    ),
    'C18': dict(
        modules=['NitroVerif.Props.C18'],
        runs=[('skipseq', gens.gen_builder, 300, 20000), ('skipseq', gens.gen_merge, 300, 20000)],
        level='proof',
        level_text='C18_fill, C18_assemble (any selection of segments, empty ones anywhere, all heights: every level is the concatenation, statistics are sums, WF and ordered-set behaviour afterwards) and C18_merge (SeekFirst/Seek at ANY point reposition at the minimum / minimum >= x and the scan is the sorted merge) proved on the pointer-level heap; the heap-reset of SeekFirst/Seek is regenerated from merger.go',
        trusted=['Lean 4 kernel', 'tools/gofacts facts mergeSeekFirstResets/mergeSeekResets and skeletons', 'container/heap modelled as a list with extract-min (trusted)',
                 'differential run: segments filled in interleaved order with scripted levels, assembled, walked on all levels, then used; merges with re-seeks before/during/after a scan'],
    ),
    'C11': dict(
        modules=['NitroVerif.Props.C11'],
        extra=[faults.c11_extra],
        level='proof',
        level_text='C11_load_damaged (every damage of the fault model gives error, the exact content, or one of four precisely stated residual cases no 32-bit XOR-of-CRC can exclude), C11_truncated_shard_err, C11_removed_shard_err, C11_files_missing_err, C11_unparsable_err, C11_sums_wrong_length_err, C11_sums_altered_err, C11_terminates with pool_no_deadlock (any number of failing shards and workers) are proved on the model of LoadFromDisk over directory images; fault enumeration on real backups (every removal, truncation lengths, byte flips, multi-shard damage at several load concurrencies) compares the real LoadFromDisk with the model on the SAME damaged image and judges it by the property',
        trusted=['Lean 4 kernel', 'tools/gofacts translation of the checksum tests and the skeleton of LoadFromDisk',
                 'fault enumeration against the real LoadFromDisk (loadimg), model and implementation on identical images',
                 'encoding/json is a parameter: the harness passes Go own parse result of every (damaged) manifest; crc32 generic in the theorems, concrete in the driver',
                 'residual cases R1-R4 and D16 are recorded in known_findings.json'],
    ),
    'C12': dict(
        modules=['NitroVerif.Props.C12'],
        extra=[faults.c12_extra],
        level='proof',
        level_text='C12_crash_prefix (every prefix of every effect list of StoreToDisk, all chunkings and interleavings of shard writes: load gives error or the exact content), C12_crash_before_closes_err, C12_store_complete, C12_write_failure, C12_failed_close_is_error are proved on the effect-list model; the order of the file-system effects is tied by the regenerated skeleton of StoreToDisk/rawFileWriter.Close; crash images are captured at every file-system yield point of real backups (small bufio blocks so shard files are partial) and write failures are injected with RLIMIT_FSIZE at every budget in a range',
        trusted=['Lean 4 kernel', 'tools/gofacts skeletons of StoreToDisk and rawFileWriter.Close',
                 'crash-point and write-budget enumeration on the real StoreToDisk/LoadFromDisk',
                 'a crash keeps exactly the file-system effects issued so far (no torn writes below the granularity of a write call, no reordering by the OS)'],
    ),
    'C04': dict(
        modules=['NitroVerif.Props.C04', 'NitroVerif.Props.C16', 'NitroVerif.Props.C13c', 'NitroVerif.Props.C16abs', 'NitroVerif.Props.C16absMvcc', 'NitroVerif.Props.C04skip'],
        iruns=[('mvccconc', gens.gen_mvccconc, 120, 5000), ('barrier', gens.gen_barrier, 80, 3000), ('skipconc', gens.gen_skipconc, 80, 3000),
               ('skipconc', gens.gen_skipconc_free, 80, 3000)],
        runs=[('mvcc', gens.gen_mvcc_mm, 150, 10000), ('mvcc', gens.gen_backup_stress, 12, 400)],
        keep_prefix=1,
        level='proof',
        level_text='C04_no_use_after_free, C04_references_valid, C04_no_double_free, C04_freed_not_linked, C04_one_owner are proved for every schedule of writers, readers, snapshot closes, collection jobs and free jobs on the small-step MVCC model with blocks and an abstract access barrier (acquire/release/flush atomic, destructors in session order once all earlier accessors left — which is what C16/C17 prove of the real barrier, included in this check). PARTIAL in this sense: the composition "barrier theorem + atomic skiplist operations (C13) imply the abstract model" is mechanised only in part — Props/C16absMvcc: the eager barrier of the MVCC model is the lazy abstract barrier followed by destructs to exhaustion (C16abs_mvcc_eager_is_lazy_then_destructs, C16abs_mvcc_moves_are_lazy_runs), Props/C16abs: the real barrier model refines the lazy barrier step by step except for the late grant, and is a fixed point of eager cleanup at quiescence; Props/C04skip: a model of the skiplist at CAS granularity WITH real frees (SkipFree = M5 + abstract barrier + freed set) in which the open defect D23 is a kernel-checked run (C04_skip_relink_uaf_witness: the 31-action witness ends in a dereference of a freed node), with C04_skip_pool_step, C04_skip_freed_prefix, C04_skip_freed_were_deleted_partial, C04_skip_no_double_free_partial (under a stated hypothesis); the no-use-after-free theorem for runs without the D23 overlap is stated, not proved — and machine-level memory safety of unsafe pointer arithmetic is outside any model. Every memory-managed run uses the guard allocator (double/invalid free at the call, poison re-verified), the steered engine drives the reclamation pipeline job by job',
        trusted=['Lean 4 kernel', 'tools/gofacts skeletons of DeleteNode/Delete2/collectionWorker/freeWorker and barrier guards',
                 'steered schedules on the real Nitro (user-managed memory, guard allocator), every trace validated against the model, allocator books compared after shutdown',
                 'abstract barrier justified by C16/C17; skiplist operations atomic justified by C13; neither composition is mechanised',
                 'unsafe pointer packing and the Go runtime are not modelled'],
    ),
    'C07': dict(
        modules=['NitroVerif.Props.C07', 'NitroVerif.Props.C17', 'NitroVerif.Props.C13c'],
        iruns=[('mvccconc', gens.gen_mvccconc, 120, 5000), ('barrier', gens.gen_barrier, 80, 3000), ('skipconc', gens.gen_skipconc, 80, 3000)],
        runs=[('mvcc', gens.gen_mvcc_mm, 150, 10000), ('mvcc', gens.gen_backup, 60, 3000)],
        keep_prefix=1,
        level='proof',
        level_text='C07_balanced (for every schedule that ends quiescent, after shutdown every allocated block has been freed exactly once: no leak, no double free, nothing freed that was not allocated), C07_live_iff_owned, C07_quiescent_only_linked on the small-step model; uses the barrier liveness C17 (included). Instances populated by LoadFromDisk are covered by the differential runs (restore, continue, shutdown with the guard allocator) rather than by the small-step model',
        trusted=['Lean 4 kernel', 'tools/gofacts skeletons of Nitro.Close/freeWorker/collectionWorker',
                 'guard allocator books (live blocks, bad frees, poison) compared with the model after every shutdown, sequential and steered, including restored instances',
                 'abstract barrier justified by C16/C17 (composition argued, not mechanised)'],
    ),
    'C03': dict(
        modules=['NitroVerif.Props.C03', 'NitroVerif.Props.C13c', 'NitroVerif.Props.C13linSeq'],
        iruns=[('mvccconc', gens.gen_mvccconc, 150, 6000), ('skipconc', gens.gen_skipconc, 100, 4000)],
        level='proof',
        level_text='C03_linearizable_atomic_search_partial: for every number of writers and every schedule of all actions (writers, readers, closes, collection and free jobs, any number of epochs) the constructed linearization (decisive step of each call; a losing Delete at the winner step) replays on the reference set with every observed result and each point lies between call and return; C03_next_snapshot, C03_one_winner, C03_same_node_losers. PARTIAL: every skiplist operation is one atomic action of this model; that is justified by the concurrent skiplist theorem C13_linearizable (every run of the CAS-granularity skiplist model has an explicit sequential history with one point per call inside its interval; included in this check); substituting that history for the atomic actions of this model is argued, not mechanised',
        trusted=['Lean 4 kernel', 'tools/gofacts guards and skeletons of Put2/Delete2/DeleteNode',
                 'steered writers on the real Nitro at the nitro-level yield points (same key hit by several writers, same-epoch and cross-epoch deletes), every trace validated against the model',
                 'atomicity of a skiplist operation inside a step (C13); sync/atomic operations sequentially consistent'],
    ),
}


NOT_YET = {}

# second tie: the control shapes (Gen/Shapes.lean, regenerated on every run) of the functions the models of a property
# mirror are pinned by the lemmas of these areas (Lemmas/Shape<Area>.lean)
SHAPES = {
    'C01': ['Mvcc', 'SkipConc'], 'C02': ['Mvcc'], 'C03': ['Mvcc', 'SkipConc'], 'C04': ['Mvcc', 'SkipConc', 'Barrier'],
    'C05': ['Backup', 'Codec', 'Visitor', 'SkipSeq', 'Mvcc'], 'C06': ['Mvcc'], 'C07': ['Mvcc', 'Barrier', 'Backup', 'SkipSeq'],
    'C08': ['Mvcc'], 'C09': ['Mvcc', 'SkipConc'], 'C10': ['Visitor', 'Mvcc', 'SkipConc'], 'C11': ['Backup', 'Codec'], 'C12': ['Backup', 'Codec'],
    'C13': ['SkipConc'], 'C14': ['SkipConc', 'SkipSeq', 'Backup'], 'C15': ['SkipConc'], 'C16': ['Barrier'], 'C17': ['Barrier', 'Mvcc'],
    'C18': ['SkipSeq'], 'C19': ['Codec'], 'C20': ['Table'],
}


GEN_LEMMAS = ['NitroVerif.Lemmas.%sGen' % a for a in ('Backup', 'Barrier', 'Codec', 'MvccConc', 'Mvcc', 'RefCount', 'SkipConc', 'SkipSeq', 'Table')]


def nontrivial_default(case, outs):
    return len(case) >= 3 and not all(o == 'bad-op' for o in outs)


def check(prop, tier, seed, no_build=False):
    t0 = time.time()
    cfg = PROPS[prop]
    rng = random.Random(seed * 1000003 + int(prop[1:]))
    result = {'tie_errors': [], 'proof_errors': [],
              'coverage': {'evaluations': 0, 'traces_validated_against_impl': 0, 'op_histogram': {}, 'samples': [],
                           '_distinct': set()}}
    cov = result['coverage']
    # the characterisation lemmas of EVERY generated guard (Lemmas/<Area>Gen.lean) are obligations of every property: the
    # model driver is one executable that uses all of them, so a regenerated guard that no longer satisfies its lemma
    # must never reach the correspondence run as "the model" (false alarm seen with harmless/1: the visibility test
    # rewritten in negated form was translated with the opposite polarity, the properties whose modules do not
    # import MvccGen went on with a wrong model and reported the implementation's correct answers as violations)
    modules = cfg['modules'] + ['NitroVerif.Lemmas.Shape' + a for a in SHAPES.get(prop, [])] + GEN_LEMMAS
    thms = []
    proof_ok = True
    work = os.path.join(C.WORK, 'p%d' % os.getpid())
    os.makedirs(work, exist_ok=True)
    with C.Lock():
        if not no_build:
            status, text = C.regenerate_guards(result)
            # the reference guards are the committed copy Guards.ref (what the theorems were last proved against
            # on the unchanged tree), not whatever an earlier run on a changed tree may have left in Guards.lean
            refp = os.path.join(os.path.dirname(C.GUARDS), 'Guards.ref')
            backup = open(refp).read() if os.path.exists(refp) else open(C.GUARDS).read()
            if status == 'ok' and text is not None and text != backup:
                status = 'changed'
            if status == 'changed' and text == backup:
                status = 'ok'
                open(C.GUARDS, 'w').write(text)
            if status == 'changed':
                open(C.GUARDS, 'w').write(text)
                cov['guards_regenerated'] = 'changed with respect to the last generated file'
            elif status == 'ok':
                cov['guards_regenerated'] = 'identical to the last generated file'
            rc, out = C.lake_build(modules + ['nvmodel'])
            for _retry in range(2):
                # a failure that names no Lean source position is an infrastructure hiccup (e.g. another lake
                # process touching the build directory): retry; a real proof failure always names file:line:col
                if rc == 0 or re.search(r'\.lean:\d+:\d+', out):
                    break
                time.sleep(3)
                rc, out = C.lake_build(modules + ['nvmodel'])
            if rc != 0:
                proof_ok = False
                errs = [l for l in out.splitlines() if 'error' in l][:12]
                result['proof_errors'] += [C.name_obligation(e) for e in errs] or [out[-800:]]
                if status != 'changed':
                    rc2, out2 = C.lake_build(['nvmodel'])
                    if rc2 != 0:
                        result['tie_errors'].append('model driver does not build: ' + out2[-400:])
                if status == 'changed':
                    # keep a reference model (the one the theorems were proved about) for the search
                    open(C.GUARDS, 'w').write(backup)
                    rc2, out2 = C.lake_build(['nvmodel'])
                    if rc2 != 0:
                        result['tie_errors'].append('reference model does not build: ' + out2[-400:])
            thms, bad = C.audit(modules, result) if proof_ok else ([(m, t) for m in modules for t in C.theorems_of(m)], [])
            for t, why in bad:
                proof_ok = False
                result['proof_errors'].append('audit: %s: %s' % (t, why))
            if proof_ok and tier == 'thorough':
                # independent re-check of the compiled property modules
                for m in modules:
                    rcl, outl = C.run(['lake', 'env', 'leanchecker', m], cwd=C.LEAN, timeout=3000)
                    cov.setdefault('leanchecker', {})[m] = 'ok' if rcl == 0 else outl[-300:]
                    if rcl != 0:
                        proof_ok = False
                        result['proof_errors'].append('leanchecker rejected %s: %s' % (m, outl[-300:]))
            forb = C.grep_forbidden()
            if forb:
                proof_ok = False
                result['proof_errors'] += ['forbidden construct: ' + h for h in forb[:10]]
            if not thms:
                proof_ok = False
                result['proof_errors'].append('no property theorem found in ' + ','.join(modules))
            if not C.build_harness(result):
                result['tie_errors'].append('harness does not build against the current /repo: ' + result.get('harness_build_error', '')[-600:])
        else:
            thms = [(m, t) for m in modules for t in C.theorems_of(m)]
        # private copies of the binaries so that the correspondence phase can run outside the lock
        for b in (C.NVMODEL, C.NVDRIVE):
            if os.path.exists(b):
                shutil.copy2(b, os.path.join(work, os.path.basename(b)))
    C.NVMODEL = os.path.join(work, 'nvmodel')
    C.NVDRIVE = os.path.join(work, 'nvdrive')

    violations = []
    known_lines = []
    try:
        if os.path.exists(C.NVMODEL) and os.path.exists(C.NVDRIVE):
            # corpus first
            cdir = os.path.join(C.VERIF, 'corpus', prop)
            if os.path.isdir(cdir):
                for fn in sorted(os.listdir(cdir)):
                    if fn.endswith('.json'):
                        r = json.load(open(os.path.join(cdir, fn)))
                        violations += C.differential(r['engine'], [r['script']], result, prop, tier)
            for run in cfg.get('iruns', []):
                engine, gen, nq, nt = run[:4]
                n = nq if tier == 'quick' else nt
                if not violations:
                    violations += C.differential_interactive(engine, gen, n, rng, tier, result,
                                                             nontrivial=cfg.get('nontrivial', nontrivial_default),
                                                             keep_prefix=cfg.get('keep_prefix', 0))
            if tier == 'thorough' and not violations:
                for engine in sorted(set(r[0] for r in cfg.get('iruns', []))):
                    if engine in gens.EXHAUSTIVE and not violations:
                        violations += C.differential_exhaustive(engine, gens.EXHAUSTIVE[engine], result, cap=12000)
            for run in cfg.get('runs', []):
                engine, gen, nq, nt = run[:4]
                n = nq if tier == 'quick' else nt
                batch = 500
                done = 0
                while done < n and not violations:
                    cases = [gen(rng, tier) for _ in range(min(batch, n - done))]
                    done += len(cases)
                    violations += C.differential(engine, cases, result, prop, tier,
                                                 nontrivial=cfg.get('nontrivial', nontrivial_default),
                                                 keep_prefix=cfg.get('keep_prefix', 0))
            for extra in cfg.get('extra', []):
                try:
                    violations += extra(prop, tier, rng, result)
                except C.SessionAbort as e:
                    # the implementation hung or died in the middle of an enumeration: that is a violation with
                    # the script so far as its replay
                    lines = getattr(e, 'lines', [])
                    violations.append({'engine': 'mvcc', 'kind': 'abort', 'script': lines,
                                       'diff': {'line': len(lines) - 1, 'op': lines[-1][:200] if lines else '?', 'impl': str(e)[:200], 'model': '<an answer>'}})
    finally:
        pass
    nvdrive_copy = C.NVDRIVE

    # classify against the known findings
    known = C.load_known()
    # the witness of every open finding of this property is replayed on the implementation: while it still
    # violates the property as stated, the finding is reported as known (never as a new violation)
    if os.path.exists(nvdrive_copy):
        C.NVDRIVE = nvdrive_copy
        for k in known.get('open', []):
            w = k.get('witness')
            if k.get('property') != prop or not w:
                continue
            text = 'engine %s\ncase 0\n' % w['engine'] + '\n'.join(w['script']) + '\n'
            rcw, outw, errw = C.run_script(C.NVDRIVE, text, 120, env=C.GOENV)
            got = outw[w['line'] + 2] if len(outw) > w['line'] + 2 else '<no output>'
            cov.setdefault('known_finding_witnesses', []).append({'id': k['id'], 'observed': got[:200], 'property_allows': w['property_allows'][:200]})
            if w['property_allows'] == '<any answer>':
                holds = got != '<no output>' and not got.startswith('hang')      # the implementation died or hung there
            else:
                holds = C.line_match(got, w['property_allows'])
            if not holds:
                known_lines.append('KNOWN-FINDING: property=%s %s' % (prop, k['what']))
    reported = []
    for v in violations:
        kf = match_known(prop, v, known)
        if kf:
            known_lines.append('KNOWN-FINDING: property=%s %s' % (prop, kf['what']))
        else:
            reported.append(v)

    shutil.rmtree(work, ignore_errors=True)
    broken = (not proof_ok) or bool(result['tie_errors'])
    rc = 0
    for l in sorted(set(known_lines)):
        C.log(l)
    if reported:
        for v in reported[:3]:
            v = dict(v)
            v['property'] = prop
            v['seed'] = seed
            v['proof_errors'] = result['proof_errors']
            v['tie_errors'] = result['tie_errors']
            path = C.write_replay(prop, v)
            C.log('VIOLATION property=%s replay=%s' % (prop, path))
        rc = 1
    elif broken:
        path = C.write_replay(prop, {'property': prop, 'seed': seed, 'no_failing_input_found': True,
                                     'broken_obligations': result['proof_errors'], 'broken_tie': result['tie_errors'],
                                     'searched': {'evaluations': cov['evaluations'], 'tier': tier}})
        C.log('VIOLATION property=%s replay=%s no-failing-input-found' % (prop, path))
        rc = 1

    if proof_ok and thms:
        cov['obligations'] = len(thms)
        cov['discharged'] = len(thms)
    else:
        cov['obligations_total'] = len(thms)
        cov['obligations_not_discharged'] = 'the proof build or the audit failed in this run; see proof_errors'
    cov['theorems'] = [t for _, t in thms]
    cov['checker_cmd'] = 'cd /verif/lean && lake build ' + ' '.join(modules) + ' && lake env lean <#print axioms of each theorem>'
    cov['trusted_base'] = cfg.get('trusted', [])
    cov['rule'] = cfg.get('rule', 'cases are operation scripts drawn from the seeded generator; a case counts as distinct by the hash of its script and non-trivial when it has at least 3 operations and not all are rejected')
    cov['explanation'] = cfg.get('explanation', '')
    if not cov['samples']:
        cov['samples'] = [{'theorems': [t for _, t in thms][:5]}]
    cov['proof_errors'] = result['proof_errors']
    cov['tie_errors'] = result['tie_errors']
    C.write_evidence(prop, tier, seed, cfg['level'], cov, cfg.get('assumptions', cfg.get('trusted', [])), time.time() - t0, len(reported) + (1 if (broken and not reported) else 0))
    C.log('%s %s: theorems=%d proof_ok=%s cases=%d distinct=%d violations=%d known=%d wall=%.1fs' % (
        prop, tier, len(thms), proof_ok, cov['evaluations'], len(cov.get('_distinct', [])), len(reported), len(known_lines), time.time() - t0))
    return rc


def match_known(prop, v, known):
    for k in known.get('open', []):
        if k.get('property') != prop:
            continue
        pat = k.get('match', {})
        ok = True
        if 'engine' in pat and v.get('engine') != pat['engine']:
            ok = False
        if 'op_regex' in pat and not re.search(pat['op_regex'], v.get('diff', {}).get('op', '')):
            ok = False
        if 'script_regex' in pat and not re.search(pat['script_regex'], '\n'.join(v.get('script', []))):
            ok = False
        if 'kind' in pat and v.get('kind') != pat['kind']:
            ok = False
        if ok:
            return k
    return None


def replay(path):
    r = json.load(open(path))
    if 'script' not in r:
        C.log('replay names broken obligations only: ' + json.dumps(r.get('broken_obligations', []))[:500])
        return 1
    with C.Lock():
        res = {}
        C.lake_build(['nvmodel'])
        C.build_harness(res)
    d = C.compare_case(r['engine'], r['script'])
    if d is None:
        C.log('replay: implementation and model agree on this script now')
        return 0
    C.log('replay: differ at op %d `%s`: impl=%s model=%s' % (d['line'], d['op'], d['impl'], d['model']))
    return 1
