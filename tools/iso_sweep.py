#!/usr/bin/env python3
"""Sweeps over seeded/ and harmless/ changes in private universes (tools/iso.sh): /repo and /verif are never touched.
   iso_sweep.py seeded <id>... [--props C01,C02]   -> seeded/<id>/meta.json  (caught_by; the property's own check unless --props)
   iso_sweep.py harmless <n>...                     -> harmless/<n>/result.json (all 20 quick checks)
   ISO_PAR universes at a time (default 2), ISO_JOBS checks in parallel inside each (default 4)."""
import os, sys, json, subprocess, concurrent.futures
V = os.path.dirname(os.path.dirname(os.path.abspath(__file__)))
ALL = ['C%02d' % i for i in range(1, 21)]
kind, ids = sys.argv[1], [a for a in sys.argv[2:] if not a.startswith('--')]
props_opt = [a.split('=', 1)[1].split(',') for a in sys.argv[2:] if a.startswith('--props=')]


def one(i):
    d = os.path.join(V, kind, i)
    patch = os.path.join(d, 'patch.diff')
    if kind == 'seeded':
        meta = json.load(open(os.path.join(d, 'meta.json')))
        props = props_opt[0] if props_opt else [meta['property']]
    else:
        props = props_opt[0] if props_opt else ALL
    name = '%s-%s' % (kind, i)
    p = subprocess.run([os.path.join(V, 'tools', 'iso.sh'), name, patch, 'python3 tools/iso_inner.py ' + ' '.join(props)],
                       stdout=subprocess.PIPE, stderr=subprocess.STDOUT, text=True)
    rp = '/root/iso/%s/verif/iso_result.json' % name
    if not os.path.exists(rp):
        return i, {'error': p.stdout[-800:]}
    res = json.load(open(rp))
    if kind == 'seeded':
        own = res.get(meta['property'])
        if own is not None:
            meta['caught_by'] = {'check': meta['property'], 'tier': 'quick', 'seed': int(os.environ.get('VERIF_SEED', '1')),
                                 'result': {'replay': 'replay', 'obligation-only': 'broken-obligation-only', 'quiet': 'MISSED'}.get(own['result'], own['result']),
                                 'exit': own['exit'], 'example': (own['details'] or [None])[0]}
        if props_opt:
            meta['other_checks'] = {k: v['result'] for k, v in res.items() if k != meta['property']}
        json.dump(meta, open(os.path.join(d, 'meta.json'), 'w'), indent=1)
    else:
        json.dump(res, open(os.path.join(d, 'result.json'), 'w'), indent=1)
    subprocess.run(['rm', '-rf', '/root/iso/%s' % name])
    return i, {k: v['result'] for k, v in res.items()}


with concurrent.futures.ThreadPoolExecutor(max_workers=int(os.environ.get('ISO_PAR', '2'))) as ex:
    for i, r in ex.map(one, ids):
        print(kind, i, json.dumps(r), flush=True)
