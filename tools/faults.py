"""Fault enumeration for C11 (damaged backups) and C12 (crash points, write budgets): interactive drivers."""
import random, re
import check as C
import gens

MANIFESTS = {'nitro.json': 'version', 'data/files.json': 'files', 'data/checksums.json': 'sums',
             'delta/files.json': 'dfiles', 'delta/checksums.json': 'dsums'}


def parse_image(line):
    files, man = {}, {}
    for t in line.split():
        k, v = t.split('=', 1)
        if '/' in k or k.endswith('.json'):
            files[k] = bytes.fromhex(v) if v != '-' else b''
        else:
            man[k] = v
    return files, man


def frame_offsets(b):
    """offsets of the most significant TWO bytes of every 4-byte length prefix in a v1 shard file (altering them
    makes the real reader allocate 64 kB .. 2 GB per load: legal, but up to seconds each under load)"""
    offs, i = set(), 0
    while i + 4 <= len(b):
        n = int.from_bytes(b[i:i + 4], 'big')
        offs.update((i, i + 1))
        if n == 0:
            break
        i += 4 + n
    return offs


def build_history(rng, sess, delta, tier, wide=False):
    sim = gens.MvccSim(rng, tier)
    if delta:
        sim.lines[0] += ' delta=1'
    sim.nkeys = rng.choice((1, 3, 8, 20)) if not wide else 150
    sess.send(sim.lines[0])
    n = len(sim.lines)
    for _ in range(rng.randrange(3, 40) if not wide else 400):
        r = rng.random()
        k = sim.key()
        if r < 0.6:
            sim.lines.append('put %d %d %d' % (sim.w(), k, rng.randrange(3) if sim.kv else 0))
        elif r < 0.85:
            sim.lines.append('del %d %d' % (sim.w(), k))
        else:
            sim.lines.append('snap')
            sim.refs.append(1)
    sim.lines.append('snap')
    sim.refs.append(1)
    for l in sim.lines[n:]:
        sess.send(l)
    return sim


def image_tokens(files, man):
    toks = ['%s=%s' % (k, v.hex() if v else '-') for k, v in sorted(files.items())]
    toks += ['%s=%s' % (k, man[k]) for k in ('version', 'files', 'sums', 'dfiles', 'dsums')]
    return ' '.join(toks)


def c11_extra(prop, tier, rng, result):
    """every kind of single fault on every file of stored images, multi-shard faults at several load
    concurrencies; the implementation is compared with the model's `load` on the same damaged image AND
    judged by the property itself (error, or exactly the stored snapshot)."""
    cov = result['coverage']
    viol = []
    nimg = 3 if tier == 'quick' else 12
    per_img = 220 if tier == 'quick' else 1500
    sess = C.Session('mvcc')
    recs = []
    kinds = {}
    checks = []
    aborted = False
    for im in range(nimg):
        sess.new_case()
        delta = (im % 3 == 1) or rng.random() < 0.2      # at least one delta-mode image per run
        sim = build_history(rng, sess, delta, tier, wide=(im % 3 == 2))
        s = rng.choice(sim.open_snaps())
        content = sess.send('scan %d' % (s + 1))
        churn = ''
        if delta:
            # delete keys of the stored snapshot while the backup runs, so that the delta logs are not empty
            present = [int(x.split(':')[0]) for x in content.split(',')] if content not in ('.', 'nil') else []
            ks = sorted(set(rng.sample(present, min(len(present), 3)) + [sim.key()]))
            churn = ' churn=' + ','.join(map(str, ks))
        if sess.send('store %d conc=%d%s' % (s + 1, rng.choice((1, 2, 8)), churn)) != 'ok':
            viol.append({'engine': 'mvcc', 'kind': 'store-failed', 'script': list(sess.lines), 'diff': {'op': sess.lines[-1], 'impl': sess.outs[-1], 'model': 'ok'}})
            break
        files, man = parse_image(sess.send('image'))
        n = 0 if content == '.' else len(content.split(','))
        exact = 'ok count=%d items=%s' % (n, content)
        # enumerate the faults of this image
        faults = []
        for name, b in sorted(files.items()):
            faults.append(('remove', name, None))
            lens = list(range(len(b)))
            for L in lens:
                faults.append(('trunc', name, L))
            pref = frame_offsets(b) if name not in MANIFESTS else set()
            for off in range(len(b)):
                for mask in (0x01, 0x80, 0xff):
                    if off in pref and mask != 0x01 and name not in MANIFESTS:
                        continue        # high bytes of a length prefix: only the lowest bit is flipped (16 MB at most)
                    faults.append(('flip', name, (off, mask)))
        shards = [k for k in files if k.startswith('data/shard-')]
        # the same bit flipped at the same offset of the first record of two shards (equal-length records):
        # the CRC deltas are equal, so any check that folds the shard checksums together is blind to it
        nonempty = [k for k in shards if len(files[k]) > 12]
        for _ in range(12):
            if len(nonempty) >= 2:
                a, b = rng.sample(nonempty, 2)
                faults.append(('multiflip', (a, b), (4 + rng.randrange(8), 1 << rng.randrange(8))))
        for _ in range(30):
            ks = rng.sample(shards, min(len(shards), rng.choice((2, 3, 5))))
            faults.append(('multi', tuple(ks), rng.choice(('trunc', 'garbage'))))
        if len(faults) > per_img:
            # keep all removals and multi faults, sample the rest
            keep = [f for f in faults if f[0] in ('remove', 'multi', 'multiflip')]
            rest = [f for f in faults if f[0] not in ('remove', 'multi', 'multiflip')]
            faults = keep + rng.sample(rest, max(0, per_img - len(keep)))
        for kind, name, arg in faults:
            f2, m2 = dict(files), dict(man)
            names = name if kind in ('multi', 'multiflip') else (name,)
            for nm in names:
                b = files[nm]
                if kind == 'remove':
                    del f2[nm]
                elif kind == 'trunc':
                    f2[nm] = b[:arg]
                elif kind in ('flip', 'multiflip'):
                    if arg[0] >= len(b):
                        continue
                    bb = bytearray(b)
                    bb[arg[0]] ^= arg[1]
                    f2[nm] = bytes(bb)
                elif kind == 'multi':
                    f2[nm] = b[:max(0, len(b) - 1 - rng.randrange(3))] if arg == 'trunc' else bytes([0] + [rng.randrange(256) for _ in range(rng.randrange(0, 8))])   # first prefix byte 0: no 2 GB allocations
                if nm in MANIFESTS:
                    key = MANIFESTS[nm]
                    if nm not in f2:
                        m2[key] = 'absent'
                    else:
                        m2[key] = sess.send('manifest %s %s' % (key, f2[nm].hex() if f2[nm] else '-')).split('=', 1)[1]
            conc = rng.choice((1, 2, 3, 16))
            try:
                out = sess.send('loadimg conc=%d %s' % (conc, image_tokens(f2, m2)))
            except C.SessionAbort as e:
                pre = [x for x in sess.lines[:-1] if not x.startswith(('loadimg', 'manifest'))]
                viol.append({'engine': 'mvcc', 'kind': 'c11-hang', 'fault': [kind, list(names), str(arg)], 'script': pre + [sess.lines[-1]],
                             'diff': {'line': len(pre), 'op': 'loadimg (%s %s %s)' % (kind, ','.join(names), arg), 'impl': str(e)[:200], 'model': 'err || ' + exact[:200]}})
                aborted = True
                break
            cov['evaluations'] += 1
            kinds[kind] = kinds.get(kind, 0) + 1
            checks.append((im, len(sess.lines) - 1, exact, kind, list(names), arg))
        if aborted:
            break
        recs.append((list(sess.lines), list(sess.outs)))
    sess.close()
    # the tie: the model's load on the same damaged images
    text = 'engine mvcc\n' + ''.join('case %d\n' % i + '\n'.join(c) + '\n' for i, (c, _) in enumerate(recs))
    rc, model, err = C.run_script(C.NVMODEL, text, 3000)
    mc = C.split_cases(model)
    for i, (c, io) in enumerate(recs):
        mo = mc[i][1] if i < len(mc) else []
        for j, l in enumerate(c):
            a = io[j]
            b = mo[j] if j < len(mo) else '<no model output>'
            if not C.line_match(a, b):
                pre = [x for x in c[:j] if not x.startswith(('loadimg', 'manifest'))]
                viol.append({'engine': 'mvcc', 'kind': 'c11-tie', 'script': pre + [l], 'diff': {'line': j, 'op': l[:200], 'impl': a[:300], 'model': b[:300]}})
                break
        else:
            cov['traces_validated_against_impl'] += 1
            cov['_distinct'].update('c11-%d-%d' % (i, j) for j, l in enumerate(c) if l.startswith('loadimg'))
    # the property itself, on every damaged load on which implementation and model agree: error, or exactly the
    # stored snapshot; anything else is one of the residual cases of theorem C11_load_damaged (the model, proved
    # to allow only those, returned the same different item set) and is matched against known_findings.json
    for (i, j, exact, kind, names, arg) in checks:
        if i >= len(recs):
            continue
        c, io = recs[i]
        mo = mc[i][1] if i < len(mc) else []
        out = io[j]
        if j < len(mo) and C.line_match(out, mo[j]) and out != 'err' and out != exact:
            pre = [x for x in c[:j] if not x.startswith(('loadimg', 'manifest'))]
            viol.append({'engine': 'mvcc', 'kind': 'c11-' + classify(kind, names), 'fault': [kind, names, arg], 'script': pre + [c[j]],
                         'diff': {'line': j, 'op': 'loadimg (%s %s %s)' % (kind, ','.join(names), arg), 'impl': out[:300], 'model': 'err || ' + exact[:300]}})
    cov['fault_kinds'] = kinds
    if recs and len(cov['samples']) < 3:
        c, io = recs[0]
        k = next((j for j, l in enumerate(c) if l.startswith('loadimg')), 0)
        cov['samples'].append({'engine': 'mvcc', 'script': [x[:160] for x in c[:k + 1]], 'outputs': [x[:160] for x in io[:k + 1]]})
    return viol[:6]


def classify(kind, names):
    nm = names[0]
    if nm == 'nitro.json':
        return 'R2-version'
    if nm == 'data/checksums.json':
        return 'R3-checksums-manifest'
    if nm in ('data/files.json',):
        return 'R4-files-manifest'
    if nm.startswith('delta/') and nm.endswith('.json'):
        return 'D16-delta-manifest'
    if nm.startswith('delta/'):
        return 'R1-delta-shard-collision'
    return 'R1-shard-collision'


def c12_extra(prop, tier, rng, result):
    """every file-system step of StoreToDisk as a crash point, every write budget in a range."""
    cov = result['coverage']
    viol = []
    nimg = 3 if tier == 'quick' else 12
    sess = C.Session('mvcc')
    recs = []
    crash_points = 0
    budgets = 0
    for im in range(nimg):
        sess.new_case()
        delta = (im % 3 == 1) or rng.random() < 0.2      # at least one delta-mode image per run
        sim = build_history(rng, sess, delta, tier)
        s = rng.choice(sim.open_snaps())
        if delta:
            # make sure the stored snapshot is not empty: a few more items, and store the latest snapshot
            for k in (1, 4, 7, 10, 13):
                sess.send('put 0 %d 0' % k)
            sess.send('snap')
            sim.refs.append(1)
            s = len(sim.refs) - 1
        content = sess.send('scan %d' % (s + 1))
        conc = rng.choice((1, 2, 4))
        present = [int(x.split(':')[0]) for x in content.split(',')] if content not in ('.', 'nil') else []
        if delta and present:
            # Delta mode: the stored snapshot is RELEASED by the backup, items of it are deleted and collected
            # while the backup runs, so they reach the backup through the delta files only and the order in which
            # data and delta parts are completed matters. The snapshot can be stored once, so every crash point
            # replays the history in a fresh case.
            history = list(sess.lines)
            # all other references must go, so that the collector can run during the backup
            closes = []
            for i in sim.open_snaps():
                if i != s:
                    closes += ['close %d' % (i + 1)] * sim.refs[i]
            churn = ' churn=' + ','.join(map(str, sorted(set(present[:4]))))
            # first pass: count the file-system steps of this backup
            for l in closes:
                sess.send(l)
            sess.send('crashload %d conc=%d at=100000000%s' % (s + 1, conc, churn))
            nsteps = int(sess.send('laststeps'))
            recs.append((list(sess.lines), list(sess.outs)))
            tail = 50 if tier == 'quick' else 400
            pts = sorted(set(list(range(max(0, nsteps - tail), nsteps)) + list(range(0, min(nsteps, 8 if tier == 'quick' else 200)))))
            for i in pts:
                sess.new_case()
                for l in history:
                    sess.send(l)
                for l in closes:
                    sess.send(l)
                sess.send('crashload %d conc=%d at=%d%s' % (s + 1, conc, i, churn))
                cov['evaluations'] += 1
                crash_points += 1
                recs.append((list(sess.lines), list(sess.outs)))
            continue
        i = 0
        limit = 400 if tier == 'quick' else 5000
        while i < limit:
            sess.send('open %d' % (s + 1))
            o = sess.send('crashload %d conc=%d at=%d' % (s + 1, conc, i))
            cov['evaluations'] += 1
            if o == 'none':
                break
            crash_points += 1
            i += 1 if (tier == 'thorough' or i < 60) else 7
        maxb = 120 if tier == 'quick' else 600
        for b in range(0, maxb, 1 if tier == 'thorough' else 3):
            sess.send('open %d' % (s + 1))
            sess.send('storeload %d conc=%d fsize=%d' % (s + 1, conc, b))
            cov['evaluations'] += 1
            budgets += 1
        recs.append((list(sess.lines), list(sess.outs)))
    # one LARGE snapshot: every shard file receives flushed blocks long before the manifests are written, so the
    # crash points between the manifests see non-empty, unterminated shard files (only the file-system steps of
    # StoreToDisk itself are crash points here, not every item write)
    sess.new_case()
    sess.send('cfg cmp=plain mem=go writers=2')
    nbig = 1500 if tier == 'quick' else 6000
    for k in range(nbig):
        sess.send('put %d %d 0' % (k % 2, k * 3 + 1))
    sess.send('snap')
    i = 0
    while i < 200:
        sess.send('open 1')
        o = sess.send('crashload 1 conc=%d at=%d only=fs' % (rng.choice((1, 4)), i))
        cov['evaluations'] += 1
        if o == 'none':
            break
        crash_points += 1
        i += 1
    for b in (0, 100, 5000, 20000, 10 ** 9):
        sess.send('open 1')
        sess.send('storeload 1 conc=2 fsize=%d' % b)
        cov['evaluations'] += 1
        budgets += 1
    # a snapshot whose last key ranges are empty (their nodes are still physically present, so they get shards of
    # their own): with a budget between the manifest size and the size of a full shard the LAST files close fine
    # while earlier ones fail in their final flush
    for k in range(nbig - nbig // 4, nbig):
        sess.send('del %d %d' % (k % 2, k * 3 + 1))
    sess.send('snap')
    for b in (250, 400, 700, 1200):
        sess.send('open 2')
        sess.send('storeload 2 conc=2 fsize=%d' % b)
        cov['evaluations'] += 1
        budgets += 1
    recs.append((list(sess.lines), list(sess.outs)))
    sess.close()
    text = 'engine mvcc\n' + ''.join('case %d\n' % i + '\n'.join(c) + '\n' for i, (c, _) in enumerate(recs))
    rc, model, err = C.run_script(C.NVMODEL, text, 3000)
    mc = C.split_cases(model)
    for i, (c, io) in enumerate(recs):
        mo = mc[i][1] if i < len(mc) else []
        for j, l in enumerate(c):
            a = io[j]
            b = mo[j] if j < len(mo) else '<no model output>'
            if not C.line_match(a, b):
                pre = [x for x in c[:j] if not x.startswith(('crashload', 'storeload', 'open'))]
                if len(pre) > 400:
                    pre = pre[:2] + ['# ... %d more put lines of the same pattern ...' % (len(pre) - 3)] + pre[-1:]
                viol.append({'engine': 'mvcc', 'kind': 'c12', 'script': pre + [c[j - 1], l] if j else [l], 'diff': {'line': j, 'op': l, 'impl': a[:300], 'model': b[:300]}})
                break
        else:
            cov['traces_validated_against_impl'] += 1
            cov['_distinct'].update('c12-%d-%s' % (i, l) for l in c if l.startswith(('crashload', 'storeload')))
    cov['crash_points'] = crash_points
    cov['write_budgets'] = budgets
    if recs and len(cov['samples']) < 3:
        c, io = recs[0]
        cov['samples'].append({'engine': 'mvcc', 'script': c[:40], 'outputs': [x[:120] for x in io[:40]]})
    return viol[:6]
