#!/usr/bin/env python3
"""Confirm every seeded change in a scratch worktree of /repo (outside /repo and /verif):
   it applies and builds, its demonstration fails with it and passes without it, and the repository's own
   test suite (the BASELINE stable tests) still passes with it. Results go to seeded/<id>/meta.json."""
import os, sys, json, subprocess, shutil, glob, re, time
V = os.path.dirname(os.path.dirname(os.path.abspath(__file__)))
ENV = dict(os.environ, GOFLAGS='-mod=mod', GOPROXY='off', GOSUMDB='off', GOTOOLCHAIN='local')
BASE = set(json.load(open('/root/.vp/BASELINE.json'))['stable_pass'])
only = sys.argv[1:]

def sh(cmd, cwd, timeout=7200):
    p = subprocess.run(cmd, cwd=cwd, env=ENV, shell=True, stdout=subprocess.PIPE, stderr=subprocess.STDOUT, text=True, timeout=timeout)
    return p.returncode, p.stdout

for d in sorted(glob.glob(os.path.join(V, 'seeded', '*'))):
    sid = os.path.basename(d)
    if only and sid not in only:
        continue
    mp = os.path.join(d, 'meta.json')
    meta = json.load(open(mp))
    if meta.get('confirmed', {}).get('suite_passes_with_change') is not None and not only:
        continue
    if not os.path.exists(os.path.join(d, 'patch.diff')):
        continue
    wt = '/tmp/confirm-' + sid
    sh('git -C /repo worktree remove --force %s 2>/dev/null; rm -rf %s' % (wt, wt), '/')
    rc, out = sh('git -C /repo worktree add -q --detach %s HEAD' % wt, '/')
    conf = {'at_repo_commit': subprocess.check_output(['git', '-C', '/repo', 'rev-parse', '--short', 'HEAD'], text=True).strip()}
    try:
        demos = [f for f in os.listdir(d) if f.endswith('_test.go')]
        # where does a demo go: package clause decides (skiplist / nodetable / root)
        def place(f):
            src = open(os.path.join(d, f)).read()
            m = re.search(r'^package\s+(\w+)', src, re.M)
            pkg = m.group(1) if m else 'nitro'
            sub = {'skiplist': 'skiplist', 'nodetable': 'nodetable', 'mm': 'mm'}.get(pkg.replace('_test', ''), '.')
            shutil.copy(os.path.join(d, f), os.path.join(wt, sub, f))
            tags = '-tags verif' if re.search(r'^//go:build .*verif', src, re.M) else ''
            names = re.findall(r'^func (Test\w+)\(', src, re.M)
            return sub, tags, names
        def run_demos():
            ok_all, log = True, ''
            for f in demos:
                sub, tags, names = place(f)
                rc, out = sh('go test %s -vet=off -count=1 -timeout 30m -run "^(%s)$" ./%s' % (tags, '|'.join(names), sub), wt)
                log += out[-1500:]
                ok_all = ok_all and rc == 0
            return ok_all, log
        # without the change
        ok0, log0 = run_demos()
        conf['demo_passes_without_change'] = ok0
        rc, out = sh('git apply %s' % os.path.join(d, 'patch.diff'), wt)
        conf['applies'] = rc == 0
        if rc == 0:
            rc, out = sh('go build ./... && go build -tags verif ./...', wt)
            conf['builds'] = rc == 0
            ok1, log1 = run_demos()
            conf['demo_fails_with_change'] = not ok1
            for f in demos:
                for root, _, fs in os.walk(wt):
                    if f in fs:
                        os.remove(os.path.join(root, f))
            t0 = time.time()
            rc, out = sh('go test -mod=mod -json -vet=off -count=1 -timeout 60m ./...', wt)
            res = {}
            for l in out.splitlines():
                try:
                    e = json.loads(l)
                except Exception:
                    continue
                if e.get('Test') and e.get('Action') in ('pass', 'fail') and '/' not in e['Test']:
                    res[e['Package'] + '::' + e['Test']] = e['Action']
            missing = sorted(t for t in BASE if res.get(t) != 'pass')
            conf['suite_passes_with_change'] = not missing
            conf['suite_missing'] = missing[:10]
            conf['suite_wall_s'] = round(time.time() - t0)
    finally:
        sh('git -C /repo worktree remove --force %s; rm -rf %s' % (wt, wt), '/')
    meta['confirmed'] = conf
    json.dump(meta, open(mp, 'w'), indent=1)
    print(sid, conf, flush=True)
