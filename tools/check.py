#!/usr/bin/env python3
"""Orchestrator of the nitro verification checks.

  check.py <Cxx> [--tier quick|thorough]      run the check of one property
  check.py --replay <file>                    re-run a recorded replay (script) on implementation and model

One run: (1) regenerate lean/NitroVerif/Gen/Guards.lean from /repo (tools/gofacts); (2) build the property's
theorems (lake), audit their axioms, grep for forbidden constructs; (3) build the Go harness against /repo's
working tree with -tags verif; (4) correspondence: run the same scripts on the real code (nvdrive) and on the
Lean model (nvmodel) and diff; (5) on a broken proof / tie / correspondence, search for a concrete failing
input, shrink it, write a replay and print `VIOLATION property=<id> replay=<path>`; (6) write evidence/<id>.json.
"""
import sys, os, json, time, subprocess, hashlib, re, random, fcntl, shutil, argparse

VERIF = os.path.dirname(os.path.dirname(os.path.abspath(__file__)))
LEAN = os.path.join(VERIF, 'lean')
HARNESS = os.path.join(VERIF, 'harness')
WORK = os.path.join(VERIF, 'work')
REPLAYS = os.path.join(VERIF, 'replays')
EVID = os.path.join(VERIF, 'evidence')
NVMODEL = os.path.join(LEAN, '.lake', 'build', 'bin', 'nvmodel')
NVDRIVE = os.path.join(HARNESS, 'bin', 'nvdrive')
GOFACTS = os.path.join(VERIF, 'tools', 'gofacts')
GUARDS = os.path.join(LEAN, 'NitroVerif', 'Gen', 'Guards.lean')
REPO = os.environ.get('VERIF_REPO', '/repo')

GOENV = dict(os.environ, GOFLAGS='-mod=mod', GOPROXY='off', GOSUMDB='off', GOTOOLCHAIN='local')
ALLOWED_AXIOMS = {'propext', 'Classical.choice', 'Quot.sound'}
FORBIDDEN = re.compile(r'\b(sorry|admit|native_decide|bv_decide|implemented_by)\b|^\s*axiom\s|\bunsafe\s|maxHeartbeats\s+0\b', re.M)

sys.path.insert(0, os.path.join(VERIF, 'tools'))


def log(*a):
    print(*a, flush=True)


def run(cmd, cwd=None, env=None, timeout=None, inp=None):
    p = subprocess.run(cmd, cwd=cwd, env=env, timeout=timeout, input=inp, stdout=subprocess.PIPE, stderr=subprocess.STDOUT, text=True)
    return p.returncode, p.stdout


class Lock:
    def __enter__(self):
        os.makedirs(WORK, exist_ok=True)
        self.f = open(os.path.join(WORK, '.lock'), 'w')
        fcntl.flock(self.f, fcntl.LOCK_EX)
        return self

    def __exit__(self, *a):
        fcntl.flock(self.f, fcntl.LOCK_UN)
        self.f.close()


# ----------------------------------------------------------------------------------------------
# build phase
# ----------------------------------------------------------------------------------------------

def strip_comments(src):
    src = re.sub(r'/-.*?-/', '', src, flags=re.S)
    src = re.sub(r'--.*', '', src)
    return src


def lean_sources():
    out = []
    for root, _, files in os.walk(os.path.join(LEAN, 'NitroVerif')):
        for f in files:
            if f.endswith('.lean'):
                out.append(os.path.join(root, f))
    out.append(os.path.join(LEAN, 'Main.lean'))
    return sorted(out)


def regenerate_guards(result):
    """Run the translator. Returns (status, text): status in ok|changed|failed."""
    rc, out = run(['go', 'run', '.', '-repo', REPO], cwd=GOFACTS, env=GOENV, timeout=300)
    if rc != 0:
        result['tie_errors'].append('gofacts could not translate the current source: ' + out.strip().splitlines()[-1] if out.strip() else 'gofacts failed')
        result['gofacts_output'] = out[-2000:]
        return 'failed', None
    # second generated file: control shapes of every mirrored function (nothing but the Shape<Area> lemma files reads
    # it, so it is simply rewritten; a change breaks the lemma named after the function)
    rc2, out2 = run(['go', 'run', '.', '-shapes', '-repo', REPO], cwd=GOFACTS, env=GOENV, timeout=300)
    if rc2 != 0:
        result['tie_errors'].append('gofacts -shapes could not read the current source: ' + (out2.strip().splitlines()[-1] if out2.strip() else 'failed'))
    else:
        shp = os.path.join(os.path.dirname(GUARDS), 'Shapes.lean')
        if not os.path.exists(shp) or open(shp).read() != out2:
            open(shp, 'w').write(out2)
            result['coverage']['shapes_regenerated'] = 'changed with respect to the last generated file'
        else:
            result['coverage']['shapes_regenerated'] = 'identical to the last generated file'
    cur = open(GUARDS).read()
    if out == cur:
        return 'ok', out
    return 'changed', out


def lake_build(targets, timeout=3000):
    return run(['lake', 'build'] + targets, cwd=LEAN, timeout=timeout)


def name_obligation(err):
    """append the name of the theorem an error position lies in (`file.lean:line:col`)"""
    m = re.search(r'(NitroVerif/\S+\.lean):(\d+):\d+', err)
    if not m:
        return err
    try:
        lines = open(os.path.join(LEAN, m.group(1))).read().splitlines()
    except OSError:
        return err
    for i in range(min(int(m.group(2)), len(lines)) - 1, -1, -1):
        t = re.match(r'\s*(?:@\[[^\]]*\]\s*)?(?:private\s+|protected\s+)?(?:theorem|lemma|def|example|instance)\s*([^\s:({\[]*)', lines[i])
        if t:
            return err + '  [in `%s` of %s]' % (t.group(1) or 'example', m.group(1))
    return err


def theorems_of(module):
    path = os.path.join(LEAN, *module.split('.')) + '.lean'
    if not os.path.exists(path):
        return []
    src = strip_comments(open(path).read())
    ns = []
    names = []
    for line in src.splitlines():
        m = re.match(r'\s*namespace\s+(\S+)', line)
        if m:
            ns.append(m.group(1))
        m = re.match(r'\s*end\s+(\S+)', line)
        if m and ns and ns[-1] == m.group(1):
            ns.pop()
        m = re.match(r'\s*(?:@\[[^\]]*\]\s*)?(?:private\s+|protected\s+)?theorem\s+([^\s:({\[]+)', line)
        if m:
            names.append('.'.join(ns + [m.group(1)]))
    return names


def audit(modules, result):
    """#print axioms for every theorem of the given modules."""
    thms = []
    for m in modules:
        thms += [(m, t) for t in theorems_of(m)]
    os.makedirs(WORK, exist_ok=True)
    path = os.path.join(WORK, 'Audit_%d.lean' % os.getpid())
    with open(path, 'w') as f:
        for m in modules:
            f.write('import %s\n' % m)
        for _, t in thms:
            f.write('#print axioms %s\n' % t)
    rc, out = run(['lake', 'env', 'lean', path], cwd=LEAN, timeout=1200)
    os.remove(path)
    res = {}
    cur = None
    # output: "'name' depends on axioms: [a, b]" or "'name' does not depend on any axioms"
    for m in re.finditer(r"'([^']+)' (does not depend on any axioms|depends on axioms: \[([^\]]*)\])", out.replace('\n', ' ')):
        name = m.group(1)
        axs = set(a.strip() for a in (m.group(3) or '').split(',') if a.strip())
        res[name] = axs
    bad = []
    for _, t in thms:
        if t not in res:
            bad.append((t, 'no audit output'))
        elif not res[t] <= ALLOWED_AXIOMS:
            bad.append((t, 'axioms ' + ','.join(sorted(res[t] - ALLOWED_AXIOMS))))
    result['audit'] = {t: sorted(res.get(t, ['?'])) for _, t in thms}
    if rc != 0 and not bad:
        bad.append(('audit', out[-500:]))
    return thms, bad


def grep_forbidden():
    hits = []
    for p in lean_sources():
        src = strip_comments(open(p).read())
        if os.path.basename(p) == 'Main.lean':
            src = src.replace('partial def loop', 'def loop')
        for m in FORBIDDEN.finditer(src):
            hits.append('%s: %s' % (os.path.relpath(p, LEAN), m.group(0).strip()))
    return hits


def build_harness(result):
    os.makedirs(os.path.join(HARNESS, 'bin'), exist_ok=True)
    if os.path.exists(NVDRIVE):
        os.remove(NVDRIVE)      # a failed build must not leave a stale binary behind
    rc, out = run(['go', 'build', '-tags', 'verif', '-o', NVDRIVE, './cmd/nvdrive'], cwd=HARNESS, env=GOENV, timeout=600)
    if rc != 0:
        result['harness_build_error'] = out[-3000:]
        return False
    return True


# ----------------------------------------------------------------------------------------------
# correspondence phase
# ----------------------------------------------------------------------------------------------

def run_script(binary, text, timeout=600, env=None):
    try:
        p = subprocess.run([binary], input=text, stdout=subprocess.PIPE, stderr=subprocess.PIPE, text=True, timeout=timeout, env=env)
        return p.returncode, p.stdout.splitlines(), p.stderr
    except subprocess.TimeoutExpired as e:
        out = e.stdout or ''
        if isinstance(out, bytes):
            out = out.decode('utf8', 'replace')
        return -9, out.splitlines(), 'timeout'


def line_match(impl, model):
    """comparer conventions of PROTOCOL.md: `*` matches anything, `A || B` matches any alternative"""
    if impl == model or model == '*':
        return True
    if ' || ' in model:
        return impl in model.split(' || ')
    return False


def lists_match(io, mo):
    return io is not None and mo is not None and len(io) == len(mo) and all(line_match(a, b) for a, b in zip(io, mo))


def compare_case(engine, lines, timeout=40):
    """Run one case on both sides. Returns None if equal, else dict describing the first difference."""
    text = 'engine %s\ncase 0\n' % engine + '\n'.join(lines) + '\n'
    rc1, impl, err1 = run_script(NVDRIVE, text, timeout, env=GOENV)
    rc2, model, err2 = run_script(NVMODEL, text, timeout)
    n = len(lines) + 2
    for i in range(n):
        a = impl[i] if i < len(impl) else '<no output: implementation process ended (rc=%s) %s>' % (rc1, (err1 or '').strip()[-300:])
        b = model[i] if i < len(model) else '<no output: model ended (rc=%s)>' % rc2
        if not line_match(a, b):
            return {'line': i - 2, 'op': lines[i - 2] if i >= 2 else '<header>', 'impl': a, 'model': b}
    return None


def shrink_case(engine, lines, keep_prefix=1, budget=400, accept=None, timeout=40):
    """delta-debugging on the op lines of one failing case (the first keep_prefix lines are kept)."""
    head, body = lines[:keep_prefix], lines[keep_prefix:]
    tries = 0
    t_start = time.time()

    def fails(b):
        nonlocal tries
        tries += 1
        if time.time() - t_start > (90 if timeout <= 10 else 240):      # never spend more than a few minutes shrinking
            tries = budget
            return False
        d = compare_case(engine, head + b, timeout=timeout)
        if d is None:
            return False
        if 'bad-op' in d['model'] or 'bad-op' in d['impl']:
            return False
        return accept(d) if accept else True

    n = 2
    while len(body) >= 2 and tries < budget:
        chunk = max(1, len(body) // n)
        reduced = False
        for i in range(0, len(body), chunk):
            cand = body[:i] + body[i + chunk:]
            if cand and fails(cand):
                body = cand
                n = max(n - 1, 2)
                reduced = True
                break
            if tries >= budget:
                break
        if not reduced:
            if chunk == 1:
                break
            n = min(len(body), n * 2)
    return head + body


def histogram(cov, engine, lines, outs):
    """input distribution: operations (for start/step engines the call kind) and the kinds of answers seen"""
    h = cov['op_histogram']
    oh = cov.setdefault('answer_histogram', {})
    for l, o in zip(lines, outs):
        t = l.split()
        k = engine + ':' + t[0]
        if t[0] == 'start' and len(t) > 2:
            k += ':' + t[2]
        h[k] = h.get(k, 0) + 1
        ot = o.split()
        a = ot[0] if ot else ''
        if a in ('at', 'ret') and len(ot) > 1:
            a += ' ' + (ot[1] if a == 'at' or ot[1] in ('true', 'false', 'end', 'none', 'ok', 'nil') else '<value>')
        elif '=' in a:
            a = a.split('=')[0] + '=…'
        elif a.lstrip('-').isdigit() or ':' in a or ',' in a:
            a = '<value>'
        ak = engine + ':' + a
        oh[ak] = oh.get(ak, 0) + 1


def split_cases(lines):
    """[(case id, [output lines])] from an output stream."""
    cases = []
    for l in lines:
        if l.startswith('case '):
            cases.append((l.split()[1], []))
        elif cases:
            cases[-1][1].append(l)
    return cases


def differential(engine, cases, result, prop, tier, known=None, keep_prefix=1, nontrivial=None, max_report=3):
    """cases: list of list-of-op-lines. Runs them all in one process pair; diffs; shrinks mismatches.
    Returns list of violations (dicts)."""
    t0 = time.time()
    text = 'engine %s\n' % engine
    for i, c in enumerate(cases):
        text += 'case %d\n' % i + '\n'.join(c) + '\n'
    batch_timeout = 240 if tier == 'quick' else 2400
    rc1, impl, err1 = run_script(NVDRIVE, text, batch_timeout, env=GOENV)
    rc2, model, err2 = run_script(NVMODEL, text, batch_timeout)
    hung = rc1 == -9
    ic = split_cases(impl)
    mc = split_cases(model)
    viol = []
    cov = result['coverage']
    distinct = cov.setdefault('_distinct', set())
    for i, c in enumerate(cases):
        cov['evaluations'] += 1
        io = ic[i][1] if i < len(ic) else None
        mo = mc[i][1] if i < len(mc) else None
        if lists_match(io, mo) and len(io) == len(c):
            h = hashlib.sha1('\n'.join(c).encode()).hexdigest()
            if nontrivial is None or nontrivial(c, io):
                distinct.add(h)
            cov['traces_validated_against_impl'] += 1
            histogram(cov, engine, c, io)
            if len(cov['samples']) < 3 and (nontrivial is None or nontrivial(c, io)):
                cov['samples'].append({'engine': engine, 'script': c[:40], 'outputs': io[:40]})
            continue
        # mismatch (or a process died): re-run this case alone
        d = compare_case(engine, c, timeout=20 if hung else 40)
        if d is None:
            # not reproducible in isolation: state leaked between cases or nondeterminism
            d = {'line': -1, 'op': '<case differs only inside the batch>', 'impl': str((io or [])[:3]), 'model': str((mo or [])[:3])}
            small = c
        else:
            is_hang = '<no output' in d.get('impl', '')
            small = shrink_case(engine, c, keep_prefix=keep_prefix, budget=25 if is_hang else 400, timeout=10 if is_hang else 40)
            d = compare_case(engine, small, timeout=20 if is_hang else 40) or d
        viol.append({'engine': engine, 'script': small, 'diff': d, 'original_len': len(c)})
        if len(viol) >= max_report or '<no output' in d.get('impl', ''):
            break       # one hang/crash witness is enough: every further one costs a timeout
    cov['wall_diff_s'] = cov.get('wall_diff_s', 0) + time.time() - t0
    if rc2 != 0 and not viol:
        result['tie_errors'].append('model driver failed: rc=%s %s' % (rc2, err2[-300:]))
    return viol


class SessionAbort(Exception):
    pass


class Session:
    """Interactive run of nvdrive: the generator sees each output before choosing the next operation."""

    def __init__(self, engine):
        self.p = subprocess.Popen([NVDRIVE], stdin=subprocess.PIPE, stdout=subprocess.PIPE, stderr=subprocess.DEVNULL, text=True, env=GOENV, bufsize=1)
        self.engine = engine
        self.dead = False
        self.lines = []
        self.outs = []
        self._raw('engine ' + engine)

    def _raw(self, line):
        if self.dead:
            return '<no output: implementation process ended>'
        import select
        try:
            self.p.stdin.write(line + '\n')
            self.p.stdin.flush()
        except Exception:
            self.dead = True
            return '<no output: implementation process ended>'
        r, _, _ = select.select([self.p.stdout], [], [], 60)
        if not r:
            self.dead = True
            self.p.kill()
            return '<no output within 60 s: implementation hangs>'
        o = self.p.stdout.readline()
        if not o:
            self.dead = True
            return '<no output: implementation process ended>'
        return o.rstrip('\n')

    def new_case(self):
        self.lines = []
        self.outs = []
        self.nsent = 0
        if self.dead:
            self.__init__(self.engine)
        self._raw('case 0')

    def send(self, line):
        o = self._raw(line)
        self.lines.append(line)
        self.outs.append(o)
        self.nsent = getattr(self, 'nsent', 0) + 1
        if o.startswith(('<no output', 'hang', 'thread ', 'deadlock')) or self.nsent > 20000:
            e = SessionAbort(o)
            e.lines = list(self.lines)
            e.outs = list(self.outs)
            raise e
        return o

    def close(self):
        try:
            self.p.stdin.close()
            self.p.wait(timeout=30)
        except Exception:
            self.p.kill()


def differential_interactive(engine, gen, n, rng, tier, result, nontrivial=None, keep_prefix=1, max_report=3):
    """gen(rng, tier, sess) drives the implementation; the recorded scripts are then replayed on the model."""
    t0 = time.time()
    cov = result['coverage']
    distinct = cov.setdefault('_distinct', set())
    sess = Session(engine)
    recs = []
    aborts = 0
    for _ in range(n):
        sess.new_case()
        try:
            gen(rng, tier, sess)
        except SessionAbort:
            aborts += 1
        recs.append((sess.lines, sess.outs))
        if aborts >= 2:
            break       # the implementation hangs or dies: two witnesses are enough
    sess.close()
    text = 'engine %s\n' % engine
    for i, (c, _) in enumerate(recs):
        text += 'case %d\n' % i + '\n'.join(c) + '\n'
    rc2, model, err2 = run_script(NVMODEL, text, 3000)
    mc = split_cases(model)
    viol = []
    for i, (c, io) in enumerate(recs):
        cov['evaluations'] += 1
        mo = mc[i][1] if i < len(mc) else None
        if lists_match(io, mo):
            if nontrivial is None or nontrivial(c, io):
                distinct.add(hashlib.sha1('\n'.join(c).encode()).hexdigest())
                if len(cov['samples']) < 3:
                    cov['samples'].append({'engine': engine, 'script': c[:60], 'outputs': io[:60]})
            cov['traces_validated_against_impl'] += 1
            histogram(cov, engine, c, io)
            continue
        d = compare_case(engine, c)
        if d is None:
            first = next((j for j in range(len(c)) if mo is None or j >= len(mo) or not line_match(io[j], mo[j])), -1)
            d = {'line': first, 'op': c[first] if first >= 0 else '?', 'impl': io[first] if first >= 0 else '?',
                 'model': (mo[first] if mo and first < len(mo) else '<none>'), 'note': 'differs in the interactive run only'}
            small = c
        else:
            is_hang = '<no output' in d.get('impl', '') or d.get('impl', '').startswith(('hang', 'thread ', 'deadlock'))
            small = shrink_case(engine, c, keep_prefix=keep_prefix, budget=25 if is_hang else 400, timeout=10 if is_hang else 40)
            d = compare_case(engine, small, timeout=20 if is_hang else 40) or d
        viol.append({'engine': engine, 'script': small, 'diff': d, 'original_len': len(c)})
        if len(viol) >= max_report or '<no output' in d.get('impl', ''):
            break       # one hang/crash witness is enough: every further one costs a timeout
    cov['wall_diff_s'] = cov.get('wall_diff_s', 0) + time.time() - t0
    if rc2 != 0 and not viol:
        result['tie_errors'].append('model driver failed: rc=%s %s' % (rc2, err2[-300:]))
    return viol


def differential_exhaustive(engine, scenarios, result, cap=4000):
    """every schedule of each small scenario (stateless DFS by re-execution), each leaf validated against the model"""
    import gens
    cov = result['coverage']
    viol = []
    total, complete = 0, True
    for init, calls, final in scenarios:
        sess = Session(engine)
        ex = gens.Explorer(engine, init, calls, final, cap=cap)
        try:
            recs = ex.run(sess)
        except SessionAbort as e:
            recs = ex.cases + [(list(sess.lines), list(sess.outs))]
        sess.close()
        complete = complete and ex.complete
        text = 'engine %s\n' % engine + ''.join('case %d\n' % i + '\n'.join(c) + '\n' for i, (c, _) in enumerate(recs))
        rc, model, err = run_script(NVMODEL, text, 3000)
        mc = split_cases(model)
        for i, (c, io) in enumerate(recs):
            total += 1
            cov['evaluations'] += 1
            mo = mc[i][1] if i < len(mc) else None
            if lists_match(io, mo):
                cov['traces_validated_against_impl'] += 1
                cov['_distinct'].add(hashlib.sha1('\n'.join(c).encode()).hexdigest())
            elif len(viol) < 3:
                j = next((k for k in range(len(c)) if mo is None or k >= len(mo) or not line_match(io[k], mo[k])), 0)
                viol.append({'engine': engine, 'script': c, 'kind': 'exhaustive', 'diff': {'line': j, 'op': c[j], 'impl': io[j] if j < len(io) else '?', 'model': mo[j] if mo and j < len(mo) else '<none>'}})
    cov.setdefault('exhaustive_scenarios', {})[engine] = {'schedules': total, 'complete': complete}
    return viol


# ----------------------------------------------------------------------------------------------
# known findings, replays, evidence
# ----------------------------------------------------------------------------------------------

def load_known():
    p = os.path.join(VERIF, 'known_findings.json')
    if os.path.exists(p):
        return json.load(open(p))
    return {'open': [], 'fixed': []}


def write_replay(prop, payload):
    os.makedirs(REPLAYS, exist_ok=True)
    n = 0
    while os.path.exists(os.path.join(REPLAYS, '%s-%d.json' % (prop, n))):
        n += 1
    path = os.path.join(REPLAYS, '%s-%d.json' % (prop, n))
    json.dump(payload, open(path, 'w'), indent=1)
    return path


def write_evidence(prop, tier, seed, level, cov, assumptions, wall, violations):
    os.makedirs(EVID, exist_ok=True)
    cov = dict(cov)
    d = cov.pop('_distinct', set())
    cov['distinct_nontrivial'] = len(d)
    ev = {'property_id': prop, 'tier': tier, 'seed': seed, 'level': level, 'coverage': cov,
          'assumptions': assumptions, 'wall_s': round(wall, 2), 'violations': violations}
    json.dump(ev, open(os.path.join(EVID, prop + '.json'), 'w'), indent=1)


# ----------------------------------------------------------------------------------------------
# main
# ----------------------------------------------------------------------------------------------

def main():
    ap = argparse.ArgumentParser()
    ap.add_argument('prop', nargs='?')
    ap.add_argument('--tier', default=os.environ.get('VERIF_TIER', 'quick'))
    ap.add_argument('--replay')
    ap.add_argument('--no-build', action='store_true')
    args = ap.parse_args()
    import props
    if args.replay:
        return props.replay(args.replay)
    if not args.prop or args.prop not in props.PROPS:
        log('usage: check.py <Cxx> [--tier quick|thorough]; known: ' + ' '.join(sorted(props.PROPS)))
        return 2
    seed = int(os.environ.get('VERIF_SEED', '1'))
    tier = args.tier if args.tier in ('quick', 'thorough') else 'quick'
    return props.check(args.prop, tier, seed, no_build=args.no_build)


if __name__ == '__main__':
    sys.exit(main())
