#!/usr/bin/env python3
"""Import the output of a mutation sub-agent (/tmp/mut-Cxx.out/<n>/) into /verif/seeded/<Cxx>-<n>/."""
import sys, os, shutil, json, re
prop = sys.argv[1]
src = '/tmp/mut-%s.out' % prop
for n in sorted(os.listdir(src)):
    d = os.path.join(src, n)
    if not os.path.isdir(d) or not os.path.exists(os.path.join(d, 'patch.diff')):
        continue
    dst = '/verif/seeded/%s-%s' % (prop, n)
    os.makedirs(dst, exist_ok=True)
    for f in os.listdir(d):
        p = os.path.join(d, f)
        if os.path.isfile(p) and os.path.getsize(p) < 200000 and not f.endswith(('.log',)) and not f.startswith('suite'):
            shutil.copy2(p, os.path.join(dst, f))
    notes = open(os.path.join(d, 'notes.md')).read() if os.path.exists(os.path.join(d, 'notes.md')) else ''
    meta = {'property': prop, 'source': 'independent sub-agent given only the property text and a scratch worktree',
            'needs_to_manifest': '', 'confirmed': {}, 'caught_by': {}}
    mp = os.path.join(dst, 'meta.json')
    if os.path.exists(mp):
        meta.update(json.load(open(mp)))
    json.dump(meta, open(mp, 'w'), indent=1)
    print('imported', dst)
