#!/usr/bin/env python3
"""Writes /verif/MANIFEST.json from tools/props.py (claimed checks) and properties.jsonl."""
import json, os, sys
sys.path.insert(0, os.path.dirname(os.path.abspath(__file__)))
import props
V = os.path.dirname(os.path.dirname(os.path.abspath(__file__)))
ids = [json.loads(l)['id'] for l in open(os.path.join(V, 'properties.jsonl'))]
hooks = [l.split()[0] for l in os.popen("git -C /repo log --format='%h %s' | grep 'verif hooks'").read().splitlines()]
m = {
    "version": 1,
    "setup_cmd": "cd /verif && sh tools/setup.sh",
    "hooks": {"guard": "verif", "enable": "go build -tags verif (harness/cmd/nvdrive is built against /repo with the tag on every check run)",
              "baseline_off_cmd": "cd /repo && go test -mod=mod -json -vet=off -count=1 -timeout 25m ./...",
              "source_commits": hooks, "add_only": True},
    "engines": [{"name": "nvmodel", "path": "lean/", "serves_properties": sorted(props.PROPS), "kind_free_text": "Lean 4 models, theorems and line-protocol driver"},
                {"name": "nvdrive", "path": "harness/", "serves_properties": sorted(props.PROPS), "kind_free_text": "Go harness running the real code on the same scripts/schedules"},
                {"name": "gofacts", "path": "tools/gofacts/", "serves_properties": sorted(props.PROPS), "kind_free_text": "Go-AST to Lean translator of guards, constants and skeletons"}],
    "checks": [], "not_applicable": [],
    "notes": "see DESIGN.md; known findings in known_findings.json",
}
for p in ids:
    if p in props.PROPS:
        c = props.PROPS[p]
        m["checks"].append({
            "property_id": p,
            "quick_cmd": "python3 tools/check.py %s --tier quick" % p,
            "thorough_cmd": "python3 tools/check.py %s --tier thorough" % p,
            "evidence_file": "/verif/evidence/%s.json" % p,
            "replay_cmd_template": "python3 tools/check.py --replay {path}",
            "engine": "nvmodel+nvdrive",
            "level_claimed": {"category": c['level'], "text": c.get('level_text', ''), "design_ref": "DESIGN.md section 5 " + p},
            "level_note": '; '.join(c.get('trusted', [])),
            "technique": c.get('technique', 'Lean 4 proof about a model tied to the source by regenerated guards and a differential correspondence run'),
        })
    else:
        m["not_applicable"].append({"property_id": p, "reason": props.NOT_YET.get(p, "check not integrated yet in this session; not claimed")})
json.dump(m, open(os.path.join(V, 'MANIFEST.json'), 'w'), indent=1)
print('checks:', [c['property_id'] for c in m['checks']])
